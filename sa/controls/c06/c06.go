// Package c06 holds positive controls for the C06 quote-per-part rule.
package c06

import "strings"

type Ident struct{ Table, Name string }

func quote(name string) string {
	for _, r := range name {
		if r == ' ' || r == '"' {
			return `"` + strings.ReplaceAll(name, `"`, `""`) + `"`
		}
	}
	return name
}

// joined quotes the dotted name as one piece: reported.
func (i *Ident) joined() string { return quote(i.Table + "." + i.Name) }

// perPart quotes each part: accepted.
func (i *Ident) perPart() string { return quote(i.Table) + "." + quote(i.Name) }
