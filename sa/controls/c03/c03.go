// Package c03 holds positive controls for the C03 prefilter-admits-keys rule.
package c03

func upper(s string) string {
	b := make([]byte, len(s))
	for i := 0; i < len(s); i++ {
		c := s[i]
		if c >= 'a' && c <= 'z' {
			c -= 32
		}
		b[i] = c
	}
	return string(b)
}

// tooNarrow rejects by length before a lookup that has a three-letter key: reported.
func tooNarrow(word string) int {
	n := len(word)
	if n < 4 || n > 9 {
		return 0
	}
	switch upper(word) {
	case "INSERT":
		return 1
	case "ANY":
		return 2
	case "RECURSIVE":
		return 3
	}
	return 0
}

// wideEnough admits every key: accepted.
func wideEnough(word string) int {
	if len(word) < 3 || len(word) > 9 {
		return 0
	}
	switch upper(word) {
	case "INSERT":
		return 1
	case "ANY":
		return 2
	case "RECURSIVE":
		return 3
	}
	return 0
}
