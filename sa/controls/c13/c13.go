// Package c13 is a positive control for the error-provenance rules.
package c13

import (
	"errors"
	"fmt"
	"strconv"

	"gosqlxsa/controls/c13/errs"
)

var ErrSentinel = errors.New("sentinel")

func inner(n int) error {
	if n > 3 {
		return errs.InvalidSyntaxError("too big")
	}
	return nil
}

func bareErrorf(n int) error { return fmt.Errorf("bad value %d", n) }
func plainNew() error        { return errors.New("plain") }
func sentinel() error        { return ErrSentinel }
func foreign(s string) error {
	_, err := strconv.Atoi(s)
	return err
}

func goodBuilder() error { return errs.InvalidSyntaxError("x").WithHint("h") }
func goodCallee() error  { return inner(5) }
func goodW(n int) error {
	if err := inner(n); err != nil {
		return fmt.Errorf("outer: %w", err)
	}
	return nil
}
func goodWithCause(n int) error {
	if err := inner(n); err != nil {
		return errs.InvalidSyntaxError(fmt.Sprintf("outer: %v", err)).WithCause(err)
	}
	return nil
}

// dropsChain folds the callee's error into text only.
func dropsChain(n int) error {
	if err := inner(n); err != nil {
		return errs.InvalidSyntaxError(fmt.Sprintf("outer: %v", err))
	}
	return nil
}
