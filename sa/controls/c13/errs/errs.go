// Package errs mimics pkg/errors for the C13 control.
package errs

type ErrorCode string

type Error struct {
	Code    ErrorCode
	Message string
	Cause   error
}

func (e *Error) Error() string               { return string(e.Code) + ": " + e.Message }
func (e *Error) Unwrap() error               { return e.Cause }
func (e *Error) WithCause(c error) *Error    { e.Cause = c; return e }
func (e *Error) WithHint(h string) *Error    { return e }
func NewError(c ErrorCode, m string) *Error  { return &Error{Code: c, Message: m} }
func InvalidSyntaxError(desc string) *Error  { return NewError("E2004", desc) }
func UnexpectedCharError(desc string) *Error { return NewError("E1001", desc) }
