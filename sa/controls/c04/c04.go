// Package c04 holds positive controls for the C04 decode-verbatim rule.
package c04

import (
	"bytes"
	"unicode/utf8"
)

func fold(r rune) rune {
	if r == '’' {
		return '\''
	}
	return r
}

// rewriting puts fold(c) into the value: reported.
func rewriting(in []byte) string {
	var buf bytes.Buffer
	for i := 0; i < len(in); {
		r, size := utf8.DecodeRune(in[i:])
		r = fold(r)
		if r == '\'' {
			break
		}
		buf.WriteRune(r)
		i += size
	}
	return buf.String()
}

// verbatim maps the rune only to compare it with the delimiter: accepted.
func verbatim(in []byte) string {
	var buf bytes.Buffer
	for i := 0; i < len(in); {
		r, size := utf8.DecodeRune(in[i:])
		if fold(r) == '\'' {
			break
		}
		buf.WriteRune(r)
		i += size
	}
	return buf.String()
}
