// Package c02 is a positive control for the recursion-guard rules.
package c02

import "errors"

const MaxRecursionDepth = 100

type Parser struct {
	depth int
	pos   int
}

var errDepth = errors.New("too deep")

// guarded is a correct depth guard: guarded -> inner -> guarded is a guarded cycle.
func (p *Parser) guarded() error {
	p.depth++
	defer func() { p.depth-- }()
	if p.depth > MaxRecursionDepth {
		return errDepth
	}
	return p.inner()
}

func (p *Parser) inner() error {
	if p.pos > 3 {
		return p.guarded()
	}
	return nil
}

// badGuard checks the limit only after it has already recursed.
func (p *Parser) badGuard() error {
	p.depth++
	defer func() { p.depth-- }()
	if p.pos > 0 {
		if err := p.badGuard(); err != nil {
			return err
		}
	}
	if p.depth > MaxRecursionDepth {
		return errDepth
	}
	return nil
}

// unguardedA/B recurse without touching the counter.
func (p *Parser) unguardedA() error {
	if p.pos > 1 {
		return p.unguardedB()
	}
	return nil
}

func (p *Parser) unguardedB() error {
	p.pos--
	return p.unguardedA()
}
