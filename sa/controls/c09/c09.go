// Package c09 is a positive control for the pool rules.
package c09

import "sync"

type Node struct {
	Name      string
	Items     []int
	Kept      []int
	Stale     *Node
	Cond      *Node
	ViaCallee int
	flag      bool
}

type Whole struct {
	A string
	B []int
}

type Other struct{ X int }

var nodePool = sync.Pool{New: func() interface{} { return &Node{} }}
var wholePool = sync.Pool{New: func() interface{} { return &Whole{} }}
var mixedPool = sync.Pool{New: func() interface{} { return &Node{} }}

func (n *Node) clearVia() { n.ViaCallee = 0 }

func GetNode() *Node {
	n := nodePool.Get().(*Node)
	n.Kept = n.Kept[:0]
	return n
}

// PutNode forgets Stale and clears Cond on one branch only.
func PutNode(n *Node) {
	if n == nil {
		return
	}
	n.Name = ""
	if cap(n.Items) > 0 {
		n.Items = n.Items[:0]
	}
	if n.flag {
		n.Cond = nil
	}
	n.flag = false
	n.clearVia()
	nodePool.Put(n)
}

func PutWhole(w *Whole) {
	*w = Whole{B: w.B[:0]}
	wholePool.Put(w)
}

func PutMixed(o *Other) { mixedPool.Put(o) }
func GetMixed() *Node   { return mixedPool.Get().(*Node) }

func useAfterPut(n *Node) string {
	PutNode(n)
	return n.Name
}

// memoised nodes: one shared node linked into every holder (reported) versus copied on every use (accepted).
type Holder struct{ Child *Node }

func cloneNode(n *Node) *Node { c := *n; return &c }

func sharedMemo() func(h *Holder) {
	once := sync.OnceValue(func() *Node { return GetNode() })
	return func(h *Holder) { h.Child = once() }
}

func copiedMemo() func(h *Holder) {
	once := sync.OnceValue(func() *Node { return GetNode() })
	return func(h *Holder) { h.Child = cloneNode(once()) }
}

// released-once: buildTree stores one Ref value in two slots; PutTreeTwice releases the node below through both.
type Ref struct{ Sub *Node }
type Pair struct{ Left, Right Ref }
type Tree struct {
	From  []Ref
	Joins []Pair
}

func buildTree(n, m *Node) *Tree {
	r := Ref{Sub: n}
	t := &Tree{From: []Ref{r}}
	t.Joins = append(t.Joins, Pair{Left: r, Right: Ref{Sub: m}})
	return t
}

func PutTreeTwice(t *Tree) {
	for i := range t.From {
		PutNode(t.From[i].Sub)
	}
	for i := range t.Joins {
		PutNode(t.Joins[i].Left.Sub)
		PutNode(t.Joins[i].Right.Sub)
	}
}

func PutTreeOnce(t *Tree) {
	for i := range t.From {
		PutNode(t.From[i].Sub)
	}
	for i := range t.Joins {
		PutNode(t.Joins[i].Right.Sub)
	}
}
