// Package c19 holds positive controls for C19 rules whose expected count on the repository is zero.
package c19

import (
	"os"
	"path/filepath"
	"strings"
)

// skipHiddenWrong returns SkipDir for any hidden entry, file or directory.
func skipHiddenWrong(root string) ([]string, error) {
	var out []string
	err := filepath.Walk(root, func(path string, info os.FileInfo, err error) error {
		if err != nil {
			return err
		}
		if strings.HasPrefix(info.Name(), ".") {
			return filepath.SkipDir
		}
		out = append(out, path)
		return nil
	})
	return out, err
}

// skipHiddenRight returns SkipDir for hidden directories only.
func skipHiddenRight(root string) ([]string, error) {
	var out []string
	err := filepath.Walk(root, func(path string, info os.FileInfo, err error) error {
		if err != nil {
			return err
		}
		if strings.HasPrefix(info.Name(), ".") {
			if info.IsDir() {
				return filepath.SkipDir
			}
			return nil
		}
		out = append(out, path)
		return nil
	})
	return out, err
}
