// Package c14 is a positive control for the C14 rules: a miniature ast package
// whose Children() methods contain exactly the mistakes the rules must report
// (and correct methods on which they must stay silent).
package c14

type Node interface {
	TokenLiteral() string
	Children() []Node
}

type Expression interface {
	Node
	expressionNode()
}

type Leaf struct{ Name string }

func (l *Leaf) expressionNode()     {}
func (l Leaf) TokenLiteral() string { return l.Name }
func (l Leaf) Children() []Node     { return nil }

// GoodAll returns everything, with the repository's idioms.
type GoodAll struct {
	A     Expression
	Items []Expression
	P     *Leaf
	Els   []Leaf
}

func (g GoodAll) TokenLiteral() string { return "g" }
func (g GoodAll) Children() []Node {
	children := []Node{g.A}
	children = append(children, nodify(g.Items)...)
	if g.P != nil {
		children = append(children, g.P)
	}
	for _, e := range g.Els {
		e := e
		children = append(children, &e)
	}
	return children
}

func nodify(xs []Expression) []Node {
	out := make([]Node, len(xs))
	for i, x := range xs {
		out[i] = x
	}
	return out
}

// Dropped forgets B.
type Dropped struct {
	A Expression
	B Expression
}

func (d Dropped) TokenLiteral() string { return "d" }
func (d Dropped) Children() []Node     { return []Node{d.A} }

// Conditional returns B only when an unrelated flag is set.
type Conditional struct {
	A    Expression
	B    Expression
	Flag bool
}

func (d Conditional) TokenLiteral() string { return "c" }
func (d Conditional) Children() []Node {
	children := []Node{d.A}
	if d.Flag && d.B != nil {
		children = append(children, d.B)
	}
	return children
}

// Shadow reads Items (for its length) but never returns its elements.
type Shadow struct {
	Items []Expression
}

func (s Shadow) TokenLiteral() string { return "s" }
func (s Shadow) Children() []Node {
	out := make([]Node, 0, len(s.Items))
	return out
}

type Visitor interface {
	Visit(n Node) (Visitor, error)
}

// Walk skips the first child.
func Walk(v Visitor, node Node) error {
	if node == nil {
		return nil
	}
	w, err := v.Visit(node)
	if err != nil {
		return err
	}
	if w == nil {
		return nil
	}
	for i, child := range node.Children() {
		if i == 0 {
			continue
		}
		if err := Walk(w, child); err != nil {
			return err
		}
	}
	return nil
}
