// Package c20 holds positive controls for the C20 rules: code that must be reported (and code that must not) on every run.
package c20

import (
	"bytes"
	"strings"
)

type Scanner struct {
	input      []byte
	lineStarts []int
	memo       int
	memoCol    int
}

// locate rescans the input from the start on every call.
func (s *Scanner) locate(off int) int {
	col := 1
	for i := 0; i < off && i < len(s.input); i++ {
		if s.input[i] == '\n' {
			col = 1
		} else {
			col++
		}
	}
	return col
}

// locateResumed starts where the previous call stopped and writes the end back on every path.
func (s *Scanner) locateResumed(off int) int {
	col := 1
	i := 0
	if s.memoCol > 0 && s.memo <= off {
		i, col = s.memo, s.memoCol
	}
	for ; i < off && i < len(s.input); i++ {
		col++
	}
	s.memo, s.memoCol = i, col
	return col
}

// locateForgetful reads the memo but leaves through a return that does not write it back.
func (s *Scanner) locateForgetful(off int) int {
	col := 1
	i := 0
	if s.memoCol > 0 && s.memo <= off {
		i, col = s.memo, s.memoCol
	}
	for ; i < off && i < len(s.input); i++ {
		if s.input[i] == '\t' {
			return col
		}
		col++
	}
	s.memo, s.memoCol = i, col
	return col
}

// rewind drops the memo; All calls it once per byte.
func (s *Scanner) rewind() { s.memoCol = 0 }

// Reset drops the memo between inputs.
func (s *Scanner) Reset(in []byte) { s.input, s.memo, s.memoCol = in, 0, 0 }

// All calls the three once per byte.
func (s *Scanner) All() int {
	t := 0
	for i := 0; i < len(s.input); i++ {
		t += s.locate(i) + s.locateResumed(i) + s.locateForgetful(i)
		if s.input[i] == ' ' {
			s.rewind()
		}
	}
	return t
}

func joinParts(parts []string) string {
	s := ""
	for _, p := range parts {
		s += "." + p
	}
	return s
}

func joinBuilder(parts []string) string {
	var sb strings.Builder
	for _, p := range parts {
		sb.WriteString(".")
		sb.WriteString(p)
	}
	return sb.String()
}

type Position struct{ Index int }

func (p *Position) AdvanceN(n int) { p.Index += n }

var errNoQuote = errNew("no closing quote")

type strErr string

func (e strErr) Error() string { return string(e) }
func errNew(s string) error    { return strErr(s) }

// peekQuote searches the rest of the input and may return without having moved the cursor.
func (s *Scanner) peekQuote(pos *Position) bool {
	end := bytes.IndexByte(s.input[pos.Index:], '\'')
	if end < 0 {
		return false
	}
	pos.AdvanceN(end)
	return true
}

// skipToQuote moves to what it found, or fails.
func (s *Scanner) skipToQuote(pos *Position) error {
	end := bytes.IndexByte(s.input[pos.Index:], '\'')
	if end < 0 {
		return errNoQuote
	}
	pos.AdvanceN(end)
	return nil
}

// Tok stands for a token; the two functions below are the positive and negative control of slice-rescan-in-loop.
type Tok struct{ Start, Width int }

// startOf walks the token list from the beginning on every call.
func startOf(tokens []Tok, idx int) int {
	n := 0
	for _, t := range tokens {
		n += t.Width
		if n > idx {
			return t.Start
		}
	}
	return -1
}

// StartsRescanned calls startOf once per requested index: len(idxs) * len(tokens).
func StartsRescanned(tokens []Tok, idxs []int) []int {
	var out []int
	for _, i := range idxs {
		out = append(out, startOf(tokens, i))
	}
	return out
}

// StartOnce calls it once, on the way out of its loop.
func StartOnce(tokens []Tok, idxs []int) int {
	for _, i := range idxs {
		if i > 0 {
			return startOf(tokens, i)
		}
	}
	return -1
}
