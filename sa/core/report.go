package core

import (
	"encoding/json"
	"fmt"
	"os"
	"path/filepath"
	"sort"
	"strings"
	"time"
)

// Status of an obligation.
type Status string

const (
	Discharged Status = "discharged"
	Violated   Status = "violated"
	Undecided  Status = "undecided"
)

// Ob is one obligation: a rule applied to one construct of the source tree.
// Key identifies the construct (never a line number), Pos is for the reader.
type Ob struct {
	Rule   string `json:"rule"`
	Key    string `json:"key"`
	Pos    string `json:"pos,omitempty"`
	Status Status `json:"status"`
	Detail string `json:"detail,omitempty"`
	Config string `json:"config,omitempty"`
}

// FullKey is rule|key, the identity used by the known-findings file.
func (o Ob) FullKey() string { return o.Rule + "|" + o.Key }

// Finding is one entry of /verif/known_findings.json.
type Finding struct {
	Property string `json:"property"`
	Key      string `json:"key"`
	What     string `json:"what"`
}

// Fixed is one repaired defect; it suppresses nothing.
type Fixed struct {
	Property string `json:"property"`
	Commit   string `json:"commit"`
	Key      string `json:"key,omitempty"`
	What     string `json:"what"`
	Line     string `json:"line"`
}

// KnownFile is the committed known-findings file.
type KnownFile struct {
	Findings []Finding `json:"findings"`
	Fixed    []Fixed   `json:"fixed"`
}

// Report collects obligations for one property run.
type Report struct {
	Prop    string
	Tier    string
	Seed    int
	OutDir  string
	Known   map[string]Finding
	start   time.Time
	obs     []Ob
	seen    map[string]int
	rules   map[string]string // rule id -> text
	order   []string
	counts  map[string]int
	floors  []floor
	notes   []string
	assume  []string
	extra   map[string]interface{}
	config  string
	fatal   []string
	ctrl    []string
	NotCov  []string
	Summary string
}

type floor struct {
	rule string
	got  int
	min  int
	what string
}

// NewReport prepares a report and reads the known-findings file.
func NewReport(prop, tier string, seed int, outDir, knownPath string) (*Report, error) {
	r := &Report{Prop: prop, Tier: tier, Seed: seed, OutDir: outDir, Known: map[string]Finding{},
		start: time.Now(), seen: map[string]int{}, rules: map[string]string{}, counts: map[string]int{}, extra: map[string]interface{}{}}
	b, err := os.ReadFile(knownPath)
	if err != nil {
		return nil, err
	}
	var kf KnownFile
	if err := json.Unmarshal(b, &kf); err != nil {
		return nil, fmt.Errorf("%s: %w", knownPath, err)
	}
	for _, f := range kf.Findings {
		if f.Property == prop {
			r.Known[f.Key] = f
		}
	}
	return r, nil
}

// SetConfig labels subsequent obligations with a build configuration.
func (r *Report) SetConfig(c string) { r.config = c }

// Rule declares a rule and its text (shown in the evidence).
func (r *Report) Rule(id, text string) {
	if _, ok := r.rules[id]; !ok {
		r.order = append(r.order, id)
	}
	r.rules[id] = text
}

func (r *Report) add(rule, key, pos string, st Status, detail string) {
	fk := rule + "|" + key
	if i, ok := r.seen[fk]; ok {
		// same construct seen again (another configuration or path): keep the worst
		if rank(st) > rank(r.obs[i].Status) {
			r.obs[i].Status, r.obs[i].Detail, r.obs[i].Pos, r.obs[i].Config = st, detail, pos, r.config
		}
		return
	}
	r.seen[fk] = len(r.obs)
	r.obs = append(r.obs, Ob{Rule: rule, Key: key, Pos: pos, Status: st, Detail: detail, Config: r.config})
	r.counts[rule]++
}

func rank(s Status) int {
	switch s {
	case Violated:
		return 2
	case Undecided:
		return 1
	}
	return 0
}

// OK records a discharged obligation.
func (r *Report) OK(rule, key, pos, detail string) { r.add(rule, key, pos, Discharged, detail) }

// Violate records a violated obligation.
func (r *Report) Violate(rule, key, pos, detail string) { r.add(rule, key, pos, Violated, detail) }

// Undecide records an obligation the rule could not decide (counts as failure).
func (r *Report) Undecide(rule, key, pos, detail string) { r.add(rule, key, pos, Undecided, detail) }

// Floor fails the run when a rule matched fewer instances than confirmed by hand.
func (r *Report) Floor(rule string, got, min int, what string) {
	r.floors = append(r.floors, floor{rule, got, min, what})
}

// Fatal records an analysis failure (unresolved anchor, panic, load error).
func (r *Report) Fatal(format string, a ...interface{}) {
	r.fatal = append(r.fatal, fmt.Sprintf(format, a...))
}

// Control records that a positive control fired (or not).
func (r *Report) Control(rule string, fired bool, what string) {
	if fired {
		r.ctrl = append(r.ctrl, rule+": fired on "+what)
	} else {
		r.Fatal("positive control for rule %s did not fire (%s): the rule is blind", rule, what)
	}
}

// Note adds free text to the evidence.
func (r *Report) Note(format string, a ...interface{}) {
	r.notes = append(r.notes, fmt.Sprintf(format, a...))
}

// Assume records an assumption.
func (r *Report) Assume(s string) { r.assume = append(r.assume, s) }

// Extra stores a measured quantity in the evidence coverage.
func (r *Report) Extra(k string, v interface{}) { r.extra[k] = v }

// Count returns the number of obligations recorded for a rule.
func (r *Report) Count(rule string) int { return r.counts[rule] }

// Finish prints the verdict lines, writes evidence and replay files and
// returns the process exit code.
func (r *Report) Finish() int {
	sort.SliceStable(r.obs, func(i, j int) bool {
		if r.obs[i].Rule != r.obs[j].Rule {
			return r.obs[i].Rule < r.obs[j].Rule
		}
		return r.obs[i].Key < r.obs[j].Key
	})
	var viol, known []Ob
	discharged := 0
	for _, o := range r.obs {
		switch o.Status {
		case Discharged:
			discharged++
		default:
			if _, ok := r.Known[o.FullKey()]; ok && o.Status == Violated {
				known = append(known, o)
			} else {
				viol = append(viol, o)
			}
		}
	}
	// developer aid: dump every obligation key with its verdict (used to compare runs for determinism)
	if dir := os.Getenv("GOSQLX_SA_KEYS"); dir != "" {
		var sb strings.Builder
		for _, o := range r.obs {
			fmt.Fprintf(&sb, "%s\t%v\n", o.FullKey(), o.Status)
		}
		_ = os.MkdirAll(dir, 0o755)
		_ = os.WriteFile(filepath.Join(dir, r.Prop+".keys"), []byte(sb.String()), 0o644)
	}
	for _, f := range r.floors {
		if f.got < f.min {
			r.Fatal("rule %s analysed %d %s, fewer than the %d confirmed by hand: anchors moved or the rule went blind", f.rule, f.got, f.what, f.min)
		}
	}
	for _, o := range known {
		fmt.Printf("KNOWN-FINDING: property=%s %s [%s] at %s: %s\n", r.Prop, r.Known[o.FullKey()].What, o.FullKey(), o.Pos, o.Detail)
	}
	replayDir := filepath.Join(r.OutDir, "replay")
	_ = os.MkdirAll(replayDir, 0o755)
	// remove stale replay files of this property
	if old, _ := filepath.Glob(filepath.Join(replayDir, r.Prop+"-*.json")); old != nil {
		for _, f := range old {
			_ = os.Remove(f)
		}
	}
	n := 0
	for _, o := range viol {
		n++
		path := filepath.Join(replayDir, fmt.Sprintf("%s-%d.json", r.Prop, n))
		b, _ := json.MarshalIndent(map[string]interface{}{"property": r.Prop, "obligation": o, "rule_text": r.rules[o.Rule],
			"how_to_replay": fmt.Sprintf("/verif/check.sh %s %s   # re-analyses /repo and reports this construct again while it is present", r.Prop, r.Tier)}, "", " ")
		_ = os.WriteFile(path, b, 0o644)
		fmt.Printf("%s: rule=%s construct=%s at %s: %s\n", strings.ToUpper(string(o.Status)), o.Rule, o.Key, o.Pos, o.Detail)
		fmt.Printf("VIOLATION property=%s replay=%s\n", r.Prop, path)
	}
	for _, m := range r.fatal {
		n++
		path := filepath.Join(replayDir, fmt.Sprintf("%s-%d.json", r.Prop, n))
		b, _ := json.MarshalIndent(map[string]interface{}{"property": r.Prop, "analysis_failure": m}, "", " ")
		_ = os.WriteFile(path, b, 0o644)
		fmt.Printf("ANALYSIS-FAILURE: %s\n", m)
		fmt.Printf("VIOLATION property=%s replay=%s\n", r.Prop, path)
	}
	// evidence
	var expl []string
	perRule := map[string]map[string]int{}
	for _, id := range r.order {
		expl = append(expl, id+": "+r.rules[id])
		perRule[id] = map[string]int{}
	}
	for _, o := range r.obs {
		if perRule[o.Rule] == nil {
			perRule[o.Rule] = map[string]int{}
		}
		perRule[o.Rule][string(o.Status)]++
	}
	var samples []Ob
	took := map[string]int{}
	for _, o := range r.obs {
		lim := 4
		if o.Status != Discharged {
			lim = 400
		}
		k := o.Rule + string(o.Status)
		if took[k] < lim {
			took[k]++
			samples = append(samples, o)
		}
	}
	distinct := len(r.obs)
	cov := map[string]interface{}{
		"explanation":         r.Summary + " Rules: " + strings.Join(expl, " || "),
		"obligations":         len(r.obs),
		"discharged":          discharged,
		"evaluations":         len(r.obs),
		"distinct_nontrivial": distinct,
		"rule":                "one obligation per (rule, construct) pair found in the type-checked source of /repo; distinct by key rule|construct; every obligation is a real site of the mechanism, none is generated",
		"samples":             samples,
		"per_rule":            perRule,
		"known_findings":      len(known),
		"positive_controls":   r.ctrl,
		"instance_floors":     floorsJSON(r.floors),
		"not_covered":         r.NotCov,
		"notes":               r.notes,
		"checker_cmd":         fmt.Sprintf("/verif/check.sh %s %s", r.Prop, r.Tier),
		"trusted_base":        []string{"go/types", "golang.org/x/tools/go/ssa v0.29.0", "callgraph/vta seeded with CHA", "the rule implementations under /verif/sa/rules (validated by positive controls and seeded mutants)"},
		"exhaustive":          true,
	}
	for k, v := range r.extra {
		cov[k] = v
	}
	if len(samples) == 0 {
		cov["samples"] = []string{"(no obligations)"}
	}
	ev := map[string]interface{}{
		"property_id": r.Prop,
		"tier":        r.Tier,
		"seed":        r.Seed,
		"level":       "other",
		"coverage":    cov,
		"assumptions": append([]string{"static analysis of the working tree of /repo; no GoSQLX code is executed"}, r.assume...),
		"wall_s":      time.Since(r.start).Seconds(),
		"violations":  len(viol) + len(r.fatal),
	}
	b, _ := json.MarshalIndent(ev, "", " ")
	if err := os.WriteFile(filepath.Join(r.OutDir, r.Prop+".json"), b, 0o644); err != nil {
		fmt.Printf("ANALYSIS-FAILURE: cannot write evidence: %v\n", err)
		return 1
	}
	fmt.Printf("%s %s: %d obligations, %d discharged, %d known findings, %d violations, %d analysis failures (%.1fs)\n",
		r.Prop, r.Tier, len(r.obs), discharged, len(known), len(viol), len(r.fatal), time.Since(r.start).Seconds())
	if len(viol)+len(r.fatal) > 0 {
		return 1
	}
	return 0
}

func floorsJSON(fs []floor) []map[string]interface{} {
	var out []map[string]interface{}
	for _, f := range fs {
		out = append(out, map[string]interface{}{"rule": f.rule, "analysed": f.got, "floor": f.min, "what": f.what})
	}
	return out
}
