// Package core holds what every rule shares: loading the type-checked program
// of /repo, its SSA form and call graph, and the obligation/evidence report.
package core

import (
	"fmt"
	"go/ast"
	"go/token"
	"go/types"
	"os"
	"path/filepath"
	"sort"
	"strings"

	"golang.org/x/tools/go/callgraph"
	"golang.org/x/tools/go/callgraph/cha"
	"golang.org/x/tools/go/callgraph/vta"
	"golang.org/x/tools/go/packages"
	"golang.org/x/tools/go/ssa"
	"golang.org/x/tools/go/ssa/ssautil"
)

// Mod is the module path of the repository under analysis.
const Mod = "github.com/ajitpratap0/GoSQLX"

// Prog is one loaded configuration of a source tree.
type Prog struct {
	Root   string // directory the tree was loaded from
	Config string // human description of the build configuration
	Pkgs   []*packages.Package
	ByPath map[string]*packages.Package
	Fset   *token.FileSet
	SSA    *ssa.Program
	cg     *callgraph.Graph
	all    map[*ssa.Function]bool
	// enclosing function declaration of every ast node position is derived on demand
	fileOf map[*token.File]*ast.File
}

// LoadOpts selects the build configuration.
type LoadOpts struct {
	Dir      string
	Patterns []string
	Tags     string
	Env      []string // extra GOOS=… GOARCH=…
	MinPkgs  int
	NeedDeps bool // full syntax + SSA bodies for dependencies (whole-program call graph)
}

// Load type-checks the tree and builds SSA. Any load or type error is fatal: no
// verdict is ever produced from a partial program.
func Load(o LoadOpts) (*Prog, error) {
	mode := packages.LoadAllSyntax
	if !o.NeedDeps {
		mode = packages.LoadSyntax | packages.NeedDeps | packages.NeedImports
	}
	env := append(os.Environ(), "GOFLAGS=-mod=mod", "GOPROXY=off", "GOSUMDB=off", "GOTOOLCHAIN=local", "GOWORK=off")
	env = append(env, o.Env...)
	cfg := &packages.Config{Mode: mode, Dir: o.Dir, Tests: false, Env: env}
	if o.Tags != "" {
		cfg.BuildFlags = []string{"-tags=" + o.Tags}
	}
	if len(o.Patterns) == 0 {
		o.Patterns = []string{"./..."}
	}
	pkgs, err := packages.Load(cfg, o.Patterns...)
	if err != nil {
		return nil, fmt.Errorf("packages.Load: %w", err)
	}
	nerr := 0
	var first string
	packages.Visit(pkgs, nil, func(p *packages.Package) {
		for _, e := range p.Errors {
			if first == "" {
				first = e.Error()
			}
			nerr++
		}
	})
	if nerr > 0 {
		return nil, fmt.Errorf("%d load/type errors, first: %s", nerr, first)
	}
	if len(pkgs) < o.MinPkgs {
		return nil, fmt.Errorf("only %d packages loaded from %s (expected at least %d)", len(pkgs), o.Dir, o.MinPkgs)
	}
	p := &Prog{Root: o.Dir, Pkgs: pkgs, ByPath: map[string]*packages.Package{}, fileOf: map[*token.File]*ast.File{}}
	p.Config = "tags=" + o.Tags + " " + strings.Join(o.Env, " ")
	for _, pk := range pkgs {
		p.ByPath[pk.PkgPath] = pk
		p.Fset = pk.Fset
	}
	var prog *ssa.Program
	if o.NeedDeps {
		prog, _ = ssautil.AllPackages(pkgs, ssa.InstantiateGenerics)
	} else {
		prog, _ = ssautil.Packages(pkgs, ssa.InstantiateGenerics)
	}
	prog.Build()
	p.SSA = prog
	return p, nil
}

// Pkg returns the package with the given import path below the module root
// ("pkg/sql/parser"), or nil.
func (p *Prog) Pkg(rel string) *packages.Package {
	if pk := p.ByPath[Mod+"/"+rel]; pk != nil {
		return pk
	}
	return p.ByPath[rel]
}

// SSAPkg returns the SSA package for a packages.Package.
func (p *Prog) SSAPkg(pk *packages.Package) *ssa.Package {
	if pk == nil {
		return nil
	}
	return p.SSA.Package(pk.Types)
}

// AllFunctions is every function of the program, including closures and wrappers.
func (p *Prog) AllFunctions() map[*ssa.Function]bool {
	if p.all == nil {
		p.all = ssautil.AllFunctions(p.SSA)
	}
	return p.all
}

// CallGraph returns the VTA call graph seeded with CHA.
func (p *Prog) CallGraph() *callgraph.Graph {
	if p.cg == nil {
		p.cg = vta.CallGraph(p.AllFunctions(), cha.CallGraph(p.SSA))
		onceContext(p.cg)
	}
	return p.cg
}

// onceContext makes (*sync.Once).Do context-sensitive in the call graph. VTA resolves the `f()` inside doSlow to every
// function that is passed to any Once in the program, so one closure that reaches the parser (say) makes every caller
// of every Once.Do - including fmt -> time.Location.get - appear to reach the parser. The call of f is attributed to
// the caller of Do instead: to the function it passes when that is a function constant or a closure made at the call
// site, and to everything VTA found otherwise.
func onceContext(cg *callgraph.Graph) {
	var do, slow *callgraph.Node
	for fn, n := range cg.Nodes {
		if fn == nil || fn.Pkg == nil || fn.Pkg.Pkg.Path() != "sync" || fn.Signature.Recv() == nil {
			continue
		}
		if named := NamedOf(Deref(fn.Signature.Recv().Type())); named == nil || named.Obj().Name() != "Once" {
			continue
		}
		switch fn.Name() {
		case "Do":
			do = n
		case "doSlow":
			slow = n
		}
	}
	if do == nil {
		return
	}
	// the dynamic calls of the parameter f inside Do / doSlow
	var all []*callgraph.Node
	seen := map[*callgraph.Node]bool{}
	for _, n := range []*callgraph.Node{do, slow} {
		if n == nil {
			continue
		}
		var keep []*callgraph.Edge
		for _, e := range n.Out {
			if e.Site != nil && e.Site.Common().StaticCallee() == nil && !e.Site.Common().IsInvoke() {
				if !seen[e.Callee] {
					seen[e.Callee] = true
					all = append(all, e.Callee)
				}
				// unlink from the callee's In list
				var in []*callgraph.Edge
				for _, ie := range e.Callee.In {
					if ie != e {
						in = append(in, ie)
					}
				}
				e.Callee.In = in
				continue
			}
			keep = append(keep, e)
		}
		n.Out = keep
	}
	sort.Slice(all, func(i, j int) bool { return all[i].ID < all[j].ID })
	for _, e := range append([]*callgraph.Edge{}, do.In...) {
		if e.Site == nil || len(e.Site.Common().Args) < 2 {
			continue
		}
		var targets []*callgraph.Node
		switch f := e.Site.Common().Args[1].(type) {
		case *ssa.Function:
			if n := cg.Nodes[f]; n != nil {
				targets = []*callgraph.Node{n}
			}
		case *ssa.MakeClosure:
			if fn, ok := f.Fn.(*ssa.Function); ok {
				if n := cg.Nodes[fn]; n != nil {
					targets = []*callgraph.Node{n}
				}
			}
		}
		if targets == nil {
			targets = all
		}
		for _, t := range targets {
			callgraph.AddEdge(e.Caller, e.Site, t)
		}
	}
}

// InModule reports whether fn is defined in a package of the analysed module
// (or in a positive-control package, which stands in for it).
func InModule(fn *ssa.Function) bool {
	pk := FnPkg(fn)
	return pk != nil && (pk.Path() == Mod || strings.HasPrefix(pk.Path(), Mod+"/") || strings.HasPrefix(pk.Path(), "gosqlxsa/controls/"))
}

// FnPkg is the types.Package a function (or its outermost parent) belongs to.
func FnPkg(fn *ssa.Function) *types.Package {
	for fn != nil {
		if fn.Pkg != nil {
			return fn.Pkg.Pkg
		}
		if fn.Parent() != nil {
			fn = fn.Parent()
			continue
		}
		if o := fn.Object(); o != nil {
			return o.Pkg()
		}
		if fn.Origin() != nil && fn.Origin() != fn {
			fn = fn.Origin()
			continue
		}
		return nil
	}
	return nil
}

// InPkgs reports whether fn belongs to one of the packages (relative paths).
func InPkgs(fn *ssa.Function, rels ...string) bool {
	pk := FnPkg(fn)
	if pk == nil {
		return false
	}
	for _, r := range rels {
		if pk.Path() == Mod+"/"+r || pk.Path() == r {
			return true
		}
	}
	return false
}

// FnName is a stable readable name: parser.(*Parser).parseExpression, with $n for closures.
func FnName(fn *ssa.Function) string {
	if fn == nil {
		return "<nil>"
	}
	s := fn.RelString(nil)
	s = strings.ReplaceAll(s, Mod+"/", "")
	// shorten package path to its last element
	if i := strings.LastIndex(s, "/"); i >= 0 {
		// keep any leading "(*" prefix
		j := strings.LastIndexAny(s[:i], "(*")
		s = s[:j+1] + s[i+1:]
	}
	return s
}

// Pos renders a position relative to the tree root.
func (p *Prog) Pos(pos token.Pos) string {
	if !pos.IsValid() {
		return "-"
	}
	ps := p.Fset.Position(pos)
	rel, err := filepath.Rel(p.Root, ps.Filename)
	if err != nil || strings.HasPrefix(rel, "..") {
		rel = ps.Filename
	}
	return fmt.Sprintf("%s:%d", rel, ps.Line)
}

// FnPos is the declaration position of a function.
func (p *Prog) FnPos(fn *ssa.Function) string {
	if fn == nil {
		return "-"
	}
	return p.Pos(fn.Pos())
}

// SrcFuncs returns every source-level function (methods, functions, closures)
// whose package is one of rels, sorted by name.
func (p *Prog) SrcFuncs(rels ...string) []*ssa.Function {
	var out []*ssa.Function
	for fn := range p.AllFunctions() {
		if fn.Synthetic != "" || fn.Blocks == nil {
			continue
		}
		if InPkgs(fn, rels...) {
			out = append(out, fn)
		}
	}
	sort.Slice(out, func(i, j int) bool {
		a, b := FnName(out[i]), FnName(out[j])
		if a != b {
			return a < b
		}
		return out[i].Pos() < out[j].Pos()
	})
	return out
}

// ModuleFuncs returns every source-level function of the module.
func (p *Prog) ModuleFuncs() []*ssa.Function {
	var out []*ssa.Function
	for fn := range p.AllFunctions() {
		if fn.Synthetic != "" || fn.Blocks == nil || !InModule(fn) {
			continue
		}
		out = append(out, fn)
	}
	sort.Slice(out, func(i, j int) bool {
		a, b := FnName(out[i]), FnName(out[j])
		if a != b {
			return a < b
		}
		return out[i].Pos() < out[j].Pos()
	})
	return out
}

// Method finds the SSA function for method name of named type tname in package rel.
func (p *Prog) Method(rel, tname, name string) *ssa.Function {
	pk := p.Pkg(rel)
	if pk == nil {
		return nil
	}
	obj := pk.Types.Scope().Lookup(tname)
	if obj == nil {
		return nil
	}
	for _, t := range []types.Type{obj.Type(), types.NewPointer(obj.Type())} {
		ms := p.SSA.MethodSets.MethodSet(t)
		for i := 0; i < ms.Len(); i++ {
			if ms.At(i).Obj().Name() == name {
				if f := p.SSA.MethodValue(ms.At(i)); f != nil && f.Synthetic == "" {
					return f
				}
			}
		}
	}
	// the same code written as a plain function taking the object as its first parameter
	// (method <-> function is a pure refactoring; the anchor is the name within the package)
	if sp := p.SSAPkg(pk); sp != nil {
		if f := sp.Func(name); f != nil && len(f.Params) > 0 && f.Signature.Recv() == nil {
			if n := NamedOf(f.Params[0].Type()); n != nil && n.Obj() == obj {
				return f
			}
			// a helper that never used its receiver may have lost the parameter altogether
			return f
		}
	}
	return nil
}

// Func finds a package-level function.
func (p *Prog) Func(rel, name string) *ssa.Function {
	sp := p.SSAPkg(p.Pkg(rel))
	if sp == nil {
		return nil
	}
	return sp.Func(name)
}

// FileFor returns the syntax file containing pos.
func (p *Prog) FileFor(pos token.Pos) (*packages.Package, *ast.File) {
	tf := p.Fset.File(pos)
	if tf == nil {
		return nil, nil
	}
	for _, pk := range p.Pkgs {
		for _, f := range pk.Syntax {
			if p.Fset.File(f.Pos()) == tf {
				return pk, f
			}
		}
	}
	return nil, nil
}

// Callees of a call instruction according to the call graph (or the static callee).
func (p *Prog) Callees(site ssa.CallInstruction) []*ssa.Function {
	if f := site.Common().StaticCallee(); f != nil {
		if f.Name() == "Do" && f.Pkg != nil && f.Pkg.Pkg.Path() == "sync" {
			// (*sync.Once).Do: the function passed here is called too (see onceContext)
			out := []*ssa.Function{f}
			if n := p.CallGraph().Nodes[site.Parent()]; n != nil {
				for _, e := range n.Out {
					if e.Site == site && e.Callee.Func != nil && e.Callee.Func != f {
						out = append(out, e.Callee.Func)
					}
				}
			}
			return out
		}
		return []*ssa.Function{f}
	}
	n := p.CallGraph().Nodes[site.Parent()]
	if n == nil {
		return nil
	}
	var out []*ssa.Function
	for _, e := range n.Out {
		if e.Site == site && e.Callee.Func != nil {
			out = append(out, e.Callee.Func)
		}
	}
	return out
}

// Reachable computes the set of functions reachable from roots in the call graph,
// optionally restricted by keep.
func (p *Prog) Reachable(roots []*ssa.Function, keep func(*ssa.Function) bool) map[*ssa.Function]bool {
	cg := p.CallGraph()
	seen := map[*ssa.Function]bool{}
	var work []*ssa.Function
	for _, r := range roots {
		if r != nil && !seen[r] {
			seen[r] = true
			work = append(work, r)
		}
	}
	for len(work) > 0 {
		f := work[len(work)-1]
		work = work[:len(work)-1]
		n := cg.Nodes[f]
		if n == nil {
			continue
		}
		for _, e := range n.Out {
			c := e.Callee.Func
			if c == nil || seen[c] {
				continue
			}
			if keep != nil && !keep(c) {
				continue
			}
			seen[c] = true
			work = append(work, c)
		}
		// closures defined in f are considered reachable with f
		for _, an := range f.AnonFuncs {
			if !seen[an] && (keep == nil || keep(an)) {
				seen[an] = true
				work = append(work, an)
			}
		}
	}
	return seen
}
