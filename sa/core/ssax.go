package core

import (
	"go/constant"
	"go/token"
	"go/types"
	"strings"

	"golang.org/x/tools/go/ssa"
)

// Base strips address arithmetic (FieldAddr, IndexAddr, Slice) and
// single-operand conversions from v and returns the underlying object value.
func Base(v ssa.Value) ssa.Value {
	for {
		switch x := v.(type) {
		case *ssa.FieldAddr:
			v = x.X
		case *ssa.IndexAddr:
			v = x.X
		case *ssa.Slice:
			v = x.X
		case *ssa.ChangeType:
			v = x.X
		case *ssa.Convert:
			v = x.X
		default:
			return v
		}
	}
}

// IsNilConst reports whether v is the constant nil.
func IsNilConst(v ssa.Value) bool {
	c, ok := v.(*ssa.Const)
	return ok && c.Value == nil
}

// ConstInt returns the integer value of a constant.
func ConstInt(v ssa.Value) (int64, bool) {
	c, ok := v.(*ssa.Const)
	if !ok || c.Value == nil || c.Value.Kind() != constant.Int {
		return 0, false
	}
	n, ok := constant.Int64Val(c.Value)
	return n, ok
}

// ConstString returns the string value of a constant.
func ConstString(v ssa.Value) (string, bool) {
	c, ok := v.(*ssa.Const)
	if !ok || c.Value == nil || c.Value.Kind() != constant.String {
		return "", false
	}
	return constant.StringVal(c.Value), true
}

// Deref returns the element type of a pointer type (or t itself).
func Deref(t types.Type) types.Type {
	if p, ok := t.Underlying().(*types.Pointer); ok {
		return p.Elem()
	}
	return t
}

// NamedOf returns the named type behind t (through one pointer), or nil.
func NamedOf(t types.Type) *types.Named {
	t = Deref(t)
	if n, ok := t.(*types.Named); ok {
		return n
	}
	if a, ok := t.(*types.Alias); ok {
		if n, ok := types.Unalias(a).(*types.Named); ok {
			return n
		}
	}
	return nil
}

// StructOf returns the struct type behind t (through pointer and name), or nil.
func StructOf(t types.Type) *types.Struct {
	s, _ := Deref(t).Underlying().(*types.Struct)
	return s
}

// FieldName returns the name of field i of the struct behind t.
func FieldName(t types.Type, i int) string {
	if s := StructOf(t); s != nil && i < s.NumFields() {
		return s.Field(i).Name()
	}
	return "?"
}

// PathResolver maps SSA values of one function to access paths rooted at a
// chosen value (normally the receiver): "" for the root itself, "With",
// "Action.Where", "From[]". Paths are syntactic; a value has a path only if
// it is computed from the root by field selection, indexing and loads.
type PathResolver struct {
	Fn    *ssa.Function
	Root  ssa.Value
	spill map[*ssa.Alloc]bool // allocs that hold a copy of the root
	memo  map[ssa.Value]*string
}

// NewPathResolver prepares a resolver for fn rooted at root. Allocs that
// are initialised only by a whole-value store of the root (the spill go/ssa
// makes for value receivers) count as the root.
func NewPathResolver(fn *ssa.Function, root ssa.Value) *PathResolver {
	r := &PathResolver{Fn: fn, Root: root, spill: map[*ssa.Alloc]bool{}, memo: map[ssa.Value]*string{}}
	stores := map[*ssa.Alloc][]ssa.Value{}
	for _, b := range fn.Blocks {
		for _, in := range b.Instrs {
			if st, ok := in.(*ssa.Store); ok {
				if a, ok := st.Addr.(*ssa.Alloc); ok {
					stores[a] = append(stores[a], st.Val)
				}
			}
		}
	}
	for a, vs := range stores {
		if len(vs) == 1 && vs[0] == root {
			r.spill[a] = true
		}
	}
	return r
}

// Path returns the access path of v and whether it has one.
func (r *PathResolver) Path(v ssa.Value) (string, bool) {
	if p, ok := r.memo[v]; ok {
		if p == nil {
			return "", false
		}
		return *p, true
	}
	r.memo[v] = nil
	p, ok := r.path(v)
	if ok {
		r.memo[v] = &p
	}
	return p, ok
}

func join(a, b string) string {
	if a == "" {
		return b
	}
	return a + "." + b
}

func (r *PathResolver) path(v ssa.Value) (string, bool) {
	if v == r.Root {
		return "", true
	}
	switch x := v.(type) {
	case *ssa.Alloc:
		if r.spill[x] {
			return "", true
		}
	case *ssa.FieldAddr:
		if p, ok := r.Path(x.X); ok {
			return join(p, FieldName(x.X.Type(), x.Field)), true
		}
	case *ssa.Field:
		if p, ok := r.Path(x.X); ok {
			return join(p, FieldName(x.X.Type(), x.Field)), true
		}
	case *ssa.IndexAddr:
		if p, ok := r.Path(x.X); ok {
			return p + "[]", true
		}
	case *ssa.Index:
		if p, ok := r.Path(x.X); ok {
			return p + "[]", true
		}
	case *ssa.Lookup:
		if p, ok := r.Path(x.X); ok {
			return p + "[]", true
		}
	case *ssa.UnOp:
		if x.Op == token.MUL {
			return r.Path(x.X)
		}
	case *ssa.Slice:
		return r.Path(x.X)
	case *ssa.ChangeType:
		return r.Path(x.X)
	case *ssa.Range:
		return r.Path(x.X)
	case *ssa.Next:
		if p, ok := r.Path(x.Iter); ok {
			return p + "[]", true
		}
	case *ssa.Extract:
		if _, isNext := x.Tuple.(*ssa.Next); isNext && x.Index >= 1 {
			return r.Path(x.Tuple)
		}
	}
	return "", false
}

// HasPrefixPath reports whether path p denotes F or something inside F
// (an element F[], F[][]) but not a different field.
func HasPrefixPath(p, f string) bool {
	if p == f {
		return true
	}
	return strings.HasPrefix(p, f) && strings.HasPrefix(p[len(f):], "[")
}

// Exits are the blocks of fn that end in Return or Panic.
func Exits(fn *ssa.Function) []*ssa.BasicBlock {
	var out []*ssa.BasicBlock
	for _, b := range fn.Blocks {
		if len(b.Instrs) == 0 {
			continue
		}
		switch b.Instrs[len(b.Instrs)-1].(type) {
		case *ssa.Return, *ssa.Panic:
			out = append(out, b)
		}
	}
	return out
}

// CanAvoid reports whether an exit of the function is reachable from block
// `from` without entering block `avoid`.
func CanAvoid(from, avoid *ssa.BasicBlock) bool {
	if from == avoid {
		return false
	}
	seen := map[*ssa.BasicBlock]bool{from: true}
	work := []*ssa.BasicBlock{from}
	for len(work) > 0 {
		b := work[len(work)-1]
		work = work[:len(work)-1]
		if len(b.Succs) == 0 {
			return true
		}
		for _, s := range b.Succs {
			if s == avoid || seen[s] {
				continue
			}
			seen[s] = true
			work = append(work, s)
		}
	}
	return false
}

// BlockReaches reports whether block `to` is reachable from `from` (reflexive).
func BlockReaches(from, to *ssa.BasicBlock) bool {
	if from == to {
		return true
	}
	seen := map[*ssa.BasicBlock]bool{from: true}
	work := []*ssa.BasicBlock{from}
	for len(work) > 0 {
		b := work[len(work)-1]
		work = work[:len(work)-1]
		for _, s := range b.Succs {
			if s == to {
				return true
			}
			if !seen[s] {
				seen[s] = true
				work = append(work, s)
			}
		}
	}
	return false
}

// CtrlDep is one controlling branch: block C ends in an If and b is executed
// for certain only when successor Succ (0 = true edge, 1 = false edge) is taken.
type CtrlDep struct {
	If   *ssa.If
	Succ int
}

// ControlDeps returns the transitive control dependences of block b: every
// branch on which some successor makes b unavoidable while the other can reach
// an exit without b.
func ControlDeps(b *ssa.BasicBlock) []CtrlDep {
	fn := b.Parent()
	var out []CtrlDep
	done := map[*ssa.BasicBlock]bool{}
	seenIf := map[*ssa.If]bool{}
	work := []*ssa.BasicBlock{b}
	for len(work) > 0 {
		t := work[len(work)-1]
		work = work[:len(work)-1]
		if done[t] {
			continue
		}
		done[t] = true
		for _, c := range fn.Blocks {
			if len(c.Instrs) == 0 {
				continue
			}
			iff, ok := c.Instrs[len(c.Instrs)-1].(*ssa.If)
			if !ok || len(c.Succs) != 2 {
				continue
			}
			a0 := c.Succs[0] != t && CanAvoid(c.Succs[0], t)
			a1 := c.Succs[1] != t && CanAvoid(c.Succs[1], t)
			if a0 == a1 {
				continue
			}
			if seenIf[iff] {
				continue
			}
			seenIf[iff] = true
			k := 0
			if a0 {
				k = 1
			}
			out = append(out, CtrlDep{iff, k})
			work = append(work, c)
		}
	}
	return out
}

// Referrers returns the instructions using v (nil-safe).
func Referrers(v ssa.Value) []ssa.Instruction {
	if r := v.Referrers(); r != nil {
		return *r
	}
	return nil
}

// IsBuiltinCall reports whether the call is to builtin name.
func IsBuiltinCall(c *ssa.CallCommon, name string) bool {
	b, ok := c.Value.(*ssa.Builtin)
	return ok && b.Name() == name
}

// LenOf returns x when v is len(x).
func LenOf(v ssa.Value) ssa.Value {
	if c, ok := v.(*ssa.Call); ok && IsBuiltinCall(&c.Call, "len") && len(c.Call.Args) == 1 {
		return c.Call.Args[0]
	}
	return nil
}

// PathHasSuffix: the import path ends with the module-relative path rel.
func PathHasSuffix(path, rel string) bool {
	return path == rel || len(path) > len(rel) && path[len(path)-len(rel)-1] == '/' && path[len(path)-len(rel):] == rel
}

// ArrayOf returns the array type underlying t, or nil.
func ArrayOf(t types.Type) *types.Array {
	if t == nil {
		return nil
	}
	a, _ := t.Underlying().(*types.Array)
	return a
}

// SliceOf returns the slice type underlying t, or nil.
func SliceOf(t types.Type) *types.Slice {
	if t == nil {
		return nil
	}
	s, _ := t.Underlying().(*types.Slice)
	return s
}
