package core

import (
	"sort"

	"golang.org/x/tools/go/callgraph"
	"golang.org/x/tools/go/ssa"
)

// FnGraph is a call graph restricted to a set of functions, with the call
// sites kept for witnesses. Successor lists are sorted for determinism.
type FnGraph struct {
	Nodes []*ssa.Function
	Succ  map[*ssa.Function][]*ssa.Function
	Site  map[[2]*ssa.Function]ssa.CallInstruction
}

// Restrict builds the sub-call-graph induced by keep.
func (p *Prog) Restrict(keep func(*ssa.Function) bool) *FnGraph {
	cg := p.CallGraph()
	g := &FnGraph{Succ: map[*ssa.Function][]*ssa.Function{}, Site: map[[2]*ssa.Function]ssa.CallInstruction{}}
	for fn, n := range cg.Nodes {
		if fn == nil || !keep(fn) {
			continue
		}
		g.Nodes = append(g.Nodes, fn)
		seen := map[*ssa.Function]bool{}
		add := func(e *callgraph.Edge) {
			c := e.Callee.Func
			if c == nil || !keep(c) {
				return
			}
			if !seen[c] {
				seen[c] = true
				g.Succ[fn] = append(g.Succ[fn], c)
			}
			k := [2]*ssa.Function{fn, c}
			if old, ok := g.Site[k]; !ok || (e.Site != nil && old != nil && e.Site.Pos() < old.Pos()) {
				g.Site[k] = e.Site
			}
		}
		for _, e := range n.Out {
			add(e)
		}
	}
	// a closure runs on behalf of its parent: parent -> closure edge when the parent creates it
	for _, fn := range g.Nodes {
		for _, an := range fn.AnonFuncs {
			if keep(an) {
				found := false
				for _, s := range g.Succ[fn] {
					if s == an {
						found = true
					}
				}
				if !found {
					g.Succ[fn] = append(g.Succ[fn], an)
				}
			}
		}
	}
	sort.Slice(g.Nodes, func(i, j int) bool { return FnName(g.Nodes[i]) < FnName(g.Nodes[j]) })
	for _, fn := range g.Nodes {
		s := g.Succ[fn]
		sort.Slice(s, func(i, j int) bool { return FnName(s[i]) < FnName(s[j]) })
	}
	return g
}

// SCCs returns the non-trivial strongly connected components (size > 1 or a
// self loop) of the graph with the functions in removed deleted.
func (g *FnGraph) SCCs(removed map[*ssa.Function]bool, cut map[[2]*ssa.Function]bool) [][]*ssa.Function {
	index := 0
	idx := map[*ssa.Function]int{}
	low := map[*ssa.Function]int{}
	on := map[*ssa.Function]bool{}
	var stack []*ssa.Function
	var out [][]*ssa.Function
	var strong func(n *ssa.Function)
	strong = func(n *ssa.Function) {
		idx[n] = index
		low[n] = index
		index++
		stack = append(stack, n)
		on[n] = true
		for _, m := range g.Succ[n] {
			if removed[m] || cut[[2]*ssa.Function{n, m}] {
				continue
			}
			if _, ok := idx[m]; !ok {
				strong(m)
				if low[m] < low[n] {
					low[n] = low[m]
				}
			} else if on[m] && idx[m] < low[n] {
				low[n] = idx[m]
			}
		}
		if low[n] == idx[n] {
			var comp []*ssa.Function
			for {
				m := stack[len(stack)-1]
				stack = stack[:len(stack)-1]
				on[m] = false
				comp = append(comp, m)
				if m == n {
					break
				}
			}
			self := false
			if len(comp) == 1 {
				for _, m := range g.Succ[n] {
					if m == n && !cut[[2]*ssa.Function{n, n}] {
						self = true
					}
				}
			}
			if len(comp) > 1 || self {
				sort.Slice(comp, func(i, j int) bool { return FnName(comp[i]) < FnName(comp[j]) })
				out = append(out, comp)
			}
		}
	}
	for _, n := range g.Nodes {
		if removed[n] {
			continue
		}
		if _, ok := idx[n]; !ok {
			strong(n)
		}
	}
	sort.Slice(out, func(i, j int) bool { return FnName(out[i][0]) < FnName(out[j][0]) })
	return out
}

// ShortestCycle returns the shortest cycle through start inside comp.
func (g *FnGraph) ShortestCycle(start *ssa.Function, comp []*ssa.Function, removed map[*ssa.Function]bool, cut map[[2]*ssa.Function]bool) []*ssa.Function {
	in := map[*ssa.Function]bool{}
	for _, f := range comp {
		in[f] = true
	}
	prev := map[*ssa.Function]*ssa.Function{}
	queue := []*ssa.Function{start}
	seen := map[*ssa.Function]bool{start: true}
	for len(queue) > 0 {
		n := queue[0]
		queue = queue[1:]
		for _, m := range g.Succ[n] {
			if !in[m] || removed[m] || cut[[2]*ssa.Function{n, m}] {
				continue
			}
			if m == start {
				path := []*ssa.Function{n}
				for x := n; x != start; {
					x = prev[x]
					path = append([]*ssa.Function{x}, path...)
				}
				return append(path, start)
			}
			if !seen[m] {
				seen[m] = true
				prev[m] = n
				queue = append(queue, m)
			}
		}
	}
	return nil
}

// Cycles decomposes the cyclic part of the graph (after removing `removed`)
// into witness cycles: repeatedly take the shortest cycle through the smallest
// function of an SCC and cut its closing edge, until no cycle is left.
func (g *FnGraph) Cycles(removed map[*ssa.Function]bool, max int) [][]*ssa.Function {
	return g.CyclesCut(removed, nil, max)
}

// CyclesCut is Cycles with some call edges deleted beforehand.
func (g *FnGraph) CyclesCut(removed map[*ssa.Function]bool, cut0 map[[2]*ssa.Function]bool, max int) [][]*ssa.Function {
	cut := map[[2]*ssa.Function]bool{}
	for k := range cut0 {
		cut[k] = true
	}
	var out [][]*ssa.Function
	for len(out) < max {
		sccs := g.SCCs(removed, cut)
		if len(sccs) == 0 {
			break
		}
		progress := false
		for _, comp := range sccs {
			cyc := g.ShortestCycle(comp[0], comp, removed, cut)
			if cyc == nil {
				continue
			}
			out = append(out, cyc)
			n := len(cyc)
			cut[[2]*ssa.Function{cyc[n-2], cyc[n-1]}] = true
			progress = true
		}
		if !progress {
			break
		}
	}
	return out
}

// ReachesIn computes the set of functions from which target is reachable in g.
func (g *FnGraph) ReachesIn(target *ssa.Function) map[*ssa.Function]bool {
	pred := map[*ssa.Function][]*ssa.Function{}
	for n, ss := range g.Succ {
		for _, s := range ss {
			pred[s] = append(pred[s], n)
		}
	}
	seen := map[*ssa.Function]bool{target: true}
	work := []*ssa.Function{target}
	for len(work) > 0 {
		n := work[len(work)-1]
		work = work[:len(work)-1]
		for _, q := range pred[n] {
			if !seen[q] {
				seen[q] = true
				work = append(work, q)
			}
		}
	}
	return seen
}
