// Command gosqlx-sa decides one property of /repo by static analysis.
package main

import (
	"encoding/json"
	"flag"
	"fmt"
	"os"
	"os/exec"
	"path/filepath"
	"runtime/debug"
	"strconv"
	"strings"

	"gosqlxsa/core"
	"gosqlxsa/rules"
)

func main() {
	prop := flag.String("prop", "", "property id (C01…)")
	tier := flag.String("tier", "quick", "quick|thorough")
	repo := flag.String("repo", "/repo", "source tree to analyse")
	verif := flag.String("verif", "/verif", "verification directory")
	out := flag.String("out", "", "evidence directory (default <verif>/evidence)")
	known := flag.String("known", "", "known-findings file (default <verif>/known_findings.json)")
	flag.Parse()
	if *out == "" {
		*out = filepath.Join(*verif, "evidence")
	}
	if *known == "" {
		*known = filepath.Join(*verif, "known_findings.json")
	}
	seed, _ := strconv.Atoi(os.Getenv("VERIF_SEED"))
	_ = os.MkdirAll(*out, 0o755)
	r, err := core.NewReport(*prop, *tier, seed, *out, *known)
	if err != nil {
		fmt.Printf("ANALYSIS-FAILURE: %v\nVIOLATION property=%s replay=%s\n", err, *prop, *known)
		os.Exit(1)
	}
	type cfg struct {
		tags string
		env  []string
		pat  []string
		min  int
	}
	cfgs := []cfg{{"", nil, nil, 45}}
	if *tier == "thorough" {
		cfgs = append(cfgs, cfg{"race", nil, nil, 45})
	}
	code := func() (code int) {
		defer func() {
			if e := recover(); e != nil {
				fmt.Printf("ANALYSIS-FAILURE: analyser panic: %v\n%s\n", e, debug.Stack())
				fmt.Printf("VIOLATION property=%s replay=%s\n", *prop, filepath.Join(*out, *prop+".json"))
				code = 1
			}
		}()
		for i, c := range cfgs {
			p, err := core.Load(core.LoadOpts{Dir: *repo, Tags: c.tags, Env: c.env, Patterns: c.pat, MinPkgs: c.min, NeedDeps: true})
			if err != nil {
				r.Fatal("cannot load %s (%s): %v", *repo, c.tags, err)
				break
			}
			r.SetConfig(p.Config)
			r.Extra(fmt.Sprintf("config_%d", i), map[string]interface{}{"config": p.Config, "packages": len(p.Pkgs), "module_functions": len(p.ModuleFuncs())})
			ctx := &rules.Ctx{P: p, R: r, Tier: *tier, SaDir: filepath.Join(*verif, "sa"), Controls: i == 0}
			rules.Run(*prop, ctx)
		}
		if *tier == "thorough" {
			replaySeeded(r, *prop, *repo, *verif)
		}
		return r.Finish()
	}()
	os.Exit(code)
}

// replaySeeded (thorough tier): every independently seeded breaking change of
// /verif/seeded that names this property is applied to a scratch copy of the
// tree and the quick analysis is run on the copy; a change recorded as
// detectable that is no longer reported means the rule went blind and fails
// the run. A patch that no longer applies (the tree was edited) is skipped.
func replaySeeded(r *core.Report, prop, repo, verif string) {
	dirs, _ := filepath.Glob(filepath.Join(verif, "seeded", "*", "meta.json"))
	type rec struct {
		ID       string   `json:"id"`
		Applied  bool     `json:"applied"`
		Detected bool     `json:"detected"`
		Expected bool     `json:"expected_detected"`
		Lines    []string `json:"report,omitempty"`
	}
	var recs []rec
	self, _ := os.Executable()
	for _, mf := range dirs {
		b, err := os.ReadFile(mf)
		if err != nil {
			continue
		}
		var meta struct {
			Property   string   `json:"property"`
			DetectedBy []string `json:"detected_by"`
		}
		if json.Unmarshal(b, &meta) != nil {
			continue
		}
		expected := false
		for _, d := range meta.DetectedBy {
			if d == prop {
				expected = true
			}
		}
		if meta.Property != prop && !expected {
			continue
		}
		id := filepath.Base(filepath.Dir(mf))
		scratch, err := os.MkdirTemp("", "gosqlx-sa-seed-")
		if err != nil {
			continue
		}
		rc := rec{ID: id, Expected: expected}
		func() {
			defer os.RemoveAll(scratch)
			tree := filepath.Join(scratch, "repo")
			if out, err := exec.Command("rsync", "-a", "--exclude", ".git", repo+"/", tree+"/").CombinedOutput(); err != nil {
				rc.Lines = append(rc.Lines, "copy failed: "+string(out))
				return
			}
			patch := filepath.Join(filepath.Dir(mf), "patch.diff")
			cmd := exec.Command("patch", "-p1", "-s", "-f", "-i", patch)
			cmd.Dir = tree
			if out, err := cmd.CombinedOutput(); err != nil {
				rc.Lines = append(rc.Lines, "patch does not apply to the current tree (skipped): "+firstLine(string(out)))
				return
			}
			rc.Applied = true
			evd := filepath.Join(scratch, "ev")
			_ = os.MkdirAll(evd, 0o755)
			run := exec.Command(self, "-prop", prop, "-tier", "quick", "-repo", tree, "-verif", verif, "-out", evd)
			out, _ := run.CombinedOutput()
			for _, l := range strings.Split(string(out), "\n") {
				if strings.HasPrefix(l, "VIOLATED") || strings.HasPrefix(l, "UNDECIDED") || strings.HasPrefix(l, "ANALYSIS-FAILURE") {
					rc.Detected = true
					if len(rc.Lines) < 3 {
						if len(l) > 300 {
							l = l[:300]
						}
						rc.Lines = append(rc.Lines, l)
					}
				}
			}
		}()
		recs = append(recs, rc)
		if rc.Applied && rc.Expected && !rc.Detected {
			r.Fatal("seeded change %s, which this check is recorded to detect, is no longer reported: the rule went blind", id)
		}
	}
	r.Extra("seeded_replay", recs)
}

func firstLine(s string) string {
	if i := strings.IndexByte(s, '\n'); i >= 0 {
		return s[:i]
	}
	return s
}
