// Command gosqlx-sa decides one property of /repo by static analysis.
package main

import (
	"flag"
	"fmt"
	"os"
	"path/filepath"
	"runtime/debug"
	"strconv"

	"gosqlxsa/core"
	"gosqlxsa/rules"
)

func main() {
	prop := flag.String("prop", "", "property id (C01…)")
	tier := flag.String("tier", "quick", "quick|thorough")
	repo := flag.String("repo", "/repo", "source tree to analyse")
	verif := flag.String("verif", "/verif", "verification directory")
	out := flag.String("out", "", "evidence directory (default <verif>/evidence)")
	known := flag.String("known", "", "known-findings file (default <verif>/known_findings.json)")
	flag.Parse()
	if *out == "" {
		*out = filepath.Join(*verif, "evidence")
	}
	if *known == "" {
		*known = filepath.Join(*verif, "known_findings.json")
	}
	seed, _ := strconv.Atoi(os.Getenv("VERIF_SEED"))
	_ = os.MkdirAll(*out, 0o755)
	r, err := core.NewReport(*prop, *tier, seed, *out, *known)
	if err != nil {
		fmt.Printf("ANALYSIS-FAILURE: %v\nVIOLATION property=%s replay=%s\n", err, *prop, *known)
		os.Exit(1)
	}
	type cfg struct {
		tags string
		env  []string
		pat  []string
		min  int
	}
	cfgs := []cfg{{"", nil, nil, 45}}
	if *tier == "thorough" {
		cfgs = append(cfgs, cfg{"race", nil, nil, 45})
	}
	code := func() (code int) {
		defer func() {
			if e := recover(); e != nil {
				fmt.Printf("ANALYSIS-FAILURE: analyser panic: %v\n%s\n", e, debug.Stack())
				fmt.Printf("VIOLATION property=%s replay=%s\n", *prop, filepath.Join(*out, *prop+".json"))
				code = 1
			}
		}()
		for i, c := range cfgs {
			p, err := core.Load(core.LoadOpts{Dir: *repo, Tags: c.tags, Env: c.env, Patterns: c.pat, MinPkgs: c.min, NeedDeps: true})
			if err != nil {
				r.Fatal("cannot load %s (%s): %v", *repo, c.tags, err)
				break
			}
			r.SetConfig(p.Config)
			r.Extra(fmt.Sprintf("config_%d", i), map[string]interface{}{"config": p.Config, "packages": len(p.Pkgs), "module_functions": len(p.ModuleFuncs())})
			ctx := &rules.Ctx{P: p, R: r, Tier: *tier, SaDir: filepath.Join(*verif, "sa"), Controls: i == 0}
			rules.Run(*prop, ctx)
		}
		return r.Finish()
	}()
	os.Exit(code)
}
