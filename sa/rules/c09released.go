package rules

import (
	"go/token"
	"go/types"
	"sort"
	"strings"

	"golang.org/x/tools/go/ssa"

	"gosqlxsa/core"
)

// released-part-escapes: releasing a tree puts some of its nodes back into the pools. Which ones is read off the
// Put functions themselves: a first-level field f of a node type T is *released* when PutT hands the field's value,
// an element of it or something below it to another Put function or to a pool. A function that releases a tree
// (ReleaseAST(t), PutT(x), direct or deferred) must not let a value escape (return it) that was taken from a released
// field of a node of that tree, unless it detached it first (x.f = nil before the release).
func c09ReleasedPartEscapes(c *Ctx, p *core.Prog) {
	r := c.R
	r.Rule("released-part-escapes", "a function that releases a tree does not return a value taken from a field of one of the tree's nodes that the release hands to the pools (per node type: the fields its Put function passes on to other Put functions), unless that field was set to nil first")
	astFns := p.SrcFuncs("pkg/sql/ast")
	isReleaser := func(f *ssa.Function) bool {
		if f == nil {
			return false
		}
		if strings.HasPrefix(f.Name(), "Put") || strings.HasPrefix(f.Name(), "Release") {
			pk := core.FnPkg(f)
			return pk != nil && core.PathHasSuffix(pk.Path(), "pkg/sql/ast")
		}
		return f.Name() == "Put" && core.FnPkg(f) != nil && core.FnPkg(f).Path() == "sync"
	}
	// released first-level fields per node type
	released := map[*types.Named]map[string]bool{}
	for _, fn := range astFns {
		if fn.Parent() != nil || !strings.HasPrefix(fn.Name(), "Put") || len(fn.Params) != 1 {
			continue
		}
		T := core.NamedOf(core.Deref(fn.Params[0].Type()))
		if T == nil || core.StructOf(T) == nil {
			continue
		}
		par := fn.Params[0]
		// forward taint per field
		taint := map[ssa.Value]string{}
		for _, b := range fn.Blocks {
			for _, in := range b.Instrs {
				if fa, ok := in.(*ssa.FieldAddr); ok && fa.X == ssa.Value(par) {
					taint[fa] = core.FieldName(fa.X.Type(), fa.Field)
				}
			}
		}
		for changed := true; changed; {
			changed = false
			for _, b := range fn.Blocks {
				for _, in := range b.Instrs {
					v, ok := in.(ssa.Value)
					if !ok || taint[v] != "" {
						if st, ok := in.(*ssa.Store); ok && taint[st.Val] != "" {
							if al, ok := st.Addr.(*ssa.Alloc); ok && taint[al] == "" {
								taint[al] = taint[st.Val]
								changed = true
							}
						}
						continue
					}
					src := ""
					var ops []*ssa.Value
					switch x := in.(type) {
					case *ssa.UnOp, *ssa.FieldAddr, *ssa.Field, *ssa.IndexAddr, *ssa.Index, *ssa.Slice, *ssa.Phi, *ssa.MakeInterface, *ssa.ChangeInterface, *ssa.TypeAssert, *ssa.Extract, *ssa.Range, *ssa.Next, *ssa.ChangeType:
						for _, o := range in.Operands(ops) {
							if *o != nil && taint[*o] != "" {
								src = taint[*o]
							}
						}
						_ = x
					case *ssa.Call:
						if core.IsBuiltinCall(&x.Call, "append") {
							for _, a := range x.Call.Args {
								if taint[a] != "" {
									src = taint[a]
								}
							}
						}
					}
					if src != "" {
						taint[v] = src
						changed = true
					}
				}
			}
		}
		// an append chain mixes several fields into one slice: every field that reaches a releasing call counts
		fields := map[string]bool{}
		// collect, for slices built by append, all contributing fields
		contrib := map[ssa.Value]map[string]bool{}
		var fieldsOf func(v ssa.Value, d int) map[string]bool
		fieldsOf = func(v ssa.Value, d int) map[string]bool {
			out := map[string]bool{}
			if d > 8 || v == nil {
				return out
			}
			if m, ok := contrib[v]; ok {
				return m
			}
			contrib[v] = out
			if f := taint[v]; f != "" {
				out[f] = true
			}
			switch x := v.(type) {
			case *ssa.Call:
				if core.IsBuiltinCall(&x.Call, "append") {
					for _, a := range x.Call.Args {
						for k := range fieldsOf(a, d+1) {
							out[k] = true
						}
					}
				}
			case *ssa.Phi:
				for _, e := range x.Edges {
					for k := range fieldsOf(e, d+1) {
						out[k] = true
					}
				}
			case *ssa.UnOp:
				for k := range fieldsOf(x.X, d+1) {
					out[k] = true
				}
			case *ssa.IndexAddr:
				for k := range fieldsOf(x.X, d+1) {
					out[k] = true
				}
			case *ssa.Index:
				for k := range fieldsOf(x.X, d+1) {
					out[k] = true
				}
			case *ssa.Extract:
				for k := range fieldsOf(x.Tuple, d+1) {
					out[k] = true
				}
			case *ssa.Next:
				for k := range fieldsOf(x.Iter, d+1) {
					out[k] = true
				}
			case *ssa.Range:
				for k := range fieldsOf(x.X, d+1) {
					out[k] = true
				}
			case *ssa.Slice:
				for k := range fieldsOf(x.X, d+1) {
					out[k] = true
				}
			case *ssa.Alloc:
				for _, ref := range core.Referrers(x) {
					if st, ok := ref.(*ssa.Store); ok && st.Addr == ssa.Value(x) {
						for k := range fieldsOf(st.Val, d+1) {
							out[k] = true
						}
					}
					// the backing array of a variadic append: stores into its elements
					if ia, ok := ref.(*ssa.IndexAddr); ok {
						for _, r2 := range core.Referrers(ia) {
							if st, ok := r2.(*ssa.Store); ok && st.Addr == ssa.Value(ia) {
								for k := range fieldsOf(st.Val, d+1) {
									out[k] = true
								}
							}
						}
					}
				}
			}
			return out
		}
		for _, b := range fn.Blocks {
			for _, in := range b.Instrs {
				ci, ok := in.(ssa.CallInstruction)
				if !ok || !isReleaser(ci.Common().StaticCallee()) {
					continue
				}
				for _, a := range ci.Common().Args {
					if a == ssa.Value(par) {
						continue
					}
					for k := range fieldsOf(a, 0) {
						fields[k] = true
					}
				}
			}
		}
		if len(fields) > 0 {
			released[T] = fields
		}
	}
	var tnames []string
	for T, fs := range released {
		var l []string
		for f := range fs {
			l = append(l, f)
		}
		sort.Strings(l)
		tnames = append(tnames, T.Obj().Name()+"{"+strings.Join(l, ",")+"}")
	}
	sort.Strings(tnames)
	r.Extra("released_fields", tnames)
	// co-returned results: result j of callee is taken from result i
	coDerived := func(call *ssa.Call, j, i int) bool {
		f := call.Call.StaticCallee()
		if f == nil || f.Blocks == nil {
			return false
		}
		for _, b := range f.Blocks {
			ret, ok := b.Instrs[len(b.Instrs)-1].(*ssa.Return)
			if !ok || j >= len(ret.Results) || i >= len(ret.Results) {
				continue
			}
			if derivedFromX(retOperand(ret, j), retOperand(ret, i), 0) {
				return true
			}
		}
		return false
	}
	belongsTo := func(o, root ssa.Value) bool {
		if derivedFromX(o, root, 0) {
			return true
		}
		oe, ok1 := o.(*ssa.Extract)
		re, ok2 := root.(*ssa.Extract)
		if ok1 && ok2 && oe.Tuple == re.Tuple {
			if call, ok := oe.Tuple.(*ssa.Call); ok {
				return coDerived(call, oe.Index, re.Index)
			}
		}
		return false
	}
	n := 0
	for _, fn := range p.ModuleFuncs() {
		if fn.Blocks == nil || core.InPkgs(fn, "pkg/sql/ast") {
			continue
		}
		// released roots
		var roots []ssa.Value
		var sites []ssa.Instruction
		for _, b := range fn.Blocks {
			for _, in := range b.Instrs {
				ci, ok := in.(ssa.CallInstruction)
				if !ok {
					continue
				}
				f := ci.Common().StaticCallee()
				if f == nil || core.FnPkg(f) == nil || !core.PathHasSuffix(core.FnPkg(f).Path(), "pkg/sql/ast") || !(strings.HasPrefix(f.Name(), "Put") || strings.HasPrefix(f.Name(), "Release")) {
					continue
				}
				if len(ci.Common().Args) == 1 {
					if _, isC := ci.Common().Args[0].(*ssa.Const); !isC {
						roots = append(roots, ci.Common().Args[0])
						sites = append(sites, in)
					}
				}
			}
		}
		if len(roots) == 0 {
			continue
		}
		// detached fields: x.f = nil
		detached := map[string]bool{}
		for _, b := range fn.Blocks {
			for _, in := range b.Instrs {
				if st, ok := in.(*ssa.Store); ok && core.IsNilConst(st.Val) {
					if fa, ok := st.Addr.(*ssa.FieldAddr); ok {
						if T := core.NamedOf(core.Deref(fa.X.Type())); T != nil {
							detached[T.Obj().Name()+"."+core.FieldName(fa.X.Type(), fa.Field)] = true
						}
					}
				}
			}
		}
		seq := 0
		for ri, root := range roots {
			n++
			bad := ""
			for _, b := range fn.Blocks {
				ret, ok := b.Instrs[len(b.Instrs)-1].(*ssa.Return)
				if !ok {
					continue
				}
				// a direct (non-deferred) release only concerns returns it can reach
				if _, isDefer := sites[ri].(*ssa.Defer); !isDefer && !core.BlockReaches(sites[ri].Block(), b) {
					continue
				}
				for k := range ret.Results {
					rv := retOperand(ret, k)
					if !isRefType(rv.Type()) {
						continue
					}
					// walk the derivation of rv looking for a released field of an object of the released tree
					seen := map[ssa.Value]bool{}
					var walk func(v ssa.Value, d int)
					walk = func(v ssa.Value, d int) {
						if d > 12 || v == nil || seen[v] || bad != "" {
							return
						}
						seen[v] = true
						check := func(x ssa.Value, field int) {
							T := core.NamedOf(core.Deref(x.Type()))
							if T == nil {
								return
							}
							fname := core.FieldName(x.Type(), field)
							if released[T][fname] && !detached[T.Obj().Name()+"."+fname] && belongsTo(x, root) {
								bad = "the value returned at " + p.Pos(ret.Pos()) + " is taken from " + T.Obj().Name() + "." + fname + " of a node of the tree released by " + calleeName(sites[ri].(ssa.CallInstruction)) + "; Put" + T.Obj().Name() + " hands that field's nodes to the pools"
							}
						}
						switch x := v.(type) {
						case *ssa.UnOp:
							walk(x.X, d+1)
						case *ssa.FieldAddr:
							check(x.X, x.Field)
							walk(x.X, d+1)
						case *ssa.Field:
							check(x.X, x.Field)
							walk(x.X, d+1)
						case *ssa.IndexAddr:
							walk(x.X, d+1)
						case *ssa.Index:
							walk(x.X, d+1)
						case *ssa.Slice:
							walk(x.X, d+1)
						case *ssa.MakeInterface:
							walk(x.X, d+1)
						case *ssa.ChangeInterface:
							walk(x.X, d+1)
						case *ssa.TypeAssert:
							walk(x.X, d+1)
						case *ssa.Extract:
							walk(x.Tuple, d+1)
						case *ssa.Phi:
							for _, e := range x.Edges {
								walk(e, d+1)
							}
						case *ssa.Alloc:
							for _, ref := range core.Referrers(x) {
								if st, ok := ref.(*ssa.Store); ok && st.Addr == ssa.Value(x) {
									walk(st.Val, d+1)
								}
							}
						}
					}
					walk(rv, 0)
				}
			}
			seq++
			key := core.FnName(fn) + sprintf("|release#%d", seq)
			if bad == "" {
				r.OK("released-part-escapes", key, p.Pos(sites[ri].Pos()), "nothing taken from a released field is returned")
			} else {
				r.Violate("released-part-escapes", key, p.Pos(sites[ri].Pos()), bad+": the caller holds nodes that the pools hand to the next parse")
			}
		}
	}
	r.Floor("released-part-escapes", n, 20, "release sites outside pkg/sql/ast")
	r.Floor("released-part-escapes", len(released), 5, "node types with released fields")
}

// derivedFromX is derivedFrom plus type assertions and tuple extraction.
func derivedFromX(v, obj ssa.Value, depth int) bool {
	if v == obj {
		return true
	}
	if depth > 12 || v == nil {
		return false
	}
	switch x := v.(type) {
	case *ssa.TypeAssert:
		return derivedFromX(x.X, obj, depth+1)
	case *ssa.Extract:
		if ta, ok := x.Tuple.(*ssa.TypeAssert); ok {
			return derivedFromX(ta.X, obj, depth+1)
		}
		return false
	case *ssa.UnOp:
		if x.Op == token.MUL {
			return derivedFromX(x.X, obj, depth+1)
		}
	case *ssa.FieldAddr:
		return derivedFromX(x.X, obj, depth+1)
	case *ssa.Field:
		return derivedFromX(x.X, obj, depth+1)
	case *ssa.IndexAddr:
		return derivedFromX(x.X, obj, depth+1)
	case *ssa.Index:
		return derivedFromX(x.X, obj, depth+1)
	case *ssa.Slice:
		return derivedFromX(x.X, obj, depth+1)
	case *ssa.MakeInterface:
		return derivedFromX(x.X, obj, depth+1)
	case *ssa.ChangeInterface:
		return derivedFromX(x.X, obj, depth+1)
	case *ssa.Phi:
		for _, e := range x.Edges {
			if derivedFromX(e, obj, depth+1) {
				return true
			}
		}
	case *ssa.Alloc:
		for _, ref := range core.Referrers(x) {
			if st, ok := ref.(*ssa.Store); ok && st.Addr == ssa.Value(x) && derivedFromX(st.Val, obj, depth+1) {
				return true
			}
		}
	}
	return false
}
