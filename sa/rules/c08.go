package rules

import (
	"go/token"
	"go/types"
	"sort"
	"strings"

	"golang.org/x/tools/go/ssa"

	"gosqlxsa/core"
)

func init() { Registry["C08"] = runC08 }

// stateful describes one reusable object type (Parser, Tokenizer).
type stateful struct {
	rel, typ   string
	inputField string // the field that receives the caller's input at an entry
}

// fieldAccess collects, per function, the fields of struct type T it reads and writes
// (through any value of type *T or T).
type fieldAccess struct {
	reads  map[*ssa.Function]map[string]bool
	writes map[*ssa.Function]map[string][]*ssa.Store
}

func collectFieldAccess(fns []*ssa.Function, T *types.Named) *fieldAccess {
	fa := &fieldAccess{reads: map[*ssa.Function]map[string]bool{}, writes: map[*ssa.Function]map[string][]*ssa.Store{}}
	for _, fn := range fns {
		for _, b := range fn.Blocks {
			for _, in := range b.Instrs {
				var x ssa.Value
				var idx int
				switch v := in.(type) {
				case *ssa.FieldAddr:
					x, idx = v.X, v.Field
				case *ssa.Field:
					x, idx = v.X, v.Field
				default:
					continue
				}
				if core.NamedOf(x.Type()) != T {
					continue
				}
				name := core.FieldName(x.Type(), idx)
				val := in.(ssa.Value)
				if _, isField := in.(*ssa.Field); isField {
					addSet(fa.reads, fn, name)
					continue
				}
				for _, ref := range core.Referrers(val) {
					switch r := ref.(type) {
					case *ssa.Store:
						if r.Addr == val {
							if fa.writes[fn] == nil {
								fa.writes[fn] = map[string][]*ssa.Store{}
							}
							fa.writes[fn][name] = append(fa.writes[fn][name], r)
						} else {
							addSet(fa.reads, fn, name)
						}
					case *ssa.DebugRef:
					default:
						addSet(fa.reads, fn, name)
					}
				}
			}
		}
	}
	return fa
}

func addSet(m map[*ssa.Function]map[string]bool, fn *ssa.Function, k string) {
	if m[fn] == nil {
		m[fn] = map[string]bool{}
	}
	m[fn][k] = true
}

// outer returns the outermost enclosing function of a closure.
func outer(fn *ssa.Function) *ssa.Function {
	for fn.Parent() != nil {
		fn = fn.Parent()
	}
	return fn
}

func runC08(c *Ctx) {
	r, p := c.R, c.P
	r.Summary = "C08 (results never depend on what a reused or pooled object did before): decided clauses = (1) the reset performed on the way into the pool covers every field of Parser and Tokenizer; (2) every per-call field that code reachable from an entry point reads is definitely (re)assigned by that entry before the first such read, or is restored by a paired defer wherever it is changed; (3) Release() resets every per-call field; (4) parsing/tokenizing writes no package-level state. Together: the only inputs of a call are its arguments and the configuration the current holder set."
	r.NotCov = []string{"that equal state implies equal results (determinism is C13's reproducibility rule)", "aliasing of the object's fields from outside the package"}
	r.Rule("put-reset", "at every Pool.Put of a *Parser / *Tokenizer every field is in a state-independent reset state (same engine as C09)")
	r.Rule("entry-assign", "for every entry point (a method storing its input parameter into the object) and every per-call field read by code reachable from it: the entry definitely assigns the field before the first instruction that can read it")
	r.Rule("paired-restore", "a field not assigned at entry (depth, ctx) must be restored wherever it is changed: every store of a non-reset value is followed in the same block by a defer whose closure stores the inverse/zero")
	r.Rule("release-reset", "Release()/Reset() methods reset every per-call field")
	r.Rule("no-global-state", "no function reachable from an entry point stores to a package-level variable of the parsing packages")
	objs := []stateful{{"pkg/sql/parser", "Parser", "tokens"}, {"pkg/sql/tokenizer", "Tokenizer", "input"}}
	putResetScratch = map[string]string{}
	for _, s := range objs {
		for f, why := range c08Scratch(p, s) {
			putResetScratch[f] = why
		}
	}
	n, _ := putResetRule(c, p, isStatefulPool, "put-reset", false)
	r.Floor("put-reset", n, 1, "stateful Put sites")
	total := 0
	for _, s := range objs {
		total += c08Object(c, p, s)
	}
	r.Floor("entry-assign", r.Count("entry-assign"), 16, "(entry, field) pairs")
	_ = total
}

// c08Scratch: unexported slice fields of the object that are scratch space: every load of the field in the package
// either only truncates it to [:0] / measures its capacity, or comes after an assignment of the field in the same
// function on every path. What an earlier use left in such a buffer cannot be observed, so it carries no state (only
// capacity) and needs no reset. Keys are "pkg.Type.field" (as put-reset names fields) and "field".
func c08Scratch(p *core.Prog, s stateful) map[string]string {
	out := map[string]string{}
	pk := p.Pkg(s.rel)
	if pk == nil {
		return out
	}
	obj := pk.Types.Scope().Lookup(s.typ)
	if obj == nil {
		return out
	}
	T := obj.Type().(*types.Named)
	st := core.StructOf(T)
	fns := p.SrcFuncs(s.rel)
	why := "scratch buffer: every use truncates it to [:0] or assigns it first, so what a previous use left in it is never observed (it keeps capacity only)"
	for f := range c08ScratchFields(p, s.rel, T, fns, s.inputField) {
		out[pk.Types.Name()+"."+s.typ+"."+f] = why
		out[s.typ+"."+f] = why
	}
	// a helper object the reusable object keeps (a pointer to an unexported struct of the package) carries no state
	// either when every one of its fields is such a scratch buffer
	for i := 0; i < st.NumFields(); i++ {
		fld := st.Field(i)
		if fld.Exported() {
			continue
		}
		ptr, ok := fld.Type().Underlying().(*types.Pointer)
		if !ok {
			continue
		}
		T2 := core.NamedOf(ptr.Elem())
		if T2 == nil || T2.Obj().Pkg() != pk.Types || T2.Obj().Exported() || T2 == T {
			continue
		}
		st2 := core.StructOf(T2)
		if st2 == nil || st2.NumFields() == 0 {
			continue
		}
		sc := c08ScratchFields(p, s.rel, T2, fns, "")
		all := true
		for k := 0; k < st2.NumFields(); k++ {
			if !sc[st2.Field(k).Name()] {
				all = false
			}
		}
		if all {
			w := "helper object kept for its capacity: every field of " + T2.Obj().Name() + " is a scratch buffer that each use truncates or assigns first"
			out[pk.Types.Name()+"."+s.typ+"."+fld.Name()] = w
			out[s.typ+"."+fld.Name()] = w
		}
	}
	return out
}

// c08ScratchFields: the unexported slice fields of T whose previous content no code of the package can observe.
func c08ScratchFields(p *core.Prog, rel string, T *types.Named, fns []*ssa.Function, inputField string) map[string]bool {
	out := map[string]bool{}
	st := core.StructOf(T)
	if st == nil {
		return out
	}
	eng := newResetEngine(p)
	eng.assignMode = true
	eng.objType = T
	exp := newExposure(p, eng, T, fns, func(f *ssa.Function) bool { return core.InPkgs(f, rel) })
	for i := 0; i < st.NumFields(); i++ {
		fld := st.Field(i)
		if fld.Exported() {
			continue
		}
		if _, isSlice := fld.Type().Underlying().(*types.Slice); !isSlice {
			continue
		}
		if fld.Name() == inputField {
			continue
		}
		observed := false
		for fn := range exp.solve(fld.Name()) {
			nm := outer(fn).Name()
			if nm != "Reset" && nm != "Release" {
				observed = true
			}
		}
		// a field nobody loads at all is not scratch space, it is dead or write-only: leave it to the ordinary rules
		loaded := false
		for _, fn := range fns {
			for _, b := range fn.Blocks {
				for _, in := range b.Instrs {
					if u, ok := in.(*ssa.UnOp); ok && u.Op == token.MUL {
						if fa0, ok := u.X.(*ssa.FieldAddr); ok && core.NamedOf(fa0.X.Type()) == T && core.FieldName(fa0.X.Type(), fa0.Field) == fld.Name() {
							loaded = true
						}
					}
				}
			}
		}
		if !observed && loaded {
			out[fld.Name()] = true
		}
	}
	return out
}

func c08Object(c *Ctx, p *core.Prog, s stateful) int {
	r := c.R
	pk := p.Pkg(s.rel)
	if pk == nil {
		r.Fatal("anchor not found: package %s", s.rel)
		return 0
	}
	obj := pk.Types.Scope().Lookup(s.typ)
	if obj == nil {
		r.Fatal("anchor not found: type %s.%s", s.rel, s.typ)
		return 0
	}
	T := obj.Type().(*types.Named)
	st := core.StructOf(T)
	fns := p.SrcFuncs(s.rel)
	fa := collectFieldAccess(fns, T)
	// entries: methods of T that store a parameter into inputField
	var entries []*ssa.Function
	for _, fn := range fns {
		if fn.Parent() != nil || fn.Signature.Recv() == nil || core.NamedOf(fn.Signature.Recv().Type()) != T {
			continue
		}
		for _, stv := range fa.writes[fn][s.inputField] {
			if d := paramDerived(stv.Val); d != "" && !strings.HasPrefix(d, fn.Params[0].Name()+".") && d != fn.Params[0].Name() {
				entries = append(entries, fn)
				break
			}
		}
	}
	// an unexported loader helper (stores its parameter into the input field on behalf of its callers) is not an
	// entry itself: the methods that pass it their own parameter are
	for changed := true; changed; {
		changed = false
		for i, h := range entries {
			if h.Object() != nil && h.Object().Exported() {
				continue
			}
			var lifted []*ssa.Function
			for _, fn := range fns {
				if fn == h || fn.Parent() != nil || fn.Signature.Recv() == nil || core.NamedOf(fn.Signature.Recv().Type()) != T {
					continue
				}
				for _, b := range fn.Blocks {
					for _, in := range b.Instrs {
						call, ok := in.(*ssa.Call)
						if !ok || call.Call.StaticCallee() != h {
							continue
						}
						for _, a := range call.Call.Args[1:] {
							if d := paramDerived(a); d != "" && !strings.HasPrefix(d, fn.Params[0].Name()+".") && d != fn.Params[0].Name() {
								lifted = append(lifted, fn)
							}
						}
					}
				}
			}
			if len(lifted) > 0 {
				entries = append(entries[:i], entries[i+1:]...)
				for _, l := range lifted {
					dup := false
					for _, e := range entries {
						if e == l {
							dup = true
						}
					}
					if !dup {
						entries = append(entries, l)
					}
				}
				changed = true
				break
			}
		}
	}
	sort.Slice(entries, func(i, j int) bool { return core.FnName(entries[i]) < core.FnName(entries[j]) })
	if len(entries) < 2 {
		r.Fatal("anchor not found: entry points of %s (methods storing a parameter into field %s): found %d", s.typ, s.inputField, len(entries))
		return 0
	}
	// transitive may-read over the call graph, restricted to the package
	reach := map[*ssa.Function]map[*ssa.Function]bool{}
	inPkg := func(f *ssa.Function) bool { return core.InPkgs(f, s.rel) }
	allReach := map[*ssa.Function]bool{}
	for _, e := range entries {
		reach[e] = p.Reachable([]*ssa.Function{e}, inPkg)
		for f := range reach[e] {
			allReach[f] = true
		}
	}
	mayRead := func(root *ssa.Function, f string) bool {
		for g := range p.Reachable([]*ssa.Function{root}, inPkg) {
			if fa.reads[g][f] {
				return true
			}
		}
		return false
	}
	// classify fields
	config := map[string]bool{}
	paired := map[string]bool{}
	for i := 0; i < st.NumFields(); i++ {
		f := st.Field(i).Name()
		writtenInReach, writtenOutside := false, false
		for _, fn := range fns {
			if len(fa.writes[fn][f]) == 0 {
				continue
			}
			nm := outer(fn).Name()
			if nm == "Reset" || nm == "Release" {
				continue
			}
			if allReach[fn] || allReach[outer(fn)] {
				writtenInReach = true
			} else {
				writtenOutside = true
			}
		}
		if !writtenInReach && writtenOutside {
			config[f] = true
		}
		if !writtenInReach && !writtenOutside {
			config[f] = true // only ever set by constructors
		}
	}
	{
		var cfg, ents []string
		for f := range config {
			cfg = append(cfg, f)
		}
		sort.Strings(cfg)
		for _, e := range entries {
			ents = append(ents, e.Name())
		}
		r.Note("%s: entry points %v; configuration fields (never written by code reachable from an entry) %v", s.typ, ents, cfg)
	}
	// entry-assign
	eng := newResetEngine(p)
	eng.assignMode = true
	eng.objType = T
	exp := newExposure(p, eng, T, fns, inPkg)
	cnt := 0
	for _, e := range entries {
		for i := 0; i < st.NumFields(); i++ {
			f := st.Field(i).Name()
			if config[f] {
				continue
			}
			if !mayRead(e, f) {
				continue
			}
			cnt++
			key := s.typ + "." + e.Name() + "|" + f
			bad := exp.firstExposed(e, f)
			if bad == nil {
				r.OK("entry-assign", key, p.FnPos(e), "assigned before the first possible read")
				continue
			}
			// restored by pairing?
			if ok, why := pairedRestore(p, fns, fa, allReach, f); ok {
				paired[f] = true
				r.OK("entry-assign", key, p.Pos(bad.Pos()), "not assigned at entry; restored by a paired defer at every change ("+why+")")
				continue
			}
			r.Violate("entry-assign", key, p.Pos(bad.Pos()), "field "+f+" may be read ("+exp.witness(e, f)+") before "+e.Name()+" assigns it: the value left by the previous use of the object is observed")
		}
	}
	// paired-restore obligations for the fields relying on it
	var pf []string
	for f := range paired {
		pf = append(pf, f)
	}
	sort.Strings(pf)
	for _, f := range pf {
		for _, fn := range fns {
			if !(allReach[fn] || allReach[outer(fn)]) || fn.Parent() != nil {
				continue
			}
			for i, stv := range fa.writes[fn][f] {
				if isResetValue(stv.Val) {
					continue
				}
				key := s.typ + "." + f + "|" + core.FnName(fn) + "#" + itoa(i+1)
				if why, ok := hasPairedDefer(stv, T, f); ok {
					r.OK("paired-restore", key, p.Pos(stv.Pos()), why)
				} else {
					r.Violate("paired-restore", key, p.Pos(stv.Pos()), "field "+f+" is changed without a deferred restore registered in the same block")
				}
			}
		}
	}
	// release-reset: Reset() must reset everything (checked by put-reset through PutX); Release() every per-call field
	for _, name := range []string{"Release", "Reset"} {
		m := p.Method(s.rel, s.typ, name)
		if m == nil || m.Blocks == nil {
			continue
		}
		e2 := newResetEngine(p)
		sum := e2.summary(m, 0)
		for i := 0; i < st.NumFields(); i++ {
			f := st.Field(i).Name()
			if config[f] && name == "Release" {
				continue
			}
			if name == "Reset" {
				continue // covered field by field by put-reset at the Put site that calls Reset
			}
			key := s.typ + "." + name + "|" + f
			if why := putResetScratch[s.typ+"."+f]; why != "" {
				r.OK("release-reset", key, p.FnPos(m), why)
			} else if covered(factSet(sum.gen), T, f) {
				r.OK("release-reset", key, p.FnPos(m), "")
			} else {
				r.Violate("release-reset", key, p.FnPos(m), name+"() leaves per-call field "+f+" untouched")
			}
		}
	}
	// no-global-state
	var rf []*ssa.Function
	for f := range allReach {
		rf = append(rf, f)
	}
	sort.Slice(rf, func(i, j int) bool { return core.FnName(rf[i]) < core.FnName(rf[j]) })
	nglob := 0
	for _, fn := range rf {
		for _, b := range fn.Blocks {
			for _, in := range b.Instrs {
				var g *ssa.Global
				switch x := in.(type) {
				case *ssa.Store:
					g, _ = core.Base(x.Addr).(*ssa.Global)
				case *ssa.MapUpdate:
					if u, ok := x.Map.(*ssa.UnOp); ok {
						g, _ = u.X.(*ssa.Global)
					}
				}
				if g == nil {
					continue
				}
				nglob++
				r.Violate("no-global-state", core.FnName(fn)+"|"+g.Name(), p.Pos(in.Pos()), "function reachable from a "+s.typ+" entry point writes package variable "+g.Name())
			}
		}
	}
	r.OK("no-global-state", s.typ+"|reachable-functions", "-", sprintf("%d functions reachable from %d entries of %s write no package-level variable of %s (%d writes found)", len(rf), len(entries), s.typ, s.rel, nglob))
	return cnt
}

// pairedRestore: every non-reset store to field f in reachable functions has a paired deferred restore.
func pairedRestore(p *core.Prog, fns []*ssa.Function, fa *fieldAccess, reach map[*ssa.Function]bool, f string) (bool, string) {
	n := 0
	for _, fn := range fns {
		if !(reach[fn] || reach[outer(fn)]) || fn.Parent() != nil {
			continue
		}
		for _, stv := range fa.writes[fn][f] {
			if isResetValue(stv.Val) {
				continue
			}
			if _, ok := hasPairedDefer(stv, nil, f); !ok {
				return false, ""
			}
			n++
		}
	}
	if n == 0 {
		return false, ""
	}
	return true, sprintf("%d change sites", n)
}

// hasPairedDefer: after store st (x.f = v) in the same block a Defer registers a
// closure that stores into the same field the inverse (x.f-1 for x.f+1) or a reset value.
func hasPairedDefer(st *ssa.Store, T *types.Named, f string) (string, bool) {
	if why, ok := hasPairedDeferOnly(st, T, f); ok {
		return why, true
	}
	if restoredOnEveryExit(st, f) {
		return "explicit store of a reset value on every path from the change to a return (not panic-safe: that no panic occurs is C01's matter)", true
	}
	return "", false
}

// restoredOnEveryExit: every path from st to a return of its function passes a store of a reset value to the same field.
func restoredOnEveryExit(st *ssa.Store, f string) bool {
	sfa, ok := st.Addr.(*ssa.FieldAddr)
	if !ok {
		return false
	}
	if _, arith := st.Val.(*ssa.BinOp); arith {
		return false // a counter step is undone by the inverse step, not by a reset
	}
	resets := func(in ssa.Instruction) bool {
		cs, ok := in.(*ssa.Store)
		if !ok || !isResetValue(cs.Val) {
			return false
		}
		cfa, ok := cs.Addr.(*ssa.FieldAddr)
		return ok && cfa.Field == sfa.Field && types.Identical(cfa.X.Type(), sfa.X.Type()) && core.FieldName(cfa.X.Type(), cfa.Field) == f
	}
	// rest of the store's block, then successors
	scan := func(ins []ssa.Instruction) (reset, ret bool) {
		for _, in := range ins {
			if resets(in) {
				return true, false
			}
			if _, ok := in.(*ssa.Return); ok {
				return false, true
			}
		}
		return false, false
	}
	b := st.Block()
	idx := 0
	for i, in := range b.Instrs {
		if in == ssa.Instruction(st) {
			idx = i + 1
		}
	}
	if reset, ret := scan(b.Instrs[idx:]); reset {
		return true
	} else if ret {
		return false
	}
	seen := map[*ssa.BasicBlock]bool{}
	work := append([]*ssa.BasicBlock{}, b.Succs...)
	reached := false
	for len(work) > 0 {
		x := work[len(work)-1]
		work = work[:len(work)-1]
		if seen[x] {
			continue
		}
		seen[x] = true
		reset, ret := scan(x.Instrs)
		if ret {
			return false
		}
		if reset {
			reached = true
			continue
		}
		work = append(work, x.Succs...)
	}
	return reached
}

func hasPairedDeferOnly(st *ssa.Store, T *types.Named, f string) (string, bool) {
	b := st.Block()
	after := false
	for _, in := range b.Instrs {
		if in == ssa.Instruction(st) {
			after = true
			continue
		}
		if !after {
			continue
		}
		switch x := in.(type) {
		case *ssa.Defer:
			mc, ok := x.Call.Value.(*ssa.MakeClosure)
			if !ok {
				continue
			}
			cl, _ := mc.Fn.(*ssa.Function)
			if cl == nil {
				continue
			}
			for _, cb := range cl.Blocks {
				for _, ci := range cb.Instrs {
					cs, ok := ci.(*ssa.Store)
					if !ok {
						continue
					}
					cfa, ok := cs.Addr.(*ssa.FieldAddr)
					if !ok || core.FieldName(cfa.X.Type(), cfa.Field) != f {
						continue
					}
					if isResetValue(cs.Val) {
						return "deferred store of a reset value", true
					}
					// inverse arithmetic: original stored (load f) + k, closure stores (load f) - k
					if ob, ok := st.Val.(*ssa.BinOp); ok {
						if nb, ok := cs.Val.(*ssa.BinOp); ok {
							ok1, k1 := constOf(ob.Y)
							ok2, k2 := constOf(nb.Y)
							if ok1 && ok2 && k1 == k2 && ((ob.Op == token.ADD && nb.Op == token.SUB) || (ob.Op == token.SUB && nb.Op == token.ADD)) {
								return "deferred inverse update", true
							}
						}
					}
				}
			}
		case *ssa.Return, *ssa.Panic, *ssa.If, *ssa.Jump:
			return "", false
		case ssa.CallInstruction:
			// a call between the change and the registration could panic and skip the restore
			return "", false
		}
	}
	return "", false
}

func constOf(v ssa.Value) (bool, int64) {
	n, ok := core.ConstInt(v)
	return ok, n
}

// exposure decides "function fn may read field f of the object before having
// assigned it" (an exposed read), as a least fixed point over the call graph.
type exposure struct {
	p     *core.Prog
	eng   *resetEngine
	T     *types.Named
	inPkg func(*ssa.Function) bool
	fns   []*ssa.Function
	res   map[*ssa.Function]*resetResult
	memo  map[string]map[*ssa.Function]ssa.Instruction
}

func newExposure(p *core.Prog, eng *resetEngine, T *types.Named, fns []*ssa.Function, inPkg func(*ssa.Function) bool) *exposure {
	return &exposure{p: p, eng: eng, T: T, inPkg: inPkg, fns: fns, res: map[*ssa.Function]*resetResult{}, memo: map[string]map[*ssa.Function]ssa.Instruction{}}
}

// benignLoad: the loaded value is only measured (len/cap) or truncated to [:0];
// nothing of the previous content is observed.
func benignLoad(v ssa.Value) bool {
	for _, ref := range core.Referrers(v) {
		switch x := ref.(type) {
		case *ssa.DebugRef:
		case *ssa.Call:
			if !(core.IsBuiltinCall(&x.Call, "cap")) {
				return false
			}
		case *ssa.Slice:
			n, ok := core.ConstInt(x.High)
			if x.High == nil || !ok || n != 0 {
				return false
			}
		default:
			return false
		}
	}
	return true
}

func (x *exposure) solve(f string) map[*ssa.Function]ssa.Instruction {
	if m, ok := x.memo[f]; ok {
		return m
	}
	exposed := map[*ssa.Function]ssa.Instruction{}
	type site struct {
		in      ssa.Instruction
		callees []*ssa.Function
	}
	sites := map[*ssa.Function][]site{}
	for _, fn := range x.fns {
		if x.res[fn] == nil {
			x.res[fn] = x.eng.analyse(fn, nil)
		}
		res := x.res[fn]
		for _, b := range fn.Blocks {
			for _, in := range b.Instrs {
				switch v := in.(type) {
				case *ssa.UnOp:
					fa0, ok := v.X.(*ssa.FieldAddr)
					if !ok || v.Op != token.MUL || core.NamedOf(fa0.X.Type()) != x.T || core.FieldName(fa0.X.Type(), fa0.Field) != f {
						continue
					}
					if benignLoad(v) {
						continue
					}
					if _, done := exposed[fn]; !done && !covered(res.At(in), x.T, f) {
						exposed[fn] = in
					}
				case *ssa.Field:
					if core.NamedOf(v.X.Type()) == x.T && core.FieldName(v.X.Type(), v.Field) == f {
						if _, done := exposed[fn]; !done {
							exposed[fn] = in
						}
					}
				case ssa.CallInstruction:
					if _, isDefer := in.(*ssa.Defer); isDefer {
						continue
					}
					var cs []*ssa.Function
					for _, callee := range x.p.Callees(v) {
						if callee != nil && callee.Blocks != nil && x.inPkg(callee) {
							cs = append(cs, callee)
						}
					}
					if len(cs) > 0 && !covered(res.At(in), x.T, f) {
						sites[fn] = append(sites[fn], site{in, cs})
					}
				}
			}
		}
	}
	for changed := true; changed; {
		changed = false
		for _, fn := range x.fns {
			if _, done := exposed[fn]; done {
				continue
			}
			for _, s := range sites[fn] {
				hit := false
				for _, c := range s.callees {
					if _, e := exposed[c]; e {
						hit = true
					}
				}
				if hit {
					exposed[fn] = s.in
					changed = true
					break
				}
			}
		}
	}
	x.memo[f] = exposed
	return exposed
}

func (x *exposure) firstExposed(fn *ssa.Function, f string) ssa.Instruction {
	return x.solve(f)[fn]
}

// witness renders the chain from fn down to the exposed read.
func (x *exposure) witness(fn *ssa.Function, f string) string {
	m := x.solve(f)
	var parts []string
	seen := map[*ssa.Function]bool{}
	for fn != nil && !seen[fn] {
		seen[fn] = true
		in := m[fn]
		if in == nil {
			break
		}
		parts = append(parts, core.FnName(fn)+" at "+x.p.Pos(in.Pos()))
		ci, ok := in.(ssa.CallInstruction)
		if !ok {
			break
		}
		var next *ssa.Function
		for _, c := range x.p.Callees(ci) {
			if m[c] != nil {
				next = c
				break
			}
		}
		fn = next
	}
	return strings.Join(parts, " -> ")
}
