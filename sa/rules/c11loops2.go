package rules

import (
	"go/token"
	"sort"
	"strings"

	"golang.org/x/tools/go/ssa"

	"gosqlxsa/core"
)

// poll-in-list: input-proportional loops of the parser that parse expressions poll the context on every iteration.

// isCtxNonNilTest: the If tests `p.ctx != nil` (returns the successor index taken when a context is set), or -1.
func isCtxSetTest(iff *ssa.If) int {
	bo, ok := iff.Cond.(*ssa.BinOp)
	if !ok || !(core.IsNilConst(bo.X) || core.IsNilConst(bo.Y)) {
		return -1
	}
	o := bo.X
	if core.IsNilConst(o) {
		o = bo.Y
	}
	u, ok := o.(*ssa.UnOp)
	if !ok {
		return -1
	}
	fa, ok := u.X.(*ssa.FieldAddr)
	if !ok || core.FieldName(fa.X.Type(), fa.Field) != "ctx" {
		return -1
	}
	if bo.Op == token.NEQ {
		return 0
	}
	if bo.Op == token.EQL {
		return 1
	}
	return -1
}

// mustPollSet: functions that poll the context on every path from entry to return (assuming a context is set).
func mustPollSet(fns []*ssa.Function) map[*ssa.Function]bool {
	must := map[*ssa.Function]bool{}
	for _, f := range fns {
		must[f] = true // greatest fixed point
	}
	pollsAt := func(in ssa.Instruction) bool {
		if _, ok := isCtxPollInstr(in); ok {
			return true
		}
		if c, ok := in.(*ssa.Call); ok {
			if f := c.Call.StaticCallee(); f != nil && must[f] {
				return true
			}
		}
		return false
	}
	for changed := true; changed; {
		changed = false
		for _, f := range fns {
			if !must[f] || len(f.Blocks) == 0 {
				if len(f.Blocks) == 0 && must[f] {
					must[f] = false
					changed = true
				}
				continue
			}
			// can a return be reached from the entry without a poll?
			seen := map[*ssa.BasicBlock]bool{f.Blocks[0]: true}
			work := []*ssa.BasicBlock{f.Blocks[0]}
			escape := false
			for len(work) > 0 && !escape {
				b := work[len(work)-1]
				work = work[:len(work)-1]
				polled := false
				for _, in := range b.Instrs {
					if pollsAt(in) {
						polled = true
						break
					}
					if _, isRet := in.(*ssa.Return); isRet {
						escape = true
					}
				}
				if polled {
					continue
				}
				only := -1
				if iff, ok := b.Instrs[len(b.Instrs)-1].(*ssa.If); ok {
					only = isCtxSetTest(iff)
				}
				for i, s := range b.Succs {
					if only >= 0 && i != only {
						continue
					}
					if !seen[s] {
						seen[s] = true
						work = append(work, s)
					}
				}
			}
			if escape {
				must[f] = false
				changed = true
			}
		}
	}
	return must
}

func c11PollInLoops(c *Ctx, p *core.Prog) {
	r := c.R
	r.Rule("poll-in-loop", "every loop of the parser whose iterations parse an expression (it calls a parser function returning ast.Expression) polls the context on each iteration, directly or through a callee that polls on every path: otherwise a long list or operator chain is parsed to its end after the context is done")
	fns := p.SrcFuncs("pkg/sql/parser")
	must := mustPollSet(fns)
	nm := 0
	for _, f := range fns {
		if must[f] {
			nm++
		}
	}
	isExprParser := func(f *ssa.Function) bool {
		if f == nil || f.Signature.Recv() == nil || f.Signature.Results().Len() == 0 || !core.InPkgs(f, "pkg/sql/parser") {
			return false
		}
		return strings.HasSuffix(f.Signature.Results().At(0).Type().String(), "ast.Expression")
	}
	n := 0
	for _, fn := range fns {
		sccs := blockSCCs(fn, nil, nil, nil)
		seq := 0
		for _, scc := range sccs {
			in := blockSet(scc)
			var exprCalls []string
			for _, b := range scc {
				for _, ins := range b.Instrs {
					if call, ok := ins.(*ssa.Call); ok && isExprParser(call.Call.StaticCallee()) {
						exprCalls = append(exprCalls, call.Call.StaticCallee().Name())
					}
				}
			}
			if len(exprCalls) == 0 {
				continue
			}
			seq++
			n++
			key := core.FnName(fn) + sprintf("|loop#%d", seq)
			// remove the blocks that certainly poll; a remaining cycle is an iteration without a poll
			polls := func(b *ssa.BasicBlock) bool {
				for _, ins := range b.Instrs {
					if _, ok := isCtxPollInstr(ins); ok {
						return true
					}
					if call, ok := ins.(*ssa.Call); ok {
						if f := call.Call.StaticCallee(); f != nil && must[f] {
							return true
						}
					}
				}
				return false
			}
			rest := blockSCCs(fn, polls, nil, in)
			if len(rest) == 0 {
				r.OK("poll-in-loop", key, p.Pos(scc[0].Instrs[0].Pos()), "every iteration polls")
				continue
			}
			// name the expression parsers on the unpolled cycle
			var names []string
			seen := map[string]bool{}
			for _, b := range rest[0] {
				for _, ins := range b.Instrs {
					if call, ok := ins.(*ssa.Call); ok && isExprParser(call.Call.StaticCallee()) && !seen[call.Call.StaticCallee().Name()] {
						seen[call.Call.StaticCallee().Name()] = true
						names = append(names, call.Call.StaticCallee().Name())
					}
				}
			}
			sort.Strings(names)
			if len(names) == 0 {
				// the unpolled iterations do not parse expressions (identifier lists, punctuation): cheap steps, not this rule's claim
				r.OK("poll-in-loop", key, p.Pos(scc[0].Instrs[0].Pos()), "every iteration that parses an expression polls")
				continue
			}
			pos := fn.Pos()
			for _, b := range rest[0] {
				for _, ins := range b.Instrs {
					if ins.Pos().IsValid() {
						pos = ins.Pos()
						break
					}
				}
				break
			}
			r.Violate("poll-in-loop", key, p.Pos(pos), "an iteration of this loop can run without polling the context (expression parsers on the unpolled cycle: "+strings.Join(names, ", ")+"): after cancellation the rest of the list/chain is still parsed and the call can even return a complete tree with a nil error")
		}
	}
	r.Extra("must_poll_functions", nm)
	r.Floor("poll-in-loop", n, 12, "parser loops that parse expressions")
}
