package rules

import (
	"go/token"
	"go/types"
	"sort"
	"strings"

	"golang.org/x/tools/go/ssa"

	"gosqlxsa/core"
)

func init() { Registry["C20"] = runC20 }

// loopBlocks: the blocks of fn that lie on a cycle.
func loopBlocks(fn *ssa.Function) map[*ssa.BasicBlock]bool {
	out := map[*ssa.BasicBlock]bool{}
	for _, scc := range blockSCCs(fn, nil, nil, nil) {
		for _, b := range scc {
			out[b] = true
		}
	}
	return out
}

// isFieldLoadNamed: v is a load of <recv>.<name>.
func isFieldLoadNamed(v ssa.Value, names ...string) bool {
	u, ok := v.(*ssa.UnOp)
	if !ok || u.Op != token.MUL {
		return false
	}
	fa, ok := u.X.(*ssa.FieldAddr)
	if !ok {
		return false
	}
	f := core.FieldName(fa.X.Type(), fa.Field)
	for _, n := range names {
		if f == n {
			return true
		}
	}
	return false
}

func runC20(c *Ctx) {
	r, p := c.R, c.P
	r.Summary = "C20 (processing cost grows near-linearly with input size): decided clauses = absence of three structural sources of super-linear work on the tokenize/convert/parse/serialise paths: (1) a loop that rescans the input (or its line index) from a fixed start, inside a function that is called from an input-proportional loop; (2) string accumulation with += in a loop (each step copies the accumulated prefix); (3) a whole-input copy string(input) inside a loop on an edge that stays in the loop."
	r.NotCov = []string{"time itself, constant factors, allocation behaviour", "regex engines of ScanSQL", "recursion-driven cost in tree consumers (the collectors' double traversal is reported under C15)"}
	r.Rule("rescan", "a tokenizer function whose loop walks input / lineStarts with a local index (not the tokenizer's own cursor) must not be reachable from a call site inside a per-token or per-comment loop")
	r.Rule("string-accumulation", "no string is built by s = s + x (or s += x) on a loop-carried variable in tokenizer, parser or ast serialiser code; use strings.Builder")
	r.Rule("input-copy", "string(t.input) (or another O(n) conversion of the whole input) inside a loop occurs only on a path that leaves the loop")
	c20Rescan(c, p)
	c20Accum(c, p)
	c20InputCopy(c, p)
	c20SearchInLoop(c, p)
	c20AccumulatorScan(c, p)
}

func c20Rescan(c *Ctx, p *core.Prog) {
	r := c.R
	fns := p.SrcFuncs("pkg/sql/tokenizer")
	// parameters that receive the tokenizer's input / line index at some call site
	inputLike := map[*ssa.Parameter]bool{}
	for _, fn := range fns {
		for _, b := range fn.Blocks {
			for _, in := range b.Instrs {
				ci, ok := in.(ssa.CallInstruction)
				if !ok {
					continue
				}
				callee := ci.Common().StaticCallee()
				if callee == nil || callee.Blocks == nil {
					continue
				}
				for i, a := range ci.Common().Args {
					if isFieldLoadNamed(a, "input", "lineStarts") && i < len(callee.Params) {
						inputLike[callee.Params[i]] = true
					}
				}
			}
		}
	}
	isInputLen := func(v ssa.Value) string {
		l := core.LenOf(v)
		if l == nil {
			return ""
		}
		if isFieldLoadNamed(l, "input", "lineStarts") {
			fa := l.(*ssa.UnOp).X.(*ssa.FieldAddr)
			return core.FieldName(fa.X.Type(), fa.Field)
		}
		if par, ok := l.(*ssa.Parameter); ok && inputLike[par] {
			return "parameter " + par.Name()
		}
		return ""
	}
	// rescanners: functions with a loop over input / lineStarts driven by a local index that starts at a
	// fixed point (0, or len-1 counting down) instead of continuing from the tokenizer's cursor
	rescanner := map[*ssa.Function]string{}
	for _, fn := range fns {
		for _, scc := range blockSCCs(fn, nil, nil, nil) {
			in := blockSet(scc)
			for _, b := range scc {
				iff, ok := b.Instrs[len(b.Instrs)-1].(*ssa.If)
				if !ok {
					continue
				}
				for _, bo := range condConjuncts(iff.Cond, 0) {
					ph, isPhi := bo.X.(*ssa.Phi)
					if !isPhi || !in[ph.Block()] {
						continue
					}
					// ascending: i < len(X)
					if what := isInputLen(bo.Y); what != "" {
						rescanner[fn] = "loop over " + what + " with a local index"
						continue
					}
					// descending: i >= 0 with i starting at len(X)-1
					if k, isC := core.ConstInt(bo.Y); isC && k == 0 && (bo.Op == token.GEQ || bo.Op == token.GTR) {
						for _, e := range ph.Edges {
							if sub, ok := e.(*ssa.BinOp); ok && sub.Op == token.SUB {
								if what := isInputLen(sub.X); what != "" {
									rescanner[fn] = "loop counting down from the end of " + what
								}
							}
						}
					}
				}
			}
		}
	}
	if len(rescanner) == 0 {
		r.OK("rescan", "tokenizer", "-", "no function walks input/lineStarts with a local index")
		return
	}
	// transitive callers inside the package
	inPkg := func(f *ssa.Function) bool { return f != nil && f.Blocks != nil && core.InPkgs(f, "pkg/sql/tokenizer") }
	g := p.Restrict(inPkg)
	reachesRescan := map[*ssa.Function]*ssa.Function{}
	var rsSorted []*ssa.Function
	for rs := range rescanner {
		rsSorted = append(rsSorted, rs)
	}
	sort.Slice(rsSorted, func(i, j int) bool { return rsSorted[i].Name() < rsSorted[j].Name() })
	for _, rs := range rsSorted {
		for f := range g.ReachesIn(rs) {
			if _, ok := reachesRescan[f]; !ok {
				reachesRescan[f] = rs // deterministic: the alphabetically first rescanner reachable from f
			}
		}
	}
	n := 0
	var names []string
	for rs := range rescanner {
		names = append(names, rs.Name())
	}
	sort.Strings(names)
	for _, fn := range fns {
		lb := loopBlocks(fn)
		seen := map[string]bool{}
		for _, b := range fn.Blocks {
			if !lb[b] {
				continue
			}
			for _, in := range b.Instrs {
				call, ok := in.(*ssa.Call)
				if !ok {
					continue
				}
				callee := call.Call.StaticCallee()
				if callee == nil {
					continue
				}
				rs, hit := reachesRescan[callee]
				if !hit || rescanner[fn] != "" && callee == fn {
					continue
				}
				key := core.FnName(fn) + "|" + callee.Name() + "->" + rs.Name()
				if seen[key] {
					continue
				}
				seen[key] = true
				n++
				r.Violate("rescan", key, p.Pos(call.Pos()), "called once per loop iteration, and "+rs.Name()+" ("+rescanner[rs]+") rescans from the start each time: total work is quadratic in the input")
			}
		}
	}
	r.Extra("rescanning_functions", names)
	if n == 0 {
		r.OK("rescan", "tokenizer", "-", "rescanning functions "+strings.Join(names, ", ")+" are not called from inside a loop")
	}
}

func c20Accum(c *Ctx, p *core.Prog) {
	r := c.R
	n := 0
	scanned := 0
	for _, fn := range p.SrcFuncs("pkg/sql/tokenizer", "pkg/sql/parser", "pkg/sql/ast") {
		scanned++
		lb := loopBlocks(fn)
		seq := 0
		for _, b := range fn.Blocks {
			if !lb[b] {
				continue
			}
			for _, in := range b.Instrs {
				bo, ok := in.(*ssa.BinOp)
				if !ok || bo.Op != token.ADD {
					continue
				}
				if bt, ok := bo.Type().Underlying().(*types.Basic); !ok || bt.Info()&types.IsString == 0 {
					continue
				}
				// loop carried: an operand is a phi of this loop fed by (a chain ending in) this value, or a load of a cell this value is stored back into
				if !loopCarried(bo, lb) {
					continue
				}
				n++
				seq++
				r.Violate("string-accumulation", core.FnName(fn)+sprintf("|concat#%d", seq), p.Pos(bo.Pos()), "a string is extended with + on every iteration of a loop: each step copies everything accumulated so far (quadratic in the number of iterations)")
			}
		}
	}
	r.OK("string-accumulation", "scan", "-", sprintf("%d functions scanned, %d loop-carried concatenations", scanned, n))
	r.Floor("string-accumulation", scanned, 300, "functions scanned")
}

func loopCarried(bo *ssa.BinOp, lb map[*ssa.BasicBlock]bool) bool {
	// through phi
	var reaches func(v ssa.Value, target ssa.Value, depth int) bool
	reaches = func(v, target ssa.Value, depth int) bool {
		if depth > 6 {
			return false
		}
		if v == target {
			return true
		}
		switch x := v.(type) {
		case *ssa.Phi:
			for _, e := range x.Edges {
				if reaches(e, target, depth+1) {
					return true
				}
			}
		case *ssa.BinOp:
			if x.Op == token.ADD {
				return reaches(x.X, target, depth+1) || reaches(x.Y, target, depth+1)
			}
		}
		return false
	}
	for _, op := range []ssa.Value{bo.X, bo.Y} {
		if ph, ok := op.(*ssa.Phi); ok && lb[ph.Block()] {
			for _, e := range ph.Edges {
				if reaches(e, bo, 0) {
					return true
				}
			}
		}
		// through a memory cell (local or field): load cell ... store cell, both in the loop
		if ld, ok := op.(*ssa.UnOp); ok && ld.Op == token.MUL {
			for _, ref := range core.Referrers(bo) {
				if st, ok := ref.(*ssa.Store); ok && st.Val == ssa.Value(bo) && lb[st.Block()] && sameAddr(st.Addr, ld.X) {
					return true
				}
			}
		}
	}
	return false
}

func c20InputCopy(c *Ctx, p *core.Prog) {
	r := c.R
	n, bad := 0, 0
	for _, fn := range p.SrcFuncs("pkg/sql/tokenizer") {
		lb := loopBlocks(fn)
		seq := 0
		for _, b := range fn.Blocks {
			if !lb[b] {
				continue
			}
			for _, in := range b.Instrs {
				cv, ok := in.(*ssa.Convert)
				if !ok || !isFieldLoadNamed(cv.X, "input") {
					continue
				}
				n++
				seq++
				key := core.FnName(fn) + sprintf("|string(input)#%d", seq)
				// the block must not be able to reach itself again (i.e. it sits on an exit path)
				stays := false
				for _, s := range b.Succs {
					if core.BlockReaches(s, b) {
						stays = true
					}
				}
				if stays {
					bad++
					r.Violate("input-copy", key, p.Pos(cv.Pos()), "the whole input is converted to a string inside a loop on a path that continues looping: O(n) work per iteration")
				} else {
					r.OK("input-copy", key, p.Pos(cv.Pos()), "on a path that leaves the loop (error return)")
				}
			}
		}
	}
	r.OK("input-copy", "scan", "-", sprintf("%d whole-input conversions inside loop bodies, %d on a looping path", n, bad))
}
