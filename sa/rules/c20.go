package rules

import (
	"go/token"
	"go/types"
	"sort"
	"strings"

	"golang.org/x/tools/go/ssa"

	"gosqlxsa/core"
)

func init() { Registry["C20"] = runC20 }

// loopBlocks: the blocks of fn that lie on a cycle.
func loopBlocks(fn *ssa.Function) map[*ssa.BasicBlock]bool {
	out := map[*ssa.BasicBlock]bool{}
	for _, scc := range blockSCCs(fn, nil, nil, nil) {
		for _, b := range scc {
			out[b] = true
		}
	}
	return out
}

// isFieldLoadNamed: v is a load of <recv>.<name>.
func isFieldLoadNamed(v ssa.Value, names ...string) bool {
	u, ok := v.(*ssa.UnOp)
	if !ok || u.Op != token.MUL {
		return false
	}
	fa, ok := u.X.(*ssa.FieldAddr)
	if !ok {
		return false
	}
	f := core.FieldName(fa.X.Type(), fa.Field)
	for _, n := range names {
		if f == n {
			return true
		}
	}
	return false
}

func runC20(c *Ctx) {
	r, p := c.R, c.P
	r.Summary = "C20 (processing cost grows near-linearly with input size): decided clauses = absence of three structural sources of super-linear work on the tokenize/convert/parse/serialise paths: (1) a loop that rescans the input (or its line index) from a fixed start, inside a function that is called from an input-proportional loop; (2) string accumulation with += in a loop (each step copies the accumulated prefix); (3) a whole-input copy string(input) inside a loop on an edge that stays in the loop."
	r.NotCov = []string{"time itself, constant factors, allocation behaviour", "regex engines of ScanSQL", "recursion-driven cost in tree consumers other than the per-level copy of a loop-built chain (chain-copy); the collectors' double traversal is reported under C15"}
	r.Rule("rescan", "a tokenizer function whose loop walks input / lineStarts with a local index (not the tokenizer's own cursor) must not be reachable from a call site inside a per-token or per-comment loop")
	r.Rule("string-accumulation", "no string is built by s = s + x (or s += x) on a loop-carried variable in tokenizer, parser or ast serialiser code; use strings.Builder")
	r.Rule("memo-kept", "the fields a memo-resumed scan keeps its memo in are written, outside that scan, only by code that no loop of the package reaches (reset between inputs); a write reachable from a per-token loop drops the memo each time and restores the rescan")
	r.Rule("input-copy", "string(t.input) (or another O(n) conversion of the whole input) inside a loop occurs only on a path that leaves the loop")
	c20Rescan(c, p, "pkg/sql/tokenizer", nil)
	c20Accum(c, p, nil, "pkg/sql/tokenizer", "pkg/sql/parser", "pkg/sql/ast")
	c20InputCopy(c, p)
	c20SearchInLoop(c, p)
	c20AccumulatorScan(c, p)
	c20ChainCopy(c, p)
	r.Rule("slice-rescan-in-loop", "in tokenizer, parser, gosqlx and language-server code no call inside a loop passes a loop-invariant slice to a function that walks that parameter from its first element (range loop, or index loop from a constant to len): each iteration would walk the whole list again")
	if nsr := c20SliceRescan(c, p, nil, "pkg/sql/tokenizer", "pkg/sql/parser", "pkg/gosqlx", "pkg/lsp"); nsr == 0 {
		r.OK("slice-rescan-in-loop", "scan", "-", "no call in a loop hands a loop-invariant list to a function that walks it from the start")
	}
	r.Rule("cursor-search-amortised", "in pkg/sql/tokenizer a linear search over input[cursor:] is followed, on every path to a non-failing return, by a cursor advance computed from the search result")
	if ncs := c20CursorSearch(c, p, "pkg/sql/tokenizer", nil); ncs == 0 {
		r.OK("cursor-search-amortised", "scan", "-", "no tokenizer function searches the rest of the input")
	}
	// both rules expect zero reports on the repaired tree: positive controls keep them from passing vacuously
	if c.Controls {
		if cp := c.Control("c20"); cp != nil {
			fired := map[string]bool{}
			c20Rescan(c, cp, "gosqlxsa/controls/c20", fired)
			c20Accum(c, cp, fired, "gosqlxsa/controls/c20")
			r.Control("rescan", fired["(*c20.Scanner).All|locate->locate"] && !fired["(*c20.Scanner).All|locateResumed->locateResumed"] && fired["resumed|(*c20.Scanner).locateResumed|memo"] && fired["(*c20.Scanner).All|locateForgetful->locateForgetful"], "controls/c20 Scanner.All calls locate (rescans, reported), locateResumed (memo read and written back, accepted) and locateForgetful (memo read but not written on the early return, reported)")
			r.Control("memo-kept", fired["memo|(*c20.Scanner).locateResumed|memoCol|(*c20.Scanner).rewind"] && !fired["memo|(*c20.Scanner).locateResumed|memoCol|(*c20.Scanner).Reset"], "controls/c20 Scanner.rewind (drops the memo, called from the loop of All: reported) and Scanner.Reset (not reached from a loop: accepted)")
			r.Control("string-accumulation", fired["c20.joinParts|concat#1"] && !fired["c20.joinBuilder|concat#1"], "controls/c20 joinParts (s += in a loop) and joinBuilder (strings.Builder)")
			c20CursorSearch(c, cp, "gosqlxsa/controls/c20", fired)
			c20SliceRescan(c, cp, fired, "gosqlxsa/controls/c20")
			r.Control("slice-rescan-in-loop", fired["c20.StartsRescanned|startOf#1"] && !fired["c20.StartOnce|startOf#1"], "controls/c20 StartsRescanned (calls startOf per index: reported) and StartOnce (calls it on the way out of the loop: not reported)")
			r.Control("cursor-search-amortised", fired["(*c20.Scanner).peekQuote|search#1"] && !fired["(*c20.Scanner).skipToQuote|search#1"], "controls/c20 Scanner.peekQuote (searches the rest, may return without moving) and skipToQuote (moves to what it found, or fails)")
		}
	}
}

// c20Rescan runs the rescan rule over the functions of package scope; with fired != nil it only records the keys it would
// report (positive control).
func c20Rescan(c *Ctx, p *core.Prog, scope string, fired map[string]bool) {
	r := c.R
	fns := p.SrcFuncs(scope)
	// parameters that receive the tokenizer's input / line index at some call site
	inputLike := map[*ssa.Parameter]bool{}
	for _, fn := range fns {
		for _, b := range fn.Blocks {
			for _, in := range b.Instrs {
				ci, ok := in.(ssa.CallInstruction)
				if !ok {
					continue
				}
				callee := ci.Common().StaticCallee()
				if callee == nil || callee.Blocks == nil {
					continue
				}
				for i, a := range ci.Common().Args {
					if isFieldLoadNamed(a, "input", "lineStarts") && i < len(callee.Params) {
						inputLike[callee.Params[i]] = true
					}
				}
			}
		}
	}
	isInputLen := func(v ssa.Value) string {
		l := core.LenOf(v)
		if l == nil {
			return ""
		}
		if isFieldLoadNamed(l, "input", "lineStarts") {
			fa := l.(*ssa.UnOp).X.(*ssa.FieldAddr)
			return core.FieldName(fa.X.Type(), fa.Field)
		}
		if par, ok := l.(*ssa.Parameter); ok && inputLike[par] {
			return "parameter " + par.Name()
		}
		return ""
	}
	// rescanners: functions with a loop over input / lineStarts driven by a local index that starts at a
	// fixed point (0, or len-1 counting down) instead of continuing from the tokenizer's cursor
	rescanner := map[*ssa.Function]string{}
	resumed := map[string]string{}
	memoFns := map[*ssa.Function]bool{}
	for _, fn := range fns {
		for _, scc := range blockSCCs(fn, nil, nil, nil) {
			in := blockSet(scc)
			for _, b := range scc {
				iff, ok := b.Instrs[len(b.Instrs)-1].(*ssa.If)
				if !ok {
					continue
				}
				for _, bo := range condConjuncts(iff.Cond, 0) {
					ph, isPhi := bo.X.(*ssa.Phi)
					if !isPhi || !in[ph.Block()] {
						continue
					}
					// ascending: i < len(X)
					if what := isInputLen(bo.Y); what != "" {
						if f := memoResumed(fn, ph, in); f != "" {
							resumed[core.FnName(fn)+"|"+f] = p.Pos(ph.Pos())
							memoFns[fn] = true
							continue
						}
						rescanner[fn] = "loop over " + what + " with a local index"
						continue
					}
					// descending: i >= 0 with i starting at len(X)-1
					if k, isC := core.ConstInt(bo.Y); isC && k == 0 && (bo.Op == token.GEQ || bo.Op == token.GTR) {
						for _, e := range ph.Edges {
							if sub, ok := e.(*ssa.BinOp); ok && sub.Op == token.SUB {
								if what := isInputLen(sub.X); what != "" {
									rescanner[fn] = "loop counting down from the end of " + what
								}
							}
						}
					}
				}
			}
		}
	}
	var rk []string
	for k := range resumed {
		rk = append(rk, k)
	}
	sort.Strings(rk)
	if fired != nil {
		for _, k := range rk {
			fired["resumed|"+k] = true
		}
		rk = nil
	}
	for _, k := range rk {
		r.OK("rescan", "resumed|"+k, resumed[k], "the scan starts where the previous call stopped (receiver field read as the start, written with the end on every path out): calls with non-decreasing offsets cost the distance between them")
	}
	if len(rk) > 0 {
		r.Assume("memo-resumed scans (" + strings.Join(rk, ", ") + ") are linear in total when offsets are asked for in non-decreasing order; the tokenizer asks for token start, token end, comment start and comment end in source order, which is read, not proved")
	}
	c20MemoKept(c, p, scope, fns, memoFns, fired)
	if len(rescanner) == 0 {
		if fired == nil {
			r.OK("rescan", "tokenizer", "-", "no function walks input/lineStarts with a local index that restarts on every call")
		}
		return
	}
	// transitive callers inside the package
	inPkg := func(f *ssa.Function) bool { return f != nil && f.Blocks != nil && core.InPkgs(f, scope) }
	g := p.Restrict(inPkg)
	reachesRescan := map[*ssa.Function]*ssa.Function{}
	var rsSorted []*ssa.Function
	for rs := range rescanner {
		rsSorted = append(rsSorted, rs)
	}
	sort.Slice(rsSorted, func(i, j int) bool { return rsSorted[i].Name() < rsSorted[j].Name() })
	for _, rs := range rsSorted {
		for f := range g.ReachesIn(rs) {
			if _, ok := reachesRescan[f]; !ok {
				reachesRescan[f] = rs // deterministic: the alphabetically first rescanner reachable from f
			}
		}
	}
	n := 0
	var names []string
	for rs := range rescanner {
		names = append(names, rs.Name())
	}
	sort.Strings(names)
	for _, fn := range fns {
		lb := loopBlocks(fn)
		seen := map[string]bool{}
		for _, b := range fn.Blocks {
			if !lb[b] {
				continue
			}
			for _, in := range b.Instrs {
				call, ok := in.(*ssa.Call)
				if !ok {
					continue
				}
				callee := call.Call.StaticCallee()
				if callee == nil {
					continue
				}
				rs, hit := reachesRescan[callee]
				if !hit || rescanner[fn] != "" && callee == fn {
					continue
				}
				key := core.FnName(fn) + "|" + callee.Name() + "->" + rs.Name()
				if seen[key] {
					continue
				}
				seen[key] = true
				n++
				if fired != nil {
					fired[key] = true
					continue
				}
				r.Violate("rescan", key, p.Pos(call.Pos()), "called once per loop iteration, and "+rs.Name()+" ("+rescanner[rs]+") rescans from the start each time: total work is quadratic in the input")
			}
		}
	}
	if fired != nil {
		return
	}
	r.Extra("rescanning_functions", names)
	if n == 0 {
		r.OK("rescan", "tokenizer", "-", "rescanning functions "+strings.Join(names, ", ")+" are not called from inside a loop")
	}
}

// c20MemoKept: the fields a memo-resumed scan writes (its memo) are written elsewhere only by code that runs a bounded
// number of times per input: a store in another function that sits in a loop, or whose function is reachable from a call
// site inside a loop of the package, drops the memo once per iteration and makes the next conversion rescan.
func c20MemoKept(c *Ctx, p *core.Prog, scope string, fns []*ssa.Function, memoFns map[*ssa.Function]bool, fired map[string]bool) {
	r := c.R
	var ms []*ssa.Function
	for f := range memoFns {
		ms = append(ms, f)
	}
	sort.Slice(ms, func(i, j int) bool { return core.FnName(ms[i]) < core.FnName(ms[j]) })
	inPkg := func(f *ssa.Function) bool { return f != nil && f.Blocks != nil && core.InPkgs(f, scope) }
	g := p.Restrict(inPkg)
	structOf := func(v ssa.Value) types.Type {
		t := v.Type()
		if pt, ok := t.Underlying().(*types.Pointer); ok {
			return pt.Elem()
		}
		return t
	}
	for _, mf := range ms {
		if len(mf.Params) == 0 {
			continue
		}
		rt := structOf(mf.Params[0])
		group := map[int]bool{}
		for _, b := range mf.Blocks {
			for _, ins := range b.Instrs {
				if st, ok := ins.(*ssa.Store); ok {
					if fa, ok := st.Addr.(*ssa.FieldAddr); ok && types.Identical(structOf(fa.X), rt) {
						group[fa.Field] = true
					}
				}
			}
		}
		n := 0
		for _, fn := range fns {
			if fn == mf || memoFns[fn] { // another memo-resumed scan sharing the fields maintains them itself
				continue
			}
			var lb map[*ssa.BasicBlock]bool
			for _, b := range fn.Blocks {
				for _, ins := range b.Instrs {
					st, ok := ins.(*ssa.Store)
					if !ok {
						continue
					}
					fa, ok := st.Addr.(*ssa.FieldAddr)
					if !ok || !group[fa.Field] || !types.Identical(structOf(fa.X), rt) {
						continue
					}
					if lb == nil {
						lb = loopBlocks(fn)
					}
					key := "memo|" + core.FnName(mf) + "|" + core.FieldName(fa.X.Type(), fa.Field) + "|" + core.FnName(fn)
					why := ""
					if lb[b] {
						why = "the store is inside a loop"
					} else {
						reach := g.ReachesIn(fn)
						reach[fn] = true
					outer:
						for _, caller := range fns {
							clb := loopBlocks(caller)
							for _, cb := range caller.Blocks {
								if !clb[cb] {
									continue
								}
								for _, cin := range cb.Instrs {
									if call, ok := cin.(ssa.CallInstruction); ok {
										if callee := call.Common().StaticCallee(); callee != nil && reach[callee] {
											why = "reached once per iteration of the loop in " + core.FnName(caller) + " (call of " + callee.Name() + " at " + p.Pos(call.Pos()) + ")"
											break outer
										}
									}
								}
							}
						}
					}
					n++
					if fired != nil {
						if why != "" {
							fired[key] = true
						}
						continue
					}
					if why != "" {
						r.Violate("memo-kept", key, p.Pos(st.Pos()), "writes the memo of "+mf.Name()+" outside it, and "+why+": every such write makes the next conversion start over, so the memo no longer bounds the total work")
					} else {
						r.OK("memo-kept", key, p.Pos(st.Pos()), "memo written outside "+mf.Name()+" only by code that no loop of the package reaches (once per input)")
					}
				}
			}
		}
		if n == 0 && fired == nil {
			r.OK("memo-kept", "memo|"+core.FnName(mf)+"|-", "-", "no other function writes the fields "+mf.Name()+" keeps its memo in")
		}
	}
}

// memoResumed: the loop's index starts (on some entry edge) at a field of the receiver, and the index is written back to
// that field on every path from the loop to a return. Returns the field name, or "".
func memoResumed(fn *ssa.Function, ph *ssa.Phi, in map[*ssa.BasicBlock]bool) string {
	if len(fn.Params) == 0 || fn.Signature.Recv() == nil {
		return ""
	}
	recv := fn.Params[0]
	// the receiver itself, or a load of the cell it was spilled to (a closure captures it)
	isRecv := func(v ssa.Value) bool {
		if v == ssa.Value(recv) {
			return true
		}
		if u, ok := v.(*ssa.UnOp); ok && u.Op == token.MUL {
			if al, ok := u.X.(*ssa.Alloc); ok {
				n := 0
				for _, ref := range core.Referrers(al) {
					if st, ok := ref.(*ssa.Store); ok && st.Addr == ssa.Value(al) {
						n++
						if st.Val != ssa.Value(recv) {
							return false
						}
					}
				}
				return n == 1
			}
		}
		return false
	}
	// entry leaves of the index
	var leaves []ssa.Value
	seen := map[ssa.Value]bool{}
	var expand func(v ssa.Value, d int)
	expand = func(v ssa.Value, d int) {
		if seen[v] || d > 6 {
			return
		}
		seen[v] = true
		if q, ok := v.(*ssa.Phi); ok {
			for i, e := range q.Edges {
				if q == ph && in[q.Block().Preds[i]] {
					continue // back edge
				}
				expand(e, d+1)
			}
			return
		}
		leaves = append(leaves, v)
	}
	expand(ph, 0)
	field := -1
	name := ""
	for _, l := range leaves {
		if u, ok := l.(*ssa.UnOp); ok && u.Op == token.MUL {
			if fa, ok := u.X.(*ssa.FieldAddr); ok && isRecv(fa.X) {
				field, name = fa.Field, core.FieldName(fa.X.Type(), fa.Field)
			}
		}
	}
	if field < 0 {
		return ""
	}
	// blocks that write the index (or a merge of it) back to the field
	writes := map[*ssa.BasicBlock]bool{}
	for _, b := range fn.Blocks {
		for _, ins := range b.Instrs {
			st, ok := ins.(*ssa.Store)
			if !ok {
				continue
			}
			fa, ok := st.Addr.(*ssa.FieldAddr)
			if !ok || !isRecv(fa.X) || fa.Field != field {
				continue
			}
			if st.Val == ssa.Value(ph) {
				writes[b] = true
			} else if q, ok := st.Val.(*ssa.Phi); ok {
				for _, e := range q.Edges {
					if e == ssa.Value(ph) {
						writes[b] = true
					}
				}
			}
		}
	}
	if len(writes) == 0 {
		return ""
	}
	// no return is reachable from the loop without passing a write
	seenB := map[*ssa.BasicBlock]bool{}
	work := []*ssa.BasicBlock{ph.Block()}
	for len(work) > 0 {
		b := work[len(work)-1]
		work = work[:len(work)-1]
		if seenB[b] || writes[b] {
			continue
		}
		seenB[b] = true
		if len(b.Instrs) > 0 {
			if _, ok := b.Instrs[len(b.Instrs)-1].(*ssa.Return); ok {
				return ""
			}
		}
		work = append(work, b.Succs...)
	}
	return name
}

func c20Accum(c *Ctx, p *core.Prog, fired map[string]bool, scope ...string) {
	r := c.R
	n := 0
	scanned := 0
	for _, fn := range p.SrcFuncs(scope...) {
		scanned++
		lb := loopBlocks(fn)
		seq := 0
		for _, b := range fn.Blocks {
			if !lb[b] {
				continue
			}
			for _, in := range b.Instrs {
				bo, ok := in.(*ssa.BinOp)
				if !ok || bo.Op != token.ADD {
					continue
				}
				if bt, ok := bo.Type().Underlying().(*types.Basic); !ok || bt.Info()&types.IsString == 0 {
					continue
				}
				// loop carried: an operand is a phi of this loop fed by (a chain ending in) this value, or a load of a cell this value is stored back into
				if !loopCarried(bo, lb) {
					continue
				}
				n++
				seq++
				if fired != nil {
					fired[core.FnName(fn)+sprintf("|concat#%d", seq)] = true
					continue
				}
				r.Violate("string-accumulation", core.FnName(fn)+sprintf("|concat#%d", seq), p.Pos(bo.Pos()), "a string is extended with + on every iteration of a loop: each step copies everything accumulated so far (quadratic in the number of iterations)")
			}
		}
	}
	if fired != nil {
		return
	}
	r.OK("string-accumulation", "scan", "-", sprintf("%d functions scanned, %d loop-carried concatenations", scanned, n))
	r.Floor("string-accumulation", scanned, 300, "functions scanned")
}

func loopCarried(bo *ssa.BinOp, lb map[*ssa.BasicBlock]bool) bool {
	// through phi
	var reaches func(v ssa.Value, target ssa.Value, depth int) bool
	reaches = func(v, target ssa.Value, depth int) bool {
		if depth > 6 {
			return false
		}
		if v == target {
			return true
		}
		switch x := v.(type) {
		case *ssa.Phi:
			for _, e := range x.Edges {
				if reaches(e, target, depth+1) {
					return true
				}
			}
		case *ssa.BinOp:
			if x.Op == token.ADD {
				return reaches(x.X, target, depth+1) || reaches(x.Y, target, depth+1)
			}
		}
		return false
	}
	for _, op := range []ssa.Value{bo.X, bo.Y} {
		if ph, ok := op.(*ssa.Phi); ok && lb[ph.Block()] {
			for _, e := range ph.Edges {
				if reaches(e, bo, 0) {
					return true
				}
			}
		}
		// through a memory cell (local or field): load cell ... store cell, both in the loop
		if ld, ok := op.(*ssa.UnOp); ok && ld.Op == token.MUL {
			for _, ref := range core.Referrers(bo) {
				if st, ok := ref.(*ssa.Store); ok && st.Val == ssa.Value(bo) && lb[st.Block()] && sameAddr(st.Addr, ld.X) {
					return true
				}
			}
		}
	}
	return false
}

func c20InputCopy(c *Ctx, p *core.Prog) {
	r := c.R
	n, bad := 0, 0
	for _, fn := range p.SrcFuncs("pkg/sql/tokenizer") {
		lb := loopBlocks(fn)
		seq := 0
		for _, b := range fn.Blocks {
			if !lb[b] {
				continue
			}
			for _, in := range b.Instrs {
				cv, ok := in.(*ssa.Convert)
				if !ok || !isFieldLoadNamed(cv.X, "input") {
					continue
				}
				n++
				seq++
				key := core.FnName(fn) + sprintf("|string(input)#%d", seq)
				// the block must not be able to reach itself again (i.e. it sits on an exit path)
				stays := false
				for _, s := range b.Succs {
					if core.BlockReaches(s, b) {
						stays = true
					}
				}
				if stays {
					bad++
					r.Violate("input-copy", key, p.Pos(cv.Pos()), "the whole input is converted to a string inside a loop on a path that continues looping: O(n) work per iteration")
				} else {
					r.OK("input-copy", key, p.Pos(cv.Pos()), "on a path that leaves the loop (error return)")
				}
			}
		}
	}
	r.OK("input-copy", "scan", "-", sprintf("%d whole-input conversions inside loop bodies, %d on a looping path", n, bad))
}
