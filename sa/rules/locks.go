package rules

import (
	"go/token"
	"go/types"
	"sort"
	"strings"

	"golang.org/x/tools/go/ssa"

	"gosqlxsa/core"
)

// E6: lock sets. A lock is named by the struct field (or global) holding the
// mutex: "Type.mu" / "pkg.var" / "pkg.var.mu". The analysis is a forward
// must-dataflow per function (locks certainly held), with entry lock sets for
// unexported functions computed as the intersection over their call sites.

type lockState map[string]byte // name -> 'W' or 'R'

func (s lockState) clone() lockState {
	t := lockState{}
	for k, v := range s {
		t[k] = v
	}
	return t
}

func meetLocks(a, b lockState) lockState {
	t := lockState{}
	for k, v := range a {
		if w, ok := b[k]; ok {
			if v == 'R' || w == 'R' {
				t[k] = 'R'
			} else {
				t[k] = 'W'
			}
		}
	}
	return t
}

func sameLocks(a, b lockState) bool {
	if len(a) != len(b) {
		return false
	}
	for k, v := range a {
		if b[k] != v {
			return false
		}
	}
	return true
}

// mutexName names the mutex whose address is v.
func mutexName(v ssa.Value) string {
	switch x := v.(type) {
	case *ssa.FieldAddr:
		n := core.NamedOf(x.X.Type())
		base := "?"
		if n != nil {
			base = n.Obj().Name()
		} else if g, ok := x.X.(*ssa.Global); ok {
			base = g.Name()
		}
		return base + "." + core.FieldName(x.X.Type(), x.Field)
	case *ssa.Global:
		return shortPkg(x.Pkg.Pkg.Path()) + "." + x.Name()
	case *ssa.UnOp:
		return mutexName(x.X)
	case *ssa.Field:
		n := core.NamedOf(x.X.Type())
		if n != nil {
			return n.Obj().Name() + "." + core.FieldName(x.X.Type(), x.Field)
		}
	}
	return ""
}

func isMutexType(t types.Type) bool {
	n := core.NamedOf(t)
	return n != nil && n.Obj().Pkg() != nil && n.Obj().Pkg().Path() == "sync" && (n.Obj().Name() == "Mutex" || n.Obj().Name() == "RWMutex")
}

// lockOp classifies a call as a mutex operation.
func lockOp(cc *ssa.CallCommon) (name string, op string) {
	f := cc.StaticCallee()
	if f == nil || f.Signature.Recv() == nil || !isMutexType(f.Signature.Recv().Type()) || len(cc.Args) == 0 {
		return "", ""
	}
	switch f.Name() {
	case "Lock", "Unlock", "RLock", "RUnlock":
		return mutexName(cc.Args[0]), f.Name()
	}
	return "", ""
}

type lockAnalysis struct {
	p     *core.Prog
	entry map[*ssa.Function]lockState
	in    map[*ssa.Function]map[*ssa.BasicBlock]lockState
	fns   []*ssa.Function
}

func newLockAnalysis(p *core.Prog, fns []*ssa.Function) *lockAnalysis {
	la := &lockAnalysis{p: p, entry: map[*ssa.Function]lockState{}, in: map[*ssa.Function]map[*ssa.BasicBlock]lockState{}, fns: fns}
	// entry lock sets: start with "unknown" (nil = top) for unexported functions that have callers
	top := map[*ssa.Function]bool{}
	for _, fn := range fns {
		if la.hasKnownCallers(fn) {
			top[fn] = true
		} else {
			la.entry[fn] = lockState{}
		}
	}
	for iter := 0; iter < 6; iter++ {
		changed := false
		for _, fn := range fns {
			la.solve(fn, top[fn] && la.entry[fn] == nil)
		}
		// recompute entries
		for _, fn := range fns {
			if !top[fn] {
				continue
			}
			var acc lockState
			n := 0
			node := p.CallGraph().Nodes[fn]
			for _, e := range node.In {
				caller := e.Caller.Func
				if caller == nil || e.Site == nil {
					acc = lockState{}
					n++
					continue
				}
				if _, isDefer := e.Site.(*ssa.Defer); isDefer {
					acc = lockState{}
					n++
					continue
				}
				if _, isGo := e.Site.(*ssa.Go); isGo {
					acc = lockState{}
					n++
					continue
				}
				st := la.at(caller, e.Site)
				if st == nil {
					continue // caller not analysed (yet)
				}
				n++
				if acc == nil {
					acc = st.clone()
				} else {
					acc = meetLocks(acc, st)
				}
			}
			if n == 0 || acc == nil {
				acc = lockState{}
			}
			if old := la.entry[fn]; old == nil || !sameLocks(old, acc) {
				la.entry[fn] = acc
				changed = true
			}
		}
		if !changed {
			break
		}
	}
	for _, fn := range fns {
		if la.entry[fn] == nil {
			la.entry[fn] = lockState{}
		}
		la.solve(fn, false)
	}
	return la
}

func (la *lockAnalysis) hasKnownCallers(fn *ssa.Function) bool {
	if fn.Object() != nil && fn.Object().Exported() {
		return false
	}
	if fn.Parent() != nil {
		return false // closures: analysed with an empty entry set (conservative)
	}
	node := la.p.CallGraph().Nodes[fn]
	if node == nil || len(node.In) == 0 {
		return false
	}
	for _, e := range node.In {
		if e.Caller.Func == nil || !core.InModule(e.Caller.Func) {
			return false
		}
	}
	return true
}

func (la *lockAnalysis) transfer(st lockState, in ssa.Instruction) {
	c, ok := in.(*ssa.Call)
	if !ok {
		return
	}
	name, op := lockOp(&c.Call)
	switch op {
	case "Lock":
		st[name] = 'W'
	case "RLock":
		if st[name] != 'W' {
			st[name] = 'R'
		}
	case "Unlock", "RUnlock":
		delete(st, name)
	}
}

func (la *lockAnalysis) solve(fn *ssa.Function, optimistic bool) {
	if len(fn.Blocks) == 0 {
		return
	}
	ins := map[*ssa.BasicBlock]lockState{}
	start := la.entry[fn]
	if start == nil {
		if !optimistic {
			start = lockState{}
		} else {
			start = lockState{}
		}
	}
	ins[fn.Blocks[0]] = start.clone()
	work := []*ssa.BasicBlock{fn.Blocks[0]}
	for len(work) > 0 {
		b := work[0]
		work = work[1:]
		cur := ins[b].clone()
		for _, in := range b.Instrs {
			la.transfer(cur, in)
		}
		for _, s := range b.Succs {
			if old, ok := ins[s]; ok {
				m := meetLocks(old, cur)
				if sameLocks(m, old) {
					continue
				}
				ins[s] = m
			} else {
				ins[s] = cur.clone()
			}
			work = append(work, s)
		}
	}
	la.in[fn] = ins
}

// at returns the locks held just before instruction at (nil if fn was not analysed).
func (la *lockAnalysis) at(fn *ssa.Function, at ssa.Instruction) lockState {
	ins := la.in[fn]
	if ins == nil {
		return nil
	}
	b := at.Block()
	cur, ok := ins[b]
	if !ok {
		return lockState{}
	}
	cur = cur.clone()
	for _, in := range b.Instrs {
		if in == at {
			break
		}
		la.transfer(cur, in)
	}
	return cur
}

// atExit: locks held at each Return that are not released by a deferred unlock.
func (la *lockAnalysis) leaks(fn *ssa.Function) []string {
	deferred := map[string]bool{}
	for _, b := range fn.Blocks {
		for _, in := range b.Instrs {
			if d, ok := in.(*ssa.Defer); ok {
				if name, op := lockOp(&d.Call); op == "Unlock" || op == "RUnlock" {
					deferred[name] = true
				}
				// defer func() { mu.Unlock() }()
				if mc, ok := d.Call.Value.(*ssa.MakeClosure); ok {
					if cl, _ := mc.Fn.(*ssa.Function); cl != nil {
						for _, cb := range cl.Blocks {
							for _, ci := range cb.Instrs {
								if cc, ok := ci.(*ssa.Call); ok {
									if name, op := lockOp(&cc.Call); op == "Unlock" || op == "RUnlock" {
										deferred[name] = true
									}
								}
							}
						}
					}
				}
			}
		}
	}
	leaked := map[string]bool{}
	entry := la.entry[fn]
	for _, b := range fn.Blocks {
		ret, ok := b.Instrs[len(b.Instrs)-1].(*ssa.Return)
		if !ok {
			continue
		}
		for name := range la.at(fn, ret) {
			if deferred[name] {
				continue
			}
			if _, heldAtEntry := entry[name]; heldAtEntry {
				continue
			}
			leaked[name] = true
		}
	}
	var out []string
	for k := range leaked {
		out = append(out, k)
	}
	sort.Strings(out)
	return out
}

// fieldUse is one access to a struct field.
type fieldUse struct {
	fn    *ssa.Function
	in    ssa.Instruction
	typ   *types.Named
	field string
	write bool
	fresh bool // the object is a fresh allocation of this function (constructor)
	held  lockState
}

// structMutexes: mutex fields of T (by name).
func structMutexes(T *types.Named) []string {
	st, ok := T.Underlying().(*types.Struct)
	if !ok {
		return nil
	}
	var out []string
	for i := 0; i < st.NumFields(); i++ {
		if isMutexType(st.Field(i).Type()) {
			out = append(out, st.Field(i).Name())
		}
	}
	return out
}

func isSyncOrAtomicType(t types.Type) bool {
	n := core.NamedOf(t)
	if n == nil || n.Obj().Pkg() == nil {
		return false
	}
	p := n.Obj().Pkg().Path()
	return p == "sync" || p == "sync/atomic"
}

// collectFieldUses lists accesses to fields of mutex-carrying structs.
func (la *lockAnalysis) collectFieldUses() []fieldUse {
	var out []fieldUse
	for _, fn := range la.fns {
		for _, b := range fn.Blocks {
			for _, in := range b.Instrs {
				fa, ok := in.(*ssa.FieldAddr)
				if !ok {
					continue
				}
				T := core.NamedOf(fa.X.Type())
				if T == nil || len(structMutexes(T)) == 0 {
					continue
				}
				st := core.StructOf(T)
				ft := st.Field(fa.Field).Type()
				if isSyncOrAtomicType(ft) {
					continue
				}
				fresh := false
				if a, isAlloc := fa.X.(*ssa.Alloc); isAlloc && a.Heap {
					fresh = true
				}
				for _, ref := range core.Referrers(fa) {
					u := fieldUse{fn: fn, typ: T, field: st.Field(fa.Field).Name(), fresh: fresh}
					switch r := ref.(type) {
					case *ssa.Store:
						if r.Addr != ssa.Value(fa) {
							continue
						}
						u.write, u.in = true, r
					case *ssa.UnOp:
						u.in = r
						// a loaded map/slice that is then written through is a write to the guarded data
						for _, r2 := range core.Referrers(r) {
							switch w := r2.(type) {
							case *ssa.MapUpdate:
								if w.Map == ssa.Value(r) {
									u.write = true
								}
							case *ssa.Call:
								if core.IsBuiltinCall(&w.Call, "delete") && len(w.Call.Args) > 0 && w.Call.Args[0] == ssa.Value(r) {
									u.write = true
								}
							}
						}
					case *ssa.DebugRef:
						continue
					default:
						if ri, ok := ref.(ssa.Instruction); ok {
							u.in = ri // address taken (e.g. passed to a function): treat as a write
							u.write = true
							if c, isCall := ref.(ssa.CallInstruction); isCall {
								if f := c.Common().StaticCallee(); f != nil && core.FnPkg(f) != nil && core.FnPkg(f).Path() == "sync/atomic" {
									continue // atomic access
								}
							}
						}
					}
					if u.in == nil {
						continue
					}
					u.held = la.at(fn, u.in)
					out = append(out, u)
				}
			}
		}
	}
	return out
}

func heldAny(st lockState, T *types.Named, write bool) (string, bool) {
	for _, m := range structMutexes(T) {
		if mode, ok := st[T.Obj().Name()+"."+m]; ok {
			if !write || mode == 'W' {
				return m, true
			}
		}
	}
	return "", false
}

var _ = strings.TrimSpace
var _ = token.ADD
