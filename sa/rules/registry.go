// Package rules holds one file per property; each registers a function that
// turns the loaded program into obligations.
package rules

import (
	"fmt"
	"sort"

	"gosqlxsa/core"
)

// Ctx is what a property's rule set receives.
type Ctx struct {
	P        *core.Prog
	R        *core.Report
	Tier     string
	SaDir    string // /verif/sa, where the control packages live
	Controls bool   // run positive controls (first configuration only)
	ctl      map[string]*core.Prog
}

// Control loads the positive-control package sa/controls/<name>.
func (c *Ctx) Control(name string) *core.Prog {
	if c.ctl == nil {
		c.ctl = map[string]*core.Prog{}
	}
	if p, ok := c.ctl[name]; ok {
		return p
	}
	p, err := core.Load(core.LoadOpts{Dir: c.SaDir, Patterns: []string{"./controls/" + name + "/..."}, MinPkgs: 1})
	if err != nil {
		c.R.Fatal("control package %s does not load: %v", name, err)
		c.ctl[name] = nil
		return nil
	}
	c.ctl[name] = p
	return p
}

// Registry maps a property id to its rule set.
var Registry = map[string]func(*Ctx){}

// NeedDeps says whether a property needs the whole-program (dependencies included) SSA.
var NeedDeps = map[string]bool{}

// Props lists registered property ids.
func Props() []string {
	var out []string
	for k := range Registry {
		out = append(out, k)
	}
	sort.Strings(out)
	return out
}

// Run runs the rule set of prop, converting panics of the analyser into analysis failures.
func Run(prop string, c *Ctx) {
	f := Registry[prop]
	if f == nil {
		c.R.Fatal("no rule set registered for %s", prop)
		return
	}
	defer func() {
		if e := recover(); e != nil {
			c.R.Fatal("analyser panic in %s: %v", prop, e)
			panic(e)
		}
	}()
	f(c)
}

func sprintf(f string, a ...interface{}) string { return fmt.Sprintf(f, a...) }
