package rules

import (
	"go/types"
	"go/token"
	"sort"
	"strings"

	"golang.org/x/tools/go/ssa"

	"gosqlxsa/core"
)

// E7: clone agreement. A function is normalised to the multiset-free set of
// elements it contains: resolved callees with their constant arguments, field
// stores on the receiver, and comparisons against named limits.

func constArgString(v ssa.Value) string {
	if c, ok := v.(*ssa.Const); ok {
		if c.Value == nil {
			return "nil"
		}
		return c.Value.ExactString()
	}
	return "_"
}

func cloneElements(fn *ssa.Function, withClosures bool) map[string]bool {
	out := map[string]bool{}
	fns := []*ssa.Function{fn}
	if withClosures {
		fns = append(fns, fn.AnonFuncs...)
	}
	for _, f := range fns {
		for _, b := range f.Blocks {
			for _, in := range b.Instrs {
				switch x := in.(type) {
				case ssa.CallInstruction:
					cc := x.Common()
					if _, isB := cc.Value.(*ssa.Builtin); isB {
						continue
					}
					name := ""
					asMethod := false
					if cc.IsInvoke() {
						name = "invoke " + cc.Method.Name()
					} else if callee := cc.StaticCallee(); callee != nil {
						if callee.Parent() != nil {
							continue // closure invocation; its body is included
						}
						// only calls that can influence the result: the module's own functions and error construction.
						// Logging, metrics, timing and formatting helpers of other packages are not part of the clone contract.
						if !core.InModule(callee) && !(core.FnPkg(callee) != nil && core.FnPkg(callee).Path() == "fmt" && callee.Name() == "Errorf") {
							continue
						}
						if pk := core.FnPkg(callee); pk != nil && (strings.HasSuffix(pk.Path(), "/pkg/metrics") || strings.HasSuffix(pk.Path(), "/pkg/sql/monitor")) {
							continue
						}
						// an input-loader helper (unexported method of the same receiver, loop-free, that stores one of its
						// parameters into a receiver field) is part of its caller's body: take its elements instead of the call
						if isLoaderHelper(fn, callee) {
							for k := range cloneElements(callee, false) {
								out[k] = true
							}
							continue
						}
						name = core.FnName(callee)
						// a plain function that takes the clone's receiver as its first parameter is the method
						// `(*T).name` written the other way round: same element
						if callee.Signature.Recv() == nil && fn.Signature.Recv() != nil && len(callee.Params) > 0 && len(cc.Args) > 0 &&
							types.Identical(callee.Params[0].Type(), fn.Signature.Recv().Type()) && cc.Args[0] == ssa.Value(fn.Params[0]) {
							if i := strings.LastIndex(name, "."); i >= 0 {
								name = "(" + strings.TrimSuffix(core.FnName(fn), "."+fn.Name())[1:] + "." + name[i+1:]
								if !strings.HasPrefix(name, "(*") && !strings.HasPrefix(name, "((") {
									name = "(" + strings.TrimPrefix(name, "(")
								}
							}
							asMethod = true
						}
					} else {
						name = "dynamic call"
					}
					var args []string
					for i, a := range cc.Args {
						if i == 0 && (cc.Signature().Recv() != nil && !cc.IsInvoke() || asMethod) {
							continue
						}
						for _, leaf := range argLeaves(a) {
							args = append(args, constArgString(leaf))
						}
					}
					kind := "call "
					if _, isDefer := in.(*ssa.Defer); isDefer {
						kind = "defer "
					}
					out[kind+name+"("+strings.Join(args, ",")+")"] = true
				case *ssa.BinOp:
					// comparisons against limit-sized constants (MaxTokens, MaxInputSize, depth limits): the clones carry the same test
					if el := limitComparison(x); el != "" {
						out[el] = true
					}
				case *ssa.Store:
					if fa, ok := x.Addr.(*ssa.FieldAddr); ok {
						if n := core.NamedOf(fa.X.Type()); n != nil && fn.Signature.Recv() != nil && n == core.NamedOf(fn.Signature.Recv().Type()) {
							out["store "+n.Obj().Name()+"."+core.FieldName(fa.X.Type(), fa.Field)] = true
						}
					}
				}
			}
		}
	}
	return out
}

// limitComparison: `x OP K` with an integer constant K of at least 1000 on one side, written with K on the right.
func limitComparison(x *ssa.BinOp) string {
	flip := map[token.Token]token.Token{token.LSS: token.GTR, token.GTR: token.LSS, token.LEQ: token.GEQ, token.GEQ: token.LEQ, token.EQL: token.EQL, token.NEQ: token.NEQ}
	if _, ok := flip[x.Op]; !ok {
		return ""
	}
	op := x.Op
	k, ok := core.ConstInt(x.Y)
	if !ok {
		if k, ok = core.ConstInt(x.X); !ok {
			return ""
		}
		op = flip[op]
	}
	if k < 1000 && k > -1000 { // small constants are capacity heuristics and loop bounds, not limits
		return ""
	}
	// a limit check: the comparison decides a branch one side of which builds or returns an error
	guardsError := false
	for _, ref := range core.Referrers(x) {
		iff, ok := ref.(*ssa.If)
		if !ok {
			continue
		}
		for _, sc := range iff.Block().Succs {
			for _, in := range sc.Instrs {
				if call, ok := in.(*ssa.Call); ok {
					res := call.Call.Signature().Results()
					for i := 0; i < res.Len(); i++ {
						if n, ok := res.At(i).Type().(*types.Named); ok && n.Obj().Name() == "error" && n.Obj().Pkg() == nil {
							guardsError = true
						}
						if pt, ok := res.At(i).Type().(*types.Pointer); ok {
							if n := core.NamedOf(pt.Elem()); n != nil && n.Obj().Name() == "Error" {
								guardsError = true
							}
						}
					}
				}
			}
		}
	}
	if !guardsError {
		return ""
	}
	return sprintf("compare %s %d", op, k)
}

// cloneDiff returns elements only in a and only in b.
func cloneDiff(a, b map[string]bool) (onlyA, onlyB []string) {
	for k := range a {
		if !b[k] {
			onlyA = append(onlyA, k)
		}
	}
	for k := range b {
		if !a[k] {
			onlyB = append(onlyB, k)
		}
	}
	sort.Strings(onlyA)
	sort.Strings(onlyB)
	return
}

// dumpCloneDiffs is used while developing to list the raw differences.
func dumpCloneDiffs(p *core.Prog, base *ssa.Function, others ...*ssa.Function) []string {
	var out []string
	be := cloneElements(base, true)
	for _, o := range others {
		a, b := cloneDiff(be, cloneElements(o, true))
		out = append(out, core.FnName(base)+" vs "+core.FnName(o)+": only-base="+strings.Join(a, " ; ")+" || only-other="+strings.Join(b, " ; "))
	}
	return out
}

// isLoaderHelper: callee is an unexported, loop-free method of fn's receiver type that stores a parameter into a receiver field.
func isLoaderHelper(fn, callee *ssa.Function) bool {
	if fn.Signature.Recv() == nil || callee.Signature.Recv() == nil || callee == fn || callee.Blocks == nil {
		return false
	}
	if core.NamedOf(fn.Signature.Recv().Type()) == nil || core.NamedOf(fn.Signature.Recv().Type()) != core.NamedOf(callee.Signature.Recv().Type()) {
		return false
	}
	if callee.Object() != nil && callee.Object().Exported() {
		return false
	}
	if len(blockSCCs(callee, nil, nil, nil)) > 0 {
		return false
	}
	for _, b := range callee.Blocks {
		for _, in := range b.Instrs {
			st, ok := in.(*ssa.Store)
			if !ok {
				continue
			}
			fa, ok := st.Addr.(*ssa.FieldAddr)
			if !ok || fa.X != ssa.Value(callee.Params[0]) {
				continue
			}
			if par, ok := st.Val.(*ssa.Parameter); ok && par != callee.Params[0] {
				return true
			}
		}
	}
	return false
}
