package rules

import (
	"go/token"
	"go/types"
	"sort"
	"strings"

	"golang.org/x/tools/go/ssa"

	"gosqlxsa/core"
)

func init() {
	Registry["C07"] = runC07
	Registry["C12"] = runC12
}

// cloneDelta is the declared, audited difference of one clone from its base.
type cloneDelta struct {
	rel, typ, name string
	missing        []string // elements of the base the clone may lack (with reason in why)
	extra          []string // elements the clone may add
	why            string
}

func elemMatch(e string, pats []string) bool {
	for _, p := range pats {
		if e == p || (strings.HasSuffix(p, "*") && strings.HasPrefix(e, strings.TrimSuffix(p, "*"))) {
			return true
		}
	}
	return false
}

func checkClones(c *Ctx, rule string, baseRel, baseTyp, baseName string, deltas []cloneDelta) {
	r, p := c.R, c.P
	base := p.Method(baseRel, baseTyp, baseName)
	if base == nil {
		r.Fatal("anchor not found: %s.%s.%s", baseRel, baseTyp, baseName)
		return
	}
	be := cloneElements(base, true)
	r.Extra("clone_base_"+baseName+"_elements", len(be))
	for _, d := range deltas {
		fn := p.Method(d.rel, d.typ, d.name)
		if fn == nil {
			r.Fatal("anchor not found: clone %s.%s", d.typ, d.name)
			continue
		}
		onlyBase, onlyClone := cloneDiff(be, cloneElements(fn, true))
		n := 0
		for _, e := range onlyBase {
			key := d.name + "|lacks|" + e
			if elemMatch(e, d.missing) {
				r.OK(rule, key, p.FnPos(fn), "declared difference: "+d.why)
			} else {
				n++
				r.Violate(rule, key, p.FnPos(fn), d.name+" does not contain `"+e+"`, which its sibling "+baseName+" performs: the copies of the loop have drifted")
			}
		}
		for _, e := range onlyClone {
			key := d.name + "|adds|" + e
			if elemMatch(e, d.extra) {
				r.OK(rule, key, p.FnPos(fn), "declared difference: "+d.why)
			} else {
				n++
				r.Violate(rule, key, p.FnPos(fn), d.name+" performs `"+e+"`, which its sibling "+baseName+" does not")
			}
		}
		common := 0
		for e := range be {
			if cloneElements(fn, true)[e] {
				common++
			}
		}
		r.OK(rule, d.name+"|common", p.FnPos(fn), sprintf("%d elements shared with %s", common, baseName))
		if common < 4 {
			r.Fatal("clone %s shares only %d elements with %s: not a copy of the loop any more (anchors moved?)", d.name, common, baseName)
		}
	}
}

// c07Converters: every entry point turns tokenizer tokens into parser tokens before parsing. While one loop does that
// (today (*tokenConverter).convert), all entry points see the same parser tokens. A second loop (a "tokens only" fast
// variant) is a copy that has to agree with the first one element for element, like the copies of the statement loop.
func c07Converters(c *Ctx, p *core.Prog) {
	r := c.R
	r.Rule("single-converter", "the loops in pkg/sql/parser that call convertSingleToken (the conversion of tokenizer tokens into parser tokens) agree in their elements: resolved callees with constant arguments and limit comparisons")
	var convs []*ssa.Function
	for _, fn := range p.SrcFuncs("pkg/sql/parser") {
		if fn.Parent() != nil {
			continue
		}
		lb := loopBlocks(fn)
		hit := false
		for _, b := range fn.Blocks {
			if !lb[b] {
				continue
			}
			for _, in := range b.Instrs {
				if call, ok := in.(*ssa.Call); ok {
					if f := call.Call.StaticCallee(); f != nil && f.Name() == "convertSingleToken" {
						hit = true
					}
				}
			}
		}
		if hit {
			convs = append(convs, fn)
		}
	}
	if len(convs) == 0 {
		r.Undecide("single-converter", "anchor", "-", "no loop in pkg/sql/parser calls convertSingleToken: the token conversion has moved; re-audit")
		return
	}
	sort.Slice(convs, func(i, j int) bool {
		// the position-tracking converter is the reference when it is there
		if (convs[i].Name() == "convert") != (convs[j].Name() == "convert") {
			return convs[i].Name() == "convert"
		}
		return core.FnName(convs[i]) < core.FnName(convs[j])
	})
	base := convs[0]
	// what the tokens depend on: the calls and limit tests; how a variant buffers its output is its own business
	onlyCalls := func(m map[string]bool) map[string]bool {
		out := map[string]bool{}
		for k := range m {
			if !strings.HasPrefix(k, "store ") {
				out[k] = true
			}
		}
		return out
	}
	be := onlyCalls(cloneElements(base, true))
	if len(convs) == 1 {
		r.OK("single-converter", core.FnName(base), p.FnPos(base), "the only conversion loop")
		return
	}
	for _, fn := range convs[1:] {
		onlyBase, onlyClone := cloneDiff(be, onlyCalls(cloneElements(fn, true)))
		if len(onlyBase) == 0 && len(onlyClone) == 0 {
			r.OK("single-converter", core.FnName(fn), p.FnPos(fn), "same elements as "+core.FnName(base))
			continue
		}
		for _, e := range onlyBase {
			r.Violate("single-converter", core.FnName(fn)+"|lacks|"+e, p.FnPos(fn), core.FnName(fn)+" converts tokens without `"+e+"`, which "+core.FnName(base)+" performs: entry points that use one see other parser tokens than those that use the other")
		}
		for _, e := range onlyClone {
			r.Violate("single-converter", core.FnName(fn)+"|adds|"+e, p.FnPos(fn), core.FnName(fn)+" performs `"+e+"` while converting tokens, which "+core.FnName(base)+" does not: entry points that use one see other parser tokens than those that use the other")
		}
	}
}

var parseLoopDeltas = []cloneDelta{
	{"pkg/sql/parser", "Parser", "ParseWithPositions",
		[]string{"call errors.IncompleteStatementError(nil,\"\")"},
		[]string{"call (*parser.Parser).currentLocation()", "call errors.IncompleteStatementError(_,\"\")"},
		"the position-tracking variant reports the location of the current token instead of an empty one"},
	{"pkg/sql/parser", "Parser", "ParseContext",
		[]string{"call errors.IncompleteStatementError(nil,\"\")"},
		[]string{"call (*parser.Parser).currentLocation()", "call errors.IncompleteStatementError(_,\"\")", "call fmt.Errorf(\"parsing cancelled: %w\",_)", "call invoke Err()", "call (*parser.Parser).checkContext()", "store Parser.ctx"},
		"context polls, the stored context and its deferred reset"},
	{"pkg/sql/parser", "Parser", "parseWithRecovery",
		[]string{"call (*parser.Parser).checkStrictEmpty()", "call (*parser.Parser).checkStrictEmptySemicolon()", "call errors.InvalidSyntaxError(\"empty statement not allowed in strict mode\"*", "call ast.NewAST()", "call ast.ReleaseAST(_)", "call errors.IncompleteStatementError(nil,\"\")"},
		[]string{"call (*parser.Parser).currentLocation()", "call (*parser.Parser).synchronize()", "call (models.TokenType).String()", "call invoke Error()"},
		"recovery records the error, forces progress and synchronises instead of returning; it returns statements, not a pooled AST, and documents success for empty input"},
}

var tokenizeDeltas = []cloneDelta{
	{"pkg/sql/tokenizer", "Tokenizer", "TokenizeContext", nil, []string{"call invoke Err()"}, "context poll"},
}

func runC07(c *Ctx) {
	r, p := c.R, c.P
	r.Summary = "C07 (all parsing and validation entry points agree): decided clauses = the four copies of the statement loop (Parse, ParseWithPositions, ParseContext, recovery) and the two copies of the token loop agree element-for-element (resolved callees with their constant arguments, receiver field stores) except for an audited, declared delta per copy; every other entry point is a pure delegation: it reaches a tokenizer loop and a parser loop, checks every error a tokenizer/parser/gosqlx callee returns, leaves on the non-nil branch with a non-nil error without re-entering the loop (batch calls stop at the first failing index), and hands the tokenizer's result to the parser unmodified."
	r.NotCov = []string{"equality of the returned trees and codes as values (follows from loop agreement plus C08's no-carried-state only informally)", "the documented blank-input fast paths of Validate/recovery"}
	r.Rule("clone-parse", "ParseWithPositions, ParseContext and parseWithRecovery contain exactly the elements of Parse (callee + constant arguments, receiver field stores) modulo their declared delta")
	r.Rule("clone-tokenize", "TokenizeContext contains exactly the elements of Tokenize plus the context poll; both carry the same limit checks")
	r.Rule("delegate-reach", "every exported parse/validate entry point of pkg/gosqlx and pkg/sql/parser reaches a tokenizer loop and a parser statement loop in the call graph")
	r.Rule("delegate-errors", "in every delegating entry point each error returned by a tokenizer/parser/gosqlx callee is tested; its non-nil branch reaches only returns with a non-nil error and cannot reach the call again (first failure ends a batch)")
	r.Rule("delegate-tokens", "the token slice given to the parser is the value the tokenizer (or the token conversion) returned")
	r.Rule("delegate-input", "the text an entry point hands to the tokenizer (or to another entry point) is its own input parameter, unchanged up to string/[]byte conversion: an entry point that trims, slices or rewrites the text first accepts inputs the others reject and reports positions relative to a different text")
	r.Rule("end-test-fresh", "in every statement loop of pkg/sql/parser the statement parser is called only on paths on which the current token has been compared with EOF since the cursor last moved (a copy that skips semicolons and parses on without looking again rejects `…;;` which its siblings accept)")
	r.Floor("end-test-fresh", c07EndTest(c, p, "end-test-fresh", ""), 2, "statement-parser calls inside loops")
	checkClones(c, "clone-parse", "pkg/sql/parser", "Parser", "Parse", parseLoopDeltas)
	checkClones(c, "clone-tokenize", "pkg/sql/tokenizer", "Tokenizer", "Tokenize", tokenizeDeltas)
	c07Converters(c, p)
	dialectAgreement(c, "dialect-agreement", 2, "pkg/gosqlx", "pkg/sql/parser")
	// delegation
	tokLoops := map[*ssa.Function]bool{}
	parseLoops := map[*ssa.Function]bool{}
	for _, n := range []string{"Tokenize", "TokenizeContext"} {
		if f := p.Method("pkg/sql/tokenizer", "Tokenizer", n); f != nil {
			tokLoops[f] = true
		}
	}
	for _, n := range []string{"Parse", "ParseWithPositions", "ParseContext", "parseWithRecovery"} {
		if f := p.Method("pkg/sql/parser", "Parser", n); f != nil {
			parseLoops[f] = true
		}
	}
	scopeRels := []string{"pkg/gosqlx", "pkg/sql/parser", "pkg/sql/tokenizer"}
	inScope := func(f *ssa.Function) bool { return f != nil && f.Blocks != nil && core.InPkgs(f, scopeRels...) }
	var entries []*ssa.Function
	for _, fn := range p.SrcFuncs("pkg/gosqlx", "pkg/sql/parser") {
		if fn.Parent() != nil || fn.Object() == nil || !fn.Object().Exported() || parseLoops[fn] {
			continue
		}
		if recv := fn.Signature.Recv(); recv != nil {
			if n := core.NamedOf(recv.Type()); n == nil || !n.Obj().Exported() {
				continue
			}
		}
		reach := p.Reachable([]*ssa.Function{fn}, inScope)
		rt, rp := false, false
		for f := range reach {
			if tokLoops[f] {
				rt = true
			}
			if parseLoops[f] {
				rp = true
			}
		}
		if !rp {
			continue // not a parsing entry point
		}
		entries = append(entries, fn)
		if rt || takesTokens(fn) {
			r.OK("delegate-reach", core.FnName(fn), p.FnPos(fn), "")
		} else {
			r.Violate("delegate-reach", core.FnName(fn), p.FnPos(fn), "reaches a parser loop but neither tokenizes nor accepts tokens")
		}
	}
	r.Floor("delegate-reach", len(entries), 10, "delegating entry points")
	ep := newErrProv(p, "pkg/errors", inScope)
	for _, fn := range entries {
		c07Delegation(c, p, ep, fn, inScope)
	}
	// delegate-input
	textSink := map[*ssa.Function]bool{}
	for f := range tokLoops {
		textSink[f] = true
	}
	for _, f := range entries {
		textSink[f] = true
	}
	ni := 0
	for _, fn := range entries {
		seq := map[string]int{}
		for _, b := range fn.Blocks {
			for _, in := range b.Instrs {
				call, ok := in.(*ssa.Call)
				if !ok {
					continue
				}
				callee := call.Call.StaticCallee()
				if callee == nil || !textSink[callee] {
					continue
				}
				for _, a := range call.Call.Args {
					if !isStringOrBytes(a.Type()) {
						continue
					}
					ni++
					seq[callee.Name()]++
					key := core.FnName(fn) + "|" + callee.Name() + sprintf("#%d", seq[callee.Name()])
					if ok, why := inputIdentity(a, 0, map[ssa.Value]bool{}); ok {
						r.OK("delegate-input", key, p.Pos(call.Pos()), "the entry point's own input")
					} else {
						r.Violate("delegate-input", key, p.Pos(call.Pos()), "the text passed to "+callee.Name()+" is not the entry point's input as given ("+why+"): this entry point tokenizes a different text than its siblings")
					}
				}
			}
		}
	}
	r.Floor("delegate-input", ni, 6, "text arguments handed to the tokenizer or to another entry point")
	// delegate-config: parser / tokenizer configuration (With*, Set* of those packages) in an entry point comes from
	// the entry point's own configuration parameters or constants, never from the text being parsed
	r.Rule("delegate-config", "in an entry point, arguments of parser/tokenizer configuration calls (With…/Set… of pkg/sql/parser and pkg/sql/tokenizer) do not depend on the SQL text parameter: an entry point that guesses its configuration from the text parses under different rules than its siblings")
	nc := 0
	for _, fn := range entries {
		var textPars []*ssa.Parameter
		for _, par := range fn.Params {
			if isStringOrBytes(par.Type()) {
				textPars = append(textPars, par)
			}
		}
		seq := 0
		for _, b := range fn.Blocks {
			for _, in := range b.Instrs {
				call, ok := in.(*ssa.Call)
				if !ok {
					continue
				}
				callee := call.Call.StaticCallee()
				if callee == nil || !core.InPkgs(callee, "pkg/sql/parser", "pkg/sql/tokenizer") || !(strings.HasPrefix(callee.Name(), "With") || strings.HasPrefix(callee.Name(), "Set")) {
					continue
				}
				nc++
				seq++
				key := core.FnName(fn) + "|" + callee.Name() + sprintf("#%d", seq)
				bad := ""
				for _, a := range call.Call.Args {
					for _, tp := range textPars {
						// a parameter that is itself the configuration (dialect string) is fine: only parameters that are tokenized count as text
						if !paramIsTokenized(fn, tp, textSink) {
							continue
						}
						if dependsThroughCalls(a, tp, 0, map[ssa.Value]bool{}) {
							bad = "argument of " + callee.Name() + " is computed from the SQL text parameter " + tp.Name()
						}
					}
				}
				if bad == "" {
					r.OK("delegate-config", key, p.Pos(call.Pos()), "configuration from parameters/constants")
				} else {
					r.Violate("delegate-config", key, p.Pos(call.Pos()), bad+": this entry point chooses its dialect/mode from the input, so it accepts or rejects inputs differently from the other entry points")
				}
			}
		}
	}
	r.Extra("config_calls_in_entry_points", nc)
	// delegate-result: the tree an entry point returns is the tree the parser gave it. An entry point that fills in or
	// rewrites a field of the result (attaching comments, positions, defaults) returns a tree its siblings do not.
	r.Rule("delegate-result", "a delegating entry point does not store into the *ast.AST it obtained from the parser (or from another entry point) before returning it: results differ between entry points otherwise")
	nr := 0
	for _, fn := range entries {
		seq := 0
		for _, b := range fn.Blocks {
			for _, in := range b.Instrs {
				st, ok := in.(*ssa.Store)
				if !ok {
					continue
				}
				fa, ok := st.Addr.(*ssa.FieldAddr)
				if !ok {
					continue
				}
				nt := core.NamedOf(core.Deref(fa.X.Type()))
				if nt == nil || nt.Obj().Name() != "AST" || nt.Obj().Pkg() == nil || nt.Obj().Pkg().Name() != "ast" {
					continue
				}
				// the object comes from a call (the parser's result), possibly through a tuple
				v := fa.X
				if ex, ok := v.(*ssa.Extract); ok {
					v = ex.Tuple
				}
				if _, fromCall := v.(*ssa.Call); !fromCall {
					continue
				}
				nr++
				seq++
				r.Violate("delegate-result", core.FnName(fn)+sprintf("|%s#%d", core.FieldName(fa.X.Type(), fa.Field), seq), p.Pos(st.Pos()), "the entry point writes "+core.FieldName(fa.X.Type(), fa.Field)+" of the tree it got from "+calleeName(v.(*ssa.Call))+" before returning it: other entry points return the parser's tree as it is, so the results for the same input differ")
			}
		}
	}
	if nr == 0 {
		r.OK("delegate-result", "scan", "-", sprintf("%d delegating entry points return the parser's tree unmodified", len(entries)))
	}
}

// paramIsTokenized: the parameter (or a conversion of it) is handed to the tokenizer or to another entry point as text.
func paramIsTokenized(fn *ssa.Function, par *ssa.Parameter, sinks map[*ssa.Function]bool) bool {
	for _, b := range fn.Blocks {
		for _, in := range b.Instrs {
			call, ok := in.(*ssa.Call)
			if !ok {
				continue
			}
			callee := call.Call.StaticCallee()
			if callee == nil || !sinks[callee] {
				continue
			}
			for _, a := range call.Call.Args {
				if isStringOrBytes(a.Type()) && dependsThroughCalls(a, par, 0, map[ssa.Value]bool{}) {
					return true
				}
			}
		}
	}
	return false
}

// dependsThroughCalls: v is computed from target, also through function calls (any argument).
func dependsThroughCalls(v, target ssa.Value, depth int, seen map[ssa.Value]bool) bool {
	if v == target {
		return true
	}
	if depth > 10 || seen[v] {
		return false
	}
	seen[v] = true
	in, ok := v.(ssa.Instruction)
	if !ok {
		return false
	}
	if u, ok := v.(*ssa.UnOp); ok {
		if a, ok := u.X.(*ssa.Alloc); ok {
			for _, ref := range core.Referrers(a) {
				if st, ok := ref.(*ssa.Store); ok && st.Addr == ssa.Value(a) && dependsThroughCalls(st.Val, target, depth+1, seen) {
					return true
				}
			}
		}
	}
	// a local that holds a copy of a struct (a by-value parameter spilled for field access)
	if a, ok := v.(*ssa.Alloc); ok {
		for _, ref := range core.Referrers(a) {
			if st, ok := ref.(*ssa.Store); ok && st.Addr == ssa.Value(a) && dependsThroughCalls(st.Val, target, depth+1, seen) {
				return true
			}
		}
	}
	var ops []*ssa.Value
	for _, o := range in.Operands(ops) {
		if *o != nil && dependsThroughCalls(*o, target, depth+1, seen) {
			return true
		}
	}
	return false
}

// inputIdentity: v is a parameter (or an element of a parameter slice in a batch loop), up to string/[]byte conversion.
func inputIdentity(v ssa.Value, depth int, seen map[ssa.Value]bool) (bool, string) {
	if depth > 8 {
		return false, "too deep"
	}
	if seen[v] {
		return true, ""
	}
	seen[v] = true
	switch x := v.(type) {
	case *ssa.Parameter:
		return true, ""
	case *ssa.Convert:
		if isStringOrBytes(x.X.Type()) {
			return inputIdentity(x.X, depth+1, seen)
		}
	case *ssa.ChangeType:
		return inputIdentity(x.X, depth+1, seen)
	case *ssa.Phi:
		for _, e := range x.Edges {
			if ok, why := inputIdentity(e, depth+1, seen); !ok {
				return false, why
			}
		}
		return true, ""
	case *ssa.UnOp:
		switch a := x.X.(type) {
		case *ssa.IndexAddr:
			return inputIdentity(a.X, depth+1, seen) // element of a batch parameter
		case *ssa.Alloc:
			for _, ref := range core.Referrers(a) {
				if st, ok := ref.(*ssa.Store); ok && st.Addr == ssa.Value(a) {
					if ok, why := inputIdentity(st.Val, depth+1, seen); !ok {
						return false, why
					}
				}
			}
			return true, ""
		case *ssa.FreeVar:
			return true, "" // captured variable of the enclosing entry point (checked there)
		}
	case *ssa.Extract:
		// range over a parameter slice: (ok, key, value) tuple of Next
		if nx, ok := x.Tuple.(*ssa.Next); ok {
			if rg, ok := nx.Iter.(*ssa.Range); ok {
				return inputIdentity(rg.X, depth+1, seen)
			}
		}
	case *ssa.Index:
		return inputIdentity(x.X, depth+1, seen)
	case *ssa.Call:
		name := "a function value"
		if f := x.Call.StaticCallee(); f != nil {
			name = f.Name()
			// zero-copy conversions
			if core.FnPkg(f) != nil && core.FnPkg(f).Path() == "unsafe" {
				return true, ""
			}
		}
		return false, "result of " + name + "()"
	case *ssa.Slice:
		if x.Low == nil && x.High == nil {
			return inputIdentity(x.X, depth+1, seen)
		}
		return false, "a sub-slice of the input"
	case *ssa.Const:
		return true, ""
	}
	return false, "computed value " + v.String()
}

func takesTokens(fn *ssa.Function) bool {
	for _, par := range fn.Params {
		if strings.Contains(par.Type().String(), "Token") || strings.Contains(par.Type().String(), "ConversionResult") {
			return true
		}
	}
	return false
}

func c07Delegation(c *Ctx, p *core.Prog, ep *errProv, fn *ssa.Function, inScope func(*ssa.Function) bool) {
	r := c.R
	n := map[string]int{}
	for _, b := range fn.Blocks {
		for _, in := range b.Instrs {
			call, ok := in.(*ssa.Call)
			if !ok {
				continue
			}
			callee := call.Call.StaticCallee()
			if callee == nil || !inScope(callee) || callee.Parent() != nil {
				continue
			}
			res := callee.Signature.Results()
			if res.Len() == 0 || !isErrorType(res.At(res.Len()-1).Type()) {
				continue
			}
			n[callee.Name()]++
			key := core.FnName(fn) + "|" + callee.Name() + sprintf("#%d", n[callee.Name()])
			var e ssa.Value = call
			if res.Len() > 1 {
				e = nil
				for _, ref := range core.Referrers(call) {
					if ex, ok := ref.(*ssa.Extract); ok && ex.Index == res.Len()-1 {
						e = ex
					}
				}
			}
			if e == nil {
				r.Violate("delegate-errors", key, p.Pos(call.Pos()), "the error returned by "+callee.Name()+" is dropped")
				continue
			}
			verdict, detail := errorHandled(ep, fn, call, e)
			if verdict {
				r.OK("delegate-errors", key, p.Pos(call.Pos()), detail)
			} else {
				r.Violate("delegate-errors", key, p.Pos(call.Pos()), detail)
			}
			// token identity: an argument of slice-of-token type must be a call result / parameter, not a re-sliced or rebuilt value
			for _, a := range call.Call.Args {
				if !strings.Contains(a.Type().String(), "[]") || !strings.Contains(a.Type().String(), "Token") {
					continue
				}
				tk := core.FnName(fn) + "|" + callee.Name() + "|tokens"
				switch x := a.(type) {
				case *ssa.Extract, *ssa.Parameter, *ssa.Call:
					r.OK("delegate-tokens", tk, p.Pos(call.Pos()), "")
				case *ssa.UnOp:
					r.OK("delegate-tokens", tk, p.Pos(call.Pos()), "loaded from a variable/field")
				case *ssa.Phi:
					r.OK("delegate-tokens", tk, p.Pos(call.Pos()), "")
				default:
					_ = x
					r.Violate("delegate-tokens", tk, p.Pos(call.Pos()), "the token slice passed on is computed ("+a.String()+"), not the tokenizer's result as returned")
				}
			}
		}
	}
}

// errorHandled: e (the error of call) is returned directly, or tested with the
// non-nil branch leading only to non-nil error returns and never back to the call.
func errorHandled(ep *errProv, fn *ssa.Function, call *ssa.Call, e ssa.Value) (bool, string) {
	tested := false
	for _, ref := range core.Referrers(e) {
		switch x := ref.(type) {
		case *ssa.Return:
			return true, "returned as is"
		case *ssa.BinOp:
			if !(x.Op == token.NEQ || x.Op == token.EQL) || !(core.IsNilConst(x.X) || core.IsNilConst(x.Y)) {
				continue
			}
			for _, r2 := range core.Referrers(x) {
				iff, ok := r2.(*ssa.If)
				if !ok {
					continue
				}
				tested = true
				nb := iff.Block().Succs[0]
				if x.Op == token.EQL {
					nb = iff.Block().Succs[1]
				}
				// explore the non-nil branch
				seen := map[*ssa.BasicBlock]bool{}
				work := []*ssa.BasicBlock{nb}
				for len(work) > 0 {
					b := work[len(work)-1]
					work = work[:len(work)-1]
					if seen[b] {
						continue
					}
					seen[b] = true
					if b == call.Block() {
						return false, "after a failure of " + call.Call.StaticCallee().Name() + " control can reach the call again: a batch does not stop at the first failing item"
					}
					if ret, ok := b.Instrs[len(b.Instrs)-1].(*ssa.Return); ok {
						hasErr := false
						for i := range ret.Results {
							rv := retOperand(ret, i)
							if !isErrorType(rv.Type()) {
								// []error results (recovery API): accept non-nil slices
								if strings.Contains(rv.Type().String(), "[]error") && !core.IsNilConst(rv) {
									hasErr = true
								}
								continue
							}
							allNil := true
							for _, o := range ep.origins(rv) {
								if o.kind != "nil" {
									allNil = false
								}
							}
							if !allNil {
								hasErr = true
							}
						}
						if !hasErr {
							return false, "the failure branch of " + call.Call.StaticCallee().Name() + " reaches a return that reports success"
						}
					}
					work = append(work, b.Succs...)
				}
			}
		case *ssa.Store:
			// stored into a result variable (defer-spilled) – treat as returned
			if _, ok := x.Addr.(*ssa.Alloc); ok {
				tested = true
			}
		case *ssa.MakeInterface, *ssa.Call, *ssa.Slice, *ssa.IndexAddr:
			tested = true
		}
	}
	if !tested {
		return false, "the error of " + call.Call.StaticCallee().Name() + " is never tested or returned"
	}
	return true, "tested; failure branch returns an error and does not re-enter the call"
}

func runC12(c *Ctx) {
	r, p := c.R, c.P
	r.Summary = "C12 (recovery parsing terminates, agrees with strict parsing): decided clauses = termination of the recovery loop and of synchronize() by the loop progress / end-of-input rules (forced-advance idiom recognised: cursor compared with the snapshot taken before parseStatement), together with advance()'s end-of-input behaviour; the recovery loop is a copy of the strict loop up to its declared delta, so a failing statement is reached in the same parser state in both; ParseError is built from the token index captured before parseStatement, guarded by the slice length."
	r.NotCov = []string{"that no good statement is lost and exactly one error is produced per malformed statement (properties of token sequences)", "the location reported inside the error"}
	r.Rule("recovery-loop", "every cycle of parseWithRecovery and synchronize consumes a token per iteration (on the error branch through the guarded forced advance, on the success branch because parseStatement must advance on success) and cannot iterate at end of input")
	r.Rule("recovery-clone", "parseWithRecovery contains the elements of Parse modulo its declared delta (record, force-advance, synchronize; no pooled AST)")
	r.Rule("error-anchor", "ParseError.TokenIdx is the cursor value loaded before parseStatement; TokenType/Literal are read from tokens[that index] under `index < len(tokens)`")
	m, missing := newParserModel(p)
	if m == nil {
		r.Fatal("anchor not found: %s", missing)
		return
	}
	c01AdvanceEOFQuiet(c, m)
	spec := m.spec()
	nl := 0
	for _, name := range []string{"parseWithRecovery", "synchronize"} {
		fn := p.Method("pkg/sql/parser", "Parser", name)
		if fn == nil {
			r.Fatal("anchor not found: (*Parser).%s", name)
			continue
		}
		n, _, fs := checkLoops(fn, spec)
		nl += n
		if n == 0 {
			r.Fatal("%s contains no loop any more", name)
		}
		bad := map[int][]loopFinding{}
		for _, f := range fs {
			bad[f.ordinal] = append(bad[f.ordinal], f)
		}
		for i := 1; i <= n; i++ {
			key := name + sprintf("|loop#%d", i)
			if len(bad[i]) == 0 {
				r.OK("recovery-loop", key, p.FnPos(fn), "")
				continue
			}
			var parts []string
			for _, f := range bad[i] {
				parts = append(parts, f.kind+" cycle near "+p.Pos(f.pos))
			}
			r.Violate("recovery-loop", key, p.Pos(bad[i][0].pos), strings.Join(parts, "; "))
		}
	}
	if ps := p.Method("pkg/sql/parser", "Parser", "parseStatement"); ps != nil {
		if m.onOK[ps] {
			r.OK("recovery-loop", "parseStatement|must-advance-on-success", p.FnPos(ps), "every successful return of parseStatement has consumed at least one token")
		} else {
			r.Violate("recovery-loop", "parseStatement|must-advance-on-success", p.FnPos(ps), "parseStatement can succeed without consuming a token: the statement loops would spin")
		}
	}
	checkClones(c, "recovery-clone", "pkg/sql/parser", "Parser", "Parse", parseLoopDeltas[2:3])
	c12Anchor(c, p, m)
	r.Rule("end-test-fresh", "the recovery loop calls the statement parser only on paths on which the current token has been compared with EOF since the cursor last moved (resynchronisation that ends at the last token must not produce a spurious \"expected statement, got EOF\" error)")
	r.Floor("end-test-fresh", c07EndTest(c, p, "end-test-fresh", "parseWithRecovery"), 1, "statement-parser calls inside the recovery loop")
	c12SyncKeywords(c, p)
	c12SkipLoops(c, p)
}

// c01AdvanceEOFQuiet re-checks advance()'s end-of-input store for C12 (termination depends on it).
func c01AdvanceEOFQuiet(c *Ctx, m *parserModel) {
	c.R.Rule("advance-eof", "advance() turns the current token into EOF once the cursor is past the end of the slice (C01's rule; recovery termination depends on it)")
	c01AdvanceEOF(c, m)
}

func c12Anchor(c *Ctx, p *core.Prog, m *parserModel) {
	r := c.R
	fn := p.Method("pkg/sql/parser", "Parser", "parseWithRecovery")
	if fn == nil {
		return
	}
	var stmtCall *ssa.Call
	for _, b := range fn.Blocks {
		for _, in := range b.Instrs {
			if call, ok := in.(*ssa.Call); ok {
				if isStatementParser(call.Call.StaticCallee(), 0) {
					stmtCall = call
				}
			}
		}
	}
	if stmtCall == nil {
		r.Fatal("anchor not found: call to parseStatement in parseWithRecovery")
		return
	}
	// the snapshot: a load of currentPos in the same block before the call
	var snap ssa.Value
	for _, in := range stmtCall.Block().Instrs {
		if in == ssa.Instruction(stmtCall) {
			break
		}
		if v, ok := in.(ssa.Value); ok && m.isCursorLoad(v) {
			snap = v
		}
	}
	found := false
	var keys []string
	for _, b := range fn.Blocks {
		for _, in := range b.Instrs {
			st, ok := in.(*ssa.Store)
			if !ok {
				continue
			}
			fa, ok := st.Addr.(*ssa.FieldAddr)
			if !ok {
				continue
			}
			n := core.NamedOf(fa.X.Type())
			if n == nil || n.Obj().Name() != "ParseError" {
				continue
			}
			f := core.FieldName(fa.X.Type(), fa.Field)
			switch f {
			case "TokenIdx":
				found = true
				if snap != nil && st.Val == snap {
					r.OK("error-anchor", "ParseError.TokenIdx", p.Pos(st.Pos()), "the cursor value loaded before parseStatement")
				} else {
					r.Violate("error-anchor", "ParseError.TokenIdx", p.Pos(st.Pos()), "TokenIdx is not the cursor value captured before parseStatement ran: the error names a token outside its own statement")
				}
			case "TokenType", "Literal":
				keys = append(keys, f)
				// value must derive from tokens[snap], read under snap < len(tokens); a value assembled in a local first
				// (`var lit string; if start < len(tokens) { lit = tokens[start].Literal }`) arrives as a phi whose other
				// edges are constants
				guardedBlock := func(b *ssa.BasicBlock) bool {
					for _, cd := range core.ControlDeps(b) {
						if bo, ok := cd.If.Cond.(*ssa.BinOp); ok && bo.Op == token.LSS && bo.X == snap && core.LenOf(bo.Y) != nil && cd.Succ == 0 {
							return true
						}
					}
					return false
				}
				var idxBlock func(v ssa.Value, d int) *ssa.BasicBlock
				idxBlock = func(v ssa.Value, d int) *ssa.BasicBlock {
					if d > 8 || v == nil {
						return nil
					}
					switch x := v.(type) {
					case *ssa.IndexAddr:
						if x.Index == snap {
							return x.Block()
						}
					case *ssa.UnOp:
						return idxBlock(x.X, d+1)
					case *ssa.FieldAddr:
						return idxBlock(x.X, d+1)
					case *ssa.Field:
						return idxBlock(x.X, d+1)
					case *ssa.Call:
						for _, a := range x.Call.Args {
							if b := idxBlock(a, d+1); b != nil {
								return b
							}
						}
					}
					return nil
				}
				okIdx, guarded := true, true
				var judge func(v ssa.Value, d int)
				judge = func(v ssa.Value, d int) {
					if ph, isPhi := v.(*ssa.Phi); isPhi && d < 4 {
						for _, e := range ph.Edges {
							if _, isC := e.(*ssa.Const); isC {
								continue
							}
							judge(e, d+1)
						}
						return
					}
					ib := idxBlock(v, 0)
					if ib == nil {
						okIdx = false
						return
					}
					if !guardedBlock(ib) {
						guarded = false
					}
				}
				judge(st.Val, 0)
				switch {
				case okIdx && guarded:
					r.OK("error-anchor", "ParseError."+f, p.Pos(st.Pos()), "tokens[start] under start < len(tokens)")
				case okIdx:
					r.Violate("error-anchor", "ParseError."+f, p.Pos(st.Pos()), "tokens[start] is read without the `start < len(tokens)` guard")
				default:
					r.Violate("error-anchor", "ParseError."+f, p.Pos(st.Pos()), "not taken from the token at the statement's start index")
				}
			}
		}
	}
	sort.Strings(keys)
	if !found {
		// the error is built by a helper (`errors = append(errors, p.newParseError(err, stmtStartPos))`)
		if c12AnchorViaHelper(c, p, fn, stmtCall, snap) {
			return
		}
		r.Fatal("anchor not found: store to ParseError.TokenIdx in parseWithRecovery")
	}
}

// c12AnchorViaHelper: parseWithRecovery hands the construction of the ParseError to a helper. The token the error names
// is then either the statement start passed in (a parameter stored into TokenIdx), or something computed from the
// cursor - which is inside the failed statement only as long as the parser has not resynchronised yet: the helper call
// must come before every call that can move the cursor on the failure path.
func c12AnchorViaHelper(c *Ctx, p *core.Prog, fn *ssa.Function, stmtCall *ssa.Call, snap ssa.Value) bool {
	r := c.R
	isPE := func(t types.Type) bool {
		n := core.NamedOf(core.Deref(t))
		return n != nil && n.Obj().Name() == "ParseError"
	}
	var site *ssa.Call
	for _, b := range fn.Blocks {
		for _, in := range b.Instrs {
			call, ok := in.(*ssa.Call)
			if !ok {
				continue
			}
			h := call.Call.StaticCallee()
			if h == nil || h.Blocks == nil || h.Signature.Results().Len() != 1 || !isPE(h.Signature.Results().At(0).Type()) {
				continue
			}
			site = call
		}
	}
	if site == nil {
		return false
	}
	h := site.Call.StaticCallee()
	// the TokenIdx store inside the helper
	var idxVal ssa.Value
	for _, b := range h.Blocks {
		for _, in := range b.Instrs {
			if st, ok := in.(*ssa.Store); ok {
				if fa, ok := st.Addr.(*ssa.FieldAddr); ok && isPE(fa.X.Type()) && core.FieldName(fa.X.Type(), fa.Field) == "TokenIdx" {
					idxVal = st.Val
				}
			}
		}
	}
	if idxVal == nil {
		return false
	}
	// functions that can move the cursor
	mayAdvance := map[*ssa.Function]bool{}
	if adv := p.Method("pkg/sql/parser", "Parser", "advance"); adv != nil {
		g := p.Restrict(func(f *ssa.Function) bool { return f != nil && f.Blocks != nil && core.InPkgs(f, "pkg/sql/parser") })
		for f := range g.ReachesIn(adv) {
			mayAdvance[f] = true
		}
		mayAdvance[adv] = true
	}
	switch v := idxVal.(type) {
	case *ssa.Parameter:
		k := -1
		for i, q := range h.Params {
			if q == v {
				k = i
			}
		}
		if k >= 0 && k < len(site.Call.Args) && snap != nil && site.Call.Args[k] == snap {
			r.OK("error-anchor", "ParseError.TokenIdx", p.Pos(site.Pos()), "the helper "+h.Name()+" stores the statement's start index, which it is given")
			return true
		}
		r.Violate("error-anchor", "ParseError.TokenIdx", p.Pos(site.Pos()), "the helper "+h.Name()+" stores its parameter "+v.Name()+" into TokenIdx, and that is not the cursor value captured before parseStatement ran")
		return true
	}
	// cursor-derived: reads currentPos itself or through parser methods
	readsCursor := false
	seen := map[ssa.Value]bool{}
	var walk func(v ssa.Value, d int)
	walk = func(v ssa.Value, d int) {
		if d > 8 || v == nil || seen[v] {
			return
		}
		seen[v] = true
		switch x := v.(type) {
		case *ssa.UnOp:
			if fa, ok := x.X.(*ssa.FieldAddr); ok && core.FieldName(fa.X.Type(), fa.Field) == "currentPos" {
				readsCursor = true
			}
			walk(x.X, d+1)
		case *ssa.Call:
			if f := x.Call.StaticCallee(); f != nil && f.Blocks != nil && f.Signature.Recv() != nil {
				for _, b := range f.Blocks {
					for _, in := range b.Instrs {
						if fa, ok := in.(*ssa.FieldAddr); ok && core.FieldName(fa.X.Type(), fa.Field) == "currentPos" {
							readsCursor = true
						}
					}
				}
			}
			for _, a := range x.Call.Args {
				walk(a, d+1)
			}
		case *ssa.BinOp:
			walk(x.X, d+1)
			walk(x.Y, d+1)
		case *ssa.Phi:
			for _, e := range x.Edges {
				walk(e, d+1)
			}
		}
	}
	walk(idxVal, 0)
	if !readsCursor {
		r.Violate("error-anchor", "ParseError.TokenIdx", p.Pos(site.Pos()), "the helper "+h.Name()+" computes TokenIdx from neither the statement's start index nor the cursor")
		return true
	}
	// no cursor-moving call between the failing parseStatement and the helper call, on any path
	moved := ""
	seenB := map[*ssa.BasicBlock]bool{}
	var scan func(b *ssa.BasicBlock, from int) bool // true: reached the site
	scan = func(b *ssa.BasicBlock, from int) bool {
		for i := from; i < len(b.Instrs); i++ {
			in := b.Instrs[i]
			if in == ssa.Instruction(site) {
				return true
			}
			if call, ok := in.(*ssa.Call); ok {
				if f := call.Call.StaticCallee(); f != nil && mayAdvance[f] {
					// a cursor move: does the site still lie ahead?
					if core.BlockReaches(b, site.Block()) {
						moved = f.Name() + " at " + p.Pos(call.Pos())
					}
					return false
				}
			}
		}
		for _, sc := range b.Succs {
			if !seenB[sc] {
				seenB[sc] = true
				if scan(sc, 0) {
					// keep looking on the other successors for a moved path
				}
			}
		}
		return false
	}
	// start on the failure side of the statement parser's error test
	var failBlk *ssa.BasicBlock
	for _, ref := range core.Referrers(stmtCall) {
		ex, ok := ref.(*ssa.Extract)
		if !ok {
			continue
		}
		for _, r2 := range core.Referrers(ex) {
			bo, ok := r2.(*ssa.BinOp)
			if !ok || !(bo.Op == token.NEQ || bo.Op == token.EQL) || !(core.IsNilConst(bo.X) || core.IsNilConst(bo.Y)) {
				continue
			}
			for _, r3 := range core.Referrers(bo) {
				if iff, ok := r3.(*ssa.If); ok {
					k := 0
					if bo.Op == token.EQL {
						k = 1
					}
					failBlk = iff.Block().Succs[k]
				}
			}
		}
	}
	if failBlk != nil {
		seenB[failBlk] = true
		scan(failBlk, 0)
	} else {
		start := 0
		for i, in := range stmtCall.Block().Instrs {
			if in == ssa.Instruction(stmtCall) {
				start = i + 1
			}
		}
		scan(stmtCall.Block(), start)
	}
	if moved == "" {
		r.OK("error-anchor", "ParseError.TokenIdx", p.Pos(site.Pos()), "the helper "+h.Name()+" names the token under the cursor, and it is called before anything moves the cursor past the failed statement")
	} else {
		r.Violate("error-anchor", "ParseError.TokenIdx", p.Pos(site.Pos()), "the helper "+h.Name()+" names the token under the cursor, but on the failure path the cursor has already been moved by "+moved+" when it is called: the error names a token of the following statement")
	}
	return true
}
