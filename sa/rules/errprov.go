package rules

import (
	"go/constant"
	"go/token"
	"go/types"
	"sort"
	"strings"

	"golang.org/x/tools/go/ssa"

	"gosqlxsa/core"
)

// E8: provenance of error values.

var errorType = types.Universe.Lookup("error").Type()

func isErrorType(t types.Type) bool { return types.Identical(t, errorType) }

// errOrigin is one place a returned error value can come from.
type errOrigin struct {
	kind   string // nil, builder, callee, ctx, errorf-bare, errors-new, sentinel, foreign, param, parse-error, unknown
	detail string
	pos    token.Pos
	val    ssa.Value
	fn     *ssa.Function // callee for kind callee / builder
}

type errProv struct {
	p        *core.Prog
	errPkg   string // import path of the structured-error package
	scope    func(*ssa.Function) bool
	errT     *types.Named      // errors.Error
	codeOf   map[string]string // builder function name -> code ("E2001")
	ctlLocal bool
}

func newErrProv(p *core.Prog, errRel string, scope func(*ssa.Function) bool) *errProv {
	ep := &errProv{p: p, scope: scope, codeOf: map[string]string{}}
	pk := p.Pkg(errRel)
	if pk == nil {
		return nil
	}
	ep.errPkg = pk.PkgPath
	if o := pk.Types.Scope().Lookup("Error"); o != nil {
		ep.errT, _ = o.Type().(*types.Named)
	}
	// builder -> code: each function of the package that calls NewError(<const>, …)
	sp := p.SSAPkg(pk)
	for _, m := range sp.Members {
		fn, ok := m.(*ssa.Function)
		if !ok || fn.Blocks == nil {
			continue
		}
		for _, b := range fn.Blocks {
			for _, in := range b.Instrs {
				if c, ok := in.(*ssa.Call); ok {
					if callee := c.Call.StaticCallee(); callee != nil && callee.Name() == "NewError" && len(c.Call.Args) > 0 {
						if s, ok := core.ConstString(c.Call.Args[0]); ok {
							ep.codeOf[fn.Name()] = s
						} else if cv, ok := c.Call.Args[0].(*ssa.ChangeType); ok {
							if s, ok := core.ConstString(cv.X); ok {
								ep.codeOf[fn.Name()] = s
							}
						}
					}
				}
			}
		}
	}
	return ep
}

func (ep *errProv) inErrPkg(fn *ssa.Function) bool {
	pk := core.FnPkg(fn)
	return pk != nil && pk.Path() == ep.errPkg
}

// isStructured: t is *errors.Error.
func (ep *errProv) isStructured(t types.Type) bool {
	return ep.errT != nil && core.NamedOf(t) == ep.errT
}

// origins computes the origins of error value v (backward slice).
func (ep *errProv) origins(v ssa.Value) []errOrigin {
	var out []errOrigin
	ep.walk(v, map[ssa.Value]bool{}, &out)
	return out
}

// storesTo collects every value stored to the cell addr (Alloc or FreeVar), in
// the function that owns it and in its closures / enclosing functions.
func storesTo(cell ssa.Value) []ssa.Value {
	var out []ssa.Value
	switch c := cell.(type) {
	case *ssa.Alloc:
		for _, ref := range core.Referrers(c) {
			switch x := ref.(type) {
			case *ssa.Store:
				if x.Addr == cell {
					out = append(out, x.Val)
				}
			case *ssa.MakeClosure:
				// stores through the captured variable inside the closure
				fn, _ := x.Fn.(*ssa.Function)
				if fn == nil {
					continue
				}
				for i, b := range x.Bindings {
					if b == cell && i < len(fn.FreeVars) {
						out = append(out, storesTo(fn.FreeVars[i])...)
					}
				}
			}
		}
	case *ssa.FreeVar:
		for _, ref := range core.Referrers(c) {
			switch x := ref.(type) {
			case *ssa.Store:
				if x.Addr == cell {
					out = append(out, x.Val)
				}
			case *ssa.MakeClosure:
				fn, _ := x.Fn.(*ssa.Function)
				if fn == nil {
					continue
				}
				for i, b := range x.Bindings {
					if b == cell && i < len(fn.FreeVars) {
						out = append(out, storesTo(fn.FreeVars[i])...)
					}
				}
			}
		}
	}
	return out
}

// outerCell maps a FreeVar to the Alloc bound to it in the enclosing function(s).
func outerCells(fv *ssa.FreeVar) []ssa.Value {
	fn := fv.Parent()
	idx := -1
	for i, f := range fn.FreeVars {
		if f == fv {
			idx = i
		}
	}
	par := fn.Parent()
	if idx < 0 || par == nil {
		return nil
	}
	var out []ssa.Value
	for _, b := range par.Blocks {
		for _, in := range b.Instrs {
			if mc, ok := in.(*ssa.MakeClosure); ok && mc.Fn == fn && idx < len(mc.Bindings) {
				out = append(out, mc.Bindings[idx])
			}
		}
	}
	return out
}

func (ep *errProv) walk(v ssa.Value, seen map[ssa.Value]bool, out *[]errOrigin) {
	if v == nil || seen[v] {
		return
	}
	seen[v] = true
	add := func(kind, detail string, val ssa.Value, fn *ssa.Function) {
		*out = append(*out, errOrigin{kind: kind, detail: detail, pos: val.Pos(), val: val, fn: fn})
	}
	switch x := v.(type) {
	case *ssa.Const:
		if x.IsNil() {
			add("nil", "", v, nil)
		} else {
			add("unknown", "constant", v, nil)
		}
	case *ssa.Phi:
		for _, e := range x.Edges {
			ep.walk(e, seen, out)
		}
	case *ssa.MakeInterface:
		// the result of a call whose static type is a concrete error type other than the structured one (a legacy
		// constructor such as tokenizer.ErrorInvalidNumber): whatever the callee does, the value has no code
		if _, isCall := x.X.(*ssa.Call); isCall && !isErrorType(x.X.Type()) && !ep.isStructured(core.Deref(x.X.Type())) && !ep.isStructured(x.X.Type()) {
			if n := core.NamedOf(core.Deref(x.X.Type())); n != nil {
				if _, isStruct := n.Underlying().(*types.Struct); isStruct {
					add("concrete", n.Obj().Name()+" returned by "+calleeName(x.X.(*ssa.Call)), x.X, nil)
					return
				}
			}
		}
		ep.walk(x.X, seen, out)
	case *ssa.ChangeInterface:
		ep.walk(x.X, seen, out)
	case *ssa.ChangeType:
		ep.walk(x.X, seen, out)
	case *ssa.TypeAssert:
		ep.walk(x.X, seen, out)
	case *ssa.Extract:
		if call, ok := x.Tuple.(*ssa.Call); ok {
			ep.walkCall(call, x.Index, v, seen, out)
			return
		}
		if ta, ok := x.Tuple.(*ssa.TypeAssert); ok {
			ep.walk(ta.X, seen, out)
			return
		}
		add("unknown", "extract of "+x.Tuple.String(), v, nil)
	case *ssa.Call:
		ep.walkCall(x, -1, v, seen, out)
	case *ssa.UnOp:
		if x.Op != token.MUL {
			add("unknown", x.String(), v, nil)
			return
		}
		switch cell := x.X.(type) {
		case *ssa.Alloc:
			vals := storesTo(cell)
			if len(vals) == 0 {
				add("nil", "never assigned", v, nil)
			}
			for _, s := range vals {
				ep.walk(s, seen, out)
			}
		case *ssa.FreeVar:
			n := 0
			for _, oc := range outerCells(cell) {
				for _, s := range storesTo(oc) {
					n++
					ep.walk(s, seen, out)
				}
			}
			for _, s := range storesTo(cell) {
				n++
				ep.walk(s, seen, out)
			}
			if n == 0 {
				add("unknown", "captured variable never assigned", v, nil)
			}
		case *ssa.Global:
			add("sentinel", cell.Name(), v, nil)
		case *ssa.FieldAddr:
			// field of a struct holding an error (ParseError.Cause, Error.Cause)
			add("field", core.FieldName(cell.X.Type(), cell.Field), v, nil)
		default:
			add("unknown", "load of "+x.X.String(), v, nil)
		}
	case *ssa.Alloc:
		// &T{…} composite literal implementing error (ParseError)
		n := core.NamedOf(x.Type())
		name := "?"
		if n != nil {
			name = n.Obj().Name()
		}
		if ep.isStructured(x.Type()) {
			add("builder", "&Error{} literal", v, nil)
			return
		}
		// follow a Cause-like field holding an error
		followed := false
		for _, ref := range core.Referrers(x) {
			if fa, ok := ref.(*ssa.FieldAddr); ok {
				if isErrorType(core.Deref(fa.Type())) {
					for _, r2 := range core.Referrers(fa) {
						if st, ok := r2.(*ssa.Store); ok && st.Addr == ssa.Value(fa) {
							followed = true
							ep.walk(st.Val, seen, out)
						}
					}
				}
			}
		}
		if !followed {
			add("concrete", name, v, nil)
		}
	case *ssa.Parameter:
		add("param", x.Name(), v, nil)
	case *ssa.FreeVar:
		add("param", "captured "+x.Name(), v, nil)
	case *ssa.Global:
		add("sentinel", x.Name(), v, nil)
	default:
		add("unknown", v.String(), v, nil)
	}
}

// wVerbOperands returns, for a constant format, the indices of the variadic
// operands consumed by %w verbs, and the total number of verbs.
func wVerbOperands(format string) (w []int, verbs int) {
	arg := 0
	for i := 0; i < len(format); i++ {
		if format[i] != '%' {
			continue
		}
		i++
		for i < len(format) && strings.ContainsRune("+-# 0123456789.*[]", rune(format[i])) {
			i++
		}
		if i >= len(format) {
			break
		}
		if format[i] == '%' {
			continue
		}
		if format[i] == 'w' {
			w = append(w, arg)
		}
		arg++
		verbs++
	}
	return
}

// variadicOperands returns the values stored into the []any of a variadic call argument.
func variadicOperands(v ssa.Value) []ssa.Value {
	sl, ok := v.(*ssa.Slice)
	if !ok {
		return nil
	}
	arr, ok := sl.X.(*ssa.Alloc)
	if !ok {
		return nil
	}
	type el struct {
		i int64
		v ssa.Value
	}
	var els []el
	for _, ref := range core.Referrers(arr) {
		if ia, ok := ref.(*ssa.IndexAddr); ok {
			idx, _ := core.ConstInt(ia.Index)
			for _, r2 := range core.Referrers(ia) {
				if st, ok := r2.(*ssa.Store); ok && st.Addr == ssa.Value(ia) {
					els = append(els, el{idx, st.Val})
				}
			}
		}
	}
	sort.Slice(els, func(i, j int) bool { return els[i].i < els[j].i })
	var out []ssa.Value
	for _, e := range els {
		out = append(out, e.v)
	}
	return out
}

func (ep *errProv) walkCall(call *ssa.Call, idx int, v ssa.Value, seen map[ssa.Value]bool, out *[]errOrigin) {
	add := func(kind, detail string, fn *ssa.Function) {
		*out = append(*out, errOrigin{kind: kind, detail: detail, pos: call.Pos(), val: v, fn: fn})
	}
	cc := &call.Call
	if cc.IsInvoke() {
		if cc.Method.Name() == "Err" && strings.HasSuffix(cc.Value.Type().String(), "context.Context") {
			add("ctx", "ctx.Err()", nil)
			return
		}
		if cc.Method.Name() == "Unwrap" {
			add("param", "Unwrap()", nil)
			return
		}
		add("unknown", "dynamic call "+cc.Method.Name(), nil)
		return
	}
	callee := cc.StaticCallee()
	if callee == nil {
		add("unknown", "call through function value", nil)
		return
	}
	pk := core.FnPkg(callee)
	path := ""
	if pk != nil {
		path = pk.Path()
	}
	switch {
	case ep.inErrPkg(callee):
		// method chain on *Error: follow the receiver to the constructor
		if callee.Signature.Recv() != nil && len(cc.Args) > 0 && ep.isStructured(cc.Args[0].Type()) {
			ep.walk(cc.Args[0], seen, out)
			return
		}
		add("builder", callee.Name(), callee)
	case path == "fmt" && callee.Name() == "Errorf":
		format, isConst := core.ConstString(cc.Args[0])
		if !isConst {
			add("errorf-bare", "non-constant format", nil)
			return
		}
		ws, _ := wVerbOperands(format)
		if len(ws) == 0 {
			add("errorf-bare", format, nil)
			return
		}
		ops := variadicOperands(cc.Args[1])
		for _, wi := range ws {
			if wi < len(ops) {
				ep.walk(ops[wi], seen, out)
			} else {
				add("unknown", "%w without operand", nil)
			}
		}
	case path == "errors" && callee.Name() == "New":
		msg, _ := core.ConstString(cc.Args[0])
		add("errors-new", msg, nil)
	case path == "errors" && callee.Name() == "Join":
		for _, o := range variadicOperands(cc.Args[0]) {
			ep.walk(o, seen, out)
		}
	case ep.scope(callee):
		add("callee", core.FnName(callee), callee)
	case path == "context" && callee.Name() == "Cause":
		// the reason recorded by whoever cancelled: any error at all, not the context's own Canceled / DeadlineExceeded
		add("foreign", "context.Cause", callee)
	case path == "context":
		add("ctx", callee.Name(), nil)
	default:
		add("foreign", core.FnName(callee), callee)
	}
}

// errorOperands finds, among the operands of a call (including the variadic
// []any and a nested fmt.Sprintf message), the error values that are formatted
// into the new error's text: e passed to a verb, or e.Error().
func (ep *errProv) textErrorOperands(call *ssa.Call) []ssa.Value {
	var out []ssa.Value
	var scan func(v ssa.Value, depth int)
	scan = func(v ssa.Value, depth int) {
		if depth > 4 {
			return
		}
		switch x := v.(type) {
		case *ssa.MakeInterface:
			if isErrorType(x.X.Type()) || ep.isStructured(x.X.Type()) {
				out = append(out, x.X)
				return
			}
			scan(x.X, depth+1)
		case *ssa.ChangeInterface:
			if isErrorType(x.X.Type()) {
				out = append(out, x.X)
			}
		case *ssa.Call:
			if x.Call.IsInvoke() && x.Call.Method.Name() == "Error" && isErrorType(x.Call.Value.Type()) {
				out = append(out, x.Call.Value)
				return
			}
			if c := x.Call.StaticCallee(); c != nil {
				if pk := core.FnPkg(c); pk != nil && pk.Path() == "fmt" && (c.Name() == "Sprintf" || c.Name() == "Sprint") {
					for _, a := range x.Call.Args {
						scan(a, depth+1)
					}
				}
				if c.Name() == "Error" && len(x.Call.Args) == 1 && ep.isStructured(x.Call.Args[0].Type()) {
					out = append(out, x.Call.Args[0])
				}
			}
		case *ssa.Slice:
			for _, o := range variadicOperands(x) {
				scan(o, depth+1)
			}
		case *ssa.BinOp:
			if x.Op == token.ADD {
				scan(x.X, depth+1)
				scan(x.Y, depth+1)
			}
		}
	}
	for _, a := range call.Call.Args {
		scan(a, 0)
	}
	return out
}

// sameErr: a and b denote the same error variable (same SSA value, or loads of the same cell).
func sameErr(a, b ssa.Value) bool {
	if a == b {
		return true
	}
	strip := func(v ssa.Value) ssa.Value {
		for {
			switch x := v.(type) {
			case *ssa.MakeInterface:
				v = x.X
			case *ssa.ChangeInterface:
				v = x.X
			default:
				return v
			}
		}
	}
	a, b = strip(a), strip(b)
	if a == b {
		return true
	}
	return sameVarLoad(a, b)
}

// chainWraps: does the *Error produced by call (and the With… chain hanging off
// it) attach e as its cause?
func (ep *errProv) chainWraps(call *ssa.Call, e ssa.Value) bool {
	callee := call.Call.StaticCallee()
	if callee != nil && callee.Name() == "WrapError" {
		for _, a := range call.Call.Args {
			if sameErr(a, e) {
				return true
			}
		}
	}
	// forward along the method chain
	cur := ssa.Value(call)
	for steps := 0; steps < 8; steps++ {
		var next ssa.Value
		for _, ref := range core.Referrers(cur) {
			c, ok := ref.(*ssa.Call)
			if !ok {
				continue
			}
			m := c.Call.StaticCallee()
			if m == nil || !ep.inErrPkg(m) || len(c.Call.Args) == 0 || c.Call.Args[0] != cur {
				continue
			}
			if m.Name() == "WithCause" && len(c.Call.Args) == 2 && sameErr(c.Call.Args[1], e) {
				return true
			}
			next = c
		}
		if next == nil {
			break
		}
		cur = next
	}
	return false
}

func constKindString(v ssa.Value) (string, bool) {
	c, ok := v.(*ssa.Const)
	if !ok || c.Value == nil || c.Value.Kind() != constant.String {
		return "", false
	}
	return constant.StringVal(c.Value), true
}
