package rules

import (
	"golang.org/x/tools/go/ssa"

	"gosqlxsa/core"
)

// "Certainly initialised" analysis for sync.Once: a forward must-dataflow of the set of Once
// objects whose Do has certainly returned. Do(f) adds the once; a call of a module function adds
// what that function certainly completes on every return (summary); unexported functions start
// with what holds at all their call sites.

type onceAnalysis struct {
	p       *core.Prog
	fns     []*ssa.Function
	summary map[*ssa.Function]lockState
	entry   map[*ssa.Function]lockState
	in      map[*ssa.Function]map[*ssa.BasicBlock]lockState
}

func onceDoName(cc *ssa.CallCommon) string {
	f := cc.StaticCallee()
	if f == nil || f.Name() != "Do" || f.Signature.Recv() == nil || len(cc.Args) < 1 {
		return ""
	}
	if n := core.NamedOf(f.Signature.Recv().Type()); n == nil || n.Obj().Name() != "Once" || n.Obj().Pkg() == nil || n.Obj().Pkg().Path() != "sync" {
		return ""
	}
	return mutexName(cc.Args[0])
}

func (oa *onceAnalysis) transfer(st lockState, in ssa.Instruction) {
	c, ok := in.(*ssa.Call)
	if !ok {
		return
	}
	if n := onceDoName(&c.Call); n != "" {
		st[n] = 'W'
		return
	}
	if f := c.Call.StaticCallee(); f != nil {
		for k := range oa.summary[f] {
			st[k] = 'W'
		}
	}
}

func (oa *onceAnalysis) solve(fn *ssa.Function, start lockState) lockState {
	if len(fn.Blocks) == 0 {
		return lockState{}
	}
	ins := map[*ssa.BasicBlock]lockState{fn.Blocks[0]: start.clone()}
	work := []*ssa.BasicBlock{fn.Blocks[0]}
	for len(work) > 0 {
		b := work[0]
		work = work[1:]
		cur := ins[b].clone()
		for _, in := range b.Instrs {
			oa.transfer(cur, in)
		}
		for _, s := range b.Succs {
			if old, ok := ins[s]; ok {
				m := meetLocks(old, cur)
				if sameLocks(m, old) {
					continue
				}
				ins[s] = m
			} else {
				ins[s] = cur.clone()
			}
			work = append(work, s)
		}
	}
	oa.in[fn] = ins
	// state at returns
	var out lockState
	for _, b := range fn.Blocks {
		if _, ok := b.Instrs[len(b.Instrs)-1].(*ssa.Return); !ok {
			continue
		}
		st, ok := ins[b]
		if !ok {
			continue
		}
		cur := st.clone()
		for _, in := range b.Instrs {
			oa.transfer(cur, in)
		}
		if out == nil {
			out = cur
		} else {
			out = meetLocks(out, cur)
		}
	}
	if out == nil {
		out = lockState{}
	}
	return out
}

func (oa *onceAnalysis) at(fn *ssa.Function, at ssa.Instruction) lockState {
	ins := oa.in[fn]
	if ins == nil {
		return lockState{}
	}
	cur, ok := ins[at.Block()]
	if !ok {
		return lockState{}
	}
	cur = cur.clone()
	for _, in := range at.Block().Instrs {
		if in == at {
			break
		}
		oa.transfer(cur, in)
	}
	return cur
}

func newOnceAnalysis(p *core.Prog, fns []*ssa.Function) *onceAnalysis {
	oa := &onceAnalysis{p: p, fns: fns, summary: map[*ssa.Function]lockState{}, entry: map[*ssa.Function]lockState{}, in: map[*ssa.Function]map[*ssa.BasicBlock]lockState{}}
	// summaries with empty entries (what a call certainly completes, whatever held before)
	for iter := 0; iter < 5; iter++ {
		changed := false
		for _, fn := range fns {
			s := oa.solve(fn, lockState{})
			if old := oa.summary[fn]; old == nil || !sameLocks(old, s) {
				oa.summary[fn] = s
				changed = true
			}
		}
		if !changed {
			break
		}
	}
	// entry states: unexported, non-closure functions whose callers are all known module functions
	la := &lockAnalysis{p: p}
	for _, fn := range fns {
		oa.entry[fn] = lockState{}
	}
	for iter := 0; iter < 5; iter++ {
		for _, fn := range fns {
			oa.solve(fn, oa.entry[fn])
		}
		changed := false
		for _, fn := range fns {
			if !la.hasKnownCallers(fn) {
				continue
			}
			var acc lockState
			for _, e := range p.CallGraph().Nodes[fn].In {
				if e.Site == nil || e.Caller.Func == nil {
					acc = lockState{}
					break
				}
				if _, isGo := e.Site.(*ssa.Go); isGo {
					acc = lockState{}
					break
				}
				st := oa.at(e.Caller.Func, e.Site)
				if acc == nil {
					acc = st
				} else {
					acc = meetLocks(acc, st)
				}
			}
			if acc == nil {
				acc = lockState{}
			}
			if !sameLocks(acc, oa.entry[fn]) {
				oa.entry[fn] = acc
				changed = true
			}
		}
		if !changed {
			break
		}
	}
	for _, fn := range fns {
		oa.solve(fn, oa.entry[fn])
	}
	return oa
}
