package rules

import (
	"go/token"
	"go/types"
	"sort"
	"strings"

	"golang.org/x/tools/go/ssa"

	"gosqlxsa/core"
)

// option-normalisation: an option value (a package-level string flag of the CLI) is either matched exactly
// everywhere or case-insensitively everywhere. When one place normalises it (strings.ToLower / EqualFold) and
// another compares the raw value with ==, a spelling like "JSON" selects the JSON report in one place and
// misses the "quiet for machine-readable formats" decision in the other: text lines end up inside the report.
func c19OptionNormalisation(c *Ctx, p *core.Prog) {
	r := c.R
	r.Rule("option-normalisation", "in cmd/gosqlx/cmd, a package-level string option that is case-normalised somewhere (strings.ToLower/ToUpper/EqualFold on its value) is never compared raw (== / != / switch) with a constant elsewhere")
	type use struct {
		fn  *ssa.Function
		pos token.Pos
	}
	normalised := map[*ssa.Global][]use{}
	raw := map[*ssa.Global][]use{}
	globalOf := func(v ssa.Value) *ssa.Global {
		u, ok := v.(*ssa.UnOp)
		if !ok || u.Op != token.MUL {
			return nil
		}
		g, _ := u.X.(*ssa.Global)
		if g == nil || !isStringOrBytes(core.Deref(g.Type())) {
			return nil
		}
		return g
	}
	for _, fn := range p.SrcFuncs("cmd/gosqlx/cmd") {
		for _, b := range fn.Blocks {
			for _, in := range b.Instrs {
				switch x := in.(type) {
				case *ssa.Call:
					f := x.Call.StaticCallee()
					if f == nil || core.FnPkg(f) == nil || core.FnPkg(f).Path() != "strings" {
						// a helper that receives the raw value and normalises it: one level
						if f != nil && core.InModule(f) && f.Blocks != nil {
							for i, a := range x.Call.Args {
								if g := globalOf(a); g != nil && i < len(f.Params) && paramNormalised(f, f.Params[i]) {
									normalised[g] = append(normalised[g], use{fn, x.Pos()})
								}
							}
						}
						continue
					}
					switch f.Name() {
					case "ToLower", "ToUpper", "EqualFold":
						for _, a := range x.Call.Args {
							if g := globalOf(a); g != nil {
								normalised[g] = append(normalised[g], use{fn, x.Pos()})
							}
						}
					}
				case *ssa.BinOp:
					if x.Op != token.EQL && x.Op != token.NEQ {
						continue
					}
					for _, pair := range [][2]ssa.Value{{x.X, x.Y}, {x.Y, x.X}} {
						if g := globalOf(pair[0]); g != nil {
							if s, ok := core.ConstString(pair[1]); ok && hasLetter(s) {
								raw[g] = append(raw[g], use{fn, x.Pos()})
							}
						}
					}
				}
			}
		}
	}
	var gs []*ssa.Global
	for g := range normalised {
		gs = append(gs, g)
	}
	sort.Slice(gs, func(i, j int) bool { return gs[i].Name() < gs[j].Name() })
	n := 0
	for _, g := range gs {
		n++
		if len(raw[g]) == 0 {
			r.OK("option-normalisation", g.Name(), p.Pos(g.Pos()), "always matched case-insensitively")
			continue
		}
		var where []string
		for _, u := range raw[g] {
			where = append(where, p.Pos(u.pos))
		}
		sort.Strings(where)
		r.Violate("option-normalisation", g.Name(), where[0], "option "+g.Name()+" is case-normalised at "+p.Pos(normalised[g][0].pos)+" but compared raw with a constant at "+strings.Join(where, ", ")+": a differently-cased spelling is accepted by one and missed by the other (e.g. the report format is chosen but quiet mode is not)")
	}
	r.Extra("normalised_options", n)
}

// paramNormalised: the function case-normalises (ToLower/ToUpper/EqualFold) its parameter.
func paramNormalised(f *ssa.Function, par *ssa.Parameter) bool {
	for _, b := range f.Blocks {
		for _, in := range b.Instrs {
			call, ok := in.(*ssa.Call)
			if !ok {
				continue
			}
			g := call.Call.StaticCallee()
			if g == nil || core.FnPkg(g) == nil || core.FnPkg(g).Path() != "strings" {
				continue
			}
			switch g.Name() {
			case "ToLower", "ToUpper", "EqualFold":
				for _, a := range call.Call.Args {
					if a == ssa.Value(par) {
						return true
					}
				}
			}
		}
	}
	return false
}

// c19OptionsAgree: the option structs the commands build from their flag variables. The file path, the stdin path
// and the inline path of one command must translate the same flags into the same fields, otherwise
// `format FILE`, `format < FILE` and `format --check` disagree about the same text; and one flag variable feeding
// two different fields of one literal is a copied line with one name left unchanged.
func c19OptionsAgree(c *Ctx, p *core.Prog) {
	r := c.R
	r.Rule("options-agree", "composite literals of one option struct type in cmd/gosqlx/cmd take each field from the same flag variable at every site (constants may differ), and no flag variable feeds two fields of one literal")
	type site struct {
		fn     *ssa.Function
		pos    token.Pos
		fields map[string]string // field -> global name
	}
	byType := map[string][]site{}
	for _, fn := range p.SrcFuncs("cmd/gosqlx/cmd") {
		for _, b := range fn.Blocks {
			for _, in := range b.Instrs {
				a, ok := in.(*ssa.Alloc)
				if !ok {
					continue
				}
				T := core.NamedOf(core.Deref(a.Type()))
				if T == nil || core.StructOf(T) == nil || T.Obj().Pkg() == nil || !core.PathHasSuffix(T.Obj().Pkg().Path(), "cmd/gosqlx/cmd") {
					continue
				}
				s := site{fn: fn, pos: a.Pos(), fields: map[string]string{}}
				for _, ref := range core.Referrers(a) {
					fa, ok := ref.(*ssa.FieldAddr)
					if !ok {
						continue
					}
					for _, r2 := range core.Referrers(fa) {
						st, ok := r2.(*ssa.Store)
						if !ok || st.Addr != ssa.Value(fa) {
							continue
						}
						if u, ok := st.Val.(*ssa.UnOp); ok {
							if g, ok := u.X.(*ssa.Global); ok {
								s.fields[core.FieldName(fa.X.Type(), fa.Field)] = g.Name()
							}
						}
					}
				}
				if len(s.fields) >= 2 {
					// siblings are the literals of one type in one source file (one command): another command may
					// legitimately fill the same struct from its own flags
					gk := T.Obj().Name() + "@" + filepathBase(p.Pos(a.Pos()))
					byType[gk] = append(byType[gk], s)
				}
			}
		}
	}
	var tns []string
	for k := range byType {
		tns = append(tns, k)
	}
	sort.Strings(tns)
	n := 0
	for _, tn := range tns {
		sites := byType[tn]
		sort.Slice(sites, func(i, j int) bool { return sites[i].pos < sites[j].pos })
		for i, s := range sites {
			n++
			key := strings.SplitN(tn, "@", 2)[0] + "|" + core.FnName(s.fn) + sprintf("#%d", i+1)
			var probs []string
			// one variable, two fields
			used := map[string][]string{}
			for f, g := range s.fields {
				used[g] = append(used[g], f)
			}
			for g, fs := range used {
				if len(fs) > 1 {
					sort.Strings(fs)
					probs = append(probs, "flag variable "+g+" is written into the fields "+strings.Join(fs, " and "))
				}
			}
			// disagreement with the majority of sibling sites
			for f, g := range s.fields {
				count := map[string]int{}
				for _, o := range sites {
					if og, ok := o.fields[f]; ok {
						count[og]++
					}
				}
				best, bestN := g, 0
				for og, cn := range count {
					if cn > bestN || (cn == bestN && og < best) {
						best, bestN = og, cn
					}
				}
				if best != g && count[best] > count[g] {
					probs = append(probs, "field "+f+" is taken from "+g+" here but from "+best+" at the other "+sprintf("%d", count[best])+" site(s)")
				}
			}
			sort.Strings(probs)
			if len(probs) == 0 {
				r.OK("options-agree", key, p.Pos(s.pos), sprintf("%d fields from flag variables", len(s.fields)))
			} else {
				r.Violate("options-agree", key, p.Pos(s.pos), strings.Join(probs, "; ")+": this code path handles the same command-line options differently from its siblings")
			}
		}
	}
	r.Extra("option_literals", n)
}

// filepathBase: file name of a "path/file.go:line" position string.
func filepathBase(pos string) string {
	if i := strings.LastIndex(pos, "/"); i >= 0 {
		pos = pos[i+1:]
	}
	if i := strings.Index(pos, ":"); i >= 0 {
		pos = pos[:i]
	}
	return pos
}

// c19WalkSkipDir: the CLI's verdict covers the files its directory walk hands out. filepath.Walk / WalkDir treat
// SkipDir returned for a *file* as "skip the rest of this directory", so a callback that returns it for anything
// that is not a directory silently drops the sibling files that sort after the entry.
func c19WalkSkipDir(c *Ctx, p *core.Prog, scope []string, fired map[string]bool) int {
	r := c.R
	n := 0
	isSkipDir := func(v ssa.Value) bool {
		u, ok := v.(*ssa.UnOp)
		if !ok {
			return false
		}
		g, ok := u.X.(*ssa.Global)
		return ok && g.Name() == "SkipDir" && g.Pkg != nil && (g.Pkg.Pkg.Path() == "path/filepath" || g.Pkg.Pkg.Path() == "io/fs")
	}
	for _, fn := range p.SrcFuncs(scope...) {
		seq := 0
		for _, b := range fn.Blocks {
			for _, in := range b.Instrs {
				// the value may be returned directly or stored into a spilled result first
				var v ssa.Value
				switch x := in.(type) {
				case *ssa.Return:
					for _, rv := range x.Results {
						if isSkipDir(rv) {
							v = rv
						}
					}
				case *ssa.Store:
					if _, isAlloc := x.Addr.(*ssa.Alloc); isAlloc && isSkipDir(x.Val) {
						v = x.Val
					}
				}
				if v == nil {
					continue
				}
				n++
				seq++
				key := core.FnName(fn) + sprintf("|SkipDir#%d", seq)
				guarded := false
				for _, cd := range core.ControlDeps(b) {
					call, ok := cd.If.Cond.(*ssa.Call)
					if !ok || cd.Succ != 0 {
						continue
					}
					name := ""
					if call.Call.IsInvoke() {
						name = call.Call.Method.Name()
					} else if f := call.Call.StaticCallee(); f != nil {
						name = f.Name()
					}
					if name == "IsDir" {
						guarded = true
					}
				}
				if fired != nil {
					if !guarded {
						fired[key] = true
					}
					continue
				}
				if guarded {
					r.OK("walk-skipdir", key, p.Pos(in.Pos()), "returned only for a directory")
				} else {
					r.Violate("walk-skipdir", key, p.Pos(in.Pos()), "filepath.SkipDir is returned without the entry having been tested with IsDir(): returned for a file it makes the walk skip the remaining files of that directory, which are then neither processed nor reported")
				}
			}
		}
	}
	return n
}

// c19FormatterEntryReset: the CLI's SQLFormatter is an object with mutable layout state (the indentation level). The
// same options and the same file must give the same text whether the formatter is fresh or has formatted (or failed to
// format) another file before: Format assigns every such field before anything reads it.
func c19FormatterEntryReset(c *Ctx, p *core.Prog) {
	r := c.R
	r.Rule("formatter-entry-reset", "(*SQLFormatter).Format in cmd/gosqlx/cmd assigns every scalar field that its methods change (indentation level, …) before the first read on every path: the output for a file does not depend on the files formatted before it")
	rel := "cmd/gosqlx/cmd"
	pk := p.Pkg(rel)
	if pk == nil {
		r.Undecide("formatter-entry-reset", "anchor", "-", "package "+rel+" not found")
		return
	}
	obj := pk.Types.Scope().Lookup("SQLFormatter")
	entry := p.Method(rel, "SQLFormatter", "Format")
	if obj == nil || entry == nil {
		r.Undecide("formatter-entry-reset", "anchor", "-", "SQLFormatter / its Format method not found")
		return
	}
	T := obj.Type().(*types.Named)
	st := core.StructOf(T)
	fns := p.SrcFuncs(rel)
	fa := collectFieldAccess(fns, T)
	eng := newResetEngine(p)
	eng.assignMode = true
	eng.objType = T
	exp := newExposure(p, eng, T, fns, func(f *ssa.Function) bool { return core.InPkgs(f, rel) })
	n := 0
	for i := 0; i < st.NumFields(); i++ {
		f := st.Field(i)
		if _, isBasic := f.Type().Underlying().(*types.Basic); !isBasic {
			continue
		}
		mutable := false
		for _, fn := range fns {
			if len(fa.writes[fn][f.Name()]) == 0 || strings.HasPrefix(outer(fn).Name(), "New") {
				continue
			}
			// the entry's own assignment does not make the field mutable state
			if fn == entry {
				continue
			}
			mutable = true
		}
		if !mutable {
			continue
		}
		n++
		key := "SQLFormatter.Format|" + f.Name()
		if bad := exp.firstExposed(entry, f.Name()); bad == nil {
			r.OK("formatter-entry-reset", key, p.FnPos(entry), "assigned before the first possible read")
		} else {
			r.Violate("formatter-entry-reset", key, p.Pos(bad.Pos()), "field "+f.Name()+" may be read ("+exp.witness(entry, f.Name())+") before Format assigns it: what an earlier Format call on this formatter left there (an indentation level that an error path did not unwind, say) shapes this file's output")
		}
	}
	r.Floor("formatter-entry-reset", n, 1, "mutable scalar fields of SQLFormatter")
}
