package rules

import (
	"go/constant"
	"go/types"
	"sort"
	"strings"

	"golang.org/x/tools/go/ssa"

	"gosqlxsa/core"
)

// sync-keywords: synchronize() stops at the token types listed in isStatementStartingKeyword. Stopping at a
// keyword that occurs *inside* statements (VALUES in INSERT … VALUES) makes recovery treat the rest of a
// malformed statement as a new statement: a second error for the same statement. A listed keyword is fine when
// parseStatement can start a statement with it and no other parser function consumes it, or when it is in the
// audited set below (read 2026-09-27).

var c12SyncAudited = map[string]string{
	"Select": "statement keyword; also legal inside statements (sub-queries, INSERT … SELECT): the property's quantifier excludes corruptions that contain it after the first token",
	"Insert": "statement keyword", "Update": "statement keyword (ON CONFLICT DO UPDATE, FOR UPDATE contain it: excluded by the quantifier like SELECT)",
	"Delete": "statement keyword", "Create": "statement keyword", "Alter": "statement keyword", "Drop": "statement keyword",
	"With": "statement keyword", "Merge": "statement keyword", "Refresh": "statement keyword", "Truncate": "statement keyword",
	"Grant": "starts a statement the parser does not support; never consumed inside another statement",
	"Revoke": "starts a statement the parser does not support; never consumed inside another statement",
	"Set":    "starts SET statements (unsupported) but is also the SET of UPDATE … SET: a corrupted UPDATE can yield two errors; the property's quantifier counts it as a statement-starting keyword",
	"Begin": "transaction statement (unsupported); not consumed elsewhere", "Commit": "transaction statement (unsupported); not consumed elsewhere", "Rollback": "transaction statement (unsupported); not consumed elsewhere",
}

func c12SyncKeywords(c *Ctx, p *core.Prog) {
	r := c.R
	r.Rule("sync-keywords", "every token type at which synchronize() stops (isStatementStartingKeyword) either is in the audited set of statement keywords, or starts a statement in parseStatement's dispatch and is tested by no other parser function")
	mk := p.Pkg("pkg/models")
	sk := p.Method("pkg/sql/parser", "Parser", "isStatementStartingKeyword")
	ps := p.Method("pkg/sql/parser", "Parser", "parseStatement")
	inlined := false
	if sk == nil {
		// the keyword test written out inside synchronize() itself
		sk = p.Method("pkg/sql/parser", "Parser", "synchronize")
		inlined = true
	}
	if mk == nil || sk == nil || ps == nil {
		r.Fatal("anchor not found: pkg/models / (*Parser).isStatementStartingKeyword (or synchronize) / parseStatement")
		return
	}
	names := map[int64]string{}
	for _, n := range mk.Types.Scope().Names() {
		if cst, ok := mk.Types.Scope().Lookup(n).(*types.Const); ok && strings.HasPrefix(n, "TokenType") && cst.Val().Kind() == constant.Int {
			v, _ := constant.Int64Val(cst.Val())
			short := strings.TrimPrefix(n, "TokenType")
			if old, dup := names[v]; !dup || len(short) < len(old) {
				names[v] = short
			}
		}
	}
	isTokType := func(t types.Type) bool {
		n := core.NamedOf(t)
		return n != nil && n.Obj().Name() == "TokenType"
	}
	// token-type constants compared in a function
	constsIn := func(fn *ssa.Function) map[string]bool {
		out := map[string]bool{}
		for _, b := range fn.Blocks {
			for _, in := range b.Instrs {
				var ops []*ssa.Value
				for _, o := range in.Operands(ops) {
					if cst, ok := (*o).(*ssa.Const); ok && cst.Value != nil && isTokType(cst.Type()) {
						if v, ok := constant.Int64Val(cst.Value); ok {
							out[names[v]] = true
						}
					}
				}
			}
		}
		return out
	}
	sync := constsIn(sk)
	if inlined {
		// the loop's own terminators are not statement keywords
		delete(sync, "EOF")
		delete(sync, "Semicolon")
		delete(sync, "SemiColon")
	}
	// the keyword set kept in a package-level lookup table: take the keys stored into it during package initialisation
	for _, b := range sk.Blocks {
		for _, in := range b.Instrs {
			lk, ok := in.(*ssa.Lookup)
			if !ok {
				continue
			}
			u, ok := lk.X.(*ssa.UnOp)
			if !ok {
				continue
			}
			g, ok := u.X.(*ssa.Global)
			if !ok {
				continue
			}
			for _, fn := range []*ssa.Function{g.Pkg.Func("init")} {
				if fn == nil {
					continue
				}
				for _, ib := range fn.Blocks {
					for _, ii := range ib.Instrs {
						mu, ok := ii.(*ssa.MapUpdate)
						if !ok {
							continue
						}
						// the map being filled is the one stored into g
						isG := false
						for _, ref := range core.Referrers(mu.Map) {
							if st, ok := ref.(*ssa.Store); ok && st.Addr == ssa.Value(g) {
								isG = true
							}
						}
						if ld, ok := mu.Map.(*ssa.UnOp); ok && ld.X == ssa.Value(g) {
							isG = true
						}
						if !isG {
							continue
						}
						if cst, ok := mu.Key.(*ssa.Const); ok && cst.Value != nil && isTokType(cst.Type()) {
							if v, ok := constant.Int64Val(cst.Value); ok {
								sync[names[v]] = true
							}
						}
					}
				}
			}
		}
	}
	delete(sync, "Unknown") // the `Type != TokenTypeUnknown` guard, not a keyword
	dispatch := constsIn(ps)
	elsewhere := map[string][]string{}
	for _, fn := range p.SrcFuncs("pkg/sql/parser") {
		if fn == sk || fn == ps || outer(fn) == sk || outer(fn) == ps {
			continue
		}
		for k := range constsIn(fn) {
			elsewhere[k] = append(elsewhere[k], fn.Name())
		}
	}
	var ks []string
	for k := range sync {
		ks = append(ks, k)
	}
	sort.Strings(ks)
	for _, k := range ks {
		switch {
		case c12SyncAudited[k] != "":
			r.OK("sync-keywords", k, p.FnPos(sk), "audited: "+c12SyncAudited[k])
		case dispatch[k] && len(elsewhere[k]) == 0:
			r.OK("sync-keywords", k, p.FnPos(sk), "parseStatement starts a statement with it and nothing else consumes it")
		case !dispatch[k]:
			r.Violate("sync-keywords", k, p.FnPos(sk), "recovery stops at "+k+", but parseStatement cannot start a statement with it: the remainder of a malformed statement that contains "+k+" is reported as a second error")
		default:
			sort.Strings(elsewhere[k])
			r.Violate("sync-keywords", k, p.FnPos(sk), "recovery stops at "+k+", which is also consumed inside statements ("+strings.Join(elsewhere[k][:min(3, len(elsewhere[k]))], ", ")+"): a malformed statement containing it is split in two")
		}
	}
	r.Floor("sync-keywords", len(ks), 8, "synchronisation keywords")
}
