package rules

import (
	"go/token"
	"strings"

	"golang.org/x/tools/go/ssa"

	"gosqlxsa/core"
)

func init() { Registry["C19"] = runC19 }

func osFunc(call *ssa.CallCommon, names ...string) string {
	f := call.StaticCallee()
	if f == nil || core.FnPkg(f) == nil || core.FnPkg(f).Path() != "os" {
		return ""
	}
	for _, n := range names {
		if f.Name() == n {
			return n
		}
	}
	return ""
}

// pathTerm names a path value: SSA identity, or the field it is loaded from.
func pathTerm(v ssa.Value) string {
	if u, ok := v.(*ssa.UnOp); ok && u.Op == token.MUL {
		if fa, ok := u.X.(*ssa.FieldAddr); ok {
			return "field:" + fa.X.Name() + "." + core.FieldName(fa.X.Type(), fa.Field)
		}
	}
	if f, ok := v.(*ssa.Field); ok {
		return "field:" + f.X.Name() + "." + core.FieldName(f.X.Type(), f.Field)
	}
	return "val:" + v.Name()
}

func runC19(c *Ctx) {
	r, p := c.R, c.P
	r.Summary = "C19 (CLI verdicts match the library; files are never left half-written): decided clauses = (1) no command rewrites a file it has read by truncating it: a path that is read (os.ReadFile/Open/Stat, or a callee that reads it) and written in the same function must be written through the temp-file-plus-rename helper, and that helper itself creates the temporary in the target's directory, renames only after a successful write and close, and removes the temporary on every failure path; (2) in check mode no file-writing call is reachable; (3) machine-readable reports are produced by encoding/json marshalling, not by string building."
	r.NotCov = []string{"exit status equals library verdict and output equality (behaviour of a binary)", "durability of the rename itself (fsync of the directory)"}
	r.Rule("no-truncating-rewrite", "in cmd/gosqlx a path that the same function reads (os.ReadFile/Open/Stat or an in-module callee that does) is never passed to os.WriteFile / os.Create / os.OpenFile(O_TRUNC); in-place rewrites go through a helper that writes a temporary file and renames it")
	r.Rule("atomic-helper", "the rewrite helper creates its temporary with os.CreateTemp in filepath.Dir of the target, calls os.Rename only on a path where Write and Close have succeeded, and calls os.Remove on the temporary on every error return")
	r.Rule("check-mode", "every call that writes a file in the formatter is control-dependent on the check flag being false")
	r.Rule("json-reports", "every []byte returned by the JSON/SARIF report functions of internal/output is the result of encoding/json Marshal/MarshalIndent")
	cmdRels := []string{"cmd/gosqlx/cmd", "cmd/gosqlx/internal/cmdutil", "cmd/gosqlx/internal/config", "cmd/gosqlx/internal/output", "cmd/gosqlx/internal/actioncmd", "cmd/gosqlx/internal/lspcmd", "cmd/gosqlx"}
	dialectAgreement(c, "dialect-agreement", 1, append([]string{"cmd/gosqlx/internal/validate"}, cmdRels...)...)
	fns := p.SrcFuncs(cmdRels...)
	if len(fns) < 100 {
		r.Fatal("anchor not found: cmd/gosqlx packages (only %d functions)", len(fns))
		return
	}
	// readers: functions whose string parameter flows to os.ReadFile/Open/Stat
	readsParam := map[*ssa.Function]map[int]bool{}
	var paramReads func(fn *ssa.Function, i int, depth int) bool
	paramReads = func(fn *ssa.Function, i int, depth int) bool {
		if fn == nil || fn.Blocks == nil || i >= len(fn.Params) || depth > 4 {
			return false
		}
		if m, ok := readsParam[fn]; ok {
			if v, ok := m[i]; ok {
				return v
			}
		} else {
			readsParam[fn] = map[int]bool{}
		}
		readsParam[fn][i] = false
		par := fn.Params[i]
		res := false
		for _, ref := range core.Referrers(par) {
			ci, ok := ref.(ssa.CallInstruction)
			if !ok {
				continue
			}
			cc := ci.Common()
			if osFunc(cc, "ReadFile", "Open", "Stat", "Lstat") != "" {
				res = true
			}
			if callee := cc.StaticCallee(); callee != nil && core.InModule(callee) {
				for j, a := range cc.Args {
					if a == ssa.Value(par) && paramReads(callee, j, depth+1) {
						res = true
					}
				}
			}
			if callee := cc.StaticCallee(); callee != nil && core.FnPkg(callee) != nil && core.FnPkg(callee).Path() == "path/filepath" {
				res = res || false
			}
		}
		readsParam[fn][i] = res
		return res
	}
	nw := 0
	var helper *ssa.Function
	for _, fn := range fns {
		// paths read in this function
		read := map[string]bool{}
		for _, b := range fn.Blocks {
			for _, in := range b.Instrs {
				ci, ok := in.(ssa.CallInstruction)
				if !ok {
					continue
				}
				cc := ci.Common()
				if osFunc(cc, "ReadFile", "Open") != "" && len(cc.Args) > 0 {
					read[pathTerm(cc.Args[0])] = true
				}
				// Stat whose FileInfo is used (mode/size of the existing file): the file pre-exists and is being rewritten
				if osFunc(cc, "Stat", "Lstat") != "" && len(cc.Args) > 0 {
					if v, ok := in.(ssa.Value); ok {
						for _, ref := range core.Referrers(v) {
							if ex, ok := ref.(*ssa.Extract); ok && ex.Index == 0 && len(core.Referrers(ex)) > 0 {
								read[pathTerm(cc.Args[0])] = true
							}
						}
					}
				}
				if callee := cc.StaticCallee(); callee != nil && core.InModule(callee) {
					for j, a := range cc.Args {
						if paramReads(callee, j, 0) {
							read[pathTerm(a)] = true
						}
					}
				}
			}
		}
		seq := 0
		for _, b := range fn.Blocks {
			for _, in := range b.Instrs {
				call, ok := in.(*ssa.Call)
				if !ok {
					continue
				}
				w := osFunc(&call.Call, "WriteFile", "Create", "OpenFile")
				if w == "" {
					continue
				}
				if w == "OpenFile" {
					// opens for writing matter: O_TRUNC truncates, O_WRONLY/O_RDWR without O_APPEND overwrite in place
					flags, ok := core.ConstInt(call.Call.Args[1])
					if !ok {
						continue
					}
					writes := flags&0x3 != 0 // O_WRONLY(1) / O_RDWR(2) on linux
					if !(flags&0x200 != 0 || (writes && flags&0x400 == 0)) { // O_TRUNC, or writable and not O_APPEND
						continue
					}
				}
				nw++
				seq++
				key := core.FnName(fn) + sprintf("|os.%s#%d", w, seq)
				if read[pathTerm(call.Call.Args[0])] {
					r.Violate("no-truncating-rewrite", key, p.Pos(call.Pos()), "the file that this function has read is rewritten with os."+w+", which truncates it first: a failure part-way leaves the user's file empty or half-written")
				} else {
					r.OK("no-truncating-rewrite", key, p.Pos(call.Pos()), "writes a path this function does not read (output file / new file)")
				}
			}
		}
		// the helper: a function that calls os.CreateTemp and os.Rename
		ct, rn := false, false
		for _, b := range fn.Blocks {
			for _, in := range b.Instrs {
				if call, ok := in.(*ssa.Call); ok {
					if osFunc(&call.Call, "CreateTemp") != "" {
						ct = true
					}
					if osFunc(&call.Call, "Rename") != "" {
						rn = true
					}
				}
			}
		}
		if ct && rn && fn.Parent() == nil {
			helper = fn
		}
	}
	r.Floor("no-truncating-rewrite", nw, 3, "file-writing calls in cmd/gosqlx")
	c19Helper(c, p, helper, fns)
	c19CheckMode(c, p)
	c19JSON(c, p)
	c19OptionNormalisation(c, c.P)
	c19OptionsAgree(c, c.P)
	c19FormatterEntryReset(c, c.P)
	c.R.Rule("walk-skipdir", "in the CLI and the linter's directory walk, filepath.SkipDir / fs.SkipDir is returned only where the entry's IsDir() holds")
	nsd := c19WalkSkipDir(c, c.P, []string{"cmd/gosqlx/cmd", "cmd/gosqlx/internal/actioncmd", "cmd/gosqlx/internal/validate", "cmd/gosqlx/internal/output", "cmd/gosqlx/internal/config", "pkg/linter"}, nil)
	if nsd == 0 {
		c.R.OK("walk-skipdir", "scan", "-", "no directory walk returns SkipDir")
	}
	if c.Controls {
		if cp := c.Control("c19"); cp != nil {
			fired := map[string]bool{}
			c19WalkSkipDir(c, cp, []string{"gosqlxsa/controls/c19"}, fired)
			c.R.Control("walk-skipdir", fired["c19.skipHiddenWrong$1|SkipDir#1"] && !fired["c19.skipHiddenRight$1|SkipDir#1"], "controls/c19 skipHiddenWrong (SkipDir for any hidden entry) and skipHiddenRight (only under IsDir())")
		}
	}
}

func c19Helper(c *Ctx, p *core.Prog, h *ssa.Function, fns []*ssa.Function) {
	r := c.R
	if h == nil {
		r.Violate("atomic-helper", "helper", "-", "no temp-file-plus-rename helper exists in cmd/gosqlx: in-place rewrites cannot be atomic")
		return
	}
	// in-place writers must call it: functions that read a path and then hand the same path to the helper
	users := 0
	for _, fn := range fns {
		for _, b := range fn.Blocks {
			for _, in := range b.Instrs {
				if call, ok := in.(*ssa.Call); ok && call.Call.StaticCallee() == h {
					users++
				}
			}
		}
	}
	var createTemp, rename *ssa.Call
	var writes, closes []*ssa.Call
	for _, b := range h.Blocks {
		for _, in := range b.Instrs {
			call, ok := in.(*ssa.Call)
			if !ok {
				continue
			}
			switch {
			case osFunc(&call.Call, "CreateTemp") != "":
				createTemp = call
			case osFunc(&call.Call, "Rename") != "":
				rename = call
			default:
				if f := call.Call.StaticCallee(); f != nil && f.Signature.Recv() != nil && strings.HasSuffix(f.Signature.Recv().Type().String(), "os.File") {
					switch f.Name() {
					case "Write", "WriteString", "WriteAt", "Truncate", "ReadFrom":
						writes = append(writes, call)
					case "Close":
						closes = append(closes, call)
					}
				}
			}
		}
	}
	var probs []string
	if createTemp == nil || rename == nil {
		probs = append(probs, "CreateTemp/Rename missing")
	} else {
		// temp dir is filepath.Dir(…)
		okDir := false
		if dc, ok := createTemp.Call.Args[0].(*ssa.Call); ok {
			if f := dc.Call.StaticCallee(); f != nil && f.Name() == "Dir" {
				okDir = true
			}
		}
		if !okDir {
			probs = append(probs, "the temporary file is not created in filepath.Dir(target): rename across file systems is not atomic")
		}
		// rename reached only after successful Write and Close: its block is on the err == nil side of each
		if len(writes) == 0 || len(closes) == 0 {
			probs = append(probs, "no Write/Close of the temporary before the rename")
		}
		okW, okC := false, false
		for _, w := range writes {
			if succeedsBefore(w, rename) {
				okW = true
			}
		}
		for _, cl := range closes {
			if succeedsBefore(cl, rename) {
				okC = true
			}
		}
		if !okW {
			probs = append(probs, "os.Rename is reachable although the Write of the temporary failed or was not executed")
		}
		if !okC {
			probs = append(probs, "os.Rename is reachable although the Close of the temporary failed or was not executed")
		}
		// the only file the helper writes is the temporary
		for _, w := range writes {
			if len(w.Call.Args) == 0 {
				continue
			}
			fromTemp := false
			if ex, ok := w.Call.Args[0].(*ssa.Extract); ok && ex.Tuple == ssa.Value(createTemp) {
				fromTemp = true
			}
			// the temporary kept in a variable that a closure captures: a cell whose only stores are CreateTemp's result
			if ld, ok := w.Call.Args[0].(*ssa.UnOp); ok {
				if cell, ok := ld.X.(*ssa.Alloc); ok {
					n, all := 0, true
					for _, ref := range core.Referrers(cell) {
						if st, ok := ref.(*ssa.Store); ok && st.Addr == ssa.Value(cell) {
							n++
							if ex, ok := st.Val.(*ssa.Extract); !ok || ex.Tuple != ssa.Value(createTemp) {
								all = false
							}
						}
					}
					fromTemp = n > 0 && all
				}
			}
			if !fromTemp {
				probs = append(probs, "the helper writes to a file that is not its temporary at "+p.Pos(w.Pos())+": the target itself is modified in place")
			}
		}
		// the branch taken when CreateTemp itself failed: there is no temporary to remove on it
		var ctFailed []*ssa.BasicBlock
		for _, ref := range core.Referrers(createTemp) {
			ex, ok := ref.(*ssa.Extract)
			if !ok || !isErrorType(ex.Type()) {
				continue
			}
			for _, r2 := range core.Referrers(ex) {
				bo, ok := r2.(*ssa.BinOp)
				if !ok || (bo.Op != token.NEQ && bo.Op != token.EQL) || !(core.IsNilConst(bo.X) || core.IsNilConst(bo.Y)) {
					continue
				}
				for _, r3 := range core.Referrers(bo) {
					if iff, ok := r3.(*ssa.If); ok {
						k := 0
						if bo.Op == token.EQL {
							k = 1
						}
						if fb := iff.Block().Succs[k]; len(fb.Preds) == 1 {
							ctFailed = append(ctFailed, fb)
						}
					}
				}
			}
		}
		// every error return after CreateTemp removes the temporary
		for _, b := range h.Blocks {
			ret, ok := b.Instrs[len(b.Instrs)-1].(*ssa.Return)
			if !ok || !createTemp.Block().Dominates(b) || b == createTemp.Block() {
				continue
			}
			last := ret.Results[len(ret.Results)-1]
			if core.IsNilConst(last) {
				continue
			}
			// error right after CreateTemp itself failed: nothing to remove
			if ex, ok := last.(*ssa.Extract); ok && ex.Tuple == ssa.Value(createTemp) {
				continue
			}
			onFailed := false
			for _, fb := range ctFailed {
				if fb.Dominates(b) {
					onFailed = true
				}
			}
			if onFailed {
				continue
			}
			if !blockOrDomCalls(b, h, "Remove") {
				probs = append(probs, "error return at "+p.Pos(ret.Pos())+" leaves the temporary file behind")
			}
		}
	}
	if users == 0 {
		probs = append(probs, "the helper is never called")
	}
	if len(probs) == 0 {
		r.OK("atomic-helper", core.FnName(h), p.FnPos(h), sprintf("temp in target dir, rename after successful write+close, temp removed on error; %d call sites", users))
	} else {
		r.Violate("atomic-helper", core.FnName(h), p.FnPos(h), strings.Join(probs, "; "))
	}
}

// succeedsBefore: `after` is only reachable from `call` through the err == nil edge of the test of call's error.
func succeedsBefore(call, after *ssa.Call) bool {
	var e ssa.Value = call
	for _, ref := range core.Referrers(call) {
		if ex, ok := ref.(*ssa.Extract); ok && isErrorType(ex.Type()) {
			e = ex
		}
	}
	// the error may travel through one shared variable (err = f(); if err == nil { err = g() } … if err != nil { fail }):
	// tests of a phi that has e as one of its inputs count as tests of e
	cands := []ssa.Value{e}
	seenPhi := map[ssa.Value]bool{}
	for i := 0; i < len(cands) && i < 16; i++ {
		for _, ref := range core.Referrers(cands[i]) {
			if ph, ok := ref.(*ssa.Phi); ok && !seenPhi[ph] {
				seenPhi[ph] = true
				cands = append(cands, ph)
			}
		}
	}
	var refs []ssa.Instruction
	for _, cv := range cands {
		refs = append(refs, core.Referrers(cv)...)
	}
	for _, ref := range refs {
		bo, ok := ref.(*ssa.BinOp)
		if !ok || !(bo.Op == token.NEQ || bo.Op == token.EQL) {
			continue
		}
		for _, r2 := range core.Referrers(bo) {
			iff, ok := r2.(*ssa.If)
			if !ok {
				continue
			}
			okSucc := iff.Block().Succs[1]
			if bo.Op == token.EQL {
				okSucc = iff.Block().Succs[0]
			}
			if okSucc.Dominates(after.Block()) || okSucc == after.Block() {
				return true
			}
		}
	}
	return false
}

// blockOrDomCalls: b (or a block between the failing test and b) calls os.<name>, directly or through a closure variable.
func blockOrDomCalls(b *ssa.BasicBlock, fn *ssa.Function, name string) bool {
	has := func(x *ssa.BasicBlock) bool {
		for _, in := range x.Instrs {
			call, ok := in.(*ssa.Call)
			if !ok {
				continue
			}
			if osFunc(&call.Call, name) != "" {
				return true
			}
			// cleanup() closure
			var cl *ssa.Function
			switch v := call.Call.Value.(type) {
			case *ssa.MakeClosure:
				cl, _ = v.Fn.(*ssa.Function)
			case *ssa.Function:
				cl = v
			}
			if cl != nil && cl.Parent() == fn {
				for _, cb := range cl.Blocks {
					for _, ci := range cb.Instrs {
						if cc, ok := ci.(*ssa.Call); ok && osFunc(&cc.Call, name) != "" {
							return true
						}
					}
				}
			}
		}
		return false
	}
	if has(b) {
		return true
	}
	// single-predecessor chain
	for x := b; len(x.Preds) == 1; x = x.Preds[0] {
		if has(x.Preds[0]) && len(x.Preds[0].Succs) == 1 {
			return true
		}
		if len(x.Preds[0].Succs) != 1 {
			break
		}
	}
	return false
}

func c19CheckMode(c *Ctx, p *core.Prog) {
	r := c.R
	fn := p.Method("cmd/gosqlx/cmd", "Formatter", "Format")
	if fn == nil {
		r.Fatal("anchor not found: (*cmd.Formatter).Format")
		return
	}
	n := 0
	for _, b := range fn.Blocks {
		for _, in := range b.Instrs {
			call, ok := in.(*ssa.Call)
			if !ok {
				continue
			}
			writer := osFunc(&call.Call, "WriteFile", "Create", "OpenFile", "Rename") != ""
			if f := call.Call.StaticCallee(); f != nil && f.Name() == "replaceFileAtomic" {
				writer = true
			}
			if !writer {
				continue
			}
			n++
			key := sprintf("Formatter.Format|write#%d", n)
			guarded := false
			for _, cd := range core.ControlDeps(b) {
				if u, ok := cd.If.Cond.(*ssa.UnOp); ok && u.Op == token.MUL {
					if fa, ok := u.X.(*ssa.FieldAddr); ok && core.FieldName(fa.X.Type(), fa.Field) == "Check" && cd.Succ == 1 {
						guarded = true
					}
				}
			}
			if guarded {
				r.OK("check-mode", key, p.Pos(call.Pos()), "only reachable when Opts.Check is false")
			} else {
				r.Violate("check-mode", key, p.Pos(call.Pos()), "a file is written although --check was given")
			}
		}
	}
	r.Floor("check-mode", n, 1, "file-writing calls in Formatter.Format")
}

func c19JSON(c *Ctx, p *core.Prog) {
	r := c.R
	n := 0
	for _, fn := range p.SrcFuncs("cmd/gosqlx/internal/output") {
		if fn.Parent() != nil || fn.Object() == nil || !fn.Object().Exported() {
			continue
		}
		res := fn.Signature.Results()
		if res.Len() != 2 || res.At(0).Type().String() != "[]byte" {
			continue
		}
		n++
		ok := true
		for _, b := range fn.Blocks {
			ret, isRet := b.Instrs[len(b.Instrs)-1].(*ssa.Return)
			if !isRet {
				continue
			}
			v := ret.Results[0]
			if core.IsNilConst(v) {
				continue
			}
			if !fromJSONMarshal(v, 0) {
				ok = false
			}
		}
		if ok {
			r.OK("json-reports", core.FnName(fn), p.FnPos(fn), "returned bytes come from encoding/json")
		} else {
			r.Violate("json-reports", core.FnName(fn), p.FnPos(fn), "a machine-readable report is not produced by encoding/json marshalling: it may be malformed for inputs containing quotes or control characters")
		}
	}
	r.Floor("json-reports", n, 2, "JSON/SARIF report functions")
}

func fromJSONMarshal(v ssa.Value, depth int) bool {
	if depth > 5 {
		return false
	}
	switch x := v.(type) {
	case *ssa.Extract:
		return fromJSONMarshal(x.Tuple, depth+1)
	case *ssa.Call:
		f := x.Call.StaticCallee()
		return f != nil && core.FnPkg(f) != nil && core.FnPkg(f).Path() == "encoding/json" && strings.HasPrefix(f.Name(), "Marshal")
	case *ssa.Phi:
		for _, e := range x.Edges {
			if !core.IsNilConst(e) && !fromJSONMarshal(e, depth+1) {
				return false
			}
		}
		return true
	}
	return false
}
