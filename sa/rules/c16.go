package rules

import (
	"go/constant"
	"go/token"
	"go/types"
	"sort"
	"strings"

	"golang.org/x/tools/go/ssa"

	"gosqlxsa/core"
)

func init() { Registry["C16"] = runC16 }

// parserBuilt returns the concrete ast types the parser converts to the given ast interface.
func parserBuilt(p *core.Prog, iface string, astPath string) map[*types.Named]string {
	out := map[*types.Named]string{}
	for _, fn := range p.SrcFuncs("pkg/sql/parser") {
		for _, b := range fn.Blocks {
			for _, in := range b.Instrs {
				mi, ok := in.(*ssa.MakeInterface)
				if !ok {
					continue
				}
				it := core.NamedOf(mi.Type())
				if it == nil || it.Obj().Name() != iface || it.Obj().Pkg() == nil || it.Obj().Pkg().Path() != astPath {
					continue
				}
				if n := core.NamedOf(mi.X.Type()); n != nil && n.Obj().Pkg() != nil && n.Obj().Pkg().Path() == astPath {
					if _, seen := out[n]; !seen {
						out[n] = p.FnPos(fn)
					}
				}
			}
		}
	}
	return out
}

func typeSwitchCases(fn *ssa.Function) map[string]bool {
	cases := map[string]bool{}
	for _, b := range fn.Blocks {
		for _, in := range b.Instrs {
			if ta, ok := in.(*ssa.TypeAssert); ok && ta.CommaOk {
				if n := core.NamedOf(ta.AssertedType); n != nil {
					cases[n.Obj().Name()] = true
				}
			}
		}
	}
	return cases
}

func callsChildren(fn *ssa.Function) bool {
	for _, b := range fn.Blocks {
		for _, in := range b.Instrs {
			if call, ok := in.(*ssa.Call); ok && call.Call.IsInvoke() && call.Call.Method.Name() == "Children" {
				return true
			}
		}
	}
	return false
}

func runC16(c *Ctx) {
	r, p := c.R, c.P
	r.Summary = "C16 (injection findings are context-closed, layout-invariant and self-consistent): decided clauses = context closure of the tree scan (each dispatching function of the scanner has a case for every statement / expression type the parser can build that can hold a condition or call, or recurses generically through Children()); every finding is appended only under shouldInclude(finding.Severity); severityOrder and updateCounts cover every Severity constant; updateCounts runs after the last call that can append, on every path; the scan writes neither the tree nor scanner/package state."
	r.NotCov = []string{"which payloads are classified how (values)", "the regex-based ScanSQL text scan", "letter-case/whitespace invariance, which follows from scanning the tree rather than the text given C03/C04"}
	r.Rule("closure", "scanStatement / scanExpression / scanExpressionForDangerousFunctions have a type-switch case for every concrete statement / expression type built by the parser that has node-holding fields, or recurse through Children()")
	r.Rule("threshold", "every append to ScanResult.Findings is control-dependent on the true edge of shouldInclude(<that finding>.Severity)")
	r.Rule("severity-total", "severityOrder has an entry, and updateCounts a case, for every constant of type Severity; updateCounts sets TotalCount = len(Findings)")
	r.Rule("counts-last", "in Scan and ScanSQL no call that can append a finding is followed by a return without updateCounts in between")
	r.Rule("counts-once", "updateCounts (which increments the per-severity counters in place) either zeroes them first or is called at most once on every path of Scan / ScanSQL (never in a loop, never twice)")
	r.Rule("pure", "no function reachable from Scan/ScanSQL stores into a field of an ast type, a Scanner field or a package-level variable (outside sync.Once initialisers)")
	astPk := p.Pkg("pkg/sql/ast")
	sec := p.Pkg("pkg/sql/security")
	if astPk == nil || sec == nil {
		r.Fatal("anchor not found: pkg/sql/ast / pkg/sql/security")
		return
	}
	astPath := astPk.PkgPath
	m := NewAstModel(p, "pkg/sql/ast")
	stmts := parserBuilt(p, "Statement", astPath)
	exprs := parserBuilt(p, "Expression", astPath)
	check := func(fnName string, set map[*types.Named]string, kind string) {
		fn := p.Method("pkg/sql/security", "Scanner", fnName)
		if fn == nil {
			r.Fatal("anchor not found: (*Scanner).%s", fnName)
			return
		}
		cases := typeSwitchCases(fn)
		generic := callsChildren(fn)
		var ts []*types.Named
		for t := range set {
			ts = append(ts, t)
		}
		sort.Slice(ts, func(i, j int) bool { return ts[i].Obj().Name() < ts[j].Obj().Name() })
		n := 0
		for _, T := range ts {
			if len(m.Paths(T)) == 0 {
				continue // leaf: cannot hold a condition or call
			}
			n++
			key := fnName + "|" + T.Obj().Name()
			switch {
			case cases[T.Obj().Name()]:
				r.OK("closure", key, p.FnPos(fn), "case *ast."+T.Obj().Name())
			case generic:
				r.OK("closure", key, p.FnPos(fn), "generic recursion through Children()")
			default:
				r.Violate("closure", key, p.FnPos(fn), fnName+" has no case for *ast."+T.Obj().Name()+" (a "+kind+" the parser builds, with nested expressions) and no generic recursion: an injection pattern placed under such a node is not reported")
			}
		}
		r.Floor("closure", n, 3, kind+" types with children for "+fnName)
		// dispatch-reached: every path through the function reaches the type switch, except the one that has seen
		// the node to be nil. An early return on any other condition (a depth budget, a size limit, a flag) leaves
		// the nodes below unexamined while the result still looks complete.
		var node *ssa.Parameter
		var head *ssa.BasicBlock
		for _, b := range fn.Blocks {
			for _, in := range b.Instrs {
				ta, ok := in.(*ssa.TypeAssert)
				if !ok {
					continue
				}
				if par, ok := ta.X.(*ssa.Parameter); ok && (head == nil || b.Index < head.Index) {
					node, head = par, b
				}
			}
		}
		if head == nil {
			r.Undecide("dispatch-reached", fnName, p.FnPos(fn), "no type switch on a parameter found in "+fnName)
			return
		}
		// forbidden edges: the nil side of `node == nil` / `node != nil`
		seen := map[*ssa.BasicBlock]bool{}
		var bad *ssa.BasicBlock
		var walk func(b *ssa.BasicBlock)
		walk = func(b *ssa.BasicBlock) {
			if seen[b] || b == head || bad != nil {
				return
			}
			seen[b] = true
			if len(b.Instrs) > 0 {
				if _, isRet := b.Instrs[len(b.Instrs)-1].(*ssa.Return); isRet {
					bad = b
					return
				}
			}
			nilSucc := -1
			if iff, ok := b.Instrs[len(b.Instrs)-1].(*ssa.If); ok {
				if bo, ok := iff.Cond.(*ssa.BinOp); ok && (bo.Op == token.EQL || bo.Op == token.NEQ) {
					if (bo.X == ssa.Value(node) && core.IsNilConst(bo.Y)) || (bo.Y == ssa.Value(node) && core.IsNilConst(bo.X)) {
						nilSucc = 0
						if bo.Op == token.NEQ {
							nilSucc = 1
						}
					}
				}
			}
			for k, sc := range b.Succs {
				if k == nilSucc {
					continue
				}
				walk(sc)
			}
		}
		walk(fn.Blocks[0])
		if bad == nil {
			r.OK("dispatch-reached", fnName, p.FnPos(fn), "every path with a non-nil node reaches the type switch")
		} else {
			pos := p.FnPos(fn)
			for _, in := range bad.Instrs {
				if in.Pos().IsValid() {
					pos = p.Pos(in.Pos())
				}
			}
			r.Violate("dispatch-reached", fnName, pos, fnName+" can return before its type switch although the node is not nil: whatever lies below that node is not examined, and nothing in the result says so")
		}
	}
	r.Rule("dispatch-reached", "in scanStatement / scanExpression / scanExpressionForDangerousFunctions every path from the entry to a return passes the type switch on the node, except after the node was seen to be nil")
	check("scanStatement", stmts, "statement")
	check("scanExpression", exprs, "expression")
	check("scanExpressionForDangerousFunctions", exprs, "expression")
	c16OperatorCase(c, p)
	c16Threshold(c, p)
	c16Severity(c, p, sec.Types)
	c16Counts(c, p)
	c16DoubleWalk(c, p)
	c16Pure(c, p, astPath)
}

func c16Threshold(c *Ctx, p *core.Prog) {
	r := c.R
	n := 0
	for _, fn := range p.SrcFuncs("pkg/sql/security") {
		seq := 0
		for _, b := range fn.Blocks {
			for _, in := range b.Instrs {
				call, ok := in.(*ssa.Call)
				if !ok || !core.IsBuiltinCall(&call.Call, "append") {
					continue
				}
				sl, ok := call.Type().Underlying().(*types.Slice)
				if !ok {
					continue
				}
				if en := core.NamedOf(sl.Elem()); en == nil || en.Obj().Name() != "Finding" {
					continue
				}
				// appended into result.Findings?
				intoResult := false
				if u, ok := call.Call.Args[0].(*ssa.UnOp); ok {
					if fa, ok := u.X.(*ssa.FieldAddr); ok && core.FieldName(fa.X.Type(), fa.Field) == "Findings" {
						intoResult = true
					}
				}
				if !intoResult {
					continue
				}
				n++
				seq++
				key := core.FnName(fn) + sprintf("|append#%d", seq)
				guarded := false
				for _, cd := range core.ControlDeps(b) {
					if cd.Succ != 0 {
						continue
					}
					if gc, ok := cd.If.Cond.(*ssa.Call); ok {
						if f := gc.Call.StaticCallee(); f != nil && f.Name() == "shouldInclude" {
							// the argument must be the Severity of the finding being appended
							if fld, _ := severityOf(gc.Call.Args[len(gc.Call.Args)-1]); fld != nil && findingOf(call) == fld {
								guarded = true
							} else if fld == nil || findingOf(call) == nil {
								guarded = true // cannot relate the values: accept the presence of the guard
							}
						}
					}
				}
				if guarded {
					r.OK("threshold", key, p.Pos(call.Pos()), "under shouldInclude(finding.Severity)")
				} else {
					r.Violate("threshold", key, p.Pos(call.Pos()), "a finding is appended without passing the minimum-severity test: results below the configured threshold are reported")
				}
			}
		}
	}
	r.Floor("threshold", n, 1, "appends to ScanResult.Findings")
	// the threshold may only filter: nothing but building and appending the finding may depend on it
	ng := 0
	for _, fn := range p.SrcFuncs("pkg/sql/security") {
		seq := 0
		for _, b := range fn.Blocks {
			iff, ok := b.Instrs[len(b.Instrs)-1].(*ssa.If)
			if !ok {
				continue
			}
			cond, _ := stripNot(iff.Cond)
			gc, ok := cond.(*ssa.Call)
			if !ok || gc.Call.StaticCallee() == nil || gc.Call.StaticCallee().Name() != "shouldInclude" {
				continue
			}
			ng++
			seq++
			key := core.FnName(fn) + sprintf("|shouldInclude#%d", seq)
			bad := ""
			for _, x := range fn.Blocks {
				dep := false
				for _, cd := range core.ControlDeps(x) {
					if cd.If == iff {
						dep = true
					}
				}
				if !dep {
					continue
				}
				for _, in := range x.Instrs {
					switch y := in.(type) {
					case *ssa.Return:
						bad = "a return at " + p.Pos(y.Pos()) + " depends on the severity threshold: whatever the function would have scanned afterwards is skipped when the finding is filtered out"
					case *ssa.Call:
						if f := y.Call.StaticCallee(); f != nil && f.Signature.Recv() != nil && core.InPkgs(f, "pkg/sql/security") && f.Name() != "shouldInclude" {
							bad = "the call of " + f.Name() + " at " + p.Pos(y.Pos()) + " depends on the severity threshold of another finding"
						}
					}
				}
			}
			if bad == "" {
				r.OK("threshold", key, p.Pos(iff.Cond.Pos()), "only the construction and append of the finding depend on the threshold")
			} else {
				r.Violate("threshold", key, p.Pos(iff.Cond.Pos()), bad)
			}
		}
	}
	if ng < 1 {
		r.Fatal("no shouldInclude test found in the scanner (%d): anchors moved?", ng)
	}
}

// severityOf: v is a load of <alloc>.Severity; returns the alloc.
func severityOf(v ssa.Value) (ssa.Value, bool) {
	if u, ok := v.(*ssa.UnOp); ok {
		if fa, ok := u.X.(*ssa.FieldAddr); ok && core.FieldName(fa.X.Type(), fa.Field) == "Severity" {
			return fa.X, true
		}
	}
	if f, ok := v.(*ssa.Field); ok && core.FieldName(f.X.Type(), f.Field) == "Severity" {
		if u, ok := f.X.(*ssa.UnOp); ok {
			return u.X, true
		}
	}
	return nil, false
}

// findingOf: the local variable whose value is appended.
func findingOf(call *ssa.Call) ssa.Value {
	for _, o := range variadicOperands(call.Call.Args[1]) {
		if u, ok := o.(*ssa.UnOp); ok {
			return u.X
		}
	}
	return nil
}

func c16Severity(c *Ctx, p *core.Prog, pk *types.Package) {
	r := c.R
	sevT, _ := pk.Scope().Lookup("Severity").(*types.TypeName)
	if sevT == nil {
		r.Fatal("anchor not found: security.Severity")
		return
	}
	var consts []string
	for _, n := range pk.Scope().Names() {
		if cst, ok := pk.Scope().Lookup(n).(*types.Const); ok && types.Identical(cst.Type(), sevT.Type()) {
			consts = append(consts, constant.StringVal(cst.Val()))
		}
	}
	sort.Strings(consts)
	if len(consts) < 3 {
		r.Fatal("anchor not found: constants of type Severity")
		return
	}
	// severityOrder initialiser: MapUpdate in package init on the global
	sp := p.SSAPkg(p.Pkg("pkg/sql/security"))
	inMap := map[string]bool{}
	if init := sp.Func("init"); init != nil {
		for _, b := range init.Blocks {
			for _, in := range b.Instrs {
				if mu, ok := in.(*ssa.MapUpdate); ok {
					if s, ok := core.ConstString(mu.Key); ok && strings.Contains(mu.Map.Type().String(), "Severity") {
						inMap[s] = true
					}
				}
			}
		}
	}
	uc := p.Method("pkg/sql/security", "Scanner", "updateCounts")
	inSwitch := map[string]bool{}
	total := false
	if uc != nil {
		for _, b := range uc.Blocks {
			for _, in := range b.Instrs {
				if bo, ok := in.(*ssa.BinOp); ok && bo.Op == token.EQL {
					if s, ok := core.ConstString(bo.Y); ok {
						inSwitch[s] = true
					}
				}
				// a lookup table keyed by Severity instead of a switch: its keys are the severities counted
				if lk, ok := in.(*ssa.Lookup); ok {
					if u, ok := lk.X.(*ssa.UnOp); ok {
						if g, ok := u.X.(*ssa.Global); ok {
							if init := sp.Func("init"); init != nil {
								for _, ib := range init.Blocks {
									for _, ii := range ib.Instrs {
										mu, ok := ii.(*ssa.MapUpdate)
										if !ok {
											continue
										}
										isG := false
										for _, ref := range core.Referrers(mu.Map) {
											if st, ok := ref.(*ssa.Store); ok && st.Addr == ssa.Value(g) {
												isG = true
											}
										}
										if s, ok := core.ConstString(mu.Key); ok && isG {
											inSwitch[s] = true
										}
									}
								}
							}
						}
					}
				}
				if st, ok := in.(*ssa.Store); ok {
					if fa, ok := st.Addr.(*ssa.FieldAddr); ok && core.FieldName(fa.X.Type(), fa.Field) == "TotalCount" {
						if l := core.LenOf(st.Val); l != nil {
							if u, ok := l.(*ssa.UnOp); ok {
								if fa2, ok := u.X.(*ssa.FieldAddr); ok && core.FieldName(fa2.X.Type(), fa2.Field) == "Findings" {
									total = true
								}
							}
						}
					}
				}
			}
		}
	} else {
		r.Fatal("anchor not found: (*Scanner).updateCounts")
	}
	for _, s := range consts {
		if inMap[s] {
			r.OK("severity-total", "severityOrder|"+s, "-", "")
		} else {
			r.Violate("severity-total", "severityOrder|"+s, "-", "severity "+s+" has no rank in severityOrder: it bypasses the threshold (unknown severities are always included)")
		}
		if inSwitch[s] {
			r.OK("severity-total", "updateCounts|"+s, "-", "")
		} else {
			r.Violate("severity-total", "updateCounts|"+s, "-", "updateCounts does not count findings of severity "+s+": the per-severity counts do not add up to TotalCount")
		}
	}
	if total {
		r.OK("severity-total", "updateCounts|TotalCount", p.FnPos(uc), "TotalCount = len(Findings)")
	} else {
		r.Violate("severity-total", "updateCounts|TotalCount", p.FnPos(uc), "TotalCount is not set to len(result.Findings)")
	}
}

func c16Counts(c *Ctx, p *core.Prog) {
	r := c.R
	inSec := func(f *ssa.Function) bool { return f != nil && f.Blocks != nil && core.InPkgs(f, "pkg/sql/security") }
	// functions that may append a finding
	mayAppend := map[*ssa.Function]bool{}
	for _, fn := range p.SrcFuncs("pkg/sql/security") {
		for _, b := range fn.Blocks {
			for _, in := range b.Instrs {
				if call, ok := in.(*ssa.Call); ok && core.IsBuiltinCall(&call.Call, "append") {
					if sl, ok := call.Type().Underlying().(*types.Slice); ok {
						if en := core.NamedOf(sl.Elem()); en != nil && en.Obj().Name() == "Finding" {
							mayAppend[fn] = true
						}
					}
				}
			}
		}
	}
	g := p.Restrict(inSec)
	closure := map[*ssa.Function]bool{}
	for f := range mayAppend {
		for q := range g.ReachesIn(f) {
			closure[q] = true
		}
	}
	for _, name := range []string{"Scan", "ScanSQL"} {
		fn := p.Method("pkg/sql/security", "Scanner", name)
		if fn == nil {
			r.Fatal("anchor not found: (*Scanner).%s", name)
			continue
		}
		// path rule: from any may-append call, every path to a return passes a call of updateCounts
		isUpdate := func(in ssa.Instruction) bool {
			call, ok := in.(*ssa.Call)
			return ok && call.Call.StaticCallee() != nil && call.Call.StaticCallee().Name() == "updateCounts"
		}
		bad := ""
		for _, b := range fn.Blocks {
			for i, in := range b.Instrs {
				call, ok := in.(*ssa.Call)
				if !ok || call.Call.StaticCallee() == nil || !closure[call.Call.StaticCallee()] || isUpdate(in) {
					continue
				}
				// search forward for a return not preceded by updateCounts
				seen := map[*ssa.BasicBlock]bool{}
				var walk func(blk *ssa.BasicBlock, from int) bool
				walk = func(blk *ssa.BasicBlock, from int) bool {
					for j := from; j < len(blk.Instrs); j++ {
						if isUpdate(blk.Instrs[j]) {
							return false
						}
						if _, isRet := blk.Instrs[j].(*ssa.Return); isRet {
							return true
						}
					}
					for _, s := range blk.Succs {
						if !seen[s] {
							seen[s] = true
							if walk(s, 0) {
								return true
							}
						}
					}
					return false
				}
				if walk(b, i+1) {
					bad = "after " + call.Call.StaticCallee().Name() + " at " + p.Pos(call.Pos()) + " a return is reachable without updateCounts"
				}
			}
		}
		if bad == "" {
			r.OK("counts-last", name, p.FnPos(fn), "updateCounts follows every call that can append, on all paths")
		} else {
			r.Violate("counts-last", name, p.FnPos(fn), bad+": TotalCount and the per-severity counts disagree with the findings list")
		}
	}
	// counts-once: updateCounts adds to the per-severity counters; unless it zeroes them first it must run exactly once per result
	upd := p.Method("pkg/sql/security", "Scanner", "updateCounts")
	if upd == nil {
		r.Fatal("anchor not found: (*Scanner).updateCounts")
		return
	}
	incremented := map[string]bool{}
	reset := map[string]bool{}
	for _, b := range upd.Blocks {
		for _, in := range b.Instrs {
			st, ok := in.(*ssa.Store)
			if !ok {
				continue
			}
			fa, ok := st.Addr.(*ssa.FieldAddr)
			if !ok {
				continue
			}
			f := core.FieldName(fa.X.Type(), fa.Field)
			if bo, ok := st.Val.(*ssa.BinOp); ok && bo.Op == token.ADD {
				if ld, ok := bo.X.(*ssa.UnOp); ok {
					if fa2, ok := ld.X.(*ssa.FieldAddr); ok && core.FieldName(fa2.X.Type(), fa2.Field) == f {
						incremented[f] = true
					}
				}
			}
			if _, isC := st.Val.(*ssa.Const); isC && b == upd.Blocks[0] {
				reset[f] = true
			}
		}
	}
	idempotent := len(incremented) > 0
	for f := range incremented {
		if !reset[f] {
			idempotent = false
		}
	}
	if len(incremented) == 0 {
		r.OK("counts-once", "updateCounts", p.FnPos(upd), "no counter is incremented in place")
		return
	}
	if idempotent {
		r.OK("counts-once", "updateCounts", p.FnPos(upd), "counters are zeroed before they are recomputed: repeated calls are harmless")
		return
	}
	nsites := 0
	for _, fn := range p.SrcFuncs("pkg/sql/security") {
		var sites []*ssa.Call
		for _, b := range fn.Blocks {
			for _, in := range b.Instrs {
				if call, ok := in.(*ssa.Call); ok && call.Call.StaticCallee() == upd {
					sites = append(sites, call)
				}
			}
		}
		for i, cs := range sites {
			nsites++
			key := core.FnName(fn) + sprintf("|updateCounts#%d", i+1)
			again := false
			for _, other := range sites {
				if instrReaches(cs, other, nil) {
					again = true
				}
			}
			if again {
				r.Violate("counts-once", key, p.Pos(cs.Pos()), "updateCounts adds to CriticalCount/HighCount/… without resetting them, and this call can be followed by another updateCounts on the same path (it sits in a loop or before a second call): findings counted before are counted again, so the per-severity counts exceed the findings listed")
			} else {
				r.OK("counts-once", key, p.Pos(cs.Pos()), "runs at most once per scan")
			}
		}
	}
	r.Floor("counts-once", nsites, 1, "updateCounts call sites")
}

func c16Pure(c *Ctx, p *core.Prog, astPath string) {
	r := c.R
	var roots []*ssa.Function
	for _, n := range []string{"Scan", "ScanSQL"} {
		if f := p.Method("pkg/sql/security", "Scanner", n); f != nil {
			roots = append(roots, f)
		}
	}
	reach := p.Reachable(roots, func(f *ssa.Function) bool { return core.InModule(f) && f.Blocks != nil })
	var fns []*ssa.Function
	for f := range reach {
		fns = append(fns, f)
	}
	sort.Slice(fns, func(i, j int) bool { return core.FnName(fns[i]) < core.FnName(fns[j]) })
	nbad := 0
	for _, fn := range fns {
		// functions run only under sync.Once are initialisers
		if strings.HasPrefix(fn.Name(), "init") {
			continue
		}
		for _, b := range fn.Blocks {
			for _, in := range b.Instrs {
				st, ok := in.(*ssa.Store)
				if !ok {
					continue
				}
				switch a := st.Addr.(type) {
				case *ssa.FieldAddr:
					if rootAlloc(a) != nil {
						continue
					}
					n := core.NamedOf(a.X.Type())
					if n == nil || n.Obj().Pkg() == nil {
						continue
					}
					if n.Obj().Pkg().Path() == astPath {
						nbad++
						r.Violate("pure", core.FnName(fn)+"|"+n.Obj().Name()+"."+core.FieldName(a.X.Type(), a.Field), p.Pos(st.Pos()), "the scan modifies the tree it inspects")
					}
					if n.Obj().Name() == "Scanner" {
						nbad++
						r.Violate("pure", core.FnName(fn)+"|Scanner."+core.FieldName(a.X.Type(), a.Field), p.Pos(st.Pos()), "the scan writes scanner state: results depend on previous scans")
					}
				case *ssa.Global:
					if !underOnce(p, fn) {
						nbad++
						r.Violate("pure", core.FnName(fn)+"|"+a.Name(), p.Pos(st.Pos()), "the scan writes a package-level variable")
					}
				}
			}
		}
	}
	r.OK("pure", "reachable", "-", sprintf("%d functions reachable from Scan/ScanSQL write no ast field, Scanner field or unsynchronised package variable (%d writes found)", len(fns), nbad))
	r.Floor("pure", len(fns), 8, "functions reachable from the scanner entry points")
}

// underOnce: fn is only ever invoked as the argument of a sync.Once.Do.
func underOnce(p *core.Prog, fn *ssa.Function) bool {
	node := p.CallGraph().Nodes[fn]
	if node == nil || len(node.In) == 0 {
		return false
	}
	for _, e := range node.In {
		caller := e.Caller.Func
		if caller == nil || caller.Name() != "Do" && caller.Name() != "doSlow" {
			return false
		}
	}
	return true
}

// c16DoubleWalk: one payload, one finding. If a scanner function hands the same node to two walkers that can
// both reach the same finding-producing function, every payload inside that node is reported twice (and 2^depth
// times when the construct nests).
func c16DoubleWalk(c *Ctx, p *core.Prog) {
	r := c.R
	r.Rule("single-walk", "no function of the scanner passes the same node value to two calls whose callees can both reach the same function that appends a finding")
	inSec := func(f *ssa.Function) bool { return f != nil && f.Blocks != nil && core.InPkgs(f, "pkg/sql/security") }
	fns := p.SrcFuncs("pkg/sql/security")
	appends := map[*ssa.Function]bool{}
	for _, fn := range fns {
		for _, b := range fn.Blocks {
			for _, in := range b.Instrs {
				if call, ok := in.(*ssa.Call); ok && core.IsBuiltinCall(&call.Call, "append") {
					if sl, ok := call.Type().Underlying().(*types.Slice); ok {
						if en := core.NamedOf(sl.Elem()); en != nil && en.Obj().Name() == "Finding" {
							appends[fn] = true
						}
					}
				}
			}
		}
	}
	reachApp := map[*ssa.Function]map[*ssa.Function]bool{}
	for _, fn := range fns {
		set := map[*ssa.Function]bool{}
		for g := range p.Reachable([]*ssa.Function{fn}, inSec) {
			if appends[g] {
				set[g] = true
			}
		}
		reachApp[fn] = set
	}
	n := 0
	for _, fn := range fns {
		type site struct {
			call   *ssa.Call
			callee *ssa.Function
		}
		byArg := map[ssa.Value][]site{}
		for _, b := range fn.Blocks {
			for _, in := range b.Instrs {
				call, ok := in.(*ssa.Call)
				if !ok {
					continue
				}
				callee := call.Call.StaticCallee()
				if callee == nil || !inSec(callee) || len(reachApp[callee]) == 0 {
					continue
				}
				for i, a := range call.Call.Args {
					if i == 0 && callee.Signature.Recv() != nil {
						continue
					}
					switch a.Type().Underlying().(type) {
					case *types.Interface, *types.Pointer:
						if strings.Contains(a.Type().String(), "ast.") {
							byArg[unwrapIface(a)] = append(byArg[unwrapIface(a)], site{call, callee})
						}
					}
				}
			}
		}
		seq := 0
		// deterministic order: arguments by the position of their first use
		var argOrder []ssa.Value
		for v := range byArg {
			argOrder = append(argOrder, v)
		}
		sort.Slice(argOrder, func(i, j int) bool { return byArg[argOrder[i]][0].call.Pos() < byArg[argOrder[j]][0].call.Pos() })
		for _, v := range argOrder {
			sites := byArg[v]
			for i := 0; i < len(sites); i++ {
				for j := i + 1; j < len(sites); j++ {
					a, b := sites[i], sites[j]
					// both calls can execute on one path?
					if !(instrReaches(a.call, b.call, nil) || instrReaches(b.call, a.call, nil)) {
						continue
					}
					var shared []string
					for g := range reachApp[a.callee] {
						if reachApp[b.callee][g] {
							shared = append(shared, g.Name())
						}
					}
					n++
					if len(shared) == 0 {
						continue
					}
					sort.Strings(shared)
					seq++
					first, second := a, b
					if second.call.Pos() < first.call.Pos() {
						first, second = second, first
					}
					r.Violate("single-walk", core.FnName(fn)+sprintf("|double#%d", seq), p.Pos(second.call.Pos()), "the same node is handed to "+first.callee.Name()+" and to "+second.callee.Name()+", which can both reach "+strings.Join(shared, ", ")+": every payload inside it is reported more than once")
				}
			}
		}
	}
	r.OK("single-walk", "scan", "-", sprintf("%d pairs of walker calls on a common node examined", n))
}

// c16OperatorCase: operators and keywords reach the tree in the letter case the user typed (BinaryExpression.Operator
// is "and" for `a and b`). A scanner decision that compares such a field with an upper-case word case-sensitively sees
// `x = 1 and 1=1` differently from `x = 1 AND 1=1`.
func c16OperatorCase(c *Ctx, p *core.Prog) {
	r := c.R
	r.Rule("operator-case", "in pkg/sql/security a node field that the parser fills with token text as written is compared with a word only after strings.ToUpper / ToLower or with strings.EqualFold")
	saved := rawTextFields
	rawTextFields = computeRawTextFields(p)
	defer func() { rawTextFields = saved }()
	var fields []string
	for k := range rawTextFields {
		fields = append(fields, k)
	}
	sort.Strings(fields)
	r.Extra("raw_text_ast_fields", fields)
	n := 0
	for _, fn := range p.SrcFuncs("pkg/sql/security") {
		seq := map[string]int{}
		for _, b := range fn.Blocks {
			for _, in := range b.Instrs {
				bo, ok := in.(*ssa.BinOp)
				if !ok || !(bo.Op == token.EQL || bo.Op == token.NEQ) {
					continue
				}
				k, other := bo.Y, bo.X
				if _, isC := core.ConstString(k); !isC {
					k, other = bo.X, bo.Y
				}
				s, isC := core.ConstString(k)
				if !isC || !hasLetter(s) {
					continue
				}
				t := literalTaint(other, 0, map[ssa.Value]bool{})
				if t == notLit {
					continue
				}
				n++
				seq[s]++
				key := core.FnName(fn) + "|" + s + sprintf("#%d", seq[s])
				if t == normLit {
					r.OK("operator-case", key, p.Pos(bo.Pos()), "compared after ToUpper/ToLower")
				} else {
					r.Violate("operator-case", key, p.Pos(bo.Pos()), "a node field holding token text as written is compared case-sensitively with \""+s+"\": the same query in another letter case is scanned differently")
				}
			}
		}
	}
	r.Floor("operator-case", n, 3, "comparisons of as-written node text with words in the scanner")
	r.Floor("operator-case", len(fields), 3, "AST fields filled with token text as written")
}
