package rules

import (
	"go/token"
	"go/types"
	"sort"

	"golang.org/x/tools/go/ssa"

	"gosqlxsa/core"
)

// c20SliceRescan (slice-rescan-in-loop): a function that walks one of its slice parameters from the first element (a range
// loop, or an index loop `i < len(param)` whose index starts at a constant) costs the length of that slice per call. Called
// from inside a loop with the same, loop-invariant slice as argument, it walks the list again for every iteration: with
// the token list as the slice and a loop over statements, errors or tokens as the caller this is quadratic in the input
// ("map every recovered error back to its source token by counting from the start"). The call is reported when it lies on
// a cycle of the caller's block graph (a call on the way out of the loop runs once), the argument is defined outside that
// cycle, and the cycle is not a counted loop over a constant.
func c20SliceRescan(c *Ctx, p *core.Prog, fired map[string]bool, scopes ...string) int {
	r := c.R
	fns := p.SrcFuncs(scopes...)
	// walkers: function -> parameter indices walked from the start
	walkers := map[*ssa.Function]map[int]bool{}
	idxOf := func(fn *ssa.Function, v ssa.Value) int {
		for i, par := range fn.Params {
			if v == ssa.Value(par) {
				return i
			}
		}
		return -1
	}
	for _, fn := range fns {
		for _, scc := range blockSCCs(fn, nil, nil, nil) {
			in := blockSet(scc)
			for _, b := range scc {
				iff, ok := b.Instrs[len(b.Instrs)-1].(*ssa.If)
				if !ok {
					continue
				}
				for _, bo := range condConjuncts(iff.Cond, 0) {
					if bo.Op != token.LSS {
						continue
					}
					l := core.LenOf(bo.Y)
					if l == nil {
						continue
					}
					pi := idxOf(fn, l)
					if pi < 0 || core.SliceOf(l.Type()) == nil {
						continue
					}
					// the index: a phi of the cycle (for i := K; i < len) or phi+1 (rotated range loop), starting at a constant
					var ph *ssa.Phi
					switch x := bo.X.(type) {
					case *ssa.Phi:
						ph = x
					case *ssa.BinOp:
						if x.Op == token.ADD {
							ph, _ = x.X.(*ssa.Phi)
						}
					}
					if ph == nil || !in[ph.Block()] {
						continue
					}
					constStart := false
					for i, e := range ph.Edges {
						if in[ph.Block().Preds[i]] {
							continue
						}
						if _, ok := core.ConstInt(e); ok {
							constStart = true
						}
					}
					if !constStart {
						continue
					}
					if walkers[fn] == nil {
						walkers[fn] = map[int]bool{}
					}
					walkers[fn][pi] = true
				}
			}
		}
	}
	n := 0
	for _, fn := range fns {
		sccs := blockSCCs(fn, nil, nil, nil)
		if len(sccs) == 0 {
			continue
		}
		seq := map[string]int{}
		for _, scc := range sccs {
			in := blockSet(scc)
			if constantCountedLoop(scc, in) {
				continue
			}
			blocks := append([]*ssa.BasicBlock(nil), scc...)
			sort.Slice(blocks, func(i, j int) bool { return blocks[i].Index < blocks[j].Index })
			for _, b := range blocks {
				for _, ins := range b.Instrs {
					ci, ok := ins.(ssa.CallInstruction)
					if !ok {
						continue
					}
					callee := ci.Common().StaticCallee()
					if callee == nil || callee == fn || walkers[callee] == nil {
						continue
					}
					for i, a := range ci.Common().Args {
						if !walkers[callee][i] {
							continue
						}
						if _, isSlice := a.Type().Underlying().(*types.Slice); !isSlice {
							continue
						}
						// loop-invariant: defined outside the cycle
						if ai, ok := a.(ssa.Instruction); ok && ai.Block() != nil && in[ai.Block()] {
							continue
						}
						if _, isConst := a.(*ssa.Const); isConst {
							continue
						}
						n++
						base := core.FnName(fn) + "|" + callee.Name()
						seq[base]++
						key := base + sprintf("#%d", seq[base])
						if fired != nil {
							fired[key] = true
							continue
						}
						r.Violate("slice-rescan-in-loop", key, p.Pos(ins.Pos()), "this call sits in a loop of "+core.FnName(fn)+" and passes the same list ("+a.Name()+", defined outside the loop) on every iteration to "+callee.Name()+", which walks its parameter "+callee.Params[i].Name()+" from the first element: iterations × length, quadratic when both grow with the input")
					}
				}
			}
		}
	}
	return n
}

// constantCountedLoop: some exit test of the cycle compares an induction phi with a constant (for i := 0; i < 3; i++).
func constantCountedLoop(scc []*ssa.BasicBlock, in map[*ssa.BasicBlock]bool) bool {
	for _, b := range scc {
		iff, ok := b.Instrs[len(b.Instrs)-1].(*ssa.If)
		if !ok {
			continue
		}
		exits := false
		for _, s := range b.Succs {
			if !in[s] {
				exits = true
			}
		}
		if !exits {
			continue
		}
		for _, bo := range condConjuncts(iff.Cond, 0) {
			if bo.Op != token.LSS && bo.Op != token.LEQ {
				continue
			}
			if _, ok := core.ConstInt(bo.Y); !ok {
				continue
			}
			switch x := bo.X.(type) {
			case *ssa.Phi:
				if in[x.Block()] {
					return true
				}
			case *ssa.BinOp:
				if ph, ok := x.X.(*ssa.Phi); ok && in[ph.Block()] {
					return true
				}
			}
		}
	}
	return false
}
