package rules

import (
	"go/ast"
	"go/token"
	"go/types"
	"os"
	"sort"
	"strings"

	"golang.org/x/tools/go/ast/astutil"
	"golang.org/x/tools/go/ssa"

	"gosqlxsa/core"
)

// E3: index / slice bounds obligations discharged by dominating guards.

// lin is a linear form  term + off  (term "" means the constant off alone).
type lin struct {
	term string
	off  int64
	deps []string // field names / "var:<alloc>" the term's value depends on (for clobber checks)
	ok   bool
}

// fact:  a - b <= k
type fact struct {
	loads []*ssa.UnOp // path-named loads the fact's operands were read by
	a, b  lin
	k     int64
	at    *ssa.BasicBlock // block whose entry the fact holds at (successor of the guard)
	deps  []string
}

type boundsEngine struct {
	// pathMode: loads are named by their access path (needs clobber checks) instead of by SSA identity
	pathMode  bool
	p         *core.Prog
	mod       map[*ssa.Function]map[string]bool
	nonnegF   map[string]int // field "Type.f" -> 1 nonneg, 2 not
	termMem   map[ssa.Value]lin
	nonnegP   map[*ssa.Parameter]bool
	pathLoads []*ssa.UnOp // loads named by path while building the current term (path mode)
	entryMemo map[*ssa.Function][]fact
	bsMemo    map[*ssa.Function][]bsLoop
	closMemo  map[*ssa.Function][]fact
}

func newBoundsEngine(p *core.Prog) *boundsEngine {
	return &boundsEngine{p: p, mod: map[*ssa.Function]map[string]bool{}, nonnegF: map[string]int{}, termMem: map[ssa.Value]lin{}}
}

func fieldKey(x ssa.Value, idx int) string {
	n := core.NamedOf(x.Type())
	if n == nil {
		return "?." + core.FieldName(x.Type(), idx)
	}
	return n.Obj().Name() + "." + core.FieldName(x.Type(), idx)
}

// addrTerm gives a symbolic name for an address: param-rooted field paths and local variables.
func (e *boundsEngine) addrTerm(v ssa.Value, depth int) (string, []string, bool) {
	if depth > 8 {
		return "", nil, false
	}
	switch x := v.(type) {
	case *ssa.Parameter:
		return x.Name(), nil, true
	case *ssa.FreeVar:
		return "fv:" + x.Name(), []string{"var:fv:" + x.Name()}, true
	case *ssa.Alloc:
		return "&" + x.Name() + "@" + x.Parent().Name(), []string{"var:" + x.Name()}, true
	case *ssa.Global:
		return "g:" + x.Name(), []string{"var:g:" + x.Name()}, true
	case *ssa.FieldAddr:
		var b string
		var d []string
		var ok bool
		switch inner := x.X.(type) {
		case *ssa.FieldAddr, *ssa.Alloc:
			b, d, ok = e.addrTerm(inner, depth+1)
		default:
			b, d, ok = e.valTermS(x.X, depth+1)
		}
		if !ok {
			return "", nil, false
		}
		// a field of a local, non-escaping struct copy can only change through stores in this function
		if root := rootAlloc(x); root != nil && !allocEscapes(root) {
			return b + "." + core.FieldName(x.X.Type(), x.Field), []string{"var:" + root.Name()}, true
		}
		fk := fieldKey(x.X, x.Field)
		return b + "." + core.FieldName(x.X.Type(), x.Field), append(d, fk), true
	case *ssa.UnOp:
		if x.Op == token.MUL {
			return e.valTermS(x, depth+1)
		}
	}
	return "", nil, false
}

func rootAlloc(fa *ssa.FieldAddr) *ssa.Alloc {
	var v ssa.Value = fa
	for {
		switch x := v.(type) {
		case *ssa.FieldAddr:
			v = x.X
		case *ssa.Alloc:
			return x
		default:
			return nil
		}
	}
}

// allocEscapes: the address of the local is used other than for field selection, loads and stores to it.
func allocEscapes(a *ssa.Alloc) bool {
	if a.Heap {
		// captured by a closure or returned
		for _, ref := range core.Referrers(a) {
			switch ref.(type) {
			case *ssa.MakeClosure, *ssa.Return, *ssa.MakeInterface:
				return true
			}
		}
	}
	var check func(v ssa.Value, depth int) bool
	check = func(v ssa.Value, depth int) bool {
		if depth > 4 {
			return true
		}
		for _, ref := range core.Referrers(v) {
			switch x := ref.(type) {
			case *ssa.FieldAddr:
				if check(x, depth+1) {
					return true
				}
			case *ssa.UnOp, *ssa.DebugRef:
			case *ssa.Store:
				if x.Val == v {
					return true
				}
			case *ssa.IndexAddr:
				if check(x, depth+1) {
					return true
				}
			default:
				return true
			}
		}
		return false
	}
	return check(a, 0)
}

// valTermS: symbolic term of a value (without offset handling).
func (e *boundsEngine) valTermS(v ssa.Value, depth int) (string, []string, bool) {
	if depth > 8 {
		return "", nil, false
	}
	switch x := v.(type) {
	case *ssa.Parameter:
		return x.Name(), nil, true
	case *ssa.UnOp:
		if x.Op == token.MUL && e.pathMode {
			a, d, ok := e.addrTerm(x.X, depth+1)
			if ok {
				e.pathLoads = append(e.pathLoads, x)
				return "*" + a, d, true
			}
		}
	case *ssa.Field:
		if e.pathMode {
			b, d, ok := e.valTermS(x.X, depth+1)
			if ok {
				return b + "." + core.FieldName(x.X.Type(), x.Field), append(d, fieldKey(x.X, x.Field)), true
			}
		}
	case *ssa.Call:
		if (core.IsBuiltinCall(&x.Call, "len") || core.IsBuiltinCall(&x.Call, "cap")) && len(x.Call.Args) == 1 {
			name := x.Call.Value.(*ssa.Builtin).Name()
			b, d, ok := e.valTermS(x.Call.Args[0], depth+1)
			if ok {
				return name + "(" + b + ")", d, true
			}
			return name + "(" + x.Call.Args[0].Name() + "@" + x.Parent().Name() + ")", nil, true
		}
	case *ssa.ChangeType:
		return e.valTermS(x.X, depth+1)
	case *ssa.Convert:
		// integer width conversions keep the value for our purposes
		if isIntType(x.X.Type()) && isIntType(x.Type()) {
			return e.valTermS(x.X, depth+1)
		}
		// string <-> []byte conversions keep the length (terms of such values are only used inside len())
		if isStringOrBytes(x.X.Type()) && isStringOrBytes(x.Type()) {
			return e.valTermS(x.X, depth+1)
		}
	case *ssa.Slice:
		// x[:]  has the same length as x
		if x.Low == nil && x.High == nil {
			return e.valTermS(x.X, depth+1)
		}
	}
	// SSA value identity
	if v.Parent() != nil {
		return v.Name() + "@" + v.Parent().Name(), nil, true
	}
	return v.Name(), nil, true
}

func isIntType(t types.Type) bool {
	b, ok := t.Underlying().(*types.Basic)
	return ok && b.Info()&types.IsInteger != 0
}

// linOf: v as term+offset.
func (e *boundsEngine) linOf(v ssa.Value) lin {
	if k, ok := core.ConstInt(v); ok {
		return lin{"", k, nil, true}
	}
	if arg := core.LenOf(v); arg != nil {
		if l := e.lenLin(arg); l.ok {
			return l
		}
	}
	switch x := v.(type) {
	case *ssa.BinOp:
		if x.Op == token.ADD || x.Op == token.SUB {
			if k, ok := core.ConstInt(x.Y); ok {
				l := e.linOf(x.X)
				if l.ok {
					if x.Op == token.ADD {
						l.off += k
					} else {
						l.off -= k
					}
					return l
				}
			}
			if k, ok := core.ConstInt(x.X); ok && x.Op == token.ADD {
				l := e.linOf(x.Y)
				if l.ok {
					l.off += k
					return l
				}
			}
		}
	case *ssa.Convert:
		if isIntType(x.X.Type()) && isIntType(x.Type()) {
			return e.linOf(x.X)
		}
	case *ssa.ChangeType:
		return e.linOf(x.X)
	}
	t, d, ok := e.valTermS(v, 0)
	return lin{t, 0, d, ok}
}

// lenLin: len(X) as a linear form (for X a slice/string/array value).
func (e *boundsEngine) lenLin(x ssa.Value) lin {
	// array / pointer to array: constant length
	t := x.Type()
	if p, ok := t.Underlying().(*types.Pointer); ok {
		t = p.Elem()
	}
	if a, ok := t.Underlying().(*types.Array); ok {
		return lin{"", a.Len(), nil, true}
	}
	if s, ok := core.ConstString(x); ok {
		return lin{"", int64(len(s)), nil, true}
	}
	// make([]T, n) / slice of known bounds
	switch y := x.(type) {
	case *ssa.MakeSlice:
		return e.linOf(y.Len)
	case *ssa.Slice:
		if y.Low == nil && y.High == nil {
			return e.lenLin(y.X)
		}
		if y.High != nil {
			h := e.linOf(y.High)
			if y.Low == nil && h.ok {
				return h
			}
			if k, ok := core.ConstInt(y.Low); ok && h.ok {
				h.off -= k
				return h
			}
		}
	case *ssa.Convert:
		// []byte(s) / string(b): same length as the operand
		if _, isStr := y.X.Type().Underlying().(*types.Basic); isStr || true {
			if isStringOrBytes(y.X.Type()) && isStringOrBytes(y.Type()) {
				return e.lenLin(y.X)
			}
		}
	}
	b, d, ok := e.valTermS(x, 0)
	return lin{"len(" + b + ")", 0, d, ok}
}

func isStringOrBytes(t types.Type) bool {
	if b, ok := t.Underlying().(*types.Basic); ok && b.Info()&types.IsString != 0 {
		return true
	}
	if s, ok := t.Underlying().(*types.Slice); ok {
		if b, ok := s.Elem().Underlying().(*types.Basic); ok && (b.Kind() == types.Byte || b.Kind() == types.Uint8) {
			return true
		}
	}
	return false
}

// atoms that hold when cond is true (neg=false) or false (neg=true).
func condAtoms(cond ssa.Value, neg bool, depth int) []struct {
	bo  *ssa.BinOp
	neg bool
} {
	type at = struct {
		bo  *ssa.BinOp
		neg bool
	}
	if depth > 5 {
		return nil
	}
	switch x := cond.(type) {
	case *ssa.UnOp:
		if x.Op == token.NOT {
			return condAtoms(x.X, !neg, depth+1)
		}
	case *ssa.BinOp:
		return []at{{x, neg}}
	case *ssa.Phi:
		// a && b : phi[false…, b] — true implies all; a || b : phi[true…, b] — false implies none of them
		var out []at
		wantConst := "false"
		if neg {
			wantConst = "true"
		}
		n := 0
		for i, ed := range x.Edges {
			if c, ok := ed.(*ssa.Const); ok && c.Value != nil {
				if c.Value.String() == wantConst {
					continue
				}
				return nil
			}
			n++
			out = append(out, condAtoms(ed, neg, depth+1)...)
			p := x.Block().Preds[i]
			if len(p.Preds) == 1 {
				q := p.Preds[0]
				if iff, ok := q.Instrs[len(q.Instrs)-1].(*ssa.If); ok && len(q.Succs) == 2 {
					k := 0
					if q.Succs[1] == p && q.Succs[0] != p {
						k = 1
					}
					// reaching p via the true edge (&&) or the false edge (||)
					if (k == 0 && !neg) || (k == 1 && neg) {
						out = append(out, condAtoms(iff.Cond, neg, depth+1)...)
					}
				}
			}
		}
		if n == 1 {
			return out
		}
	}
	return nil
}

// factsFrom turns one comparison (possibly negated) into  a-b<=k  facts.
func (e *boundsEngine) factsFrom(bo *ssa.BinOp, neg bool) []fact {
	op := bo.Op
	if neg {
		switch op {
		case token.LSS:
			op = token.GEQ
		case token.LEQ:
			op = token.GTR
		case token.GTR:
			op = token.LEQ
		case token.GEQ:
			op = token.LSS
		case token.EQL:
			op = token.NEQ
		case token.NEQ:
			op = token.EQL
		default:
			return nil
		}
	}
	if !isIntType(bo.X.Type()) {
		return nil
	}
	x, y := e.linOf(bo.X), e.linOf(bo.Y)
	if !x.ok || !y.ok {
		return nil
	}
	mk := func(a, b lin, k int64) fact {
		// a.term+a.off - (b.term+b.off) <= k   =>   a.term - b.term <= k - a.off + b.off
		return fact{a: lin{a.term, 0, a.deps, true}, b: lin{b.term, 0, b.deps, true}, k: k - a.off + b.off, deps: append(append([]string{}, a.deps...), b.deps...)}
	}
	switch op {
	case token.LSS: // x < y  =>  x - y <= -1
		return []fact{mk(x, y, -1)}
	case token.LEQ:
		return []fact{mk(x, y, 0)}
	case token.GTR: // x > y => y - x <= -1
		return []fact{mk(y, x, -1)}
	case token.GEQ:
		return []fact{mk(y, x, 0)}
	case token.EQL:
		return []fact{mk(x, y, 0), mk(y, x, 0)}
	case token.NEQ:
		// len(z) != 0  =>  len(z) >= 1
		if y.term == "" && y.off == 0 && strings.HasPrefix(x.term, "len(") && x.off == 0 {
			return []fact{mk(y, x, -1)}
		}
		if x.term == "" && x.off == 0 && strings.HasPrefix(y.term, "len(") && y.off == 0 {
			return []fact{mk(x, y, -1)}
		}
		// i != 0 for an i that is never negative (a counter that starts at 0 and only grows)  =>  i >= 1
		if y.term == "" && y.off == 0 && x.term != "" && e.nonneg(bo.X, nil, bo, 0, map[ssa.Value]bool{}) {
			return []fact{mk(y, x, -1-0)}
		}
		if x.term == "" && x.off == 0 && y.term != "" && e.nonneg(bo.Y, nil, bo, 0, map[ssa.Value]bool{}) {
			return []fact{mk(x, y, -1)}
		}
	}
	return nil
}

// dominatingFacts collects the facts that hold at the entry of block b.
func (e *boundsEngine) dominatingFacts(b *ssa.BasicBlock) []fact {
	out := append([]fact{}, e.entryFacts(b.Parent())...)
	out = append(out, e.idiomFacts(b.Parent())...)
	out = append(out, e.searchClosureFacts(b.Parent())...)
	out = append(out, e.closureCallFacts(b.Parent())...)
	for d := b; d != nil; d = d.Idom() {
		id := d.Idom()
		if id == nil {
			break
		}
		// which edge of some dominator leads (exclusively) into d's dominance region?
		for _, pred := range d.Preds {
			_ = pred
		}
		if len(d.Preds) == 1 {
			p := d.Preds[0]
			if iff, ok := p.Instrs[len(p.Instrs)-1].(*ssa.If); ok && len(p.Succs) == 2 && p.Succs[0] != p.Succs[1] {
				neg := p.Succs[1] == d
				for _, at := range condAtoms(iff.Cond, neg, 0) {
					e.pathLoads = nil
					fs := e.factsFrom(at.bo, at.neg)
					lds := append([]*ssa.UnOp{}, e.pathLoads...)
					for _, f := range fs {
						f.at = d
						f.loads = lds
						out = append(out, f)
					}
				}
			}
		}
	}
	return out
}

// useLoadsStale: a path-named load feeding the use may be out of date at the use.
func (e *boundsEngine) useLoadsStale(x ssa.Value, use ssa.Instruction) bool {
	lds := append([]*ssa.UnOp{}, e.pathLoads...)
	for _, ld := range lds {
		_, d, ok := e.valTermS(ld, 0)
		if !ok {
			return true
		}
		if e.clobbered(d, ld.Block(), ld, use) {
			return true
		}
	}
	return false
}

// modWitness: a call chain from fn to a function that directly stores field d (debug aid).
func (e *boundsEngine) modWitness(fn *ssa.Function, d string) string {
	prev := map[*ssa.Function]*ssa.Function{fn: nil}
	queue := []*ssa.Function{fn}
	for len(queue) > 0 {
		f := queue[0]
		queue = queue[1:]
		direct := false
		for _, b := range f.Blocks {
			for _, in := range b.Instrs {
				if st, ok := in.(*ssa.Store); ok {
					if fa, ok := st.Addr.(*ssa.FieldAddr); ok && rootAlloc(fa) == nil {
						for a := ssa.Value(fa); ; {
							f2, ok := a.(*ssa.FieldAddr)
							if !ok {
								break
							}
							if fieldKey(f2.X, f2.Field) == d {
								direct = true
							}
							a = f2.X
						}
					}
				}
			}
		}
		if direct {
			var parts []string
			for x := f; x != nil; x = prev[x] {
				parts = append([]string{core.FnName(x)}, parts...)
			}
			return strings.Join(parts, " -> ")
		}
		for _, b := range f.Blocks {
			for _, in := range b.Instrs {
				if ci, ok := in.(ssa.CallInstruction); ok {
					for _, c := range e.p.Callees(ci) {
						if _, seen := prev[c]; !seen && c.Blocks != nil {
							prev[c] = f
							queue = append(queue, c)
						}
					}
				}
			}
		}
	}
	return "?"
}

// freshLoads: every load was executed in the consumer's block, before it, with
// nothing in between that may change what it read.
func (e *boundsEngine) freshLoads(loads []*ssa.UnOp, consumer ssa.Instruction) bool {
	cb := consumer.Block()
	for _, ld := range loads {
		if ld.Block() != cb {
			return false
		}
		seenLd := false
		for _, in := range cb.Instrs {
			if in == ssa.Instruction(ld) {
				seenLd = true
				continue
			}
			if in == consumer {
				break
			}
			if !seenLd {
				continue
			}
			switch x := in.(type) {
			case *ssa.Store:
				_ = x
				// a store between the load and its consumer: be conservative unless it is an element store
				if _, isIdx := x.Addr.(*ssa.IndexAddr); !isIdx {
					return false
				}
			case ssa.CallInstruction:
				if _, isB := x.Common().Value.(*ssa.Builtin); !isB {
					return false
				}
			}
		}
		if !seenLd {
			return false
		}
	}
	return true
}

// entryFacts: path-named facts that hold at every in-module call site of an
// unexported function hold at its entry (receiver and parameters keep their
// names only when caller and callee use the same identifiers; otherwise the
// terms simply do not match and nothing is assumed).
func (e *boundsEngine) entryFacts(fn *ssa.Function) []fact {
	if !e.pathMode || fn == nil {
		return nil
	}
	if v, ok := e.entryMemo[fn]; ok {
		return v
	}
	if e.entryMemo == nil {
		e.entryMemo = map[*ssa.Function][]fact{}
	}
	e.entryMemo[fn] = nil // recursion guard
	if fn.Parent() != nil || (fn.Object() != nil && fn.Object().Exported()) || len(fn.Blocks) == 0 {
		return nil
	}
	node := e.p.CallGraph().Nodes[fn]
	if node == nil || len(node.In) == 0 {
		return nil
	}
	type key struct{ a, b string }
	var acc map[key]fact
	for _, in := range node.In {
		if in.Site == nil || in.Caller.Func == nil || in.Caller.Func.Blocks == nil {
			return nil
		}
		// the receiver / arguments must be passed under the same names the callee uses
		args := in.Site.Common().Args
		if len(args) != len(fn.Params) {
			return nil
		}
		rename := true
		for i, a := range args {
			if par, ok := a.(*ssa.Parameter); ok && par.Name() == fn.Params[i].Name() {
				continue
			}
			if i == 0 && fn.Signature.Recv() != nil {
				rename = false
			}
		}
		if !rename {
			return nil
		}
		here := map[key]fact{}
		for _, f := range e.dominatingFacts(in.Site.Block()) {
			if len(f.deps) == 0 || e.factClobbered(f, in.Site) {
				continue
			}
			// only facts about the receiver's fields (terms rooted at the receiver name)
			recv := ""
			if fn.Signature.Recv() != nil {
				recv = fn.Params[0].Name()
			}
			if recv == "" || !(mentionsRoot(f.a.term, recv) || f.a.term == "") || !(mentionsRoot(f.b.term, recv) || f.b.term == "") {
				continue
			}
			k := key{f.a.term, f.b.term}
			if old, ok := here[k]; !ok || f.k < old.k {
				here[k] = f
			}
		}
		if acc == nil {
			acc = here
			continue
		}
		for k, f := range acc {
			g, ok := here[k]
			if !ok {
				delete(acc, k)
				continue
			}
			if g.k > f.k {
				f.k = g.k
				acc[k] = f
			}
		}
	}
	var out []fact
	for _, f := range acc {
		f.at = fn.Blocks[0]
		f.loads = nil
		out = append(out, f)
	}
	sort.Slice(out, func(i, j int) bool { return out[i].a.term+out[i].b.term < out[j].a.term+out[j].b.term })
	e.entryMemo[fn] = out
	return out
}

// mentionsRoot: the path term is built only from the variable root (e.g. "*t.pos.Index", "len(*t.input)").
func mentionsRoot(term, root string) bool {
	t := strings.TrimPrefix(term, "len(")
	t = strings.TrimPrefix(t, "cap(")
	t = strings.TrimPrefix(t, "*")
	return strings.HasPrefix(t, root+".")
}

// modSet: fields (Type.f) and "*" possibly stored by fn or its callees.
func (e *boundsEngine) modSet(fn *ssa.Function) map[string]bool {
	if m, ok := e.mod[fn]; ok {
		return m
	}
	m := map[string]bool{}
	e.mod[fn] = m
	if fn == nil || fn.Blocks == nil {
		return m
	}
	for _, b := range fn.Blocks {
		for _, in := range b.Instrs {
			switch x := in.(type) {
			case *ssa.Store:
				if fa0, ok := x.Addr.(*ssa.FieldAddr); ok && rootAlloc(fa0) != nil {
					continue // initialising a freshly allocated / local object cannot change an existing one
				}
				for a := x.Addr; ; {
					if fa, ok := a.(*ssa.FieldAddr); ok {
						m[fieldKey(fa.X, fa.Field)] = true
						a = fa.X
						continue
					}
					// a store into an element, or through a loaded pointer, does not change the
					// field that holds the slice header / pointer
					break
				}
			case ssa.CallInstruction:
				for _, c := range e.p.Callees(x) {
					if c == fn {
						continue
					}
					if c.Blocks == nil {
						continue
					}
					for k := range e.modSet(c) {
						m[k] = true
					}
				}
			}
		}
	}
	return m
}

// factClobbered: may a value the fact was computed from have changed by the time of use?
func (e *boundsEngine) factClobbered(f fact, use ssa.Instruction) bool {
	if len(f.deps) == 0 {
		return false
	}
	if len(f.loads) == 0 {
		return e.clobbered(f.deps, f.at, nil, use)
	}
	for _, ld := range f.loads {
		if e.clobbered(f.deps, ld.Block(), ld, use) {
			return true
		}
	}
	return false
}

// clobbered: may any of deps change between the entry of block from and the
// instruction use (exclusive), along any path?
func (e *boundsEngine) clobbered(deps []string, from *ssa.BasicBlock, after ssa.Instruction, use ssa.Instruction) bool {
	if len(deps) == 0 {
		return false
	}
	ub := use.Block()
	want := map[string]bool{}
	for _, d := range deps {
		want[d] = true
	}
	hit := func(in ssa.Instruction) bool {
		switch x := in.(type) {
		case *ssa.Store:
			for a := x.Addr; ; {
				switch y := a.(type) {
				case *ssa.FieldAddr:
					if want[fieldKey(y.X, y.Field)] {
						return true
					}
					if root := rootAlloc(y); root != nil && want["var:"+root.Name()] {
						return true
					}
					a = y.X
					continue
				case *ssa.Alloc:
					if want["var:"+y.Name()] {
						return true
					}
				case *ssa.FreeVar:
					if want["var:fv:"+y.Name()] {
						return true
					}
				case *ssa.Global:
					if want["var:g:"+y.Name()] {
						return true
					}
				}
				break
			}
		case ssa.CallInstruction:
			if _, isB := x.Common().Value.(*ssa.Builtin); isB {
				return false
			}
			cs := e.p.Callees(x)
			if len(cs) == 0 && !x.Common().IsInvoke() && x.Common().StaticCallee() == nil {
				return true // unknown function value
			}
			for _, c := range cs {
				if c.Blocks == nil {
					continue
				}
				ms := e.modSet(c)
				for d := range want {
					if ms[d] {
						if os.Getenv("GOSQLX_SA_BFN") == use.Parent().Name() {
							println("   CLOBBER by call to", core.FnName(c), "dep", d, "at", e.p.Pos(in.Pos()), "via", e.modWitness(c, d))
						}
						return true
					}
				}
				if c.Parent() != nil {
					for d := range want {
						if strings.HasPrefix(d, "var:") && closureMayWriteVar(c, strings.TrimPrefix(d, "var:"), 0) {
							return true
						}
					}
				}
			}
		}
		return false
	}
	// live blocks: those from which the use is reachable without passing the start point again
	live := map[*ssa.BasicBlock]bool{ub: true}
	{
		work := []*ssa.BasicBlock{ub}
		for len(work) > 0 {
			b := work[len(work)-1]
			work = work[:len(work)-1]
			for _, p := range b.Preds {
				if live[p] {
					continue
				}
				live[p] = true
				if after != nil && p == from {
					continue // entering `from` from its top re-reads the value
				}
				work = append(work, p)
			}
		}
	}
	// walk every path from the start point to the use; a path ends at the use, or when it
	// passes the start point again (the value is then re-read)
	visited := map[*ssa.BasicBlock]bool{}
	var scan func(b *ssa.BasicBlock, start int) bool
	scan = func(b *ssa.BasicBlock, start int) bool {
		for i := start; i < len(b.Instrs); i++ {
			in := b.Instrs[i]
			if in == use {
				return false
			}
			if after != nil && in == after {
				return false
			}
			if live[b] && hit(in) {
				return true
			}
		}
		for _, s := range b.Succs {
			if visited[s] || !live[s] {
				continue
			}
			if after == nil && s == from {
				continue
			}
			visited[s] = true
			if scan(s, 0) {
				return true
			}
		}
		return false
	}
	start := 0
	if after != nil {
		for i, in := range from.Instrs {
			if in == after {
				start = i + 1
			}
		}
	} else {
		visited[from] = true
	}
	return scan(from, start)
}

func onlyFieldDeps(deps []string) bool { return true }

// nonneg: is v certainly >= 0 ?
func (e *boundsEngine) nonneg(v ssa.Value, facts []fact, use ssa.Instruction, depth int, busy map[ssa.Value]bool) bool {
	if depth > 8 {
		return false
	}
	if k, ok := core.ConstInt(v); ok {
		return k >= 0
	}
	if busy[v] {
		return true // optimistic for induction cycles
	}
	busy[v] = true
	defer delete(busy, v)
	switch x := v.(type) {
	case *ssa.Call:
		if core.IsBuiltinCall(&x.Call, "len") || core.IsBuiltinCall(&x.Call, "cap") || core.IsBuiltinCall(&x.Call, "copy") || core.IsBuiltinCall(&x.Call, "min") && false {
			return true
		}
		if f := x.Call.StaticCallee(); f != nil && core.FnPkg(f) != nil {
			switch core.FnPkg(f).Path() + "." + f.Name() {
			case "unicode/utf8.RuneLen", "unicode/utf8.RuneCountInString", "unicode/utf8.RuneCount":
				return f.Name() != "RuneLen"
			}
		}
	case *ssa.Extract:
		if c, ok := x.Tuple.(*ssa.Call); ok {
			if f := c.Call.StaticCallee(); f != nil && core.FnPkg(f) != nil && core.FnPkg(f).Path() == "unicode/utf8" && strings.HasPrefix(f.Name(), "DecodeRune") && x.Index == 1 {
				return true
			}
		}
		if _, ok := x.Tuple.(*ssa.Next); ok && x.Index == 1 {
			// key of a range over string / slice iterator
			return isIntType(x.Type())
		}
	case *ssa.Phi:
		all := true
		for i, ed := range x.Edges {
			pred := x.Block().Preds[i]
			var ef []fact
			if depth < 3 {
				ef = e.edgeFacts(pred, x.Block())
			}
			if !e.nonneg(ed, ef, pred.Instrs[len(pred.Instrs)-1], depth+1, busy) {
				all = false
				break
			}
		}
		if all {
			return true
		}
	case *ssa.BinOp:
		switch x.Op {
		case token.ADD, token.MUL:
			if e.nonneg(x.X, facts, use, depth+1, busy) && e.nonneg(x.Y, facts, use, depth+1, busy) {
				return true
			}
		case token.REM, token.QUO, token.SHR, token.AND:
			if e.nonneg(x.X, facts, use, depth+1, busy) || (x.Op == token.AND && e.nonneg(x.Y, facts, use, depth+1, busy)) {
				return true
			}
		case token.SUB:
			// a - b with a fact b <= a  (b - a <= 0)
			a, b := e.linOf(x.X), e.linOf(x.Y)
			if a.ok && b.ok {
				for _, f := range facts {
					if f.a.term == b.term && f.b.term == a.term && f.k+b.off-a.off <= 0 && !e.factClobbered(f, use) {
						return true
					}
				}
				// rangeindex: phi(-1) + 1 is handled as ADD; x - const with x >= const via facts
			}
		}
	case *ssa.Convert:
		if isIntType(x.X.Type()) {
			if b, ok := x.X.Type().Underlying().(*types.Basic); ok && b.Info()&types.IsUnsigned != 0 {
				return true
			}
			if e.nonneg(x.X, facts, use, depth+1, busy) {
				return true
			}
		}
	case *ssa.UnOp:
		if x.Op == token.MUL {
			// load of a field that is never negative module-wide, or of a local counter
			if fa, ok := x.X.(*ssa.FieldAddr); ok {
				if e.nonnegField(fieldKey(fa.X, fa.Field)) {
					return true
				}
			}
			// an element of an int-slice field into which only non-negative values are ever put (lineStarts)
			if ia, ok := x.X.(*ssa.IndexAddr); ok && isIntType(x.Type()) {
				if ld, ok := ia.X.(*ssa.UnOp); ok && ld.Op == token.MUL {
					if fa, ok := ld.X.(*ssa.FieldAddr); ok && e.nonnegElemsField(fieldKey(fa.X, fa.Field)) {
						return true
					}
				}
			}
			if a, ok := x.X.(*ssa.Alloc); ok {
				all := true
				n := 0
				for _, ref := range core.Referrers(a) {
					if st, ok := ref.(*ssa.Store); ok && st.Addr == ssa.Value(a) {
						n++
						if !e.nonneg(st.Val, nil, use, depth+1, busy) {
							all = false
						}
					} else if _, isLoad := ref.(*ssa.UnOp); !isLoad {
						if _, isDbg := ref.(*ssa.DebugRef); !isDbg {
							all = false // address escapes
						}
					}
				}
				if all && n > 0 {
					return true
				}
			}
		}
	}
	if par, ok := v.(*ssa.Parameter); ok && isIntType(par.Type()) && e.nonnegParam(par) {
		return true
	}
	// facts: 0 - v <= k with k <= off
	l := e.linOf(v)
	if l.ok {
		if l.term == "" {
			return l.off >= 0
		}
		for _, f := range facts {
			if f.a.term == "" && f.b.term == l.term && f.k <= l.off && !e.factClobbered(f, use) {
				return true
			}
		}
		// rangeindex idiom: phi[-1, self] + 1
		if l.off >= 1 {
			if bo, ok := v.(*ssa.BinOp); ok {
				if ph, ok := bo.X.(*ssa.Phi); ok {
					good := true
					for _, ed := range ph.Edges {
						if k, isC := core.ConstInt(ed); isC && k >= -1 {
							continue
						}
						if ed == v {
							continue
						}
						good = false
					}
					if good {
						return true
					}
				}
			}
		}
	}
	return false
}

// nonnegParam: every call site in the module passes a non-negative value.
func (e *boundsEngine) nonnegParam(par *ssa.Parameter) bool {
	if v, ok := e.nonnegP[par]; ok {
		return v
	}
	if e.nonnegP == nil {
		e.nonnegP = map[*ssa.Parameter]bool{}
	}
	e.nonnegP[par] = true // optimistic for recursion
	fn := par.Parent()
	idx := -1
	for i, q := range fn.Params {
		if q == par {
			idx = i
		}
	}
	node := e.p.CallGraph().Nodes[fn]
	ok := idx >= 0 && node != nil && len(node.In) > 0
	// exported functions may have callers outside the module; only the module's own
	// call sites are considered (recorded as an assumption of the bounds rule)
	if ok {
		for _, in := range node.In {
			if in.Site == nil {
				ok = false
				break
			}
			args := in.Site.Common().Args
			if in.Site.Common().IsInvoke() || idx >= len(args) {
				ok = false
				break
			}
			if !e.nonneg(args[idx], e.dominatingFacts(in.Site.Block()), in.Site, 1, map[ssa.Value]bool{}) {
				ok = false
				break
			}
		}
	}
	e.nonnegP[par] = ok
	return ok
}

// nonnegField: the field (Type.f) of every long-lived object is never negative:
// every direct store to it stores a non-negative value, and every whole-struct
// store into a location of type Type copies a value whose f is non-negative.
// Stores into composite-literal temporaries are judged by where the temporary
// flows: into a whole-struct store (checked there) or into a call argument
// (the callee sees a by-value copy, covered by its own parameter obligations).
func (e *boundsEngine) nonnegField(key string) bool {
	if v, ok := e.nonnegF[key]; ok {
		return v == 1
	}
	e.nonnegF[key] = 1 // optimistic (self-referential increments)
	ok := true
	n := 0
	tname := key[:strings.Index(key, ".")]
	fname := key[strings.Index(key, ".")+1:]
	for _, fn := range e.p.ModuleFuncs() {
		for _, b := range fn.Blocks {
			for _, in := range b.Instrs {
				st, isSt := in.(*ssa.Store)
				if !isSt {
					continue
				}
				if fa, isFa := st.Addr.(*ssa.FieldAddr); isFa && fieldKey(fa.X, fa.Field) == key {
					if root, isTmp := fa.X.(*ssa.Alloc); isTmp && !root.Heap || isTmp && root.Comment == "complit" {
						continue // temporary: judged where it is copied
					}
					n++
					if !isIntType(st.Val.Type()) || !e.nonneg(st.Val, e.dominatingFacts(b), in, 0, map[ssa.Value]bool{}) {
						ok = false
						if os.Getenv("GOSQLX_SA_BOUNDS") != "" {
							println("NONNEG-FAIL", key, "direct store at", e.p.Pos(st.Pos()), st.Val.String())
						}
					}
					continue
				}
				// whole-struct store of a value of type tname
				if nt := core.NamedOf(st.Val.Type()); nt != nil && nt.Obj().Name() == tname {
					if _, isPtr := st.Val.Type().Underlying().(*types.Pointer); isPtr {
						continue
					}
					if _, isTmp := st.Addr.(*ssa.Alloc); isTmp {
						continue // initialising a local copy
					}
					if !e.structFieldNonneg(st.Val, fname, 0) {
						ok = false
						if os.Getenv("GOSQLX_SA_BOUNDS") != "" {
							println("NONNEG-FAIL", key, "whole store at", e.p.Pos(st.Pos()), st.Val.String())
						}
					}
				}
			}
		}
	}
	if n == 0 {
		ok = false
	}
	if ok {
		e.nonnegF[key] = 1
	} else {
		e.nonnegF[key] = 2
	}
	return ok
}

// nonnegElemsField: every element ever put into the int-slice field (Type.f) is non-negative: whole-slice stores are
// make / reslices / append chains / literals with non-negative elements, element stores store non-negative values.
func (e *boundsEngine) nonnegElemsField(key string) bool {
	k2 := "[]" + key
	if v, ok := e.nonnegF[k2]; ok {
		return v == 1
	}
	e.nonnegF[k2] = 1 // optimistic: appends to the field's own value
	ok := true
	n := 0
	var elems func(v ssa.Value, at *ssa.BasicBlock, use ssa.Instruction, d int) bool
	elems = func(v ssa.Value, at *ssa.BasicBlock, use ssa.Instruction, d int) bool {
		if d > 8 || v == nil {
			return false
		}
		switch x := v.(type) {
		case *ssa.Const:
			return x.IsNil()
		case *ssa.MakeSlice:
			return true
		case *ssa.Slice:
			return elems(x.X, at, use, d+1)
		case *ssa.UnOp:
			if x.Op == token.MUL {
				if fa, ok := x.X.(*ssa.FieldAddr); ok {
					return fieldKey(fa.X, fa.Field) == key || e.nonnegElemsField(fieldKey(fa.X, fa.Field))
				}
			}
		case *ssa.Alloc:
			// array literal / variadic backing array: every element store
			good := true
			cnt := 0
			for _, ref := range core.Referrers(x) {
				if ia, ok := ref.(*ssa.IndexAddr); ok {
					for _, r2 := range core.Referrers(ia) {
						if st, ok := r2.(*ssa.Store); ok && st.Addr == ssa.Value(ia) {
							cnt++
							if !e.nonneg(st.Val, e.dominatingFacts(st.Block()), st, 0, map[ssa.Value]bool{}) {
								good = false
							}
						}
					}
				}
			}
			return good && cnt >= 0
		case *ssa.Phi:
			for _, ed := range x.Edges {
				if ed != v && !elems(ed, at, use, d+1) {
					return false
				}
			}
			return true
		case *ssa.Call:
			if core.IsBuiltinCall(&x.Call, "append") && len(x.Call.Args) == 2 {
				return elems(x.Call.Args[0], at, use, d+1) && elems(x.Call.Args[1], at, use, d+1)
			}
		}
		return false
	}
	for _, fn := range e.p.ModuleFuncs() {
		for _, b := range fn.Blocks {
			for _, in := range b.Instrs {
				st, isSt := in.(*ssa.Store)
				if !isSt {
					continue
				}
				if fa, isFa := st.Addr.(*ssa.FieldAddr); isFa && fieldKey(fa.X, fa.Field) == key {
					n++
					if !elems(st.Val, b, in, 0) {
						ok = false
					}
					continue
				}
				if ia, isIa := st.Addr.(*ssa.IndexAddr); isIa {
					if ld, isLd := ia.X.(*ssa.UnOp); isLd && ld.Op == token.MUL {
						if fa, isFa := ld.X.(*ssa.FieldAddr); isFa && fieldKey(fa.X, fa.Field) == key {
							n++
							if !e.nonneg(st.Val, e.dominatingFacts(b), in, 0, map[ssa.Value]bool{}) {
								ok = false
							}
						}
					}
				}
			}
		}
	}
	if n == 0 {
		ok = false
	}
	if ok {
		e.nonnegF[k2] = 1
	} else {
		e.nonnegF[k2] = 2
	}
	return ok
}

// structFieldNonneg: the struct value v has a non-negative field fname.
func (e *boundsEngine) structFieldNonneg(v ssa.Value, fname string, depth int) bool {
	if depth > 4 {
		return false
	}
	switch x := v.(type) {
	case *ssa.Const:
		return true // zero value
	case *ssa.UnOp:
		if x.Op != token.MUL {
			return false
		}
		switch a := x.X.(type) {
		case *ssa.Alloc:
			// local/temporary: every store to its field (or whole) must be non-negative
			good := true
			for _, ref := range core.Referrers(a) {
				switch r := ref.(type) {
				case *ssa.FieldAddr:
					if core.FieldName(r.X.Type(), r.Field) != fname {
						continue
					}
					for _, r2 := range core.Referrers(r) {
						if st, ok := r2.(*ssa.Store); ok && st.Addr == ssa.Value(r) {
							if !e.nonneg(st.Val, e.dominatingFacts(st.Block()), st, 0, map[ssa.Value]bool{}) {
								good = false
							}
						}
					}
				case *ssa.Store:
					if r.Addr == ssa.Value(a) && !e.structFieldNonneg(r.Val, fname, depth+1) {
						good = false
					}
				}
			}
			return good
		case *ssa.FieldAddr:
			// copy of a long-lived location of the same type: relies on the invariant itself
			return true
		case *ssa.Parameter, *ssa.FreeVar:
			return true
		}
	case *ssa.Parameter:
		return true // by-value copy of a caller's value of this type
	case *ssa.Call:
		f := x.Call.StaticCallee()
		if f == nil || f.Blocks == nil || !core.InModule(f) {
			return false
		}
		for _, b := range f.Blocks {
			if ret, ok := b.Instrs[len(b.Instrs)-1].(*ssa.Return); ok && len(ret.Results) == 1 {
				// evaluate parameters of f by the arguments of this call
				if !e.structFieldNonnegAt(ret.Results[0], fname, x, depth+1) {
					return false
				}
			}
		}
		return true
	case *ssa.Phi:
		for _, ed := range x.Edges {
			if !e.structFieldNonneg(ed, fname, depth+1) {
				return false
			}
		}
		return true
	}
	return false
}

// structFieldNonnegAt: like structFieldNonneg for a callee's return value, with
// the callee's parameters judged through nonnegParam.
func (e *boundsEngine) structFieldNonnegAt(v ssa.Value, fname string, site *ssa.Call, depth int) bool {
	return e.structFieldNonneg(v, fname, depth)
}

// leq: is  a - b <= k  implied by the facts (or trivially)?
func (e *boundsEngine) leq(a, b lin, k int64, facts []fact, use ssa.Instruction) bool {
	if !a.ok || !b.ok {
		return false
	}
	need := k - a.off + b.off // a.term - b.term <= need
	if a.term == b.term {
		return 0 <= need
	}
	// a constant against a length: -len(x) <= 0 <= need
	if a.term == "" && (strings.HasPrefix(b.term, "len(") || strings.HasPrefix(b.term, "cap(")) && need >= 0 {
		return true
	}
	for _, f := range facts {
		if f.a.term == a.term && f.b.term == b.term && f.k <= need {
			if !e.factClobbered(f, use) {
				return true
			}
		}
	}
	// one transitive step: a <= m (fact) and m <= b (fact)
	for _, f := range facts {
		if f.a.term != a.term || f.b.term == "" && a.term == "" {
			continue
		}
		for _, g := range facts {
			if g.a.term == f.b.term && g.b.term == b.term && f.k+g.k <= need {
				if !e.factClobbered(f, use) && !e.factClobbered(g, use) {
					return true
				}
			}
		}
	}
	return false
}

// boundOb is one source-level index/slice expression with its verdict.
type boundOb struct {
	fn     *ssa.Function
	expr   string
	pos    token.Pos
	ok     bool
	reason string
	fp     string // structural fingerprint of how the operands are computed (audits are tied to it)
}

// exprAt returns the source text of the index/slice expression at pos.
func (e *boundsEngine) exprAt(pos token.Pos) string {
	_, file := e.p.FileFor(pos)
	if file == nil {
		return "?"
	}
	path, _ := astutil.PathEnclosingInterval(file, pos, pos)
	for _, n := range path {
		switch x := n.(type) {
		case *ast.IndexExpr:
			return types.ExprString(x)
		case *ast.SliceExpr:
			return types.ExprString(x)
		case *ast.RangeStmt:
			return "range " + types.ExprString(x.X)
		case *ast.CallExpr:
			if id, ok := x.Fun.(*ast.Ident); ok && id.Name == "make" {
				return types.ExprString(x)
			}
		}
	}
	if len(path) > 0 {
		if ex, ok := path[0].(ast.Expr); ok {
			return types.ExprString(ex)
		}
	}
	return "?"
}

// checkFunction produces the bounds obligations of fn.
func (e *boundsEngine) checkFunction(fn *ssa.Function) []boundOb {
	var out []boundOb
	factsMemo := map[*ssa.BasicBlock][2][]fact{}
	factsAt := func(b *ssa.BasicBlock) [2][]fact {
		if f, ok := factsMemo[b]; ok {
			return f
		}
		var f [2][]fact
		e.pathMode = false
		f[0] = e.dominatingFacts(b)
		e.pathMode = true
		f[1] = e.dominatingFacts(b)
		e.pathMode = false
		factsMemo[b] = f
		return f
	}
	add := func(in ssa.Instruction, ok bool, reason string) {
		if !in.Pos().IsValid() {
			if !ok {
				out = append(out, boundOb{fn, "(compiler-generated)", fn.Pos(), false, reason, ""})
			}
			return
		}
		out = append(out, boundOb{fn, e.exprAt(in.Pos()), in.Pos(), ok, reason, instrFingerprint(in)})
	}
	for _, b := range fn.Blocks {
		for _, in := range b.Instrs {
			switch x := in.(type) {
			case *ssa.IndexAddr:
				if alloc, isAlloc := x.X.(*ssa.Alloc); isAlloc {
					if at, ok := core.Deref(alloc.Type()).Underlying().(*types.Array); ok {
						if k, isC := core.ConstInt(x.Index); isC && k >= 0 && k < at.Len() {
							continue // composite literal / variadic array element
						}
					}
				}
				ok, why := e.indexOK(x.X, x.Index, factsAt(b), in)
				add(in, ok, why)
			case *ssa.Index:
				ok, why := e.indexOK(x.X, x.Index, factsAt(b), in)
				add(in, ok, why)
			case *ssa.Lookup:
				if _, isMap := x.X.Type().Underlying().(*types.Map); isMap {
					continue
				}
				ok, why := e.indexOK(x.X, x.Index, factsAt(b), in)
				add(in, ok, why)
			case *ssa.MakeSlice:
				// make([]T, n[, c]) panics for a negative size
				for _, sz := range []ssa.Value{x.Len, x.Cap} {
					if sz == nil {
						continue
					}
					if _, isC := core.ConstInt(sz); isC {
						continue
					}
					f2 := factsAt(b)
					ok := e.nonneg(sz, f2[0], in, 0, map[ssa.Value]bool{})
					if !ok {
						e.pathMode = true
						ok = e.nonneg(sz, append(append([]fact{}, f2[1]...), f2[0]...), in, 0, map[ssa.Value]bool{})
						e.pathMode = false
					}
					why := ""
					if !ok {
						why = "the size passed to make may be negative (makeslice panics)"
					}
					add(in, ok, why)
				}
			case *ssa.Slice:
				if alloc, isAlloc := x.X.(*ssa.Alloc); isAlloc && x.Low == nil && x.High == nil {
					_ = alloc
					continue // arr[:]
				}
				ok, why := e.sliceOK(x, factsAt(b), in)
				add(in, ok, why)
			}
		}
	}
	// merge by (expr): an expression is discharged only if all its instructions are
	merged := map[string]*boundOb{}
	var order []string
	for i := range out {
		o := out[i]
		k := o.expr
		if m, ok := merged[k]; ok {
			fps := m.fp
			if o.fp != "" && !strings.Contains(";"+fps+";", ";"+o.fp+";") {
				parts := strings.Split(fps, ";")
				parts = append(parts, o.fp)
				sort.Strings(parts)
				fps = strings.Join(parts, ";")
			}
			if !o.ok && m.ok {
				*m = o
			}
			m.fp = fps
			continue
		}
		oc := o
		merged[k] = &oc
		order = append(order, k)
	}
	sort.Strings(order)
	var res []boundOb
	for _, k := range order {
		res = append(res, *merged[k])
	}
	return res
}

func (e *boundsEngine) indexOK(x, idx ssa.Value, f2 [2][]fact, use ssa.Instruction) (bool, string) {
	ok, why := e.indexOK1(x, idx, f2[0], use)
	if ok {
		return true, ""
	}
	e.pathMode = true
	defer func() { e.pathMode = false }()
	e.pathLoads = nil
	e.lenLin(x)
	e.linOf(idx)
	if e.useLoadsStale(x, use) {
		return false, why
	}
	ok2, why2 := e.indexOK1(x, idx, append(append([]fact{}, f2[1]...), f2[0]...), use)
	if ok2 {
		return true, ""
	}
	_ = why2
	return false, why
}

func (e *boundsEngine) sliceOK(s *ssa.Slice, f2 [2][]fact, use ssa.Instruction) (bool, string) {
	ok, why := e.sliceOK1(s, f2[0], use)
	if ok {
		return true, ""
	}
	e.pathMode = true
	defer func() { e.pathMode = false }()
	e.pathLoads = nil
	e.lenLin(s.X)
	if s.Low != nil {
		e.linOf(s.Low)
	}
	if s.High != nil {
		e.linOf(s.High)
	}
	if e.useLoadsStale(s.X, use) {
		return false, why
	}
	if ok2, _ := e.sliceOK1(s, append(append([]fact{}, f2[1]...), f2[0]...), use); ok2 {
		return true, ""
	}
	return false, why
}

func (e *boundsEngine) indexOK1(x, idx ssa.Value, facts []fact, use ssa.Instruction) (bool, string) {
	L := e.lenLin(x)
	I := e.linOf(idx)
	if os.Getenv("GOSQLX_SA_BFN") == use.Parent().Name() {
		println("DBG index at", e.p.Pos(use.Pos()), "path=", e.pathMode, "I=", I.term, I.off, "L=", L.term, L.off, "nfacts=", len(facts))
		for _, f := range facts {
			println("   fact", f.a.term, "-", f.b.term, "<=", f.k, "clob=", e.factClobbered(f, use), "deps=", strings.Join(f.deps, ","))
		}
	}
	if !L.ok || !I.ok {
		return false, "cannot name the index or the length symbolically"
	}
	lower := e.nonneg(idx, facts, use, 0, map[ssa.Value]bool{})
	upper := e.valLeq(idx, L, -1, facts, use, 0)
	if !upper {
		upper = e.descendingBelowLen(idx, x)
	}
	switch {
	case lower && upper:
		return true, ""
	case !upper && !lower:
		return false, "no dominating guard establishes 0 <= index < len"
	case !upper:
		return false, "no dominating guard establishes index < len"
	default:
		return false, "index may be negative"
	}
}

// edgeFacts: what holds when control flows from pred to succ.
func (e *boundsEngine) edgeFacts(pred, succ *ssa.BasicBlock) []fact {
	out := e.dominatingFacts(pred)
	if iff, ok := pred.Instrs[len(pred.Instrs)-1].(*ssa.If); ok && len(pred.Succs) == 2 && pred.Succs[0] != pred.Succs[1] {
		neg := pred.Succs[1] == succ
		for _, at := range condAtoms(iff.Cond, neg, 0) {
			e.pathLoads = nil
			for _, f := range e.factsFrom(at.bo, at.neg) {
				f.at = succ
				f.loads = append([]*ssa.UnOp{}, e.pathLoads...)
				out = append(out, f)
			}
		}
	}
	return out
}

// valLeq:  v - b <= k, looking through phis edge by edge (clamping idiom).
func (e *boundsEngine) valLeq(v ssa.Value, b lin, k int64, facts []fact, use ssa.Instruction, depth int) bool {
	if e.leq(e.linOf(v), b, k, facts, use) {
		return true
	}
	// the key of `for i := range s` over a string is a valid byte offset of s: i < len(s)
	if ex, ok := v.(*ssa.Extract); ok && ex.Index == 1 {
		if nx, ok := ex.Tuple.(*ssa.Next); ok && nx.IsString {
			if rg, ok := nx.Iter.(*ssa.Range); ok {
				if l := e.lenLin(rg.X); l.ok && l.term == b.term && l.off == b.off && k >= -1 {
					return true
				}
			}
		}
	}
	if depth > 3 {
		return false
	}
	if ph, ok := v.(*ssa.Phi); ok {
		for i, ed := range ph.Edges {
			pred := ph.Block().Preds[i]
			ef := e.edgeFacts(pred, ph.Block())
			last := pred.Instrs[len(pred.Instrs)-1]
			if !e.valLeq(ed, b, k, ef, last, depth+1) {
				return false
			}
		}
		return len(ph.Edges) > 0
	}
	return false
}

// descendingBelowLen: idx is the induction variable of `for i := len(X)-1; …; i--`:
// a phi whose entry edge is len(X)-k (k >= 1) for the same X and whose other edges only decrease it.
func (e *boundsEngine) descendingBelowLen(idx, x ssa.Value) bool {
	ph, ok := idx.(*ssa.Phi)
	if !ok {
		return false
	}
	L := e.lenLin(x)
	if !L.ok {
		return false
	}
	for i, ed := range ph.Edges {
		if bo, ok := ed.(*ssa.BinOp); ok && bo.Op == token.SUB && bo.X == ssa.Value(ph) {
			if k, isC := core.ConstInt(bo.Y); isC && k > 0 {
				continue
			}
		}
		// the entry value is below len by a guard that holds where the loop is entered
		pred := ph.Block().Preds[i]
		if e.valLeq(ed, L, -1, e.edgeFacts(pred, ph.Block()), pred.Instrs[len(pred.Instrs)-1], 1) {
			continue
		}
		l := e.linOf(ed)
		if l.ok && l.term == L.term && l.off-L.off <= -1 {
			continue
		}
		// same length read through another load of an unmodified parameter/path
		saved := e.pathMode
		e.pathMode = true
		l2, L2 := e.linOf(ed), e.lenLin(x)
		e.pathMode = saved
		if l2.ok && L2.ok && l2.term == L2.term && l2.off-L2.off <= -1 && len(l2.deps) == 0 {
			continue
		}
		return false
	}
	return true
}

func (e *boundsEngine) sliceOK1(s *ssa.Slice, facts []fact, use ssa.Instruction) (bool, string) {
	L := e.lenLin(s.X)
	isStr := false
	if b, ok := s.X.Type().Underlying().(*types.Basic); ok && b.Info()&types.IsString != 0 {
		isStr = true
	}
	_ = isStr
	zero := lin{"", 0, nil, true}
	var lo, hi lin
	if s.Low != nil {
		lo = e.linOf(s.Low)
		if !e.nonneg(s.Low, facts, use, 0, map[ssa.Value]bool{}) {
			return false, "low bound may be negative"
		}
	} else {
		lo = zero
	}
	if s.High != nil {
		hi = e.linOf(s.High)
		// x[:0]
		if hi.term == "" && hi.off == 0 && s.Low == nil {
			return true, ""
		}
		// high <= len(x)  (cap is not tracked; re-slicing up to cap is audited)
		if !e.valLeq(s.High, L, 0, facts, use, 0) {
			return false, "no dominating guard establishes high <= len"
		}
		if s.Low != nil && !e.leq(lo, hi, 0, facts, use) {
			return false, "no dominating guard establishes low <= high"
		}
		if s.Low == nil && !e.nonneg(s.High, facts, use, 0, map[ssa.Value]bool{}) {
			return false, "high bound may be negative"
		}
		return true, ""
	}
	// x[lo:]
	if s.Low == nil {
		return true, ""
	}
	if !e.valLeq(s.Low, L, 0, facts, use, 0) {
		return false, "no dominating guard establishes low <= len"
	}
	return true, ""
}

// ---- binary search idioms ---------------------------------------------------------------

// bsLoop is a recognised hand-written binary search
//
//	lo, hi := c, len(X)            (c >= 0)
//	for lo < hi { mid := lo + (hi-lo)/2 | (lo+hi)/2 | int(uint(lo+hi)>>1); … hi = mid | lo = mid+1 }
//
// whose invariant is 0 <= lo <= hi <= len(X), and lo <= mid < hi inside the body.
type bsLoop struct {
	lo, hi *ssa.Phi
	mids   []ssa.Value
	x      ssa.Value // the slice / string whose length starts hi
	lenAt  *ssa.Call
}

func isHalfOf(v ssa.Value) (ssa.Value, bool) {
	switch x := v.(type) {
	case *ssa.BinOp:
		if k, ok := core.ConstInt(x.Y); ok {
			if (x.Op == token.QUO && k == 2) || (x.Op == token.SHR && k == 1) {
				return x.X, true
			}
		}
	case *ssa.Convert:
		if isIntType(x.X.Type()) && isIntType(x.Type()) {
			return isHalfOf(x.X)
		}
	}
	return nil, false
}

func stripIntConv(v ssa.Value) ssa.Value {
	for {
		c, ok := v.(*ssa.Convert)
		if !ok || !isIntType(c.X.Type()) || !isIntType(c.Type()) {
			return v
		}
		v = c.X
	}
}

// isMidOf: v is the midpoint of lo and hi.
func isMidOf(v ssa.Value, lo, hi ssa.Value) bool {
	// (lo+hi)/2 , int(uint(lo+hi)>>1)
	if inner, ok := isHalfOf(v); ok {
		if s, ok := stripIntConv(inner).(*ssa.BinOp); ok && s.Op == token.ADD {
			if (s.X == lo && s.Y == hi) || (s.X == hi && s.Y == lo) {
				return true
			}
		}
		return false
	}
	// lo + (hi-lo)/2
	if a, ok := v.(*ssa.BinOp); ok && a.Op == token.ADD {
		for _, pair := range [][2]ssa.Value{{a.X, a.Y}, {a.Y, a.X}} {
			if pair[0] != lo {
				continue
			}
			if inner, ok := isHalfOf(pair[1]); ok {
				if d, ok := stripIntConv(inner).(*ssa.BinOp); ok && d.Op == token.SUB && d.X == hi && d.Y == lo {
					return true
				}
			}
		}
	}
	return false
}

func (e *boundsEngine) bsearchLoops(fn *ssa.Function) []bsLoop {
	if e.bsMemo == nil {
		e.bsMemo = map[*ssa.Function][]bsLoop{}
	}
	if v, ok := e.bsMemo[fn]; ok {
		return v
	}
	var out []bsLoop
	for _, h := range fn.Blocks {
		iff, ok := h.Instrs[len(h.Instrs)-1].(*ssa.If)
		if !ok || len(h.Succs) != 2 {
			continue
		}
		bo, ok := iff.Cond.(*ssa.BinOp)
		if !ok || bo.Op != token.LSS {
			continue
		}
		lo, ok1 := bo.X.(*ssa.Phi)
		hi, ok2 := bo.Y.(*ssa.Phi)
		if !ok1 || !ok2 || lo.Block() != h || hi.Block() != h {
			continue
		}
		body := h.Succs[0]
		var mids []ssa.Value
		isMid := map[ssa.Value]bool{}
		for _, b := range fn.Blocks {
			if !body.Dominates(b) {
				continue
			}
			for _, in := range b.Instrs {
				if v, ok := in.(ssa.Value); ok && isMidOf(v, lo, hi) {
					mids = append(mids, v)
					isMid[v] = true
				}
			}
		}
		if len(mids) == 0 {
			continue
		}
		good := true
		var x ssa.Value
		var lenAt *ssa.Call
		for _, ed := range hi.Edges {
			if isMid[ed] || ed == ssa.Value(hi) {
				continue
			}
			if arg := core.LenOf(ed); arg != nil && x == nil {
				x = arg
				lenAt, _ = stripIntConv(ed).(*ssa.Call)
				continue
			}
			good = false
		}
		for _, ed := range lo.Edges {
			if ed == ssa.Value(lo) {
				continue
			}
			if k, ok := core.ConstInt(ed); ok && k >= 0 {
				continue
			}
			if a, ok := ed.(*ssa.BinOp); ok && a.Op == token.ADD && isMid[a.X] {
				if k, ok := core.ConstInt(a.Y); ok && k == 1 {
					continue
				}
			}
			good = false
		}
		if good && x != nil && lenAt != nil {
			out = append(out, bsLoop{lo, hi, mids, x, lenAt})
		}
	}
	e.bsMemo[fn] = out
	return out
}

func isSortSearch(c *ssa.CallCommon) bool {
	f := c.StaticCallee()
	return f != nil && core.FnPkg(f) != nil && core.FnPkg(f).Path() == "sort" && f.Name() == "Search" && len(c.Args) == 2
}

// idiomFacts: facts about the values of recognised binary searches in fn (they hold wherever the values exist).
func (e *boundsEngine) idiomFacts(fn *ssa.Function) []fact {
	if fn == nil {
		return nil
	}
	var out []fact
	zero := lin{"", 0, nil, true}
	add := func(a, b lin, k int64, at *ssa.BasicBlock, loads []*ssa.UnOp) {
		if !a.ok || !b.ok {
			return
		}
		out = append(out, fact{a: lin{a.term, 0, a.deps, true}, b: lin{b.term, 0, b.deps, true}, k: k - a.off + b.off, at: at, loads: loads,
			deps: append(append([]string{}, a.deps...), b.deps...)})
	}
	for _, l := range e.bsearchLoops(fn) {
		saved := e.pathLoads
		e.pathLoads = nil
		L := e.lenLin(l.x)
		loads := append([]*ssa.UnOp{}, e.pathLoads...)
		e.pathLoads = saved
		at := l.lenAt.Block()
		for _, v := range []ssa.Value{l.lo, l.hi} {
			add(e.linOf(v), L, 0, at, loads)
			add(zero, e.linOf(v), 0, at, loads)
		}
		for _, m := range l.mids {
			add(e.linOf(m), L, -1, at, loads)
			add(zero, e.linOf(m), 0, at, loads)
			add(e.linOf(m), e.linOf(l.hi), -1, at, loads)
			add(e.linOf(l.lo), e.linOf(m), 0, at, loads)
		}
	}
	// n := sort.Search(N, f):  0 <= n <= N
	for _, b := range fn.Blocks {
		for _, in := range b.Instrs {
			c, ok := in.(*ssa.Call)
			if !ok || !isSortSearch(&c.Call) {
				continue
			}
			saved := e.pathLoads
			e.pathLoads = nil
			N := e.linOf(c.Call.Args[0])
			loads := append([]*ssa.UnOp{}, e.pathLoads...)
			e.pathLoads = saved
			add(e.linOf(c), N, 0, b, loads)
			add(zero, e.linOf(c), 0, b, loads)
		}
	}
	// i := 0; for k := range m { … x[i] …; i++ }: a counter that starts at 0 and grows by at most one per iteration of a
	// range over a map stays below len(m) inside the body, provided the function never adds to or deletes from a map of
	// that type (a range over an unmodified map runs len(m) times)
	for _, b := range fn.Blocks {
		for _, in := range b.Instrs {
			rg, ok := in.(*ssa.Range)
			if !ok {
				continue
			}
			mt, isMap := rg.X.Type().Underlying().(*types.Map)
			if !isMap {
				continue
			}
			modified := false
			for _, b2 := range fn.Blocks {
				for _, i2 := range b2.Instrs {
					switch y := i2.(type) {
					case *ssa.MapUpdate:
						if types.Identical(y.Map.Type().Underlying(), mt) {
							modified = true
						}
					case *ssa.Call:
						if core.IsBuiltinCall(&y.Call, "delete") || core.IsBuiltinCall(&y.Call, "clear") {
							modified = true
						}
					}
				}
			}
			if modified {
				continue
			}
			for _, ref := range core.Referrers(rg) {
				nx, ok := ref.(*ssa.Next)
				if !ok {
					continue
				}
				// the body: true successor of the `ok` test
				var body *ssa.BasicBlock
				for _, r2 := range core.Referrers(nx) {
					if ex, ok := r2.(*ssa.Extract); ok && ex.Index == 0 {
						for _, r3 := range core.Referrers(ex) {
							if iff, ok := r3.(*ssa.If); ok && iff.Cond == ssa.Value(ex) {
								body = iff.Block().Succs[0]
							}
						}
					}
				}
				if body == nil || len(body.Preds) != 1 {
					continue
				}
				saved := e.pathLoads
				e.pathLoads = nil
				L := e.lenLin(rg.X)
				loads := append([]*ssa.UnOp{}, e.pathLoads...)
				e.pathLoads = saved
				for _, hi := range nx.Block().Instrs {
					ph, ok := hi.(*ssa.Phi)
					if !ok {
						continue
					}
					okCounter := true
					for k, ed := range ph.Edges {
						pred := ph.Block().Preds[k]
						if !nx.Block().Dominates(pred) {
							// entry edge: the counter starts at 0
							if c0, isC := core.ConstInt(ed); !isC || c0 != 0 {
								okCounter = false
							}
							continue
						}
						// back edge: i, i+1, or a merge of those
						var step func(v ssa.Value, d int) bool
						step = func(v ssa.Value, d int) bool {
							if v == ssa.Value(ph) {
								return true
							}
							if bo, ok := v.(*ssa.BinOp); ok && bo.Op == token.ADD && bo.X == ssa.Value(ph) {
								if c1, isC := core.ConstInt(bo.Y); isC && c1 == 1 {
									return true
								}
							}
							if q, ok := v.(*ssa.Phi); ok && d < 3 {
								for _, qe := range q.Edges {
									if !step(qe, d+1) {
										return false
									}
								}
								return true
							}
							return false
						}
						if !step(ed, 0) {
							okCounter = false
						}
					}
					if okCounter {
						add(e.linOf(ph), L, -1, body, loads)
						add(zero, e.linOf(ph), 0, body, loads)
					}
				}
			}
		}
	}
	// k := sort.SearchInts(a, x) / SearchStrings / SearchFloat64s:  0 <= k <= len(a)
	for _, b := range fn.Blocks {
		for _, in := range b.Instrs {
			c, ok := in.(*ssa.Call)
			if !ok {
				continue
			}
			f := c.Call.StaticCallee()
			if f == nil || core.FnPkg(f) == nil || core.FnPkg(f).Path() != "sort" || len(c.Call.Args) != 2 {
				continue
			}
			if f.Name() != "SearchInts" && f.Name() != "SearchStrings" && f.Name() != "SearchFloat64s" {
				continue
			}
			saved := e.pathLoads
			e.pathLoads = nil
			L := e.lenLin(c.Call.Args[0])
			loads := append([]*ssa.UnOp{}, e.pathLoads...)
			e.pathLoads = saved
			add(e.linOf(c), L, 0, b, loads)
			add(zero, e.linOf(c), 0, b, loads)
		}
	}
	return out
}

// searchClosureFacts: fn is a function literal used only as the predicate of sort.Search(N, fn):
// its parameter i satisfies 0 <= i < N. N is named in the closure's terms (captured variables
// keep their names); it holds at the closure's entry provided nothing changed it between its
// evaluation and the call.
func (e *boundsEngine) searchClosureFacts(fn *ssa.Function) []fact {
	if fn.Parent() == nil || len(fn.Params) != 1 || !e.pathMode {
		return nil
	}
	parent := fn.Parent()
	var site *ssa.Call
	var mc *ssa.MakeClosure
	for _, b := range parent.Blocks {
		for _, in := range b.Instrs {
			m, ok := in.(*ssa.MakeClosure)
			if !ok || m.Fn != ssa.Value(fn) {
				continue
			}
			if mc != nil {
				return nil
			}
			mc = m
			for _, ref := range core.Referrers(m) {
				if _, isDbg := ref.(*ssa.DebugRef); isDbg {
					continue
				}
				c, ok := ref.(*ssa.Call)
				if !ok || !isSortSearch(&c.Call) || c.Call.Args[1] != ssa.Value(m) || site != nil {
					return nil
				}
				site = c
			}
		}
	}
	if mc == nil || site == nil {
		return nil
	}
	e.pathLoads = nil
	N := e.linOf(site.Call.Args[0])
	loads := append([]*ssa.UnOp{}, e.pathLoads...)
	if !N.ok {
		return nil
	}
	probe := fact{a: lin{N.term, 0, N.deps, true}, b: lin{"", 0, nil, true}, deps: N.deps, at: site.Block(), loads: loads}
	if e.factClobbered(probe, site) {
		return nil
	}
	// rename captured variables: &x@parent -> fv:x
	term := N.term
	var deps []string
	for i, bnd := range mc.Bindings {
		a, ok := bnd.(*ssa.Alloc)
		if !ok || i >= len(fn.FreeVars) {
			continue
		}
		term = strings.ReplaceAll(term, "&"+a.Name()+"@"+parent.Name(), "fv:"+fn.FreeVars[i].Name())
	}
	if strings.Contains(term, "@"+parent.Name()) {
		return nil // mentions a value of the parent that the closure cannot name
	}
	for _, d := range N.deps {
		if strings.HasPrefix(d, "var:") {
			renamed := false
			for i, bnd := range mc.Bindings {
				if a, ok := bnd.(*ssa.Alloc); ok && i < len(fn.FreeVars) && d == "var:"+a.Name() {
					deps = append(deps, "var:fv:"+fn.FreeVars[i].Name())
					renamed = true
				}
			}
			if !renamed {
				return nil
			}
			continue
		}
		deps = append(deps, d)
	}
	i := e.linOf(fn.Params[0])
	at := fn.Blocks[0]
	return []fact{
		{a: lin{i.term, 0, nil, true}, b: lin{term, 0, deps, true}, k: -1 + N.off*0 - 0 + N.off, at: at, deps: deps},
		{a: lin{"", 0, nil, true}, b: lin{i.term, 0, nil, true}, k: 0, at: at},
	}
}

// closureCallFacts: a function literal that is only ever called directly from its parent (never stored, passed
// on or deferred) is entered only from those call sites: a fact relating an argument to other values that
// holds at every call site holds for the parameter at the literal's entry. Terms of the parent are renamed
// into the literal's own names (captured variables keep their names); facts that mention parent-only values
// are dropped.
func (e *boundsEngine) closureCallFacts(fn *ssa.Function) []fact {
	if fn == nil || fn.Parent() == nil || len(fn.Params) == 0 || !e.pathMode || len(fn.Blocks) == 0 {
		return nil
	}
	if e.closMemo == nil {
		e.closMemo = map[*ssa.Function][]fact{}
	}
	if v, ok := e.closMemo[fn]; ok {
		return v
	}
	e.closMemo[fn] = nil
	parent := fn.Parent()
	var mc *ssa.MakeClosure
	var sites []*ssa.Call
	for _, b := range parent.Blocks {
		for _, in := range b.Instrs {
			m, ok := in.(*ssa.MakeClosure)
			if !ok || m.Fn != ssa.Value(fn) {
				continue
			}
			if mc != nil {
				return nil
			}
			mc = m
		}
	}
	if mc == nil {
		return nil
	}
	for _, ref := range core.Referrers(mc) {
		switch x := ref.(type) {
		case *ssa.DebugRef:
		case *ssa.Call:
			if x.Call.Value != ssa.Value(mc) {
				return nil // passed as an argument
			}
			sites = append(sites, x)
		default:
			return nil
		}
	}
	if len(sites) == 0 {
		return nil
	}
	rename := func(term string, deps []string) (string, []string, bool) {
		for i, bnd := range mc.Bindings {
			if a, ok := bnd.(*ssa.Alloc); ok && i < len(fn.FreeVars) {
				term = strings.ReplaceAll(term, "&"+a.Name()+"@"+parent.Name(), "fv:"+fn.FreeVars[i].Name())
			}
		}
		if strings.Contains(term, "@"+parent.Name()) {
			return "", nil, false
		}
		var nd []string
		for _, d := range deps {
			if strings.HasPrefix(d, "var:") {
				done := false
				for i, bnd := range mc.Bindings {
					if a, ok := bnd.(*ssa.Alloc); ok && i < len(fn.FreeVars) && d == "var:"+a.Name() {
						nd = append(nd, "var:fv:"+fn.FreeVars[i].Name())
						done = true
					}
				}
				if !done {
					return "", nil, false
				}
				continue
			}
			nd = append(nd, d)
		}
		return term, nd, true
	}
	type key struct{ a, b string }
	var acc map[key]fact
	for _, site := range sites {
		here := map[key]fact{}
		put := func(a, b lin, k int64) {
			kk := key{a.term, b.term}
			if old, ok := here[kk]; !ok || k < old.k {
				here[kk] = fact{a: a, b: b, k: k, deps: append(append([]string{}, a.deps...), b.deps...)}
			}
		}
		var facts []fact
		for _, mode := range []bool{false, true} {
			e.pathMode = mode
			facts = append(facts, e.dominatingFacts(site.Block())...)
		}
		e.pathMode = true
		for j, par := range fn.Params {
			if !isIntType(par.Type()) || j >= len(site.Call.Args) {
				continue
			}
			pl := e.linOf(par)
			for _, mode := range []bool{false, true} {
				e.pathMode = mode
				L := e.linOf(site.Call.Args[j])
				e.pathMode = true
				if !L.ok {
					continue
				}
				if L.term == "" {
					put(lin{pl.term, 0, nil, true}, lin{"", 0, nil, true}, L.off)
					put(lin{"", 0, nil, true}, lin{pl.term, 0, nil, true}, -L.off)
					continue
				}
				for _, f := range facts {
					if e.factClobbered(f, site) {
						continue
					}
					if f.a.term == L.term {
						// arg - off - b <= k  =>  par - b <= k + off
						if bt, bd, ok := rename(f.b.term, f.b.deps); ok {
							put(lin{pl.term, 0, nil, true}, lin{bt, 0, bd, true}, f.k+L.off)
						}
					}
					if f.b.term == L.term {
						// a - (arg - off) <= k  =>  a - par <= k - off
						if at, ad, ok := rename(f.a.term, f.a.deps); ok {
							put(lin{at, 0, ad, true}, lin{pl.term, 0, nil, true}, f.k-L.off)
						}
					}
				}
			}
		}
		if acc == nil {
			acc = here
			continue
		}
		for kk, f := range acc {
			g, ok := here[kk]
			if !ok {
				delete(acc, kk)
				continue
			}
			if g.k > f.k {
				f.k = g.k
				acc[kk] = f
			}
		}
	}
	var out []fact
	for _, f := range acc {
		f.at = fn.Blocks[0]
		f.loads = nil
		out = append(out, f)
	}
	sort.Slice(out, func(i, j int) bool { return out[i].a.term+"|"+out[i].b.term < out[j].a.term+"|"+out[j].b.term })
	e.closMemo[fn] = out
	return out
}

// closureMayWriteVar: may the function literal c (or a literal it creates or calls) assign the captured variable name?
// Unknown calls inside it are taken as writers.
func closureMayWriteVar(c *ssa.Function, name string, depth int) bool {
	if depth > 3 {
		return true
	}
	name = strings.TrimPrefix(name, "fv:")
	captured := false
	for _, fv := range c.FreeVars {
		if fv.Name() == name {
			captured = true
		}
	}
	if !captured {
		return false // the literal has no access to that variable
	}
	for _, b := range c.Blocks {
		for _, in := range b.Instrs {
			switch x := in.(type) {
			case *ssa.Store:
				for a := x.Addr; ; {
					switch y := a.(type) {
					case *ssa.FieldAddr:
						a = y.X
						continue
					case *ssa.FreeVar:
						if y.Name() == name {
							return true
						}
					}
					break
				}
			case *ssa.MakeClosure:
				if inner, ok := x.Fn.(*ssa.Function); ok && closureMayWriteVar(inner, name, depth+1) {
					return true
				}
			case ssa.CallInstruction:
				// the variable's address handed to someone else
				for _, a := range x.Common().Args {
					if fv, ok := a.(*ssa.FreeVar); ok && fv.Name() == name {
						return true
					}
				}
			}
		}
	}
	return false
}

// ---- fingerprints -----------------------------------------------------------------------
// An audited entry is a reading of the code as it was: "start is the cursor saved before …". It stays valid
// under renames and moves, but not when the values involved are computed differently. The fingerprint
// describes, without names or positions, how the operands of an index/slice/make expression are defined
// (three levels deep); the audit tables record it, and a different fingerprint voids the audit.

func valueFingerprint(v ssa.Value, depth int, busy map[ssa.Value]bool) string {
	if v == nil {
		return "-"
	}
	if c, ok := v.(*ssa.Const); ok {
		if c.Value == nil {
			return "nil"
		}
		return "c" + c.Value.ExactString()
	}
	if depth <= 0 || busy[v] {
		return "_"
	}
	busy[v] = true
	defer delete(busy, v)
	sub := func(x ssa.Value) string { return valueFingerprint(x, depth-1, busy) }
	// induction variables have one canonical form whatever the loop syntax (counted loop, range loop)
	if iv := inductionForm(v); iv != "" {
		return iv
	}
	switch x := v.(type) {
	case *ssa.Parameter:
		return "param"
	case *ssa.FreeVar:
		return "freevar"
	case *ssa.Global:
		return "global:" + x.Name()
	case *ssa.Alloc:
		return "local"
	case *ssa.Phi:
		var es []string
		for _, ed := range x.Edges {
			es = append(es, sub(ed))
		}
		sort.Strings(es)
		return "phi(" + strings.Join(es, ",") + ")"
	case *ssa.BinOp:
		return x.Op.String() + "(" + sub(x.X) + "," + sub(x.Y) + ")"
	case *ssa.UnOp:
		if x.Op == token.MUL {
			// a parameter (receiver) spilled into a local because a closure captures it is still the parameter
			if a, ok := x.X.(*ssa.Alloc); ok {
				var only ssa.Value
				n := 0
				for _, ref := range core.Referrers(a) {
					if st, ok := ref.(*ssa.Store); ok && st.Addr == ssa.Value(a) {
						n++
						only = st.Val
					}
				}
				if _, isPar := only.(*ssa.Parameter); isPar && n == 1 {
					return "param"
				}
			}
			if fv, ok := x.X.(*ssa.FreeVar); ok {
				_ = fv
				return "param" // a captured variable of the enclosing function
			}
			return "*" + sub(x.X)
		}
		return x.Op.String() + sub(x.X)
	case *ssa.FieldAddr:
		return sub(x.X) + "." + core.FieldName(x.X.Type(), x.Field)
	case *ssa.Field:
		return sub(x.X) + "." + core.FieldName(x.X.Type(), x.Field)
	case *ssa.IndexAddr:
		return sub(x.X) + "[" + sub(x.Index) + "]"
	case *ssa.Index:
		return sub(x.X) + "[" + sub(x.Index) + "]"
	case *ssa.Lookup:
		return sub(x.X) + "[" + sub(x.Index) + "]"
	case *ssa.Slice:
		return sub(x.X) + "[" + sub(x.Low) + ":" + sub(x.High) + "]"
	case *ssa.Extract:
		return sprintf("#%d", x.Index) + sub(x.Tuple)
	case *ssa.Convert:
		return "conv(" + sub(x.X) + ")"
	case *ssa.ChangeType:
		return sub(x.X)
	case *ssa.MakeSlice:
		return "make(" + sub(x.Len) + "," + sub(x.Cap) + ")"
	case *ssa.Call:
		name := "dyn"
		if b, ok := x.Call.Value.(*ssa.Builtin); ok {
			name = b.Name()
		} else if f := x.Call.StaticCallee(); f != nil {
			name = f.Name()
		} else if x.Call.IsInvoke() {
			name = "." + x.Call.Method.Name()
		}
		var as []string
		for _, a := range x.Call.Args {
			as = append(as, sub(a))
		}
		return name + "(" + strings.Join(as, ",") + ")"
	case *ssa.Next:
		return "next"
	case *ssa.Range:
		return "range(" + sub(x.X) + ")"
	}
	return "?"
}

func instrFingerprint(in ssa.Instruction) string {
	busy := map[ssa.Value]bool{}
	const d = 3
	switch x := in.(type) {
	case *ssa.IndexAddr:
		return valueFingerprint(x.X, d, busy) + "[" + valueFingerprint(x.Index, d, busy) + "]"
	case *ssa.Index:
		return valueFingerprint(x.X, d, busy) + "[" + valueFingerprint(x.Index, d, busy) + "]"
	case *ssa.Lookup:
		return valueFingerprint(x.X, d, busy) + "[" + valueFingerprint(x.Index, d, busy) + "]"
	case *ssa.Slice:
		return valueFingerprint(x.X, d, busy) + "[" + valueFingerprint(x.Low, d, busy) + ":" + valueFingerprint(x.High, d, busy) + "]"
	case *ssa.MakeSlice:
		return "make(" + valueFingerprint(x.Len, d, busy) + "," + valueFingerprint(x.Cap, d, busy) + ")"
	}
	return ""
}

// inductionForm: v is a loop counter starting at a constant k and stepping by a constant s: "iv(k,s)".
// Covers `for i := k; …; i += s` (phi{k, phi+s}) and the range form (phi{k-s, this}+s).
func inductionForm(v ssa.Value) string {
	if ph, ok := v.(*ssa.Phi); ok && len(ph.Edges) == 2 {
		var k, st int64
		var haveK, haveS bool
		for _, e := range ph.Edges {
			if c, ok := core.ConstInt(e); ok {
				k, haveK = c, true
				continue
			}
			if bo, ok := e.(*ssa.BinOp); ok && (bo.Op == token.ADD || bo.Op == token.SUB) && bo.X == ssa.Value(ph) {
				if c, ok := core.ConstInt(bo.Y); ok {
					st, haveS = c, true
					if bo.Op == token.SUB {
						st = -c
					}
				}
			}
		}
		if haveK && haveS {
			return sprintf("iv(%d,%d)", k, st)
		}
	}
	if bo, ok := v.(*ssa.BinOp); ok && bo.Op == token.ADD {
		if ph, ok := bo.X.(*ssa.Phi); ok && len(ph.Edges) == 2 {
			if st, ok := core.ConstInt(bo.Y); ok {
				for i, e := range ph.Edges {
					if c, ok := core.ConstInt(e); ok && ph.Edges[1-i] == ssa.Value(bo) {
						return sprintf("iv(%d,%d)", c+st, st)
					}
				}
			}
		}
	}
	return ""
}
