package rules

import (
	"go/constant"
	"go/token"
	"go/types"
	"sort"
	"strings"

	"golang.org/x/tools/go/ssa"

	"gosqlxsa/core"
)

func init() { Registry["C02"] = runC02 }

// isFieldOf reports whether v is &x.f / x.f with x of (pointer to) named type T.
func isFieldOf(v ssa.Value, T *types.Named, f string) bool {
	switch x := v.(type) {
	case *ssa.FieldAddr:
		return core.NamedOf(x.X.Type()) == T && core.FieldName(x.X.Type(), x.Field) == f
	case *ssa.Field:
		return core.NamedOf(x.X.Type()) == T && core.FieldName(x.X.Type(), x.Field) == f
	}
	return false
}

// loadOfField: v is a load *(&x.f).
func loadOfField(v ssa.Value, T *types.Named, f string) bool {
	u, ok := v.(*ssa.UnOp)
	return ok && u.Op == token.MUL && isFieldOf(u.X, T, f)
}

// depthGuards discovers, by shape, the functions of package rel that guard
// recursion with a depth counter field of type T compared against limit.
type guardInfo struct {
	fn       *ssa.Function
	ok       bool
	problems []string
	cmpPos   token.Pos
	errCall  string
	// partial: the guard is sound where it applies, but some recursive calls are made before / beside the check. The
	// callees all of whose call sites come after the check are guardedCallees; the other edges stay in the graph.
	partial        bool
	guardedCallees map[*ssa.Function]bool
}

func intConst(pk *types.Package, name string) (int64, bool) {
	c, ok := pk.Scope().Lookup(name).(*types.Const)
	if !ok {
		return 0, false
	}
	n, ok := constant.Int64Val(constant.ToInt(c.Val()))
	return n, ok
}

// findDepthField: the int field of T that some function increments and compares with limit.
func findDepthField(fns []*ssa.Function, T *types.Named, limit int64) string {
	for _, fn := range fns {
		for _, b := range fn.Blocks {
			for _, in := range b.Instrs {
				bo, ok := in.(*ssa.BinOp)
				if !ok {
					continue
				}
				if n, isC := core.ConstInt(bo.Y); isC && n == limit {
					if u, ok := bo.X.(*ssa.UnOp); ok && u.Op == token.MUL {
						if fa, ok := u.X.(*ssa.FieldAddr); ok && core.NamedOf(fa.X.Type()) == T {
							return core.FieldName(fa.X.Type(), fa.Field)
						}
					}
				}
			}
		}
	}
	return ""
}

func analyseGuard(p *core.Prog, fn *ssa.Function, T *types.Named, depth string, limit int64, g *core.FnGraph) guardInfo {
	gi := guardInfo{fn: fn}
	canReach := g.ReachesIn(fn)
	// recursive call sites: calls in fn (not in its closures) whose callee can reach fn
	var recCalls []ssa.Instruction
	for _, b := range fn.Blocks {
		for _, in := range b.Instrs {
			ci, ok := in.(ssa.CallInstruction)
			if !ok {
				continue
			}
			if _, isDefer := in.(*ssa.Defer); isDefer {
				continue
			}
			for _, c := range p.Callees(ci) {
				if canReach[c] {
					recCalls = append(recCalls, in)
					break
				}
			}
		}
	}
	// increment
	var inc *ssa.Store
	for _, b := range fn.Blocks {
		for _, in := range b.Instrs {
			st, ok := in.(*ssa.Store)
			if !ok || !isFieldOf(st.Addr, T, depth) {
				continue
			}
			if bo, ok := st.Val.(*ssa.BinOp); ok && bo.Op == token.ADD && loadOfField(bo.X, T, depth) {
				if k, isC := core.ConstInt(bo.Y); isC && k == 1 && inc == nil {
					inc = st
				}
			}
		}
	}
	if inc == nil {
		gi.problems = append(gi.problems, "no depth increment")
		return gi
	}
	if _, ok := hasPairedDefer(inc, T, depth); !ok {
		gi.problems = append(gi.problems, "increment of "+depth+" is not followed in the same block by a deferred decrement")
	}
	// comparison
	var cmpIf *ssa.If
	for _, b := range fn.Blocks {
		if len(b.Instrs) == 0 {
			continue
		}
		iff, ok := b.Instrs[len(b.Instrs)-1].(*ssa.If)
		if !ok {
			continue
		}
		bo, ok := iff.Cond.(*ssa.BinOp)
		if !ok || !loadOfField(bo.X, T, depth) {
			continue
		}
		if _, isC := core.ConstInt(bo.Y); !isC {
			continue
		}
		cmpIf = iff
		k, _ := core.ConstInt(bo.Y)
		if !(bo.Op == token.GTR && k == limit) && !(bo.Op == token.GEQ && k == limit+1) {
			gi.problems = append(gi.problems, sprintf("depth comparison is `%s %s %d`, not `> %d` (the documented limit after the increment)", depth, bo.Op, k, limit))
		}
		break
	}
	if cmpIf == nil {
		gi.problems = append(gi.problems, "no comparison of "+depth+" with the limit")
		return gi
	}
	gi.cmpPos = cmpIf.Cond.Pos()
	cb := cmpIf.Block()
	if !(inc.Block() == cb || inc.Block().Dominates(cb)) {
		gi.problems = append(gi.problems, "the increment does not precede the limit comparison")
	}
	// true edge returns a non-nil error without recursing
	tb := cb.Succs[0]
	retOK := false
	seen := map[*ssa.BasicBlock]bool{}
	work := []*ssa.BasicBlock{tb}
	for len(work) > 0 {
		b := work[len(work)-1]
		work = work[:len(work)-1]
		if seen[b] {
			continue
		}
		seen[b] = true
		for _, in := range b.Instrs {
			if c, ok := in.(*ssa.Call); ok {
				if callee := c.Call.StaticCallee(); callee != nil && core.FnPkg(callee) != nil && strings.HasSuffix(core.FnPkg(callee).Path(), "/errors") {
					gi.errCall = callee.Name()
				} else if callee != nil && callee.Blocks != nil && core.InModule(callee) && gi.errCall == "" {
					// a helper shared by the guards that builds the error
					for _, hb := range callee.Blocks {
						for _, hin := range hb.Instrs {
							if hc, ok := hin.(*ssa.Call); ok {
								if h2 := hc.Call.StaticCallee(); h2 != nil && core.FnPkg(h2) != nil && strings.HasSuffix(core.FnPkg(h2).Path(), "/errors") {
									gi.errCall = h2.Name()
								}
							}
						}
					}
				}
			}
			if ret, ok := in.(*ssa.Return); ok {
				if n := len(ret.Results); n > 0 && !core.IsNilConst(ret.Results[n-1]) {
					retOK = true
				} else {
					gi.problems = append(gi.problems, "limit branch returns a nil error")
				}
			}
		}
		work = append(work, b.Succs...)
	}
	for _, rc := range recCalls {
		if seen[rc.Block()] {
			gi.problems = append(gi.problems, "a recursive call is reachable from the limit-exceeded branch")
		}
	}
	if !retOK {
		gi.problems = append(gi.problems, "limit branch does not return an error")
	}
	shapeOK := len(gi.problems) == 0
	covered := map[*ssa.Function]bool{}
	uncovered := map[*ssa.Function]bool{}
	for _, rc := range recCalls {
		dom := cb.Dominates(rc.Block()) && rc.Block() != cb
		if !dom {
			gi.problems = append(gi.problems, "recursive call at "+p.Pos(rc.Pos())+" is not dominated by the limit check")
		}
		for _, c := range p.Callees(rc.(ssa.CallInstruction)) {
			if canReach[c] {
				if dom {
					covered[c] = true
				} else {
					uncovered[c] = true
				}
			}
		}
	}
	gi.ok = len(gi.problems) == 0
	if !gi.ok && shapeOK {
		gi.partial = true
		gi.guardedCallees = map[*ssa.Function]bool{}
		for c := range covered {
			if !uncovered[c] {
				gi.guardedCallees[c] = true
			}
		}
	}
	return gi
}

func cycleString(cyc []*ssa.Function) string {
	var parts []string
	for _, f := range cyc {
		parts = append(parts, core.FnName(f))
	}
	return strings.Join(parts, " -> ")
}

func cycleSites(p *core.Prog, g *core.FnGraph, cyc []*ssa.Function) string {
	var parts []string
	for i := 0; i+1 < len(cyc); i++ {
		if s := g.Site[[2]*ssa.Function{cyc[i], cyc[i+1]}]; s != nil {
			parts = append(parts, p.Pos(s.Pos()))
		}
	}
	return strings.Join(parts, ", ")
}

// longestAcyclicChain: length of the longest call chain in g once removed is deleted (g must be acyclic then).
func longestChain(g *core.FnGraph, removed map[*ssa.Function]bool) int {
	memo := map[*ssa.Function]int{}
	busy := map[*ssa.Function]bool{}
	var depth func(f *ssa.Function) int
	depth = func(f *ssa.Function) int {
		if v, ok := memo[f]; ok {
			return v
		}
		if busy[f] {
			return 0
		}
		busy[f] = true
		best := 0
		for _, s := range g.Succ[f] {
			d := 0
			if !removed[s] {
				d = depth(s)
			}
			if d+1 > best {
				best = d + 1
			}
		}
		busy[f] = false
		memo[f] = best
		return best
	}
	best := 0
	for _, f := range g.Nodes {
		if d := depth(f); d > best {
			best = d
		}
	}
	return best
}

func runC02(c *Ctx) {
	r, p := c.R, c.P
	r.Summary = "C02 (size, token and nesting limits hold for every construct): decided clauses = every cycle of the parser/tokenizer call graph passes a function that guards recursion with the depth counter (so stack depth is bounded by (limit+1) x the longest guard-free call chain, independent of the input); each guard has the full shape (increment, paired deferred decrement, `> limit` check returning an error, dominating every recursive call); only guards, Reset and Release write the counter; both tokenizer entry points reject `len(input) > MaxInputSize` before touching the input and check `len(tokens) >= MaxTokens` before every append."
	r.NotCov = []string{"recursion in tree consumers (SQL(), Walk, collectors) whose depth follows the tree built, listed in the evidence as information", "memory use per nesting level"}
	r.Rule("guard-shape", "a function that increments the parser's depth counter must: pair the increment with a deferred decrement in the same block, compare the counter with `> MaxRecursionDepth` after the increment, return a non-nil error on the true edge without recursing, and have the check dominate every call that can reach the function again")
	r.Rule("cycle-guarded", "after deleting the verified guard functions from the call graph of pkg/sql/parser and pkg/sql/tokenizer no cycle remains; each remaining cycle is reported with its call sites")
	r.Rule("depth-writers", "the depth counter is written only by guard functions (+1), their deferred closures (-1) and Reset/Release (0)")
	r.Rule("input-limit", "each tokenizer entry point tests `len(input) > MaxInputSize` (or an equivalent form) and returns the dedicated error on the true edge before the input is stored or read")
	r.Rule("token-limit", "in each tokenizer entry point the append to the token slice is dominated by a test `len(tokens) >= MaxTokens` whose true edge leaves through the dedicated error")
	c02Parser(c, p, "pkg/sql/parser", []string{"pkg/sql/parser", "pkg/sql/tokenizer"}, "Parser", "MaxRecursionDepth", false)
	c02Limits(c, p, "pkg/sql/tokenizer", false)
	if c.Controls {
		if cp := c.Control("c02"); cp != nil {
			sub := *c
			sub.P = cp
			c02Parser(&sub, cp, "gosqlxsa/controls/c02", []string{"gosqlxsa/controls/c02"}, "Parser", "MaxRecursionDepth", true)
		}
	}
}

func c02Parser(c *Ctx, p *core.Prog, rel string, scope []string, typ, limitName string, control bool) {
	r := c.R
	pk := p.Pkg(rel)
	if pk == nil {
		r.Fatal("anchor not found: package %s", rel)
		return
	}
	tobj := pk.Types.Scope().Lookup(typ)
	limit, okL := intConst(pk.Types, limitName)
	if tobj == nil || !okL {
		r.Fatal("anchor not found: %s.%s or constant %s", rel, typ, limitName)
		return
	}
	T := tobj.Type().(*types.Named)
	fns := p.SrcFuncs(scope...)
	depth := findDepthField(fns, T, limit)
	if depth == "" {
		r.Fatal("anchor not found: no field of %s is compared with %s=%d", typ, limitName, limit)
		return
	}
	inScope := func(f *ssa.Function) bool { return f != nil && f.Blocks != nil && core.InPkgs(f, scope...) }
	g := p.Restrict(inScope)
	// candidates: functions (not closures) that increment the counter
	guards := map[*ssa.Function]bool{}
	var cands []*ssa.Function
	for _, fn := range fns {
		if fn.Parent() != nil {
			continue
		}
		for _, b := range fn.Blocks {
			for _, in := range b.Instrs {
				if st, ok := in.(*ssa.Store); ok && isFieldOf(st.Addr, T, depth) {
					if bo, ok := st.Val.(*ssa.BinOp); ok && bo.Op == token.ADD {
						cands = append(cands, fn)
					}
				}
			}
		}
	}
	ctlShape := false
	guardedEdges := map[[2]*ssa.Function]bool{}
	seenC := map[*ssa.Function]bool{}
	for _, fn := range cands {
		if seenC[fn] {
			continue
		}
		seenC[fn] = true
		gi := analyseGuard(p, fn, T, depth, limit, g)
		if control {
			if gi.ok {
				guards[fn] = true
			} else {
				ctlShape = true
			}
			continue
		}
		if gi.ok {
			guards[fn] = true
			r.OK("guard-shape", core.FnName(fn), p.FnPos(fn), "limit branch builds "+gi.errCall)
		} else if gi.partial {
			// sound for the calls made after the check; the calls made before or beside it are left in the graph, so
			// every cycle through them must be cut by another guard (cycle-guarded decides)
			var names []string
			for cc := range gi.guardedCallees {
				guardedEdges[[2]*ssa.Function{fn, cc}] = true
				names = append(names, cc.Name())
			}
			sort.Strings(names)
			r.OK("guard-shape", core.FnName(fn), p.FnPos(fn), "partial guard: the calls to "+strings.Join(names, ", ")+" come after the limit check; the other recursive calls are not covered by it and are checked as cycles")
		} else {
			r.Violate("guard-shape", core.FnName(fn), p.FnPos(fn), strings.Join(gi.problems, "; "))
		}
	}
	// who may write the counter
	wseq := map[*ssa.Function]int{}
	if !control {
		for _, fn := range fns {
			for _, b := range fn.Blocks {
				for _, in := range b.Instrs {
					st, ok := in.(*ssa.Store)
					if !ok || !isFieldOf(st.Addr, T, depth) {
						continue
					}
					o := outer(fn)
					key := core.FnName(fn)
					// inside a guard, the only writes are the one increment of the function body and the
					// decrement in its deferred closure: a second write makes the counter drift on some path
					wseq[fn]++
					if wseq[fn] > 1 {
						key += sprintf("#%d", wseq[fn])
						if guards[o] {
							r.Violate("depth-writers", key, p.Pos(st.Pos()), "a second write of the recursion depth counter in "+core.FnName(fn)+" (besides the guard's increment / its deferred decrement): on some path the counter is not restored and the limit drifts")
							continue
						}
					}
					switch {
					case guards[o] || (seenC[o] && !guards[o]):
						r.OK("depth-writers", key, p.Pos(st.Pos()), "guard function or its deferred closure")
					case isResetValue(st.Val) && (o.Name() == "Reset" || o.Name() == "Release"):
						r.OK("depth-writers", key, p.Pos(st.Pos()), "reset to zero")
					default:
						r.Violate("depth-writers", key, p.Pos(st.Pos()), "writes the recursion depth counter outside a guard")
					}
				}
			}
		}
	}
	cycles := g.CyclesCut(guards, guardedEdges, 40)
	if control {
		r.Control("guard-shape", ctlShape, "controls/c02 badGuard (check after the recursive call)")
		hit := false
		for _, cyc := range cycles {
			if strings.Contains(cycleString(cyc), "unguardedA") {
				hit = true
			}
			if strings.Contains(cycleString(cyc), "guarded") && !strings.Contains(cycleString(cyc), "unguarded") && !strings.Contains(cycleString(cyc), "badGuard") {
				r.Fatal("control c02: a properly guarded cycle was reported: %s", cycleString(cyc))
			}
		}
		r.Control("cycle-guarded", hit, "controls/c02 unguardedA <-> unguardedB")
		return
	}
	var gn []string
	for f := range guards {
		gn = append(gn, core.FnName(f))
	}
	sort.Strings(gn)
	r.Floor("guard-shape", len(guards), 2, "verified depth guards")
	r.Extra("depth_guards", gn)
	r.Extra("scope_functions", len(g.Nodes))
	// the recursive structure must be present at all (vacuity guard)
	all := g.SCCs(nil, nil)
	big := 0
	for _, s := range all {
		if len(s) > big {
			big = len(s)
		}
	}
	r.Floor("cycle-guarded", big, 20, "functions in the largest recursive component of the parser (before removing guards)")
	r.Extra("recursive_components_before_guards", len(all))
	for _, cyc := range cycles {
		r.Violate("cycle-guarded", cycleString(cyc), p.FnPos(cyc[0]), "recursion cycle without a depth guard: input nesting along this cycle grows the stack without bound; call sites: "+cycleSites(p, g, cyc))
	}
	if len(cycles) == 0 {
		r.OK("cycle-guarded", "all-cycles", "-", sprintf("no cycle remains among %d functions after removing %d guards; longest guard-free call chain %d", len(g.Nodes), len(guards), longestChain(g, guards)))
	} else {
		r.OK("cycle-guarded", "guarded-part", "-", sprintf("%d functions, %d guards, %d unguarded witness cycles", len(g.Nodes), len(guards), len(cycles)))
	}
	// information: recursive components in tree consumers
	mod := p.Restrict(func(f *ssa.Function) bool { return f != nil && f.Blocks != nil && core.InModule(f) })
	r.Extra("recursive_components_in_module", len(mod.SCCs(nil, nil)))
}

// normLenCmp normalises a comparison to "len(x) op k".
func normLenCmp(bo *ssa.BinOp) (ssa.Value, token.Token, int64, bool) {
	x, y, op := bo.X, bo.Y, bo.Op
	if core.LenOf(x) == nil && core.LenOf(y) != nil {
		x, y = y, x
		switch op {
		case token.LSS:
			op = token.GTR
		case token.GTR:
			op = token.LSS
		case token.LEQ:
			op = token.GEQ
		case token.GEQ:
			op = token.LEQ
		}
	}
	l := core.LenOf(x)
	k, ok := core.ConstInt(y)
	if l == nil || !ok {
		return nil, 0, 0, false
	}
	return l, op, k, true
}

func c02Limits(c *Ctx, p *core.Prog, rel string, control bool) {
	r := c.R
	pk := p.Pkg(rel)
	if pk == nil {
		r.Fatal("anchor not found: package %s", rel)
		return
	}
	maxIn, ok1 := intConst(pk.Types, "MaxInputSize")
	maxTok, ok2 := intConst(pk.Types, "MaxTokens")
	tobj := pk.Types.Scope().Lookup("Tokenizer")
	if !ok1 || !ok2 || tobj == nil {
		r.Fatal("anchor not found: MaxInputSize / MaxTokens / Tokenizer in %s", rel)
		return
	}
	T := tobj.Type().(*types.Named)
	fns := p.SrcFuncs(rel)
	fa := collectFieldAccess(fns, T)
	n := 0
	for _, fn := range fns {
		if fn.Parent() != nil || fn.Signature.Recv() == nil || core.NamedOf(fn.Signature.Recv().Type()) != T {
			continue
		}
		var inputStore *ssa.Store
		for _, st := range fa.writes[fn]["input"] {
			if d := paramDerived(st.Val); d != "" && d != fn.Params[0].Name() {
				inputStore = st
			}
		}
		if inputStore == nil {
			continue
		}
		n++
		inputParam := inputStore.Val
		// (a) input size
		found := false
		for _, b := range fn.Blocks {
			if len(b.Instrs) == 0 {
				continue
			}
			iff, ok := b.Instrs[len(b.Instrs)-1].(*ssa.If)
			if !ok {
				continue
			}
			bo, ok := iff.Cond.(*ssa.BinOp)
			if !ok {
				continue
			}
			l, op, k, ok := normLenCmp(bo)
			if !ok || l != inputParam {
				continue
			}
			found = true
			key := core.FnName(fn)
			var probs []string
			if !((op == token.GTR && k == maxIn) || (op == token.GEQ && k == maxIn+1)) {
				probs = append(probs, sprintf("test is `len(input) %s %d`; the documented rule is reject iff len > %d", op, k, maxIn))
			}
			if !b.Dominates(inputStore.Block()) {
				probs = append(probs, "the size test does not dominate the assignment of the input")
			}
			if core.BlockReaches(b.Succs[0], inputStore.Block()) {
				probs = append(probs, "the too-large branch continues into tokenization")
			}
			if !blockCalls(b.Succs[0], "InputTooLargeError") {
				probs = append(probs, "the too-large branch does not build InputTooLargeError")
			}
			if len(probs) > 0 {
				r.Violate("input-limit", key, p.Pos(iff.Cond.Pos()), strings.Join(probs, "; "))
			} else {
				r.OK("input-limit", key, p.Pos(iff.Cond.Pos()), sprintf("len(input) > %d returns InputTooLargeError before the input is stored", maxIn))
			}
			break
		}
		if !found {
			r.Violate("input-limit", core.FnName(fn), p.FnPos(fn), "entry point stores its input without any `len(input) > MaxInputSize` test")
		}
		// (b) token count: look in fn and its closures for appends to a []TokenWithSpan variable
		scope := append([]*ssa.Function{fn}, fn.AnonFuncs...)
		appends := 0
		for _, sf := range scope {
			for _, b := range sf.Blocks {
				for _, in := range b.Instrs {
					call, ok := in.(*ssa.Call)
					if !ok || !core.IsBuiltinCall(&call.Call, "append") {
						continue
					}
					sl, ok := call.Type().Underlying().(*types.Slice)
					if !ok {
						continue
					}
					en := core.NamedOf(sl.Elem())
					if en == nil || en.Obj().Name() != "TokenWithSpan" {
						continue
					}
					// only appends inside a loop matter (the final EOF append happens once)
					if !inLoop(b) {
						continue
					}
					appends++
					key := core.FnName(fn) + sprintf("|append#%d", appends)
					var guard *ssa.If
					var gop token.Token
					var gk int64
					for _, gb := range sf.Blocks {
						if len(gb.Instrs) == 0 || !gb.Dominates(b) || gb == b {
							continue
						}
						iff, ok := gb.Instrs[len(gb.Instrs)-1].(*ssa.If)
						if !ok {
							continue
						}
						bo, ok := iff.Cond.(*ssa.BinOp)
						if !ok {
							continue
						}
						l, op, k, ok := normLenCmp(bo)
						if !ok || !sameVarLoad(l, call.Call.Args[0]) {
							continue
						}
						guard, gop, gk = iff, op, k
					}
					if guard == nil {
						r.Violate("token-limit", key, p.Pos(call.Pos()), "append to the token slice inside the scanning loop is not dominated by a test of len(tokens)")
						continue
					}
					var probs []string
					if !((gop == token.GEQ && gk == maxTok) || (gop == token.GTR && gk == maxTok-1)) {
						probs = append(probs, sprintf("test is `len(tokens) %s %d`; at most %d tokens may be appended, i.e. `>= %d`", gop, gk, maxTok, maxTok))
					}
					if core.BlockReaches(guard.Block().Succs[0], b) && !guard.Block().Succs[0].Dominates(b) {
						// the limit branch must not flow back into the append of the same iteration
						if reachesWithoutBackEdge(guard.Block().Succs[0], b, guard.Block()) {
							probs = append(probs, "the limit-reached branch continues to the append")
						}
					}
					if !blockCalls(guard.Block().Succs[0], "TokenLimitReachedError") {
						probs = append(probs, "the limit-reached branch does not build TokenLimitReachedError")
					}
					if len(probs) > 0 {
						r.Violate("token-limit", key, p.Pos(guard.Cond.Pos()), strings.Join(probs, "; "))
					} else {
						r.OK("token-limit", key, p.Pos(guard.Cond.Pos()), sprintf("len(tokens) >= %d leaves through TokenLimitReachedError before the append", maxTok))
					}
				}
			}
		}
		if appends == 0 {
			r.Violate("token-limit", core.FnName(fn), p.FnPos(fn), "no append to the token slice found inside a loop of this entry point")
		}
	}
	r.Floor("input-limit", n, 2, "tokenizer entry points")
}

func blockCalls(b *ssa.BasicBlock, name string) bool {
	seen := map[*ssa.BasicBlock]bool{}
	work := []*ssa.BasicBlock{b}
	for len(work) > 0 {
		x := work[len(work)-1]
		work = work[:len(work)-1]
		if seen[x] || len(seen) > 6 {
			continue
		}
		seen[x] = true
		for _, in := range x.Instrs {
			if c, ok := in.(*ssa.Call); ok {
				if callee := c.Call.StaticCallee(); callee != nil && callee.Name() == name {
					return true
				}
			}
		}
		work = append(work, x.Succs...)
	}
	return false
}

func inLoop(b *ssa.BasicBlock) bool {
	for _, s := range b.Succs {
		if core.BlockReaches(s, b) {
			return true
		}
	}
	return false
}

// sameVarLoad: a and b are loads of the same variable cell (or the same value).
func sameVarLoad(a, b ssa.Value) bool {
	if a == b {
		return true
	}
	ua, ok1 := a.(*ssa.UnOp)
	ub, ok2 := b.(*ssa.UnOp)
	return ok1 && ok2 && ua.Op == token.MUL && ub.Op == token.MUL && ua.X == ub.X
}

func reachesWithoutBackEdge(from, to, header *ssa.BasicBlock) bool {
	seen := map[*ssa.BasicBlock]bool{header: true}
	work := []*ssa.BasicBlock{from}
	for len(work) > 0 {
		x := work[len(work)-1]
		work = work[:len(work)-1]
		if x == to {
			return true
		}
		if seen[x] {
			continue
		}
		seen[x] = true
		work = append(work, x.Succs...)
	}
	return false
}
