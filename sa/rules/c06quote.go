package rules

import (
	"go/token"
	"go/types"
	"sort"
	"strings"

	"golang.org/x/tools/go/ssa"

	"gosqlxsa/core"
)

// Rule quote-per-part (C06). A quoting function is a func(string) string with a return that wraps (an escaped form of)
// its parameter between two equal constant quote characters. Its argument must be one name part: an argument assembled
// by concatenation with a constant that contains '.' puts the separator inside the quotes whenever any part needs
// quoting, so `t."c d"` is printed as `"t.c d"` and re-parses as a single, different, identifier.
func c06QuotePerPart(c *Ctx, p *core.Prog, scope []string, fired map[string]bool) int {
	r := c.R
	isString := func(t types.Type) bool {
		b, ok := t.Underlying().(*types.Basic)
		return ok && b.Info()&types.IsString != 0
	}
	quoteChar := func(v ssa.Value) string {
		if s, ok := core.ConstString(v); ok && (s == `"` || s == "`" || s == "'" || s == "[" || s == "]") {
			return s
		}
		return ""
	}
	// flatten a + b + c
	var terms func(v ssa.Value, d int) []ssa.Value
	terms = func(v ssa.Value, d int) []ssa.Value {
		if bo, ok := v.(*ssa.BinOp); ok && bo.Op == token.ADD && d < 8 {
			return append(terms(bo.X, d+1), terms(bo.Y, d+1)...)
		}
		return []ssa.Value{v}
	}
	quoters := map[*ssa.Function]bool{}
	fns := p.SrcFuncs(scope...)
	for _, fn := range fns {
		sig := fn.Signature
		if sig.Params().Len() != 1 || sig.Results().Len() != 1 || !isString(sig.Params().At(0).Type()) || !isString(sig.Results().At(0).Type()) || len(fn.Params) == 0 {
			continue
		}
		par := fn.Params[len(fn.Params)-1]
		for _, b := range fn.Blocks {
			ret, ok := b.Instrs[len(b.Instrs)-1].(*ssa.Return)
			if !ok || len(ret.Results) != 1 {
				continue
			}
			ts := terms(ret.Results[0], 0)
			if len(ts) < 3 || quoteChar(ts[0]) == "" || quoteChar(ts[len(ts)-1]) == "" {
				continue
			}
			for _, mid := range ts[1 : len(ts)-1] {
				if mid == ssa.Value(par) {
					quoters[fn] = true
				}
				if call, ok := mid.(*ssa.Call); ok {
					for _, a := range call.Call.Args {
						if a == ssa.Value(par) {
							quoters[fn] = true
						}
					}
				}
			}
		}
	}
	n := 0
	for _, fn := range fns {
		seq := 0
		for _, b := range fn.Blocks {
			for _, in := range b.Instrs {
				call, ok := in.(*ssa.Call)
				if !ok || !quoters[call.Call.StaticCallee()] || len(call.Call.Args) == 0 {
					continue
				}
				seq++
				n++
				key := core.FnName(fn) + sprintf("|%s#%d", call.Call.StaticCallee().Name(), seq)
				arg := call.Call.Args[len(call.Call.Args)-1]
				bad := ""
				ts := terms(arg, 0)
				if len(ts) > 1 {
					for _, t := range ts {
						if s, ok := core.ConstString(t); ok && strings.Contains(s, ".") {
							bad = s
						}
					}
				}
				if fired != nil {
					if bad != "" {
						fired[key] = true
					}
					continue
				}
				if bad != "" {
					r.Violate("quote-per-part", key, p.Pos(call.Pos()), "the text handed to "+call.Call.StaticCallee().Name()+" is assembled from several parts with the separator \""+bad+"\" between them: when any part needs quoting the separator ends up inside the quotes and the qualified name re-parses as one identifier")
				} else {
					r.OK("quote-per-part", key, p.Pos(call.Pos()), "one name part is quoted at a time")
				}
			}
		}
	}
	if fired == nil {
		var qs []string
		for q := range quoters {
			qs = append(qs, core.FnName(q))
		}
		sort.Strings(qs)
		r.Extra("quoting_functions", qs)
	}
	return n
}

func c06QuoteRule(c *Ctx, p *core.Prog) {
	r := c.R
	r.Rule("quote-per-part", "the argument of an identifier-quoting function (one that wraps its parameter between constant quote characters) is a single name part, never a concatenation that contains a \".\" separator")
	n := c06QuotePerPart(c, p, []string{"pkg/sql/ast", "pkg/formatter"}, nil)
	r.Floor("quote-per-part", n, 2, "calls of quoting functions")
	if c.Controls {
		if cp := c.Control("c06"); cp != nil {
			fired := map[string]bool{}
			c06QuotePerPart(c, cp, []string{"gosqlxsa/controls/c06"}, fired)
			r.Control("quote-per-part", fired["(*c06.Ident).joined|quote#1"] && !fired["(*c06.Ident).perPart|quote#1"] && !fired["(*c06.Ident).perPart|quote#2"], "controls/c06 Ident.joined (quotes Table+\".\"+Name as one piece) and Ident.perPart (quotes each part)")
		}
	}
}
