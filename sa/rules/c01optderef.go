package rules

import (
	"go/token"
	"go/types"

	"golang.org/x/tools/go/ssa"

	"gosqlxsa/core"
)

// optional-deref: scalar options of a node are kept as pointers (*int Limit, *int64 FetchValue, *bool Ascending…):
// nil means "not written". Every `*x.F` in pkg/sql/ast has to sit under a nil test of that same field; the parser is
// free to leave any of them nil (and a later parser change may start to), and the serialisers run on every tree.
func c01OptionalDeref(c *Ctx, p *core.Prog) {
	r := c.R
	r.Rule("optional-deref", "in pkg/sql/ast every dereference of a pointer-to-scalar field of a node (*int, *int64, *bool, *string …) is dominated by a nil test of that field on the same object")
	n := 0
	for _, fn := range p.SrcFuncs("pkg/sql/ast") {
		seq := 0
		// nil tests: (object, field) -> blocks where the field is known non-nil
		type of struct {
			obj ssa.Value
			fld int
		}
		nonNil := map[of][]*ssa.BasicBlock{}
		fieldOfPtrLoad := func(v ssa.Value) (of, bool) {
			u, ok := v.(*ssa.UnOp)
			if !ok || u.Op != token.MUL {
				return of{}, false
			}
			fa, ok := u.X.(*ssa.FieldAddr)
			if !ok {
				return of{}, false
			}
			return of{fa.X, fa.Field}, true
		}
		for _, b := range fn.Blocks {
			iff, ok := b.Instrs[len(b.Instrs)-1].(*ssa.If)
			if !ok {
				continue
			}
			bo, ok := iff.Cond.(*ssa.BinOp)
			if !ok || (bo.Op != token.NEQ && bo.Op != token.EQL) {
				continue
			}
			var k of
			found := false
			if core.IsNilConst(bo.Y) {
				k, found = fieldOfPtrLoad(bo.X)
			} else if core.IsNilConst(bo.X) {
				k, found = fieldOfPtrLoad(bo.Y)
			}
			if !found {
				continue
			}
			succ := 0
			if bo.Op == token.EQL {
				succ = 1
			}
			sb := b.Succs[succ]
			if len(sb.Preds) == 1 {
				nonNil[k] = append(nonNil[k], sb)
			}
		}
		for _, b := range fn.Blocks {
			for _, in := range b.Instrs {
				d, ok := in.(*ssa.UnOp)
				if !ok || d.Op != token.MUL {
					continue
				}
				k, ok := fieldOfPtrLoad(d.X)
				if !ok {
					continue
				}
				// a pointer to a scalar, in a struct of this package
				pt, ok := d.X.Type().Underlying().(*types.Pointer)
				if !ok {
					continue
				}
				if _, isBasic := pt.Elem().Underlying().(*types.Basic); !isBasic {
					continue
				}
				fa := d.X.(*ssa.UnOp).X.(*ssa.FieldAddr)
				named := core.NamedOf(fa.X.Type())
				if named == nil || named.Obj().Pkg() == nil || !core.PathHasSuffix(named.Obj().Pkg().Path(), "pkg/sql/ast") {
					continue
				}
				n++
				seq++
				key := core.FnName(fn) + "|" + named.Obj().Name() + "." + core.FieldName(fa.X.Type(), fa.Field) + sprintf("#%d", seq)
				guarded := false
				for kk, blks := range nonNil {
					if kk.fld != k.fld || !sameObject(kk.obj, k.obj) {
						continue
					}
					for _, gb := range blks {
						if gb.Dominates(b) {
							guarded = true
						}
					}
				}
				if guarded {
					r.OK("optional-deref", key, p.Pos(d.Pos()), "under a nil test of the field")
				} else {
					r.Violate("optional-deref", key, p.Pos(d.Pos()), "*"+core.FieldName(fa.X.Type(), fa.Field)+" is dereferenced without a nil test of that field: a tree in which the option was not written (the field is nil) makes this serialiser panic")
				}
			}
		}
	}
	r.Floor("optional-deref", n, 5, "dereferences of optional scalar fields in pkg/sql/ast")
}
