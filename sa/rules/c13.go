package rules

import (
	"go/types"
	"sort"
	"strings"

	"golang.org/x/tools/go/ssa"

	"gosqlxsa/core"
)

func init() {
	Registry["C13"] = runC13
	Registry["C11"] = runC11
}

var c13Scope = []string{"pkg/sql/tokenizer", "pkg/sql/parser", "pkg/gosqlx"}

// errReturns lists, per function in scope, the error-typed operands of its returns.
func errReturns(fn *ssa.Function, ep *errProv) []ssa.Value {
	var out []ssa.Value
	for _, b := range fn.Blocks {
		if len(b.Instrs) == 0 {
			continue
		}
		ret, ok := b.Instrs[len(b.Instrs)-1].(*ssa.Return)
		if !ok {
			continue
		}
		for _, v := range ret.Results {
			if isErrorType(v.Type()) || ep.isStructured(v.Type()) {
				out = append(out, v)
			}
		}
	}
	return out
}

// rewrapSite is a place where an existing error's text is folded into a new error.
type rewrapSite struct {
	fn      *ssa.Function
	call    *ssa.Call
	builder string
	label   string // constant message/format identifying the site
	e       ssa.Value
	wrapped bool
}

func (ep *errProv) rewrapSites(fns []*ssa.Function) []rewrapSite {
	var out []rewrapSite
	for _, fn := range fns {
		for _, b := range fn.Blocks {
			for _, in := range b.Instrs {
				call, ok := in.(*ssa.Call)
				if !ok {
					continue
				}
				callee := call.Call.StaticCallee()
				if callee == nil {
					continue
				}
				pk := core.FnPkg(callee)
				isErrorf := pk != nil && pk.Path() == "fmt" && callee.Name() == "Errorf"
				isBuilder := ep.inErrPkg(callee) && callee.Signature.Recv() == nil && ep.isStructured(resultType(callee))
				if !isErrorf && !isBuilder {
					continue
				}
				es := ep.textErrorOperands(call)
				if isBuilder {
					// a cause passed as a proper error argument (WrapError) is not a text operand
					es = filterOut(es, func(v ssa.Value) bool { return false })
				}
				if len(es) == 0 {
					continue
				}
				label := siteLabel(call)
				for _, e := range es {
					// only propagated errors matter: something that came from a call or a parameter
					prop := false
					for _, o := range ep.origins(e) {
						switch o.kind {
						case "callee", "ctx", "foreign", "param", "unknown", "field", "sentinel":
							prop = true
						}
					}
					if !prop {
						continue
					}
					s := rewrapSite{fn: fn, call: call, builder: callee.Name(), label: label, e: e}
					if isErrorf {
						format, _ := core.ConstString(call.Call.Args[0])
						ws, _ := wVerbOperands(format)
						ops := variadicOperands(call.Call.Args[1])
						for _, wi := range ws {
							if wi < len(ops) && sameErr(ops[wi], e) {
								s.wrapped = true
							}
						}
					} else {
						s.wrapped = ep.chainWraps(call, e)
					}
					out = append(out, s)
				}
			}
		}
	}
	return out
}

func resultType(fn *ssa.Function) types.Type {
	r := fn.Signature.Results()
	if r.Len() == 0 {
		return types.Typ[types.Invalid]
	}
	return r.At(0).Type()
}

func filterOut(vs []ssa.Value, drop func(ssa.Value) bool) []ssa.Value {
	var out []ssa.Value
	for _, v := range vs {
		if !drop(v) {
			out = append(out, v)
		}
	}
	return out
}

// siteLabel: the first constant string among the call's (nested) operands.
func siteLabel(call *ssa.Call) string {
	var find func(v ssa.Value, d int) string
	find = func(v ssa.Value, d int) string {
		if d > 3 {
			return ""
		}
		if s, ok := core.ConstString(v); ok && s != "" {
			return s
		}
		switch x := v.(type) {
		case *ssa.Call:
			for _, a := range x.Call.Args {
				if s := find(a, d+1); s != "" {
					return s
				}
			}
		case *ssa.BinOp:
			if s := find(x.X, d+1); s != "" {
				return s
			}
			return find(x.Y, d+1)
		}
		return ""
	}
	for _, a := range call.Call.Args {
		if s := find(a, 0); s != "" {
			return s
		}
	}
	return ""
}

func runC13(c *Ctx) {
	r, p := c.R, c.P
	r.Summary = "C13 (every failure is a structured, classifiable, reproducible error): decided clauses = every error returned by a function of tokenizer/parser/gosqlx originates (backward slice through phis, variables, closures, %w and builder chains) in a pkg/errors builder, a context error, an in-scope callee or nil; builder codes match the raising package's family; limit guards use their dedicated builders; no site folds a propagated error into a new message without attaching it as cause; builder messages are non-empty; no nondeterminism source (map iteration, time, rand, %p) on the error-building paths."
	r.NotCov = []string{"that the location lies within the input (runtime arithmetic)", "hint/suggestion wording"}
	r.Rule("provenance", "each returned error bottoms out only in: pkg/errors builders, ctx.Err(), the error of an in-scope callee, a parameter, or nil — never in errors.New, fmt.Errorf without %w, a bare sentinel or a foreign package's error")
	r.Rule("family", "tokenizer raises E1xxx codes only; parser and gosqlx never raise E1xxx")
	r.Rule("limit-builder", "the limit branch of every recursion guard builds RecursionDepthLimitError")
	r.Rule("chain", "an error whose text is folded into a new error (passed to a verb, or .Error() into a message) must also be attached: %w for that operand, WithCause(e) on the builder chain, or WrapError(…, e)")
	r.Rule("cause-attached", "in pkg/errors every function returning *Error that takes an error parameter (WithCause, WrapError) stores it as the cause, or hands it to one that does, on every path on which it is not nil: the chain rule trusts them")
	r.Rule("message", "the message/description argument of a builder is a non-empty constant or a formatted string with a non-empty constant format")
	r.Rule("reproducible", "no range over a map, time/rand call or %p verb in pkg/errors, tokenizer or parser code")
	scope := func(f *ssa.Function) bool { return f != nil && f.Blocks != nil && core.InPkgs(f, c13Scope...) }
	ep := newErrProv(p, "pkg/errors", scope)
	if ep == nil || ep.errT == nil || len(ep.codeOf) < 20 {
		r.Fatal("anchor not found: pkg/errors with type Error and builder functions calling NewError (found %d)", len(ep.codeOf))
		return
	}
	fns := p.SrcFuncs(c13Scope...)
	c13Provenance(c, p, ep, fns)
	c13Family(c, p, ep, fns)
	c13Chain(c, p, ep, fns, "chain", nil)
	c13Repro(c, p, ep)
	// limit-builder
	if pk := p.Pkg("pkg/sql/parser"); pk != nil {
		if tobj := pk.Types.Scope().Lookup("Parser"); tobj != nil {
			if limit, ok := intConst(pk.Types, "MaxRecursionDepth"); ok {
				T := tobj.Type().(*types.Named)
				pfns := p.SrcFuncs("pkg/sql/parser", "pkg/sql/tokenizer")
				depth := findDepthField(pfns, T, limit)
				g := p.Restrict(func(f *ssa.Function) bool {
					return f != nil && f.Blocks != nil && core.InPkgs(f, "pkg/sql/parser", "pkg/sql/tokenizer")
				})
				seen := map[*ssa.Function]bool{}
				for _, fn := range pfns {
					if fn.Parent() != nil || seen[fn] {
						continue
					}
					isCand := false
					for _, b := range fn.Blocks {
						for _, in := range b.Instrs {
							if st, ok := in.(*ssa.Store); ok && depth != "" && isFieldOf(st.Addr, T, depth) {
								if bo, ok := st.Val.(*ssa.BinOp); ok && bo.Op.String() == "+" {
									isCand = true
								}
							}
						}
					}
					if !isCand {
						continue
					}
					seen[fn] = true
					gi := analyseGuard(p, fn, T, depth, limit, g)
					if gi.errCall == "RecursionDepthLimitError" {
						r.OK("limit-builder", core.FnName(fn), p.Pos(gi.cmpPos), "")
					} else {
						r.Violate("limit-builder", core.FnName(fn), p.Pos(gi.cmpPos), "recursion limit reported through "+gi.errCall+" (code "+ep.codeOf[gi.errCall]+") instead of RecursionDepthLimitError ("+ep.codeOf["RecursionDepthLimitError"]+")")
					}
				}
			}
		}
	}
	r.Floor("cause-attached", c13CauseAttached(c, p, "cause-attached"), 2, "builders of pkg/errors that take a cause")
	r.Floor("provenance", r.Count("provenance"), 60, "functions returning errors")
	r.Floor("family", r.Count("family"), 40, "builder call sites")
	r.Floor("chain", r.Count("chain"), 12, "rewrap sites")
	c13MemoKey(c, p)
	if c.Controls {
		if cp := c.Control("c13"); cp != nil {
			cscope := func(f *ssa.Function) bool {
				return f != nil && f.Blocks != nil && core.FnPkg(f) != nil && core.FnPkg(f).Path() == "gosqlxsa/controls/c13"
			}
			cep := newErrProv(cp, "gosqlxsa/controls/c13/errs", cscope)
			if cep == nil {
				r.Fatal("control c13 does not resolve")
				return
			}
			var cfns []*ssa.Function
			for fn := range cp.AllFunctions() {
				if cscope(fn) {
					cfns = append(cfns, fn)
				}
			}
			bad := map[string]bool{}
			for _, fn := range cfns {
				for _, v := range errReturns(fn, cep) {
					for _, o := range cep.origins(v) {
						switch o.kind {
						case "errorf-bare", "errors-new", "sentinel", "foreign":
							bad[fn.Name()+":"+o.kind] = true
						}
					}
				}
			}
			r.Control("provenance", bad["bareErrorf:errorf-bare"] && bad["plainNew:errors-new"] && bad["sentinel:sentinel"] && bad["foreign:foreign"], "controls/c13 bareErrorf, plainNew, sentinel, foreign")
			for k := range bad {
				if strings.HasPrefix(k, "good") {
					r.Fatal("control c13: provenance fired on %s", k)
				}
			}
			dropped, kept := false, false
			for _, s := range cep.rewrapSites(cfns) {
				if s.fn.Name() == "dropsChain" && !s.wrapped {
					dropped = true
				}
				if strings.HasPrefix(s.fn.Name(), "good") && !s.wrapped {
					r.Fatal("control c13: chain rule fired on %s", s.fn.Name())
				}
				if strings.HasPrefix(s.fn.Name(), "good") && s.wrapped {
					kept = true
				}
			}
			r.Control("chain", dropped && kept, "controls/c13 dropsChain (and silent on goodWithCause/goodW)")
		}
	}
}

func c13Provenance(c *Ctx, p *core.Prog, ep *errProv, fns []*ssa.Function) {
	r := c.R
	sentinelOK := map[string]bool{}
	type badO struct {
		kind, detail, pos string
	}
	bads := map[*ssa.Function][]badO{}
	kindsOf := map[*ssa.Function]map[string]int{}
	calleesOf := map[*ssa.Function]map[*ssa.Function]bool{}
	var withErr []*ssa.Function
	for _, fn := range fns {
		rets := errReturns(fn, ep)
		if len(rets) == 0 {
			continue
		}
		withErr = append(withErr, fn)
		kinds := map[string]int{}
		calleesOf[fn] = map[*ssa.Function]bool{}
		for _, v := range rets {
			for _, o := range ep.origins(v) {
				kinds[o.kind]++
				switch o.kind {
				case "nil", "builder", "ctx", "param", "field":
				case "callee":
					calleesOf[fn][o.fn] = true
				case "sentinel":
					ok, done := sentinelOK[o.detail]
					if !done {
						ok = ep.sentinelIsStructured(fn, o.detail) || ep.sentinelIntercepted(fn, o.detail, fns)
						sentinelOK[o.detail] = ok
					}
					if !ok {
						bads[fn] = append(bads[fn], badO{o.kind, o.detail, p.Pos(o.pos)})
					}
				default:
					bads[fn] = append(bads[fn], badO{o.kind, o.detail, p.Pos(o.pos)})
				}
			}
		}
		kindsOf[fn] = kinds
	}
	// which functions can hand an unstructured error to a caller outside the package?
	// escapes[f] = some exported function returns f's error unchanged (through callee chains)
	returnsFrom := map[*ssa.Function][]*ssa.Function{} // callee -> callers that return its error as is
	for caller, cs := range calleesOf {
		for callee := range cs {
			returnsFrom[callee] = append(returnsFrom[callee], caller)
		}
	}
	escapes := func(f *ssa.Function) (string, bool) {
		seen := map[*ssa.Function]bool{f: true}
		work := []*ssa.Function{f}
		for len(work) > 0 {
			x := work[0]
			work = work[1:]
			o := outer(x)
			if o.Object() != nil && o.Object().Exported() {
				return core.FnName(o), true
			}
			for _, cl := range returnsFrom[x] {
				if !seen[cl] {
					seen[cl] = true
					work = append(work, cl)
				}
			}
		}
		return "", false
	}
	for _, fn := range withErr {
		name := core.FnName(fn)
		if len(bads[fn]) == 0 {
			var ks []string
			for k, n := range kindsOf[fn] {
				ks = append(ks, sprintf("%s:%d", k, n))
			}
			sort.Strings(ks)
			r.OK("provenance", name, p.FnPos(fn), strings.Join(ks, " "))
			continue
		}
		via, esc := escapes(fn)
		seen := map[string]bool{}
		for _, b := range bads[fn] {
			key := name + "|" + b.kind + "|" + b.detail
			if seen[key] {
				continue
			}
			seen[key] = true
			if !esc {
				r.OK("provenance", key, b.pos, "unstructured error stays inside the package: every caller wraps it into a structured error before it can reach an exported function")
				continue
			}
			r.Violate("provenance", key, b.pos, "returned error originates in "+describeKind(b.kind)+" ("+b.detail+"), not in a structured builder, and reaches the caller of exported "+via+" unchanged")
		}
	}
}

func describeKind(k string) string {
	switch k {
	case "errorf-bare":
		return "fmt.Errorf without %w"
	case "errors-new":
		return "errors.New"
	case "sentinel":
		return "a package-level sentinel that is not a structured error"
	case "foreign":
		return "an error produced by another package"
	case "concrete":
		return "an unstructured concrete error type"
	}
	return "an origin the analysis cannot classify: " + k
}

// sentinelIsStructured: the package-level variable is initialised from a builder.
func (ep *errProv) sentinelIsStructured(user *ssa.Function, name string) bool {
	pk := user.Package()
	if pk == nil && user.Parent() != nil {
		pk = outer(user).Package()
	}
	if pk == nil {
		return false
	}
	g, _ := pk.Members[name].(*ssa.Global)
	if g == nil {
		return false
	}
	init := pk.Func("init")
	if init == nil {
		return false
	}
	for _, b := range init.Blocks {
		for _, in := range b.Instrs {
			if st, ok := in.(*ssa.Store); ok && st.Addr == ssa.Value(g) {
				for _, o := range ep.origins(st.Val) {
					if o.kind != "builder" {
						return false
					}
				}
				return true
			}
		}
	}
	return false
}

// sentinelIntercepted: the package-level sentinel is an internal control signal:
// every caller of a function that may return it compares the returned error
// with the sentinel (err == S) and branches on it, so it never leaves the package.
func (ep *errProv) sentinelIntercepted(user *ssa.Function, name string, fns []*ssa.Function) bool {
	pk := user.Package()
	if pk == nil {
		pk = outer(user).Package()
	}
	if pk == nil {
		return false
	}
	g, _ := pk.Members[name].(*ssa.Global)
	if g == nil || g.Object() == nil || g.Object().Exported() {
		return false
	}
	// functions that may return the sentinel
	may := map[*ssa.Function]bool{}
	direct := func(fn *ssa.Function) bool {
		for _, v := range errReturns(fn, ep) {
			for _, o := range ep.origins(v) {
				if o.kind == "sentinel" && o.detail == name {
					return true
				}
			}
		}
		return false
	}
	intercepts := func(h *ssa.Function, callee *ssa.Function) bool {
		// every call of callee in h has its error result compared with the sentinel and branched on
		found := false
		for _, b := range h.Blocks {
			for _, in := range b.Instrs {
				call, ok := in.(*ssa.Call)
				if !ok || call.Call.StaticCallee() != callee {
					continue
				}
				found = true
				okSite := false
				for _, ref := range core.Referrers(call) {
					ex, ok := ref.(*ssa.Extract)
					if !ok || !isErrorType(ex.Type()) {
						continue
					}
					for _, r2 := range core.Referrers(ex) {
						bo, ok := r2.(*ssa.BinOp)
						if !ok {
							continue
						}
						other := bo.Y
						if other == ssa.Value(ex) {
							other = bo.X
						}
						if u, ok := other.(*ssa.UnOp); ok && u.X == ssa.Value(g) {
							for _, r3 := range core.Referrers(bo) {
								if _, isIf := r3.(*ssa.If); isIf {
									okSite = true
								}
							}
						}
					}
				}
				if !okSite {
					return false
				}
			}
		}
		return found
	}
	for _, fn := range fns {
		if direct(fn) {
			may[fn] = true
		}
	}
	for changed := true; changed; {
		changed = false
		for _, h := range fns {
			if may[h] {
				continue
			}
			for _, v := range errReturns(h, ep) {
				for _, o := range ep.origins(v) {
					if o.kind == "callee" && may[o.fn] && !intercepts(h, o.fn) {
						may[h] = true
						changed = true
					}
				}
			}
		}
	}
	for fn := range may {
		if fn.Object() != nil && fn.Object().Exported() {
			return false
		}
		// a tokenizer/parser entry point (stores its input) must not be able to return it either
		if fn.Name() == "Tokenize" || fn.Name() == "TokenizeContext" {
			return false
		}
	}
	return len(may) > 0
}

func c13Family(c *Ctx, p *core.Prog, ep *errProv, fns []*ssa.Function) {
	r := c.R
	for _, fn := range fns {
		n := map[string]int{}
		for _, b := range fn.Blocks {
			for _, in := range b.Instrs {
				call, ok := in.(*ssa.Call)
				if !ok {
					continue
				}
				callee := call.Call.StaticCallee()
				if callee == nil || !ep.inErrPkg(callee) || callee.Signature.Recv() != nil || !ep.isStructured(resultType(callee)) {
					continue
				}
				code := ep.codeOf[callee.Name()]
				if callee.Name() == "NewError" || callee.Name() == "WrapError" {
					code = ""
					if s, ok := core.ConstString(call.Call.Args[0]); ok {
						code = s
					} else if ct, ok := call.Call.Args[0].(*ssa.ChangeType); ok {
						code, _ = core.ConstString(ct.X)
					}
				}
				n[callee.Name()]++
				key := core.FnName(fn) + "|" + callee.Name() + sprintf("#%d", n[callee.Name()])
				if code == "" {
					r.Undecide("family", key, p.Pos(call.Pos()), "cannot determine the error code of this builder call")
					continue
				}
				tok := core.InPkgs(fn, "pkg/sql/tokenizer")
				switch {
				case tok && !strings.HasPrefix(code, "E1"):
					r.Violate("family", key, p.Pos(call.Pos()), "tokenizer raises "+code+" ("+callee.Name()+"), a parser-family code")
				case !tok && strings.HasPrefix(code, "E1"):
					r.Violate("family", key, p.Pos(call.Pos()), "parser-side code raises tokenizer-family code "+code+" ("+callee.Name()+")")
				default:
					r.OK("family", key, p.Pos(call.Pos()), code)
				}
				// message rule
				sig := callee.Signature.Params()
				for i := 0; i < sig.Len() && i < len(call.Call.Args); i++ {
					pn := sig.At(i).Name()
					if pn != "message" && pn != "description" && pn != "msg" {
						continue
					}
					mk := key + "|" + pn
					a := call.Call.Args[i]
					if s, ok := core.ConstString(a); ok {
						if strings.TrimSpace(s) == "" {
							r.Violate("message", mk, p.Pos(call.Pos()), "empty message passed to "+callee.Name())
						} else {
							r.OK("message", mk, p.Pos(call.Pos()), "constant")
						}
					} else if lbl := siteLabel(call); strings.TrimSpace(lbl) != "" {
						r.OK("message", mk, p.Pos(call.Pos()), "formatted with constant part")
					} else {
						r.OK("message", mk, p.Pos(call.Pos()), "dynamic text (not decided)")
					}
				}
			}
		}
	}
}

// c13Chain reports rewrap sites; when only != nil, only sites whose folded
// error may come from a function in `only` are reported (C11's restriction).
func c13Chain(c *Ctx, p *core.Prog, ep *errProv, fns []*ssa.Function, rule string, only map[*ssa.Function]bool) int {
	r := c.R
	n := 0
	idx := map[string]int{}
	for _, s := range ep.rewrapSites(fns) {
		if only != nil {
			hit := false
			for _, o := range ep.origins(s.e) {
				if o.kind == "ctx" || (o.kind == "callee" && only[o.fn]) {
					hit = true
				}
			}
			if !hit {
				continue
			}
		}
		n++
		base := core.FnName(s.fn) + "|" + s.builder + "|" + s.label
		idx[base]++
		key := base
		if idx[base] > 1 {
			key = base + sprintf("#%d", idx[base])
		}
		if s.wrapped {
			r.OK(rule, key, p.Pos(s.call.Pos()), "cause attached")
		} else {
			r.Violate(rule, key, p.Pos(s.call.Pos()), "the error is formatted into the new message but not attached as its cause: errors.Is/As (e.g. context.Canceled, the original code) no longer see it")
		}
	}
	return n
}

func c13Repro(c *Ctx, p *core.Prog, ep *errProv) {
	r := c.R
	fns := p.SrcFuncs("pkg/errors", "pkg/sql/tokenizer", "pkg/sql/parser")
	n := 0
	for _, fn := range fns {
		for _, b := range fn.Blocks {
			for _, in := range b.Instrs {
				switch x := in.(type) {
				case *ssa.Range:
					if _, isMap := x.X.Type().Underlying().(*types.Map); isMap {
						n++
						key := core.FnName(fn) + "|range-map"
						if mapRangeOrderFree(x) {
							r.OK("reproducible", key, p.Pos(x.Pos()), "map iteration whose effect does not depend on order (writes keyed by the iteration key only)")
						} else {
							r.Violate("reproducible", key, p.Pos(x.Pos()), "iteration over a map (order varies between runs) in error-building / parsing code")
						}
					}
				case *ssa.Call:
					if callee := x.Call.StaticCallee(); callee != nil {
						pk := core.FnPkg(callee)
						if pk != nil && (pk.Path() == "math/rand" || pk.Path() == "math/rand/v2" || pk.Path() == "crypto/rand") {
							r.Violate("reproducible", core.FnName(fn)+"|rand", p.Pos(x.Pos()), "random source")
						}
						if pk != nil && pk.Path() == "fmt" && len(x.Call.Args) > 0 {
							if f, ok := core.ConstString(x.Call.Args[0]); ok && strings.Contains(f, "%p") {
								r.Violate("reproducible", core.FnName(fn)+"|%p", p.Pos(x.Pos()), "pointer formatting")
							}
						}
					}
				}
			}
		}
	}
	r.OK("reproducible", "scan", "-", sprintf("%d functions of pkg/errors, tokenizer and parser scanned; %d map iterations examined", len(fns), n))
}

// mapRangeOrderFree: the loop body only copies entries into another map
// (MapUpdate keyed by the iteration key) or deletes them.
func mapRangeOrderFree(rg *ssa.Range) bool {
	for _, ref := range core.Referrers(rg) {
		nx, ok := ref.(*ssa.Next)
		if !ok {
			continue
		}
		hb := nx.Block()
		if len(hb.Succs) != 2 {
			return false
		}
		// body blocks: reachable from Succs[0] without passing hb
		seen := map[*ssa.BasicBlock]bool{hb: true}
		work := []*ssa.BasicBlock{hb.Succs[0]}
		for len(work) > 0 {
			b := work[len(work)-1]
			work = work[:len(work)-1]
			if seen[b] || !core.BlockReaches(b, hb) {
				continue // left the loop (break): what follows is not per-entry work
			}
			seen[b] = true
			for _, in := range b.Instrs {
				switch x := in.(type) {
				case *ssa.MapUpdate, *ssa.Extract, *ssa.Jump, *ssa.If, *ssa.DebugRef, *ssa.UnOp, *ssa.Lookup, *ssa.BinOp, *ssa.FieldAddr, *ssa.Field, *ssa.IndexAddr, *ssa.Phi, *ssa.MakeInterface, *ssa.Convert, *ssa.ChangeType:
				case *ssa.Call:
					if !(core.IsBuiltinCall(&x.Call, "delete") || core.IsBuiltinCall(&x.Call, "len")) {
						if callee := x.Call.StaticCallee(); callee == nil || !pureStringFn(callee) {
							return false
						}
					}
				case *ssa.Store:
					// stores to a map element / struct field keyed by the entry are fine; accumulating into a slice is not
					if _, isIdx := x.Addr.(*ssa.IndexAddr); isIdx {
						return false
					}
				case *ssa.Return:
					return false // early exit depends on order
				default:
					return false
				}
			}
			work = append(work, b.Succs...)
		}
	}
	return true
}

func pureStringFn(fn *ssa.Function) bool {
	pk := core.FnPkg(fn)
	return pk != nil && (pk.Path() == "strings" || pk.Path() == "unicode")
}
