package rules

import (
	"go/token"
	"strings"

	"golang.org/x/tools/go/ssa"

	"gosqlxsa/core"
)

// c04QuotedTypes: token Type constants that the tokenizer emits together with a non-zero Quote (quoted spellings).
func c04QuotedTypes(p *core.Prog) map[int64]string {
	out := map[int64]string{}
	for _, fn := range p.SrcFuncs("pkg/sql/tokenizer") {
		for _, al := range c04TokenLiterals(fn) {
			var typ int64 = -1
			quoted := false
			for _, ref := range core.Referrers(al) {
				fa, ok := ref.(*ssa.FieldAddr)
				if !ok {
					continue
				}
				name := core.FieldName(fa.X.Type(), fa.Field)
				for _, r2 := range core.Referrers(fa) {
					st, ok := r2.(*ssa.Store)
					if !ok || st.Addr != ssa.Value(fa) {
						continue
					}
					switch name {
					case "Type":
						if k, ok := core.ConstInt(st.Val); ok {
							typ = k
						}
					case "Quote":
						if k, ok := core.ConstInt(st.Val); !ok || k != 0 {
							quoted = true
						}
					}
				}
			}
			if typ >= 0 && quoted {
				out[typ] = core.FnName(fn)
			}
		}
	}
	return out
}

// c04TokenLiterals: the local models.Token values a function assembles (composite literals).
func c04TokenLiterals(fn *ssa.Function) []*ssa.Alloc {
	var out []*ssa.Alloc
	for _, b := range fn.Blocks {
		for _, in := range b.Instrs {
			al, ok := in.(*ssa.Alloc)
			if !ok {
				continue
			}
			n := core.NamedOf(core.Deref(al.Type()))
			if n != nil && n.Obj().Name() == "Token" && n.Obj().Pkg() != nil && n.Obj().Pkg().Name() == "models" {
				out = append(out, al)
			}
		}
	}
	return out
}

// Rule quoted-marked (C04): a token whose value is the content of a local buffer (text decoded from between
// delimiters) either has a string / quoted-string Type or carries the delimiter in Quote. A backtick identifier handed on
// as a bare Identifier with no mark cannot be told from an unquoted word, and the converter re-types it as a keyword
// when it is spelled like one.
func c04QuotedMarked(c *Ctx, p *core.Prog) int {
	r := c.R
	r.Rule("quoted-marked", "a tokenizer token whose Value is the content of a local decode buffer has a string / quoted Type or a non-zero Quote: quoted identifiers stay distinguishable from bare words")
	pk := p.Pkg("pkg/models")
	typeName := func(k int64) string {
		if pk == nil {
			return ""
		}
		for _, n := range pk.Types.Scope().Names() {
			if !strings.HasPrefix(n, "TokenType") {
				continue
			}
			if v, ok := intConst(pk.Types, n); ok && v == k {
				return n
			}
		}
		return ""
	}
	n := 0
	for _, fn := range p.SrcFuncs("pkg/sql/tokenizer") {
		seq := 0
		for _, al := range c04TokenLiterals(fn) {
			var typ int64 = -1
			quoted, fromBuf := false, false
			var pos token.Pos
			for _, ref := range core.Referrers(al) {
				fa, ok := ref.(*ssa.FieldAddr)
				if !ok {
					continue
				}
				name := core.FieldName(fa.X.Type(), fa.Field)
				for _, r2 := range core.Referrers(fa) {
					st, ok := r2.(*ssa.Store)
					if !ok || st.Addr != ssa.Value(fa) {
						continue
					}
					switch name {
					case "Type":
						if k, ok := core.ConstInt(st.Val); ok {
							typ = k
						}
						pos = st.Pos()
					case "Quote":
						if k, ok := core.ConstInt(st.Val); !ok || k != 0 {
							quoted = true
						}
					case "Value":
						// buf.String() of a local bytes.Buffer / strings.Builder
						if call, ok := st.Val.(*ssa.Call); ok {
							if f := call.Call.StaticCallee(); f != nil && f.Name() == "String" && core.FnPkg(f) != nil && (core.FnPkg(f).Path() == "bytes" || core.FnPkg(f).Path() == "strings") && len(call.Call.Args) == 1 {
								if _, local := call.Call.Args[0].(*ssa.Alloc); local {
									fromBuf = true
								}
							}
						}
					}
				}
			}
			if !fromBuf || typ < 0 {
				continue
			}
			n++
			seq++
			tn := typeName(typ)
			key := core.FnName(fn) + sprintf("|token#%d", seq)
			if quoted || strings.Contains(tn, "String") || strings.Contains(tn, "Quoted") {
				r.OK("quoted-marked", key, p.Pos(pos), tn)
			} else {
				r.Violate("quoted-marked", key, p.Pos(pos), "this token's value was decoded from between delimiters, but it is handed on as "+tn+" without a Quote: downstream it cannot be told from a bare word, so `table`, `index`, `values` written in backticks are re-typed as the keywords TABLE, INDEX, VALUES and the statement is rejected")
			}
		}
	}
	return n
}
