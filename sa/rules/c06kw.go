package rules

import (
	"go/token"
	"go/types"
	"sort"
	"strings"

	"golang.org/x/tools/go/ssa"

	"gosqlxsa/core"
)

// kw-scope: the keyword-casing helpers of the formatters change the letter case of their
// argument, so the argument may only be keyword text: constants, or AST fields that hold a
// keyword (audited table). Text that can contain an identifier or a literal (a whole clause
// rendered by another function, a name field) must never go through them: with upper/lower
// keyword case the re-parsed tree would differ in more than keyword case.

// c06KeywordFields: AST string fields whose value is a keyword or operator word put there by the
// parser (each confirmed by reading the parser's stores, 2026-09-26).
var c06KeywordFields = map[string]string{
	"SetOperation.Operator":          "UNION / EXCEPT / INTERSECT",
	"AlterTableAction.Type":          "ADD COLUMN / DROP COLUMN / … built from keyword constants",
	"IndexColumn.Direction":          "ASC / DESC",
	"CreateViewStatement.WithOption": "WITH CHECK OPTION variants",
	"DropStatement.ObjectType":       "TABLE / VIEW / INDEX / …",
	"DropStatement.CascadeType":      "CASCADE / RESTRICT",
	"TruncateStatement.CascadeType":  "CASCADE / RESTRICT",
	"MergeWhenClause.Type":           "MATCHED / NOT_MATCHED / …",
	"JoinClause.Type":                "INNER / LEFT / RIGHT / FULL / CROSS / NATURAL",
	"WindowFrame.Type":               "ROWS / RANGE / GROUPS",
	"TableConstraint.Type":           "PRIMARY KEY / UNIQUE / FOREIGN KEY / CHECK",
	"ReferenceDefinition.OnDelete":   "CASCADE / SET NULL / …",
	"ReferenceDefinition.OnUpdate":   "CASCADE / SET NULL / …",
}

type kwClass struct {
	ok  bool
	why string
}

// c06ParserStores: values the parser stores into each AST string field ("Type.field").
var c06ParserStores map[string][]ssa.Value

func c06CollectParserStores(p *core.Prog) {
	c06ParserStores = map[string][]ssa.Value{}
	for _, fn := range p.SrcFuncs("pkg/sql/parser") {
		for _, b := range fn.Blocks {
			for _, in := range b.Instrs {
				st, ok := in.(*ssa.Store)
				if !ok {
					continue
				}
				fa, ok := st.Addr.(*ssa.FieldAddr)
				if !ok {
					continue
				}
				n := core.NamedOf(fa.X.Type())
				if n == nil || n.Obj().Pkg() == nil || !strings.HasSuffix(n.Obj().Pkg().Path(), "/pkg/sql/ast") {
					continue
				}
				k := n.Obj().Name() + "." + core.FieldName(fa.X.Type(), fa.Field)
				c06ParserStores[k] = append(c06ParserStores[k], st.Val)
			}
		}
	}
}

// c06ConstOnly: v is built from string constants only (constants, concatenations, phis, locals assigned such).
func c06ConstOnly(v ssa.Value, depth int, seen map[ssa.Value]bool) bool {
	if depth > 6 {
		return false
	}
	if seen[v] {
		return true
	}
	seen[v] = true
	if _, ok := core.ConstString(v); ok {
		return true
	}
	switch x := v.(type) {
	case *ssa.Phi:
		for _, e := range x.Edges {
			if !c06ConstOnly(e, depth+1, seen) {
				return false
			}
		}
		return true
	case *ssa.BinOp:
		return x.Op == token.ADD && c06ConstOnly(x.X, depth+1, seen) && c06ConstOnly(x.Y, depth+1, seen)
	case *ssa.UnOp:
		if a, ok := x.X.(*ssa.Alloc); ok && x.Op == token.MUL {
			n := 0
			for _, ref := range core.Referrers(a) {
				if st, ok := ref.(*ssa.Store); ok && st.Addr == ssa.Value(a) {
					n++
					if !c06ConstOnly(st.Val, depth+1, seen) {
						return false
					}
				}
			}
			return n > 0
		}
	}
	return false
}

// c06AutoKeywordField: every value the parser stores into the field is a string constant.
func c06AutoKeywordField(k string) bool {
	vs := c06ParserStores[k]
	if len(vs) == 0 {
		return false
	}
	for _, v := range vs {
		if !c06ConstOnly(v, 0, map[ssa.Value]bool{}) {
			return false
		}
	}
	return true
}

func c06KwArg(v ssa.Value, depth int, seen map[ssa.Value]bool) kwClass {
	if depth > 8 {
		return kwClass{false, "expression too deep to classify"}
	}
	if seen[v] {
		return kwClass{true, ""}
	}
	seen[v] = true
	if _, ok := core.ConstString(v); ok {
		return kwClass{true, ""}
	}
	fieldOf := func(x ssa.Value, idx int) kwClass {
		n := core.NamedOf(x.Type())
		name := "?"
		if n != nil {
			name = n.Obj().Name()
		}
		k := name + "." + core.FieldName(x.Type(), idx)
		if _, ok := c06KeywordFields[k]; ok {
			return kwClass{true, ""}
		}
		if c06AutoKeywordField(k) {
			return kwClass{true, ""}
		}
		return kwClass{false, "field " + k + " can hold text that is not a keyword (the parser stores non-constant text into it and it is not in the audited table of keyword-valued fields)"}
	}
	switch x := v.(type) {
	case *ssa.UnOp:
		if x.Op == token.MUL {
			if fa, ok := x.X.(*ssa.FieldAddr); ok {
				return fieldOf(fa.X, fa.Field)
			}
			if a, ok := x.X.(*ssa.Alloc); ok {
				// a local string variable: every store must be keyword text
				for _, ref := range core.Referrers(a) {
					if st, ok := ref.(*ssa.Store); ok && st.Addr == ssa.Value(a) {
						if c := c06KwArg(st.Val, depth+1, seen); !c.ok {
							return c
						}
					}
				}
				return kwClass{true, ""}
			}
		}
	case *ssa.Field:
		return fieldOf(x.X, x.Field)
	case *ssa.Phi:
		for _, e := range x.Edges {
			if c := c06KwArg(e, depth+1, seen); !c.ok {
				return c
			}
		}
		return kwClass{true, ""}
	case *ssa.BinOp:
		if x.Op == token.ADD {
			if c := c06KwArg(x.X, depth+1, seen); !c.ok {
				return c
			}
			return c06KwArg(x.Y, depth+1, seen)
		}
	case *ssa.Convert, *ssa.ChangeType:
		var ops []*ssa.Value
		o := x.(ssa.Instruction).Operands(ops)
		if len(o) == 1 {
			return c06KwArg(*o[0], depth+1, seen)
		}
	case *ssa.Call:
		f := x.Call.StaticCallee()
		if f != nil && core.FnPkg(f) != nil && core.FnPkg(f).Path() == "strings" {
			switch f.Name() {
			case "ToUpper", "ToLower", "TrimSpace":
				return c06KwArg(x.Call.Args[0], depth+1, seen)
			case "ReplaceAll":
				return c06KwArg(x.Call.Args[0], depth+1, seen)
			}
		}
		if f != nil && f.Name() == "Itoa" && core.FnPkg(f) != nil && core.FnPkg(f).Path() == "strconv" {
			return kwClass{true, ""} // digits have no letter case
		}
		if f != nil && f.Name() == "String" && f.Signature.Recv() != nil && len(x.Call.Args) == 1 {
			if n := core.NamedOf(f.Signature.Recv().Type()); n != nil && n.Obj().Name() == "Builder" && n.Obj().Pkg().Path() == "strings" {
				return c06BuilderText(x.Call.Args[0], x, depth, seen)
			}
		}
		if f != nil && f.Blocks != nil && core.InModule(f) {
			// a helper that only ever returns keyword text
			for _, b := range f.Blocks {
				if ret, ok := b.Instrs[len(b.Instrs)-1].(*ssa.Return); ok && len(ret.Results) == 1 {
					if c := c06KwArg(retOperand(ret, 0), depth+1, seen); !c.ok {
						return kwClass{false, f.Name() + "() can return text that is not keyword-only (" + c.why + ")"}
					}
				}
			}
			return kwClass{true, ""}
		}
		name := "a function value"
		if f != nil {
			name = f.Name()
		}
		return kwClass{false, "result of " + name + "()"}
	case *ssa.Parameter:
		return kwClass{false, "parameter " + x.Name() + " (callers not followed)"}
	case *ssa.Extract:
		if lk, ok := x.Tuple.(*ssa.Lookup); ok && x.Index == 0 && constStringTable(lk.X) {
			return kwClass{true, ""}
		}
	case *ssa.Lookup:
		if constStringTable(x.X) {
			return kwClass{true, ""}
		}
	}
	return kwClass{false, "value of unknown origin (" + v.String() + ")"}
}

// c06BuilderText: everything written into the strings.Builder b (within the function) is keyword text or a number.
func c06BuilderText(b ssa.Value, at *ssa.Call, depth int, seen map[ssa.Value]bool) kwClass {
	for _, ref := range core.Referrers(b) {
		switch u := ref.(type) {
		case *ssa.DebugRef:
		case *ssa.Defer:
			// putBuilder(sb)
		case *ssa.MakeInterface:
			// fmt.Fprintf(sb, "const", ints/keywords…)
			for _, r2 := range core.Referrers(u) {
				call, ok := r2.(*ssa.Call)
				if !ok {
					if _, isDbg := r2.(*ssa.DebugRef); isDbg {
						continue
					}
					return kwClass{false, "the builder is passed on as an interface value"}
				}
				f := call.Call.StaticCallee()
				if f == nil || core.FnPkg(f) == nil || core.FnPkg(f).Path() != "fmt" || !strings.HasPrefix(f.Name(), "Fprint") {
					return kwClass{false, "the builder is passed to another function"}
				}
				for _, a := range call.Call.Args[1:] {
					if c := c06FmtArg(a, depth+1, seen); !c.ok {
						return c
					}
				}
			}
		case *ssa.Call:
			f := u.Call.StaticCallee()
			if u == at {
				continue
			}
			if f == nil || f.Signature.Recv() == nil || len(u.Call.Args) == 0 || u.Call.Args[0] != b {
				return kwClass{false, "the builder is passed to another function"}
			}
			switch f.Name() {
			case "WriteString":
				if c := c06KwArg(u.Call.Args[1], depth+1, seen); !c.ok {
					return c
				}
			case "WriteByte", "WriteRune":
				if _, isC := u.Call.Args[1].(*ssa.Const); !isC {
					return kwClass{false, "a non-constant character is written"}
				}
			case "Len", "Grow", "Reset", "String", "Cap":
			default:
				return kwClass{false, "builder method " + f.Name()}
			}
		default:
			return kwClass{false, "the builder is used in a way that is not followed"}
		}
	}
	return kwClass{true, ""}
}

// c06FmtArg: an argument of fmt.Fprintf into the builder: a constant format, numbers, keyword text.
func c06FmtArg(a ssa.Value, depth int, seen map[ssa.Value]bool) kwClass {
	switch x := a.(type) {
	case *ssa.Const:
		return kwClass{true, ""}
	case *ssa.MakeInterface:
		if isIntType(x.X.Type()) {
			return kwClass{true, ""}
		}
		return c06KwArg(x.X, depth+1, seen)
	case *ssa.Slice:
		// the variadic []any: look at the stores into its backing array
		if al, ok := x.X.(*ssa.Alloc); ok {
			for _, ref := range core.Referrers(al) {
				if ia, ok := ref.(*ssa.IndexAddr); ok {
					for _, r2 := range core.Referrers(ia) {
						if st, ok := r2.(*ssa.Store); ok {
							if c := c06FmtArg(st.Val, depth+1, seen); !c.ok {
								return c
							}
						}
					}
				}
			}
			return kwClass{true, ""}
		}
	}
	if _, ok := core.ConstString(a); ok {
		return kwClass{true, ""}
	}
	return c06KwArg(a, depth+1, seen)
}

func runC06Kw(c *Ctx) {
	r, p := c.R, c.P
	r.Rule("kw-scope", "the keyword-casing helpers ((*formatter).kw in pkg/sql/ast, (*SQLFormatter).writeKeyword in the CLI) receive only keyword text: string constants, concatenations of them, AST fields listed in the audited keyword-field table, or helpers that return only such text")
	c06CollectParserStores(p)
	helpers := map[*ssa.Function]bool{}
	if f := p.Method("pkg/sql/ast", "formatter", "kw"); f != nil {
		helpers[f] = true
	} else {
		r.Fatal("anchor not found: (*formatter).kw in pkg/sql/ast")
	}
	if f := p.Method("cmd/gosqlx/cmd", "SQLFormatter", "writeKeyword"); f != nil {
		helpers[f] = true
	} else {
		r.Fatal("anchor not found: (*SQLFormatter).writeKeyword in cmd/gosqlx/cmd")
	}
	n, nonConst := 0, 0
	seq := map[string]int{}
	for _, rel := range []string{"pkg/sql/ast", "cmd/gosqlx/cmd"} {
		for _, fn := range p.SrcFuncs(rel) {
			for _, b := range fn.Blocks {
				for _, in := range b.Instrs {
					call, ok := in.(*ssa.Call)
					if !ok {
						continue
					}
					callee := call.Call.StaticCallee()
					if callee == nil || !helpers[callee] || len(call.Call.Args) < 2 {
						continue
					}
					arg := call.Call.Args[1]
					n++
					if _, isC := core.ConstString(arg); isC {
						continue // constant keyword: counted, not listed one by one
					}
					nonConst++
					desc := core.FnName(fn) + "|" + callee.Name() + "(" + strings.TrimPrefix(arg.Type().String(), "string") + arg.Name() + ")"
					_ = desc
					base := core.FnName(fn) + "|" + callee.Name()
					seq[base]++
					key := base + sprintf("#%d", seq[base])
					if cl := c06KwArg(arg, 0, map[ssa.Value]bool{}); cl.ok {
						r.OK("kw-scope", key, p.Pos(call.Pos()), "keyword text only")
					} else {
						r.Violate("kw-scope", key, p.Pos(call.Pos()), "the keyword-casing helper is applied to text that is not keyword-only: "+cl.why+"; with upper/lower keyword case identifiers or literals inside it change case and the formatted SQL no longer parses to the same tree")
					}
				}
			}
		}
	}
	r.Extra("kw_helper_calls", n)
	r.Floor("kw-scope", n, 150, "calls of the keyword-casing helpers (constant and non-constant)")
	r.Floor("kw-scope", nonConst, 10, "keyword-casing calls with a non-constant argument")
	var tbl []string
	for k, v := range c06KeywordFields {
		auto := ""
		if c06AutoKeywordField(k) {
			auto = " [also: parser stores constants only]"
		}
		tbl = append(tbl, k+" = "+v+auto)
	}
	sort.Strings(tbl)
	r.Extra("kw_keyword_fields", tbl)
}

// ---- option-independence ---------------------------------------------------------------------

// optionDerived: v depends on a field of FormatOptions (layout options).
func optionDerived(v ssa.Value, depth int, seen map[ssa.Value]bool) bool {
	if depth > 8 || seen[v] {
		return false
	}
	seen[v] = true
	isOpt := func(t types.Type) bool {
		n := core.NamedOf(t)
		return n != nil && n.Obj().Name() == "FormatOptions"
	}
	switch x := v.(type) {
	case *ssa.Field:
		if isOpt(x.X.Type()) {
			return true
		}
		return optionDerived(x.X, depth+1, seen)
	case *ssa.FieldAddr:
		if isOpt(x.X.Type()) {
			return true
		}
		return optionDerived(x.X, depth+1, seen)
	case *ssa.UnOp:
		return optionDerived(x.X, depth+1, seen)
	case *ssa.BinOp:
		return optionDerived(x.X, depth+1, seen) || optionDerived(x.Y, depth+1, seen)
	case *ssa.Phi:
		for _, e := range x.Edges {
			if optionDerived(e, depth+1, seen) {
				return true
			}
		}
		// a phi that merges the outcome of `a && b`: look at the conditions of the merging branches
		for _, pred := range x.Block().Preds {
			if iff, ok := pred.Instrs[len(pred.Instrs)-1].(*ssa.If); ok && optionDerived(iff.Cond, depth+1, seen) {
				return true
			}
		}
	case *ssa.Parameter:
		return isOpt(x.Type())
	}
	return false
}

// contentRead: the field address is used for more than presence tests (nil / len / "" comparisons).
func contentRead(fa *ssa.FieldAddr) bool {
	for _, ref := range core.Referrers(fa) {
		ld, ok := ref.(*ssa.UnOp)
		if !ok {
			if _, isDbg := ref.(*ssa.DebugRef); isDbg {
				continue
			}
			return true // address passed on / indexed / stored: content use
		}
		for _, r2 := range core.Referrers(ld) {
			switch x := r2.(type) {
			case *ssa.DebugRef:
			case *ssa.BinOp:
				if x.Op == token.EQL || x.Op == token.NEQ {
					continue
				}
				return true
			case *ssa.Call:
				if core.IsBuiltinCall(&x.Call, "len") {
					only := true
					for _, r3 := range core.Referrers(x) {
						if bo, ok := r3.(*ssa.BinOp); !ok || !(bo.Op == token.EQL || bo.Op == token.NEQ || bo.Op == token.GTR || bo.Op == token.LSS || bo.Op == token.GEQ || bo.Op == token.LEQ) {
							only = false
						}
					}
					if only {
						continue
					}
				}
				return true
			case *ssa.If:
			default:
				return true
			}
		}
	}
	return false
}

// c06OptionIndependence: which node fields a Format method prints must not depend on layout options.
func c06OptionIndependence(c *Ctx, p *core.Prog, astPath string) {
	r := c.R
	r.Rule("option-independence", "in the Format methods of pkg/sql/ast a layout option (a FormatOptions field) never decides whether a node field is read: for every branch on an option-derived condition, the node fields read on one side are read on the other side too (options change keyword case, indentation and line breaks, not the content)")
	n := 0
	for _, fn := range p.SrcFuncs("pkg/sql/ast") {
		if fn.Parent() != nil || len(fn.Blocks) == 0 {
			continue
		}
		// functions that take or hold FormatOptions
		uses := false
		for _, par := range fn.Params {
			if nn := core.NamedOf(par.Type()); nn != nil && (nn.Obj().Name() == "FormatOptions" || nn.Obj().Name() == "formatter") {
				uses = true
			}
		}
		if !uses {
			continue
		}
		seq := 0
		for _, b := range fn.Blocks {
			iff, ok := b.Instrs[len(b.Instrs)-1].(*ssa.If)
			if !ok || !optionDerived(iff.Cond, 0, map[ssa.Value]bool{}) {
				continue
			}
			// node fields read in the blocks dominated by each side
			side := func(k int) map[string]bool {
				out := map[string]bool{}
				start := b.Succs[k]
				if len(start.Preds) != 1 {
					return out // a join: nothing is exclusive to this side
				}
				for _, bb := range fn.Blocks {
					if !start.Dominates(bb) {
						continue
					}
					for _, in := range bb.Instrs {
						fa, ok := in.(*ssa.FieldAddr)
						if !ok || !contentRead(fa) {
							continue
						}
						nn := core.NamedOf(fa.X.Type())
						if nn == nil || nn.Obj().Pkg() == nil || nn.Obj().Pkg().Path() != astPath || nn.Obj().Name() == "FormatOptions" || nn.Obj().Name() == "formatter" {
							continue
						}
						out[nn.Obj().Name()+"."+core.FieldName(fa.X.Type(), fa.Field)] = true
					}
				}
				return out
			}
			t, f := side(0), side(1)
			var only []string
			for k := range t {
				if !f[k] {
					only = append(only, k)
				}
			}
			for k := range f {
				if !t[k] {
					only = append(only, k)
				}
			}
			n++
			if len(only) == 0 {
				continue
			}
			// a field read on one side only is acceptable if it is also read outside both sides (unconditionally elsewhere)
			elsewhere := map[string]bool{}
			for _, bb := range fn.Blocks {
				if b.Succs[0].Dominates(bb) && len(b.Succs[0].Preds) == 1 || b.Succs[1].Dominates(bb) && len(b.Succs[1].Preds) == 1 {
					continue
				}
				for _, in := range bb.Instrs {
					if fa, ok := in.(*ssa.FieldAddr); ok && contentRead(fa) {
						if nn := core.NamedOf(fa.X.Type()); nn != nil {
							elsewhere[nn.Obj().Name()+"."+core.FieldName(fa.X.Type(), fa.Field)] = true
						}
					}
				}
			}
			var bad []string
			for _, k := range only {
				if !elsewhere[k] {
					bad = append(bad, k)
				}
			}
			sort.Strings(bad)
			if len(bad) == 0 {
				continue
			}
			seq++
			r.Violate("option-independence", core.FnName(fn)+sprintf("|option-branch#%d", seq), p.Pos(iff.Cond.Pos()), "whether "+strings.Join(bad, ", ")+" is printed depends on a formatting option: under one option value the field is never read, so the clause is dropped from the output and the re-parsed tree differs")
		}
	}
	r.OK("option-independence", "scan", "-", sprintf("%d option-dependent branches in Format code examined", n))
	r.Floor("option-independence", n, 5, "option-dependent branches")
}

// constStringTable: m is a package-level map whose values are all string constants (a keyword lookup table).
func constStringTable(m ssa.Value) bool {
	u, ok := m.(*ssa.UnOp)
	if !ok {
		return false
	}
	g, ok := u.X.(*ssa.Global)
	if !ok || g.Pkg == nil {
		return false
	}
	initFn := g.Pkg.Func("init")
	if initFn == nil {
		return false
	}
	n := 0
	for _, b := range initFn.Blocks {
		for _, in := range b.Instrs {
			switch x := in.(type) {
			case *ssa.MapUpdate:
				isG := false
				for _, ref := range core.Referrers(x.Map) {
					if st, ok := ref.(*ssa.Store); ok && st.Addr == ssa.Value(g) {
						isG = true
					}
				}
				if !isG {
					continue
				}
				if _, ok := core.ConstString(x.Value); !ok {
					return false
				}
				n++
			}
		}
	}
	// written anywhere else?
	for _, ref := range core.Referrers(g) {
		_ = ref
	}
	return n > 0
}
