package rules

import (
	"go/token"
	"go/types"

	"golang.org/x/tools/go/ssa"

	"gosqlxsa/core"
)

// Rule text-match-kind-guarded (C04). The converter between tokenizer tokens and parser tokens re-types some tokens by
// their text (compound keywords, identifiers that are keywords). A token's text says nothing about its kind: the string
// literal 'order by', the quoted identifier "group by" and the keyword ORDER BY have the same text. So wherever a
// function that receives a tokenizer token compares the token's text with string constants (directly, or by handing it
// to a helper that does), the comparison must sit where the token's Type has been positively established (the true side
// of `Type == K`, the false side of `Type != K`, a case of a switch on Type).
func c04TextMatchKindGuarded(c *Ctx, p *core.Prog) int {
	r := c.R
	isTokType := func(t types.Type) bool {
		n := core.NamedOf(core.Deref(t))
		return n != nil && n.Obj().Pkg() != nil && n.Obj().Pkg().Name() == "models" && (n.Obj().Name() == "TokenWithSpan" || n.Obj().Name() == "Token")
	}
	// helpers with one string parameter that compare it (case-folded) with constants
	comparesText := map[*ssa.Function]bool{}
	fns := p.SrcFuncs("pkg/sql/parser")
	for _, fn := range fns {
		if len(fn.Params) == 0 {
			continue
		}
		var sp *ssa.Parameter
		for _, q := range fn.Params {
			if b, ok := q.Type().Underlying().(*types.Basic); ok && b.Info()&types.IsString != 0 {
				sp = q
			}
		}
		if sp == nil || fn.Signature.Params().Len() != 1 {
			continue
		}
		nconst := 0
		for _, b := range fn.Blocks {
			for _, in := range b.Instrs {
				if bo, ok := in.(*ssa.BinOp); ok && bo.Op == token.EQL {
					if _, isC := core.ConstString(bo.Y); isC {
						nconst++
					}
				}
			}
		}
		if nconst >= 3 {
			comparesText[fn] = true
		}
	}
	quotedTypes := c04QuotedTypes(p)
	n := 0
	for _, fn := range fns {
		var tp *ssa.Parameter
		for _, q := range fn.Params {
			if isTokType(q.Type()) {
				tp = q
			}
		}
		if tp == nil {
			continue
		}
		// values read off the token parameter: path of field names
		var fieldPath func(v ssa.Value, d int) (string, bool)
		fieldPath = func(v ssa.Value, d int) (string, bool) {
			if d > 8 {
				return "", false
			}
			switch x := v.(type) {
			case *ssa.Parameter:
				return "", x == tp
			case *ssa.UnOp:
				if x.Op == token.MUL {
					if al, ok := x.X.(*ssa.Alloc); ok {
						// the parameter spilled to a cell
						for _, ref := range core.Referrers(al) {
							if st, ok := ref.(*ssa.Store); ok && st.Addr == ssa.Value(al) && st.Val == ssa.Value(tp) {
								return "", true
							}
						}
						return "", false
					}
					return fieldPath(x.X, d+1)
				}
			case *ssa.FieldAddr:
				s, ok := fieldPath(x.X, d+1)
				return s + "." + core.FieldName(x.X.Type(), x.Field), ok
			case *ssa.Field:
				s, ok := fieldPath(x.X, d+1)
				return s + "." + core.FieldName(x.X.Type(), x.Field), ok
			case *ssa.Alloc:
				for _, ref := range core.Referrers(x) {
					if st, ok := ref.(*ssa.Store); ok && st.Addr == ssa.Value(x) && st.Val == ssa.Value(tp) {
						return "", true
					}
				}
			case *ssa.Call:
				if f := x.Call.StaticCallee(); f != nil && core.FnPkg(f) != nil && core.FnPkg(f).Path() == "strings" && len(x.Call.Args) == 1 {
					return fieldPath(x.Call.Args[0], d+1)
				}
			case *ssa.Convert:
				return fieldPath(x.X, d+1)
			}
			return "", false
		}
		isText := func(v ssa.Value) bool {
			s, ok := fieldPath(v, 0)
			return ok && (hasSuffix(s, ".Value") || hasSuffix(s, ".Literal"))
		}
		isKind := func(v ssa.Value) bool {
			s, ok := fieldPath(v, 0)
			return ok && hasSuffix(s, ".Type")
		}
		isQuote := func(v ssa.Value) bool {
			s, ok := fieldPath(v, 0)
			return ok && (hasSuffix(s, ".Quote") || hasSuffix(s, ".QuoteStyle"))
		}
		// blocks reached after a test of the token's Quote (either side: the code looked at it)
		quoteSeen := map[*ssa.BasicBlock]bool{}
		for _, b := range fn.Blocks {
			if iff, ok := b.Instrs[len(b.Instrs)-1].(*ssa.If); ok {
				if bo, ok := iff.Cond.(*ssa.BinOp); ok && (isQuote(bo.X) || isQuote(bo.Y)) {
					for _, sc := range b.Succs {
						if len(sc.Preds) == 1 {
							quoteSeen[sc] = true
						}
					}
				}
			}
		}
		typedConst := map[*ssa.BasicBlock]int64{}
		// blocks in which the token's Type is positively established
		typed := map[*ssa.BasicBlock]bool{}
		for _, b := range fn.Blocks {
			iff, ok := b.Instrs[len(b.Instrs)-1].(*ssa.If)
			if !ok {
				continue
			}
			bo, ok := iff.Cond.(*ssa.BinOp)
			if !ok || (bo.Op != token.EQL && bo.Op != token.NEQ) || !(isKind(bo.X) || isKind(bo.Y)) {
				continue
			}
			k := 0
			if bo.Op == token.NEQ {
				k = 1
			}
			sc := b.Succs[k]
			if len(sc.Preds) != 1 {
				// a switch with several cases sharing a body: every predecessor is a positive test of Type
				all := true
				for _, pr := range sc.Preds {
					pi, ok := pr.Instrs[len(pr.Instrs)-1].(*ssa.If)
					if !ok {
						all = false
						break
					}
					pb, ok := pi.Cond.(*ssa.BinOp)
					if !ok || pb.Op != token.EQL || !(isKind(pb.X) || isKind(pb.Y)) || pr.Succs[0] != sc {
						all = false
					}
				}
				if !all {
					continue
				}
			}
			typed[sc] = true
			if k, ok := core.ConstInt(bo.X); ok {
				typedConst[sc] = k
			} else if k, ok := core.ConstInt(bo.Y); ok {
				typedConst[sc] = k
			}
		}
		// established as a type that also covers quoted spellings, and the quoting not looked at
		needsQuote := func(b *ssa.BasicBlock) string {
			for t := range typed {
				if t == b || t.Dominates(b) {
					if fnName, shared := quotedTypes[typedConst[t]]; shared {
						for q := range quoteSeen {
							if q == b || q.Dominates(b) {
								return ""
							}
						}
						return fnName
					}
				}
			}
			return ""
		}
		guarded := func(b *ssa.BasicBlock) bool {
			for t := range typed {
				if t == b || t.Dominates(b) {
					return true
				}
			}
			return false
		}
		seq := 0
		for _, b := range fn.Blocks {
			for _, in := range b.Instrs {
				what := ""
				switch x := in.(type) {
				case *ssa.BinOp:
					if x.Op == token.EQL || x.Op == token.NEQ {
						_, cy := core.ConstString(x.Y)
						_, cx := core.ConstString(x.X)
						if (cy && isText(x.X)) || (cx && isText(x.Y)) {
							what = "compares the token's text with a string constant"
						}
					}
				case *ssa.Call:
					if f := x.Call.StaticCallee(); f != nil && comparesText[f] {
						for _, a := range x.Call.Args {
							if isText(a) {
								what = "hands the token's text to " + f.Name() + ", which matches it against keyword spellings"
							}
						}
					}
				}
				if what == "" {
					continue
				}
				seq++
				n++
				if seq > 1 && !guarded(b) {
					continue // one report per function is enough; the first unguarded site is named
				}
				key := core.FnName(fn) + sprintf("|text#%d", seq)
				if guarded(b) && needsQuote(b) != "" {
					r.Violate("text-match-kind-guarded", key, p.Pos(in.Pos()), "this code "+what+" for tokens of a Type that "+needsQuote(b)+" also gives to quoted spellings, without looking at the token's Quote: an identifier written in quotes and spelled like a keyword is re-typed as that keyword")
				} else if guarded(b) {
					r.OK("text-match-kind-guarded", key, p.Pos(in.Pos()), "the token's Type is established where its text is matched")
				} else {
					r.Violate("text-match-kind-guarded", key, p.Pos(in.Pos()), "this code "+what+" without having established the token's Type: a string literal or a quoted identifier spelled like a keyword ('order by', \"left join\") is re-typed as that keyword and the statement no longer parses")
				}
			}
		}
	}
	return n
}

func hasSuffix(s, suf string) bool { return len(s) >= len(suf) && s[len(s)-len(suf):] == suf }
