package rules

import (
	"go/token"
	"go/types"

	"golang.org/x/tools/go/ssa"

	"gosqlxsa/core"
)

// ctx-not-swallowed: an error that comes back from a function under which the context is polled may be the
// cancellation. The caller has to stop with an error on that branch; code that looks at the error and then carries
// on (a "try this form, otherwise fall back to that one" parser, a logged-and-ignored failure) turns a cancelled
// call into a result, or into a syntax error that errors.Is does not match to the context's error.
func c11NotSwallowed(c *Ctx, p *core.Prog, ctxErr map[*ssa.Function]bool, exempt map[string]string) {
	r := c.R
	r.Rule("ctx-not-swallowed", "in the parser and pkg/gosqlx, on the branch where the error returned by a function that can poll the context is non-nil, every path ends in a return with a non-nil error before any further parsing call; the error is not discarded")
	isErr := func(t types.Type) bool {
		n, ok := t.(*types.Named)
		return ok && n.Obj().Pkg() == nil && n.Obj().Name() == "error"
	}
	n := 0
	for _, fn := range p.SrcFuncs("pkg/sql/parser", "pkg/gosqlx") {
		seq := 0
		for _, b := range fn.Blocks {
			for _, in := range b.Instrs {
				call, ok := in.(*ssa.Call)
				if !ok {
					continue
				}
				callee := call.Call.StaticCallee()
				if callee == nil || !ctxErr[callee] {
					continue
				}
				res := callee.Signature.Results()
				if res.Len() == 0 || !isErr(res.At(res.Len()-1).Type()) {
					continue
				}
				n++
				seq++
				key := core.FnName(fn) + "|" + callee.Name() + sprintf("#%d", seq)
				why, ok := exempt[core.FnName(fn)+"|"+callee.Name()]
				if !ok {
					why, ok = exempt[core.FnName(fn)+"|*"]
				}
				if ok {
					r.OK("ctx-not-swallowed", key, p.Pos(call.Pos()), "audited: "+why)
					continue
				}
				var errv ssa.Value
				if res.Len() == 1 {
					errv = call
				} else {
					for _, ref := range core.Referrers(call) {
						if ex, ok := ref.(*ssa.Extract); ok && ex.Index == res.Len()-1 {
							errv = ex
						}
					}
				}
				if errv == nil || len(core.Referrers(errv)) == 0 {
					r.Violate("ctx-not-swallowed", key, p.Pos(call.Pos()), "the error result of "+callee.Name()+" (which can be the context's cancellation) is discarded")
					continue
				}
				bad := ""
				tested := false
				for _, ref := range core.Referrers(errv) {
					bo, ok := ref.(*ssa.BinOp)
					if !ok || (bo.Op != token.NEQ && bo.Op != token.EQL) {
						continue
					}
					if !(core.IsNilConst(bo.X) || core.IsNilConst(bo.Y)) {
						continue
					}
					for _, r2 := range core.Referrers(bo) {
						iff, ok := r2.(*ssa.If)
						if !ok {
							continue
						}
						tested = true
						k := 0
						if bo.Op == token.EQL {
							k = 1
						}
						start := iff.Block().Succs[k]
						if w := swallowWitnessV(p, start, iff.Block(), ctxErr, errv); w != "" && bad == "" {
							bad = w
						}
					}
				}
				switch {
				case bad != "":
					r.Violate("ctx-not-swallowed", key, p.Pos(call.Pos()), "after "+callee.Name()+" failed (possibly with the context's cancellation) "+bad)
				case tested:
					r.OK("ctx-not-swallowed", key, p.Pos(call.Pos()), "the failure branch returns an error")
				default:
					r.OK("ctx-not-swallowed", key, p.Pos(call.Pos()), "the error is passed on without a test")
				}
			}
		}
	}
	r.Floor("ctx-not-swallowed", n, 150, "calls to functions that can return a context error")
}

// swallowWitness explores the failure branch: a return with a nil error, or a call that parses on, is a witness. The
// walk knows that the error is non-nil: merges that receive it on the edge taken stay non-nil, and a later
// `if err != nil` over such a merge is followed on its true side only.
func swallowWitness(p *core.Prog, start, from *ssa.BasicBlock, ctxErr map[*ssa.Function]bool) string {
	return swallowWitnessV(p, start, from, ctxErr, nil)
}

func swallowWitnessV(p *core.Prog, start, from *ssa.BasicBlock, ctxErr map[*ssa.Function]bool, errv ssa.Value) string {
	type item struct {
		b, pred *ssa.BasicBlock
	}
	nonNil := map[ssa.Value]bool{}
	if errv != nil {
		nonNil[errv] = true
	}
	seen := map[item]bool{}
	work := []item{{start, from}}
	for len(work) > 0 {
		it := work[len(work)-1]
		work = work[:len(work)-1]
		if seen[it] || it.b == from {
			continue
		}
		seen[it] = true
		b := it.b
		// phis receiving a known non-nil value on the edge we came along
		for _, in := range b.Instrs {
			ph, ok := in.(*ssa.Phi)
			if !ok {
				break
			}
			for k, pr := range b.Preds {
				if pr == it.pred && k < len(ph.Edges) && nonNil[ph.Edges[k]] {
					nonNil[ph] = true
				}
			}
		}
		var lastErrStore ssa.Value
		for _, in := range b.Instrs {
			switch x := in.(type) {
			case *ssa.Store:
				if al, ok := x.Addr.(*ssa.Alloc); ok {
					if n, ok := core.Deref(al.Type()).(*types.Named); ok && n.Obj().Pkg() == nil && n.Obj().Name() == "error" {
						lastErrStore = x.Val
					}
				}
			case *ssa.Call:
				if f := x.Call.StaticCallee(); f != nil && (ctxErr[f] || f.Name() == "advance") && f.Signature.Recv() != nil {
					return "execution continues with " + f.Name() + " at " + p.Pos(x.Pos()) + " instead of returning the error"
				}
			case *ssa.Return:
				if len(x.Results) == 0 {
					continue
				}
				ev := x.Results[len(x.Results)-1]
				if n, ok := ev.Type().(*types.Named); !ok || n.Obj().Pkg() != nil || n.Obj().Name() != "error" {
					return "the function returns at " + p.Pos(x.Pos()) + " without an error result"
				}
				if u, ok := ev.(*ssa.UnOp); ok && u.Op == token.MUL {
					if _, isAlloc := u.X.(*ssa.Alloc); isAlloc && lastErrStore != nil {
						ev = lastErrStore
					}
				}
				if core.IsNilConst(ev) {
					return "the function returns a nil error at " + p.Pos(x.Pos())
				}
			}
		}
		if len(b.Instrs) == 0 {
			continue
		}
		if _, isRet := b.Instrs[len(b.Instrs)-1].(*ssa.Return); isRet {
			continue
		}
		only := -1
		if iff, ok := b.Instrs[len(b.Instrs)-1].(*ssa.If); ok {
			if bo, ok := iff.Cond.(*ssa.BinOp); ok && (bo.Op == token.NEQ || bo.Op == token.EQL) {
				var v ssa.Value
				if core.IsNilConst(bo.Y) {
					v = bo.X
				} else if core.IsNilConst(bo.X) {
					v = bo.Y
				}
				if v != nil && nonNil[v] {
					only = 0
					if bo.Op == token.EQL {
						only = 1
					}
				}
			}
		}
		for k, sc := range b.Succs {
			if only >= 0 && k != only {
				continue
			}
			work = append(work, item{sc, b})
		}
	}
	return ""
}
