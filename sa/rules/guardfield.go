package rules

import (
	"go/token"
	"go/types"
	"sort"
	"strings"

	"golang.org/x/tools/go/ssa"

	"gosqlxsa/core"
)

// guard-field-match: `if x.A != nil { … x.B … }` where the guarded code uses x.B (another optional field of the
// same node) and never x.A is the signature of a copied branch with one name left unchanged: the bound printed,
// or the child released, is not the one that was tested.
//
// For every branch on a presence test of field A of an object (A != nil, len(A) > 0, A != ""), look at the code
// that runs only when the test holds: if it reads the content of other optional fields of the same object but
// never A, and the function tests one of those other fields nowhere itself, report it.
func guardFieldMatch(c *Ctx, p *core.Prog, rule string, rels []string, fnFilter func(*ssa.Function) bool) int {
	r := c.R
	n := 0
	isOptional := func(t types.Type) bool {
		switch u := t.Underlying().(type) {
		case *types.Pointer, *types.Interface, *types.Slice, *types.Map:
			return true
		case *types.Basic:
			return u.Info()&types.IsString != 0
		}
		return false
	}
	for _, fn := range p.SrcFuncs(rels...) {
		if fnFilter != nil && !fnFilter(fn) {
			continue
		}
		seq := 0
		// presence tests in this function: (object value, field index) -> true
		type of struct {
			obj ssa.Value
			idx int
		}
		fieldOfLoad := func(v ssa.Value) (of, *ssa.FieldAddr, bool) {
			// v is a load of obj.field (or len(load))
			if arg := core.LenOf(v); arg != nil {
				v = arg
			}
			u, ok := v.(*ssa.UnOp)
			if !ok || u.Op != token.MUL {
				return of{}, nil, false
			}
			fa, ok := u.X.(*ssa.FieldAddr)
			if !ok {
				return of{}, nil, false
			}
			return of{fa.X, fa.Field}, fa, true
		}
		tested := map[of]bool{}
		type guard struct {
			iff   *ssa.If
			field of
			fa    *ssa.FieldAddr
			succ  int // successor on which the field is present
		}
		var guards []guard
		for _, b := range fn.Blocks {
			iff, ok := b.Instrs[len(b.Instrs)-1].(*ssa.If)
			if !ok {
				continue
			}
			bo, ok := iff.Cond.(*ssa.BinOp)
			if !ok {
				continue
			}
			var f of
			var fa *ssa.FieldAddr
			succ := -1
			for _, pair := range [][2]ssa.Value{{bo.X, bo.Y}, {bo.Y, bo.X}} {
				ff, a, ok := fieldOfLoad(pair[0])
				if !ok {
					continue
				}
				isZero := core.IsNilConst(pair[1])
				if k, isC := core.ConstInt(pair[1]); isC && k == 0 {
					isZero = true
				}
				if s, isC := core.ConstString(pair[1]); isC && s == "" {
					isZero = true
				}
				if !isZero {
					continue
				}
				f, fa = ff, a
				switch bo.Op {
				case token.NEQ, token.GTR:
					succ = 0
				case token.EQL:
					succ = 1
				}
			}
			if succ < 0 || fa == nil {
				continue
			}
			st := core.StructOf(core.NamedOf(fa.X.Type()))
			if st == nil || !isOptional(st.Field(fa.Field).Type()) {
				continue
			}
			tested[f] = true
			guards = append(guards, guard{iff, f, fa, succ})
		}
		for _, g := range guards {
			start := g.iff.Block().Succs[g.succ]
			if len(start.Preds) != 1 {
				continue // a join: nothing runs only under this test
			}
			usesSelf := false
			others := map[int]bool{}
			// is block b inside the "present" region of a test of field idx of the same object?
			underOwnTest := func(b *ssa.BasicBlock, idx int) bool {
				for _, h := range guards {
					if h.field.idx == idx && sameObject(h.field.obj, g.field.obj) {
						hs := h.iff.Block().Succs[h.succ]
						if len(hs.Preds) == 1 && hs.Dominates(b) {
							return true
						}
					}
				}
				return false
			}
			for _, b := range fn.Blocks {
				if !start.Dominates(b) {
					continue
				}
				for _, in := range b.Instrs {
					fa, ok := in.(*ssa.FieldAddr)
					if !ok || !sameObject(fa.X, g.field.obj) {
						continue
					}
					if fa.Field == g.field.idx {
						usesSelf = true
						continue
					}
					st := core.StructOf(core.NamedOf(fa.X.Type()))
					if st != nil && isOptional(st.Field(fa.Field).Type()) && contentRead(fa) && !underOwnTest(b, fa.Field) {
						others[fa.Field] = true
					}
				}
				// the object itself handed to a callee counts as using every field
				for _, in := range b.Instrs {
					if call, ok := in.(ssa.CallInstruction); ok {
						for _, a := range call.Common().Args {
							if sameObject(a, g.field.obj) {
								usesSelf = true
							}
						}
					}
				}
			}
			if usesSelf || len(others) == 0 {
				continue
			}
			// the other fields used: are they tested themselves anywhere in the function? (then this is an either-or chain)
			var suspicious []string
			st := core.StructOf(core.NamedOf(g.fa.X.Type()))
			for idx := range others {
				suspicious = append(suspicious, st.Field(idx).Name())
			}
			n++
			if len(suspicious) == 0 {
				continue
			}
			sort.Strings(suspicious)
			seq++
			tn := core.NamedOf(g.fa.X.Type()).Obj().Name()
			r.Violate(rule, core.FnName(fn)+sprintf("|%s.%s#%d", tn, st.Field(g.field.idx).Name(), seq), p.Pos(g.iff.Cond.Pos()),
				"the branch taken when "+tn+"."+st.Field(g.field.idx).Name()+" is present never uses that field; it uses "+tn+"."+strings.Join(suspicious, ", ")+" instead, which is not tested on the way: the test and the use name different fields (a copied branch with one name left unchanged)")
		}
	}
	return n
}

// sameObject: the two values denote the same object within a function (same SSA value, or loads of the same variable).
func sameObject(a, b ssa.Value) bool {
	if a == b {
		return true
	}
	ua, ok1 := a.(*ssa.UnOp)
	ub, ok2 := b.(*ssa.UnOp)
	if ok1 && ok2 && ua.X == ub.X {
		return true
	}
	return false
}
