package rules

import (
	"go/token"
	"go/types"
	"strings"

	"golang.org/x/tools/go/ssa"

	"gosqlxsa/core"
)

// Rule release-own-tree (C09). Outside pkg/sql/ast, code hands to the pools only what it obtained itself in the same
// function (a tree it parsed, a node it took from a pool). A value that comes from a parameter, from a captured variable
// or from a call that was given an AST node (a pointer into a tree the caller passed in) still belongs to the caller:
// releasing it zeroes nodes the caller, or another live tree, may still hold, and the pools hand them out again.
func c09ReleaseOwnTree(c *Ctx, p *core.Prog) int {
	r := c.R
	r.Rule("release-own-tree", "outside pkg/sql/ast a function releases (ReleaseAST, Put…, PutExpression) only values it obtained itself in that function, never a value reached from a parameter, a captured variable or a call that was handed an AST node: a tree passed in by the caller stays the caller's")
	astPk := p.Pkg("pkg/sql/ast")
	if astPk == nil {
		return 0
	}
	isNodeType := func(t types.Type) bool {
		for i := 0; i < 3; i++ {
			if ptr, ok := t.Underlying().(*types.Pointer); ok {
				t = ptr.Elem()
				continue
			}
			break
		}
		n := core.NamedOf(t)
		return n != nil && n.Obj().Pkg() == astPk.Types
	}
	ri := &releaseInfo{p: p, memo: map[*ssa.Function]map[int]int{}}
	n := 0
	for _, fn := range p.ModuleFuncs() {
		if core.InPkgs(fn, "pkg/sql/ast") || !core.InModule(fn) || strings.Contains(core.FnName(fn), "examples") {
			continue
		}
		// foreign: where does v come from?  "" = obtained here
		var foreign func(v ssa.Value, d int, seen map[ssa.Value]bool) string
		foreign = func(v ssa.Value, d int, seen map[ssa.Value]bool) string {
			if d > 10 || seen[v] {
				return ""
			}
			seen[v] = true
			switch x := v.(type) {
			case *ssa.Parameter:
				if fn.Signature.Recv() != nil && len(fn.Params) > 0 && x == fn.Params[0] && !isNodeType(x.Type()) {
					return "" // the object's own state (a parser releasing what it built)
				}
				if isNodeType(x.Type()) {
					return "parameter " + x.Name()
				}
				return ""
			case *ssa.FreeVar:
				if !isNodeType(core.Deref(x.Type())) {
					return ""
				}
				// a literal defined in this very function (a deferred clean-up): the variable is the enclosing
				// function's own; what matters is where *it* got the value
				if par := x.Parent().Parent(); par != nil {
					idx := -1
					for i, fv := range x.Parent().FreeVars {
						if fv == x {
							idx = i
						}
					}
					for _, pb := range par.Blocks {
						for _, pin := range pb.Instrs {
							mc, ok := pin.(*ssa.MakeClosure)
							if !ok || mc.Fn != ssa.Value(x.Parent()) || idx < 0 || idx >= len(mc.Bindings) {
								continue
							}
							escapes := false
							for _, ref := range core.Referrers(mc) {
								switch ref.(type) {
								case *ssa.Defer, *ssa.Call, *ssa.Go, *ssa.DebugRef:
								default:
									escapes = true
								}
							}
							if escapes {
								return "captured variable " + x.Name()
							}
							return foreign(mc.Bindings[idx], d+1, seen)
						}
					}
				}
				return "captured variable " + x.Name()
			case *ssa.Alloc:
				for _, ref := range core.Referrers(x) {
					if st, ok := ref.(*ssa.Store); ok && st.Addr == ssa.Value(x) {
						if s := foreign(st.Val, d+1, seen); s != "" {
							return s
						}
					}
				}
				return ""
			case *ssa.UnOp:
				if x.Op == token.MUL {
					if al, ok := x.X.(*ssa.Alloc); ok {
						for _, ref := range core.Referrers(al) {
							if st, ok := ref.(*ssa.Store); ok && st.Addr == ssa.Value(al) {
								if s := foreign(st.Val, d+1, seen); s != "" {
									return s
								}
							}
						}
						return ""
					}
					return foreign(x.X, d+1, seen)
				}
			case *ssa.FieldAddr:
				return foreign(x.X, d+1, seen)
			case *ssa.Field:
				return foreign(x.X, d+1, seen)
			case *ssa.IndexAddr:
				return foreign(x.X, d+1, seen)
			case *ssa.TypeAssert:
				return foreign(x.X, d+1, seen)
			case *ssa.MakeInterface:
				return foreign(x.X, d+1, seen)
			case *ssa.ChangeInterface:
				return foreign(x.X, d+1, seen)
			case *ssa.Extract:
				return foreign(x.Tuple, d+1, seen)
			case *ssa.Phi:
				for _, e := range x.Edges {
					if s := foreign(e, d+1, seen); s != "" {
						return s
					}
				}
			case *ssa.Call:
				// a helper that was handed a node returns a pointer into that node's tree
				for _, a := range x.Call.Args {
					if isNodeType(a.Type()) {
						if s := foreign(a, d+1, seen); s != "" {
							return s + " (through " + calleeName(x) + ")"
						}
					}
				}
			}
			return ""
		}
		seq := 0
		for _, b := range fn.Blocks {
			for _, in := range b.Instrs {
				ci, ok := in.(ssa.CallInstruction)
				if !ok {
					continue
				}
				cc := ci.Common()
				callee := cc.StaticCallee()
				if callee == nil || !core.InPkgs(callee, "pkg/sql/ast") {
					continue
				}
				for j, a := range cc.Args {
					if !ri.releases(callee, j) {
						continue
					}
					n++
					seq++
					key := core.FnName(fn) + sprintf("|%s#%d", callee.Name(), seq)
					if s := foreign(a, 0, map[ssa.Value]bool{}); s != "" {
						r.Violate("release-own-tree", key, p.Pos(in.Pos()), callee.Name()+" is given a value reached from "+s+": that tree was handed in by the caller, who (or another live tree) may still hold the nodes that are now zeroed and returned to the pools")
					} else {
						r.OK("release-own-tree", key, p.Pos(in.Pos()), "releases what this function obtained itself")
					}
				}
			}
		}
	}
	return n
}
