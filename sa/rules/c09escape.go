package rules

import (
	"go/token"
	"go/types"
	"strings"

	"golang.org/x/tools/go/ssa"

	"gosqlxsa/core"
)

// result-owned: what a method of a pooled / reusable object (Parser, Tokenizer) returns to its caller must
// not share storage with the object: a returned slice or map that is loaded from a receiver field, or that the
// method also stores into a receiver field, is overwritten by the next call on the same object (or by the next
// holder of the pooled object) while the first caller still holds it.

func c09ResultOwned(c *Ctx, p *core.Prog) {
	r := c.R
	r.Rule("result-owned", "a slice or map returned by a method of *Parser / *Tokenizer (the pooled, reusable objects) is not a receiver field's value and is not also stored into a receiver field by that method: results are fresh storage owned by the caller")
	isPooled := func(t types.Type) bool {
		n := core.NamedOf(t)
		if n == nil || n.Obj().Pkg() == nil {
			return false
		}
		return (n.Obj().Name() == "Parser" && core.PathHasSuffix(n.Obj().Pkg().Path(), "pkg/sql/parser")) ||
			(n.Obj().Name() == "Tokenizer" && core.PathHasSuffix(n.Obj().Pkg().Path(), "pkg/sql/tokenizer"))
	}
	isAggregate := func(t types.Type) bool {
		switch t.Underlying().(type) {
		case *types.Slice, *types.Map:
			return true
		}
		return false
	}
	// baseOf: strip re-slicing / appends back to the underlying storage value
	var baseOf func(v ssa.Value, depth int) ssa.Value
	baseOf = func(v ssa.Value, depth int) ssa.Value {
		if depth > 6 {
			return v
		}
		switch x := v.(type) {
		case *ssa.Slice:
			return baseOf(x.X, depth+1)
		case *ssa.Call:
			if core.IsBuiltinCall(&x.Call, "append") && len(x.Call.Args) > 0 {
				return baseOf(x.Call.Args[0], depth+1)
			}
		case *ssa.Phi:
			// a loop-carried append chain: follow the first non-self edge
			for _, e := range x.Edges {
				if b := baseOf(e, depth+1); b != ssa.Value(x) {
					return b
				}
			}
		}
		return v
	}
	recvField := func(v ssa.Value, recv ssa.Value) (string, bool) {
		u, ok := v.(*ssa.UnOp)
		if !ok || u.Op != token.MUL {
			return "", false
		}
		fa, ok := u.X.(*ssa.FieldAddr)
		if !ok || fa.X != recv {
			return "", false
		}
		return core.FieldName(fa.X.Type(), fa.Field), true
	}
	n := 0
	for _, rel := range []string{"pkg/sql/parser", "pkg/sql/tokenizer"} {
		for _, fn := range p.SrcFuncs(rel) {
			if fn.Parent() != nil || fn.Signature.Recv() == nil || !isPooled(fn.Signature.Recv().Type()) || len(fn.Params) == 0 {
				continue
			}
			recv := ssa.Value(fn.Params[0])
			res := fn.Signature.Results()
			for i := 0; i < res.Len(); i++ {
				if !isAggregate(res.At(i).Type()) {
					continue
				}
				n++
				key := core.FnName(fn) + sprintf("|result#%d", i)
				bad := ""
				for _, b := range fn.Blocks {
					ret, ok := b.Instrs[len(b.Instrs)-1].(*ssa.Return)
					if !ok || i >= len(ret.Results) {
						continue
					}
					v := retOperand(ret, i)
					if k, isC := v.(*ssa.Const); isC && k.IsNil() {
						continue
					}
					base := baseOf(v, 0)
					if f, ok := recvField(base, recv); ok {
						bad = "returns (a slice of) the receiver's field " + f
					}
					// also stored into a receiver field?
					for _, cand := range []ssa.Value{v, base} {
						for _, ref := range core.Referrers(cand) {
							if st, ok := ref.(*ssa.Store); ok && st.Val == cand {
								if fa, ok := st.Addr.(*ssa.FieldAddr); ok && fa.X == recv {
									bad = "the returned value is also kept in the receiver's field " + core.FieldName(fa.X.Type(), fa.Field)
								}
							}
						}
					}
				}
				if bad == "" {
					r.OK("result-owned", key, p.FnPos(fn), "fresh storage")
				} else {
					r.Violate("result-owned", key, p.FnPos(fn), bad+": the next call on this object (or on the pooled object's next holder) overwrites what the caller still holds")
				}
			}
		}
	}
	r.Floor("result-owned", n, 3, "slice/map results of Parser and Tokenizer methods")
}

// captured-node: a function literal that outlives its creator (it is returned, or stored in a struct / interface)
// and captures an AST node that the creator obtained from the library itself (a parse call, a pool Get) will use
// that one node every time it runs: grafted into several trees, the node is shared, and releasing one tree clears
// and pools nodes that another live tree still references. Nodes received as parameters are the caller's to share.
func c09CapturedNode(c *Ctx, p *core.Prog) {
	r := c.R
	r.Rule("captured-node", "an escaping function literal (returned or stored) does not capture a variable holding an AST node that its creator obtained from a library call (parser / pool); such a node must be created inside the literal, once per run")
	astPk := p.Pkg("pkg/sql/ast")
	if astPk == nil {
		return
	}
	isNodeType := func(t types.Type) bool {
		if ptr, ok := t.Underlying().(*types.Pointer); ok {
			t = ptr.Elem()
		}
		n := core.NamedOf(t)
		if n == nil || n.Obj().Pkg() != astPk.Types {
			return false
		}
		switch n.Underlying().(type) {
		case *types.Interface, *types.Struct:
			return true
		}
		return false
	}
	// does the value stored in the captured cell come from a call (and not from a parameter)?
	var fromCall func(v ssa.Value, depth int) *ssa.Call
	fromCall = func(v ssa.Value, depth int) *ssa.Call {
		if depth > 5 {
			return nil
		}
		switch x := v.(type) {
		case *ssa.Call:
			if f := x.Call.StaticCallee(); f != nil && core.InModule(f) {
				return x
			}
		case *ssa.Extract:
			return fromCall(x.Tuple, depth+1)
		case *ssa.MakeInterface:
			return fromCall(x.X, depth+1)
		case *ssa.ChangeInterface:
			return fromCall(x.X, depth+1)
		case *ssa.TypeAssert:
			return fromCall(x.X, depth+1)
		case *ssa.Phi:
			for _, e := range x.Edges {
				if c := fromCall(e, depth+1); c != nil {
					return c
				}
			}
		}
		return nil
	}
	n := 0
	for _, fn := range p.ModuleFuncs() {
		if !strings.Contains(core.FnName(fn), ".") || !core.InPkgs(fn, "pkg/transform", "pkg/gosqlx", "pkg/sql/ast", "pkg/sql/parser", "pkg/formatter", "pkg/linter", "pkg/sql/security", "pkg/lsp") {
			continue
		}
		seq := 0
		for _, b := range fn.Blocks {
			for _, in := range b.Instrs {
				mc, ok := in.(*ssa.MakeClosure)
				if !ok {
					continue
				}
				// escaping: used other than as the callee of a direct call / defer / go in this function
				escapes := false
				for _, ref := range core.Referrers(mc) {
					switch x := ref.(type) {
					case *ssa.DebugRef:
					case *ssa.Call:
						if x.Call.Value != ssa.Value(mc) {
							escapes = true
						}
					case *ssa.Defer:
						if x.Call.Value != ssa.Value(mc) {
							escapes = true
						}
					case *ssa.Go:
						if x.Call.Value != ssa.Value(mc) {
							escapes = true
						}
					default:
						escapes = true
					}
				}
				if !escapes {
					continue
				}
				lit, _ := mc.Fn.(*ssa.Function)
				for i, bnd := range mc.Bindings {
					cell, ok := bnd.(*ssa.Alloc)
					if !ok || lit == nil || i >= len(lit.FreeVars) {
						continue
					}
					if !isNodeType(core.Deref(cell.Type())) {
						continue
					}
					n++
					var origin *ssa.Call
					for _, ref := range core.Referrers(cell) {
						if st, ok := ref.(*ssa.Store); ok && st.Addr == ssa.Value(cell) {
							if c := fromCall(st.Val, 0); c != nil {
								origin = c
							}
						}
					}
					if origin == nil {
						continue
					}
					seq++
					r.Violate("captured-node", core.FnName(fn)+sprintf("|capture#%d", seq), p.FnPos(fn), "the function literal created here escapes and captures `"+lit.FreeVars[i].Name()+"`, an AST node obtained from "+origin.Call.StaticCallee().Name()+"() when the literal was created: every run of the literal uses that same node, so trees it is applied to share it (releasing one corrupts the others)")
				}
			}
		}
	}
	r.OK("captured-node", "scan", "-", sprintf("%d node-typed captures of escaping function literals examined", n))
}
