package rules

import (
	"go/token"
	"go/types"
	"strings"

	"golang.org/x/tools/go/ssa"

	"gosqlxsa/core"
)

// result-owned: what a method of a pooled / reusable object (Parser, Tokenizer) returns to its caller must
// not share storage with the object: a returned slice or map that is loaded from a receiver field, or that the
// method also stores into a receiver field, is overwritten by the next call on the same object (or by the next
// holder of the pooled object) while the first caller still holds it.

func c09ResultOwned(c *Ctx, p *core.Prog) {
	r := c.R
	r.Rule("result-owned", "a slice or map returned by a method of *Parser / *Tokenizer (the pooled, reusable objects) is not a receiver field's value and is not also stored into a receiver field by that method: results are fresh storage owned by the caller")
	isPooled := func(t types.Type) bool {
		n := core.NamedOf(t)
		if n == nil || n.Obj().Pkg() == nil {
			return false
		}
		return (n.Obj().Name() == "Parser" && core.PathHasSuffix(n.Obj().Pkg().Path(), "pkg/sql/parser")) ||
			(n.Obj().Name() == "Tokenizer" && core.PathHasSuffix(n.Obj().Pkg().Path(), "pkg/sql/tokenizer"))
	}
	isAggregate := func(t types.Type) bool {
		switch t.Underlying().(type) {
		case *types.Slice, *types.Map:
			return true
		}
		return false
	}
	// baseOf: strip re-slicing / appends back to the underlying storage value
	var baseOf func(v ssa.Value, depth int) ssa.Value
	baseOf = func(v ssa.Value, depth int) ssa.Value {
		if depth > 6 {
			return v
		}
		switch x := v.(type) {
		case *ssa.Slice:
			return baseOf(x.X, depth+1)
		case *ssa.Call:
			if core.IsBuiltinCall(&x.Call, "append") && len(x.Call.Args) > 0 {
				return baseOf(x.Call.Args[0], depth+1)
			}
		case *ssa.Phi:
			// a loop-carried append chain: follow the first non-self edge
			for _, e := range x.Edges {
				if b := baseOf(e, depth+1); b != ssa.Value(x) {
					return b
				}
			}
		}
		return v
	}
	recvField := func(v ssa.Value, recv ssa.Value) (string, bool) {
		u, ok := v.(*ssa.UnOp)
		if !ok || u.Op != token.MUL {
			return "", false
		}
		fa, ok := u.X.(*ssa.FieldAddr)
		if !ok || !recvLike(recv, fa.X) {
			return "", false
		}
		return core.FieldName(fa.X.Type(), fa.Field), true
	}
	n := 0
	for _, rel := range []string{"pkg/sql/parser", "pkg/sql/tokenizer"} {
		for _, fn := range p.SrcFuncs(rel) {
			if fn.Parent() != nil || fn.Signature.Recv() == nil || !isPooled(fn.Signature.Recv().Type()) || len(fn.Params) == 0 {
				continue
			}
			recv := ssa.Value(fn.Params[0])
			res := fn.Signature.Results()
			for i := 0; i < res.Len(); i++ {
				if !isAggregate(res.At(i).Type()) {
					continue
				}
				n++
				key := core.FnName(fn) + sprintf("|result#%d", i)
				bad := ""
				for _, b := range fn.Blocks {
					ret, ok := b.Instrs[len(b.Instrs)-1].(*ssa.Return)
					if !ok || i >= len(ret.Results) {
						continue
					}
					v := retOperand(ret, i)
					if k, isC := v.(*ssa.Const); isC && k.IsNil() {
						continue
					}
					base := baseOf(v, 0)
					if f, ok := recvField(base, recv); ok {
						bad = "returns (a slice of) the receiver's field " + f
					}
					// also stored into a receiver field?
					for _, cand := range []ssa.Value{v, base} {
						for _, ref := range core.Referrers(cand) {
							if st, ok := ref.(*ssa.Store); ok && st.Val == cand {
								if fa, ok := st.Addr.(*ssa.FieldAddr); ok && fa.X == recv {
									bad = "the returned value is also kept in the receiver's field " + core.FieldName(fa.X.Type(), fa.Field)
								}
							}
						}
					}
				}
				if bad == "" {
					r.OK("result-owned", key, p.FnPos(fn), "fresh storage")
				} else {
					r.Violate("result-owned", key, p.FnPos(fn), bad+": the next call on this object (or on the pooled object's next holder) overwrites what the caller still holds")
				}
			}
		}
	}
	r.Floor("result-owned", n, 3, "slice/map results of Parser and Tokenizer methods")
	// scratch-not-linked: storage that belongs to the reusable object (the value of one of its slice fields, resliced or
	// appended to) must not be linked into another object, e.g. an AST node: the next use of the scratch overwrites
	// what that node holds.
	r.Rule("scratch-not-linked", "a slice that shares storage with a field of a reusable *Parser / *Tokenizer (the field's value, a reslice of it, or an append chain starting from it) is not stored into a field of any other object, neither by their own methods nor by code that holds one")
	nm := 0
	{
		for _, fn := range p.ModuleFuncs() {
			if fn.Blocks == nil {
				continue
			}
			// inside the methods of the reusable object: its receiver; elsewhere (a formatter that holds a pooled
			// tokenizer, say): any value of the reusable type
			var recv ssa.Value
			if fn.Parent() == nil && fn.Signature.Recv() != nil && isPooled(fn.Signature.Recv().Type()) && len(fn.Params) > 0 {
				recv = fn.Params[0]
			}
			shared := map[ssa.Value]string{}
			for _, b := range fn.Blocks {
				for _, in := range b.Instrs {
					if v, ok := in.(ssa.Value); ok {
						if _, isSl := v.Type().Underlying().(*types.Slice); isSl {
							if recv != nil {
								if f, ok := recvField(v, recv); ok {
									shared[v] = f
								}
							} else if u, ok := v.(*ssa.UnOp); ok && u.Op == token.MUL {
								if fa, ok := u.X.(*ssa.FieldAddr); ok && isPooled(core.Deref(fa.X.Type())) {
									shared[v] = core.FieldName(fa.X.Type(), fa.Field)
								}
							}
						}
					}
				}
			}
			if len(shared) == 0 {
				continue
			}
			nm++
			for changed := true; changed; {
				changed = false
				for _, b := range fn.Blocks {
					for _, in := range b.Instrs {
						v, ok := in.(ssa.Value)
						if !ok || shared[v] != "" {
							continue
						}
						src := ""
						switch x := in.(type) {
						case *ssa.Slice:
							src = shared[x.X]
						case *ssa.Call:
							if core.IsBuiltinCall(&x.Call, "append") && len(x.Call.Args) > 0 {
								src = shared[x.Call.Args[0]]
							}
						case *ssa.Phi:
							for _, e := range x.Edges {
								if shared[e] != "" {
									src = shared[e]
								}
							}
						}
						if src != "" {
							shared[v] = src
							changed = true
						}
					}
				}
			}
			seq := 0
			for _, b := range fn.Blocks {
				for _, in := range b.Instrs {
					st, ok := in.(*ssa.Store)
					if !ok || shared[st.Val] == "" {
						continue
					}
					fa, ok := st.Addr.(*ssa.FieldAddr)
					if !ok || (recv != nil && recvLike(recv, fa.X)) || isPooled(core.Deref(fa.X.Type())) {
						continue
					}
					if _, isSl := st.Val.Type().Underlying().(*types.Slice); !isSl {
						continue
					}
					seq++
					r.Violate("scratch-not-linked", core.FnName(fn)+sprintf("|%s#%d", shared[st.Val], seq), p.Pos(st.Pos()), "a slice that shares storage with the receiver's field "+shared[st.Val]+" is stored into "+core.FieldName(fa.X.Type(), fa.Field)+" of another object: the next use of "+shared[st.Val]+" on this (reusable, pooled) object overwrites what that object holds")
				}
			}
		}
	}
	// owned-storage-exported: the same question across helper objects and call chains. Objects the reusable Parser /
	// Tokenizer own (struct types of their fields, transitively) are reused with them; a slice or map that is such an
	// object's field value may travel between unexported functions, but must not come out of an exported one.
	r.Rule("owned-storage-exported", "no exported function or method of pkg/sql/parser / pkg/sql/tokenizer returns a slice or map that is (a reslice of, or an append chain from) a field value of the reusable Parser / Tokenizer or of an object they own, directly or through unexported callees")
	ownedT := map[*types.Named]bool{}
	var addOwned func(n *types.Named)
	addOwned = func(n *types.Named) {
		if n == nil || ownedT[n] {
			return
		}
		ownedT[n] = true
		st := core.StructOf(n)
		if st == nil {
			return
		}
		for i := 0; i < st.NumFields(); i++ {
			ft := core.NamedOf(core.Deref(st.Field(i).Type()))
			if ft == nil || ft.Obj().Pkg() == nil || core.StructOf(ft) == nil {
				continue
			}
			pp := ft.Obj().Pkg().Path()
			if core.PathHasSuffix(pp, "pkg/sql/parser") || core.PathHasSuffix(pp, "pkg/sql/tokenizer") {
				addOwned(ft)
			}
		}
	}
	var allFns []*ssa.Function
	for _, rel := range []string{"pkg/sql/parser", "pkg/sql/tokenizer"} {
		for _, fn := range p.SrcFuncs(rel) {
			allFns = append(allFns, fn)
			if fn.Signature.Recv() != nil && isPooled(fn.Signature.Recv().Type()) {
				addOwned(core.NamedOf(core.Deref(fn.Signature.Recv().Type())))
			}
		}
	}
	type retKey struct {
		fn *ssa.Function
		i  int
	}
	ownedRet := map[retKey]string{}
	// is v (an aggregate) storage of an owned object?
	var ownedVal func(v ssa.Value, depth int) string
	ownedVal = func(v ssa.Value, depth int) string {
		if depth > 6 || v == nil {
			return ""
		}
		v = baseOf(v, 0)
		switch x := v.(type) {
		case *ssa.UnOp:
			if x.Op == token.MUL {
				if fa, ok := x.X.(*ssa.FieldAddr); ok {
					if n := core.NamedOf(core.Deref(fa.X.Type())); n != nil && ownedT[n] {
						return n.Obj().Name() + "." + core.FieldName(fa.X.Type(), fa.Field)
					}
				}
				// a local cell: what is stored into it
				if al, ok := x.X.(*ssa.Alloc); ok {
					for _, ref := range core.Referrers(al) {
						if st, ok := ref.(*ssa.Store); ok && st.Addr == ssa.Value(al) {
							if w := ownedVal(st.Val, depth+1); w != "" {
								return w
							}
						}
					}
				}
			}
		case *ssa.Call:
			if f := x.Call.StaticCallee(); f != nil {
				return ownedRet[retKey{f, 0}]
			}
		case *ssa.Extract:
			if c, ok := x.Tuple.(*ssa.Call); ok {
				if f := c.Call.StaticCallee(); f != nil {
					return ownedRet[retKey{f, x.Index}]
				}
			}
		case *ssa.Phi:
			for _, e := range x.Edges {
				if w := ownedVal(e, depth+1); w != "" {
					return w
				}
			}
		}
		return ""
	}
	for changed := true; changed; {
		changed = false
		for _, fn := range allFns {
			res := fn.Signature.Results()
			for i := 0; i < res.Len(); i++ {
				if !isAggregate(res.At(i).Type()) || ownedRet[retKey{fn, i}] != "" {
					continue
				}
				for _, b := range fn.Blocks {
					ret, ok := b.Instrs[len(b.Instrs)-1].(*ssa.Return)
					if !ok || i >= len(ret.Results) {
						continue
					}
					if w := ownedVal(retOperand(ret, i), 0); w != "" {
						ownedRet[retKey{fn, i}] = w
						changed = true
					}
				}
			}
		}
	}
	nExp := 0
	for _, fn := range allFns {
		if fn.Parent() != nil || fn.Object() == nil || !fn.Object().Exported() {
			continue
		}
		if rv := fn.Signature.Recv(); rv != nil {
			if n := core.NamedOf(core.Deref(rv.Type())); n == nil || !n.Obj().Exported() {
				continue
			}
		}
		res := fn.Signature.Results()
		for i := 0; i < res.Len(); i++ {
			if !isAggregate(res.At(i).Type()) {
				continue
			}
			nExp++
			key := core.FnName(fn) + sprintf("|result#%d", i)
			if w := ownedRet[retKey{fn, i}]; w != "" {
				r.Violate("owned-storage-exported", key, p.FnPos(fn), "the returned value shares storage with "+w+", which belongs to a reusable (pooled) object: the next call on that object, or its next holder, overwrites what the caller still holds")
			} else {
				r.OK("owned-storage-exported", key, p.FnPos(fn), "fresh storage")
			}
		}
	}
	r.Floor("owned-storage-exported", nExp, 8, "slice/map results of exported functions of parser and tokenizer")
	if r.Count("scratch-not-linked") == 0 {
		r.OK("scratch-not-linked", "scan", "-", sprintf("%d methods use receiver slice fields; none links that storage into another object", nm))
	}
}

// captured-node: a function literal that outlives its creator (it is returned, or stored in a struct / interface)
// and captures an AST node that the creator obtained from the library itself (a parse call, a pool Get) will use
// that one node every time it runs: grafted into several trees, the node is shared, and releasing one tree clears
// and pools nodes that another live tree still references. Nodes received as parameters are the caller's to share.
func c09CapturedNode(c *Ctx, p *core.Prog) {
	r := c.R
	r.Rule("captured-node", "an escaping function literal (returned or stored) does not capture a variable holding an AST node that its creator obtained from a library call (parser / pool); such a node must be created inside the literal, once per run")
	astPk := p.Pkg("pkg/sql/ast")
	if astPk == nil {
		return
	}
	isNodeType := func(t types.Type) bool {
		if ptr, ok := t.Underlying().(*types.Pointer); ok {
			t = ptr.Elem()
		}
		n := core.NamedOf(t)
		if n == nil || n.Obj().Pkg() != astPk.Types {
			return false
		}
		switch n.Underlying().(type) {
		case *types.Interface, *types.Struct:
			return true
		}
		return false
	}
	// does the value stored in the captured cell come from a call (and not from a parameter)?
	var fromCall func(v ssa.Value, depth int) *ssa.Call
	fromCall = func(v ssa.Value, depth int) *ssa.Call {
		if depth > 5 {
			return nil
		}
		switch x := v.(type) {
		case *ssa.Call:
			if f := x.Call.StaticCallee(); f != nil && core.InModule(f) {
				return x
			}
		case *ssa.Extract:
			return fromCall(x.Tuple, depth+1)
		case *ssa.MakeInterface:
			return fromCall(x.X, depth+1)
		case *ssa.ChangeInterface:
			return fromCall(x.X, depth+1)
		case *ssa.TypeAssert:
			return fromCall(x.X, depth+1)
		case *ssa.Phi:
			for _, e := range x.Edges {
				if c := fromCall(e, depth+1); c != nil {
					return c
				}
			}
		}
		return nil
	}
	n := 0
	for _, fn := range p.ModuleFuncs() {
		if !strings.Contains(core.FnName(fn), ".") || !core.InPkgs(fn, "pkg/transform", "pkg/gosqlx", "pkg/sql/ast", "pkg/sql/parser", "pkg/formatter", "pkg/linter", "pkg/sql/security", "pkg/lsp") {
			continue
		}
		seq := 0
		for _, b := range fn.Blocks {
			for _, in := range b.Instrs {
				mc, ok := in.(*ssa.MakeClosure)
				if !ok {
					continue
				}
				// escaping: used other than as the callee of a direct call / defer / go in this function
				escapes := false
				for _, ref := range core.Referrers(mc) {
					switch x := ref.(type) {
					case *ssa.DebugRef:
					case *ssa.Call:
						if x.Call.Value != ssa.Value(mc) {
							escapes = true
						}
					case *ssa.Defer:
						if x.Call.Value != ssa.Value(mc) {
							escapes = true
						}
					case *ssa.Go:
						if x.Call.Value != ssa.Value(mc) {
							escapes = true
						}
					default:
						escapes = true
					}
				}
				if !escapes {
					continue
				}
				lit, _ := mc.Fn.(*ssa.Function)
				for i, bnd := range mc.Bindings {
					cell, ok := bnd.(*ssa.Alloc)
					if !ok || lit == nil || i >= len(lit.FreeVars) {
						continue
					}
					if !isNodeType(core.Deref(cell.Type())) {
						continue
					}
					n++
					var origin *ssa.Call
					for _, ref := range core.Referrers(cell) {
						if st, ok := ref.(*ssa.Store); ok && st.Addr == ssa.Value(cell) {
							if c := fromCall(st.Val, 0); c != nil {
								origin = c
							}
						}
					}
					when := "when the literal was created"
					if origin == nil {
						// the node is put into the captured variable by the literal itself or by a literal nested in it
						// (sync.Once.Do(func() { cond = parse(…) })): it stays there between runs unless the literal
						// itself assigns it afresh before every read
						var inLit func(l *ssa.Function, fv *ssa.FreeVar, depth int)
						inLit = func(l *ssa.Function, fv *ssa.FreeVar, depth int) {
							if depth > 3 {
								return
							}
							for _, lb := range l.Blocks {
								for _, lin := range lb.Instrs {
									switch x := lin.(type) {
									case *ssa.Store:
										if x.Addr != ssa.Value(fv) {
											continue
										}
										oc := fromCall(x.Val, 0)
										if oc == nil {
											continue
										}
										fresh := l == lit
										if fresh {
											for _, ref := range core.Referrers(fv) {
												if u, ok := ref.(*ssa.UnOp); ok && u.Op == token.MUL && !(lb == u.Block() || lb.Dominates(u.Block())) {
													fresh = false
												}
											}
										}
										if !fresh {
											origin = oc
											when = "on an earlier run and kept in the captured variable (assigned under sync.Once / a first-time test, not afresh on every run)"
										}
									case *ssa.MakeClosure:
										nl, _ := x.Fn.(*ssa.Function)
										for j, nb := range x.Bindings {
											if nb == ssa.Value(fv) && nl != nil && j < len(nl.FreeVars) {
												inLit(nl, nl.FreeVars[j], depth+1)
											}
										}
									}
								}
							}
						}
						inLit(lit, lit.FreeVars[i], 0)
					}
					if origin == nil {
						continue
					}
					seq++
					r.Violate("captured-node", core.FnName(fn)+sprintf("|capture#%d", seq), p.FnPos(fn), "the function literal created here escapes and captures `"+lit.FreeVars[i].Name()+"`, an AST node obtained from "+origin.Call.StaticCallee().Name()+"() "+when+": every run of the literal uses that same node, so trees it is applied to share it (releasing one corrupts the others)")
				}
			}
		}
	}
	// through a constructor: G(x) returns a literal that captures its parameter x (AddColumn, AddWhere: the caller owns
	// x and decides how often the rule is applied); a function of this module that passes G a node it has just made
	// itself returns a rule carrying one node for all its runs (AddSelectStar)
	capturing := map[*ssa.Function]map[int]bool{}
	for _, fn := range p.ModuleFuncs() {
		if fn.Parent() != nil || !core.InPkgs(fn, "pkg/transform", "pkg/gosqlx", "pkg/sql/ast", "pkg/formatter", "pkg/linter", "pkg/sql/security") {
			continue
		}
		for _, b := range fn.Blocks {
			for _, in := range b.Instrs {
				mc, ok := in.(*ssa.MakeClosure)
				if !ok {
					continue
				}
				escapes := false
				for _, ref := range core.Referrers(mc) {
					switch x := ref.(type) {
					case *ssa.DebugRef:
					case *ssa.Call:
						if x.Call.Value != ssa.Value(mc) {
							escapes = true
						}
					default:
						escapes = true
					}
				}
				if !escapes {
					continue
				}
				for _, bnd := range mc.Bindings {
					for i, par := range fn.Params {
						if !isNodeType(par.Type()) {
							continue
						}
						direct := bnd == ssa.Value(par)
						if cell, ok := bnd.(*ssa.Alloc); ok && !direct {
							for _, ref := range core.Referrers(cell) {
								if st, ok := ref.(*ssa.Store); ok && st.Addr == ssa.Value(cell) && st.Val == ssa.Value(par) {
									direct = true
								}
							}
						}
						if direct {
							if capturing[fn] == nil {
								capturing[fn] = map[int]bool{}
							}
							capturing[fn][i] = true
						}
					}
				}
			}
		}
	}
	nc := 0
	for _, fn := range p.ModuleFuncs() {
		if !core.InPkgs(fn, "pkg/transform", "pkg/gosqlx", "pkg/sql/ast", "pkg/formatter", "pkg/linter", "pkg/sql/security") {
			continue
		}
		seq := 0
		for _, b := range fn.Blocks {
			for _, in := range b.Instrs {
				call, ok := in.(*ssa.Call)
				if !ok {
					continue
				}
				g := call.Call.StaticCallee()
				if g == nil || capturing[g] == nil {
					continue
				}
				for i, a := range call.Call.Args {
					if !capturing[g][i] {
						continue
					}
					nc++
					v := a
					if mi, ok := v.(*ssa.MakeInterface); ok {
						v = mi.X
					}
					made := ""
					if al, ok := v.(*ssa.Alloc); ok && al.Heap && al.Parent() == fn {
						made = "a node built here (" + core.Deref(al.Type()).String() + ")"
					} else if oc := fromCall(a, 0); oc != nil {
						made = "a node obtained here from " + oc.Call.StaticCallee().Name() + "()"
					}
					if made == "" {
						continue
					}
					// fine when the call itself sits inside a literal that runs once per application
					if fn.Parent() != nil {
						continue
					}
					seq++
					r.Violate("captured-node", core.FnName(fn)+sprintf("|via-%s#%d", g.Name(), seq), p.Pos(call.Pos()), "passes "+made+" to "+g.Name()+", whose returned function keeps its argument: the rule built by "+fn.Name()+" carries that one node into every tree it is applied to (releasing one of them blanks it in the others)")
				}
			}
		}
	}
	r.OK("captured-node", "scan", "-", sprintf("%d node-typed captures of escaping function literals and %d calls of capturing constructors examined", n, nc))
	// captured-address: an escaping literal stores the *address* of one of its captured variables (or of a part of it)
	// into a field of an AST node: every tree the literal is applied to then points at that one variable, so writing
	// through one tree's field changes all the others (`sel.Limit = &n` with n the rule constructor's parameter).
	r.Rule("captured-address", "an escaping function literal does not store the address of a captured variable into a field of an AST node: all trees it is applied to would share that one variable")
	na := 0
	for _, fn := range p.ModuleFuncs() {
		if fn.Parent() == nil || !core.InPkgs(fn, "pkg/transform", "pkg/gosqlx", "pkg/sql/ast", "pkg/formatter", "pkg/linter", "pkg/sql/security") {
			continue
		}
		seq := 0
		for _, b := range fn.Blocks {
			for _, in := range b.Instrs {
				st, ok := in.(*ssa.Store)
				if !ok {
					continue
				}
				fa, ok := st.Addr.(*ssa.FieldAddr)
				if !ok || !isNodeType(fa.X.Type()) {
					continue
				}
				na++
				v := st.Val
				for i := 0; i < 4; i++ {
					switch x := v.(type) {
					case *ssa.FieldAddr:
						v = x.X
						continue
					case *ssa.IndexAddr:
						v = x.X
						continue
					}
					break
				}
				fv, isFV := v.(*ssa.FreeVar)
				if !isFV {
					continue
				}
				seq++
				r.Violate("captured-address", core.FnName(fn)+sprintf("|%s#%d", core.FieldName(fa.X.Type(), fa.Field), seq), p.Pos(st.Pos()), "the address of the captured variable `"+fv.Name()+"` is stored into "+core.FieldName(fa.X.Type(), fa.Field)+" of a node: every tree this function is applied to points at that one variable, so a write through one tree's field shows in all the others")
			}
		}
	}
	r.OK("captured-address", "scan", "-", sprintf("%d stores into node fields inside function literals examined", na))
}

// memoised-node: sync.OnceValue / OnceValues hand the same value to every caller. An AST node is mutable, is
// released into the pools with the tree it hangs in, and is rewritten in place by transforms, so a memoised node
// that is linked into more than one tree makes those trees alias each other. The only accepted use of such a value
// is as the argument of a copying function (clone…, copy…, deepCopy…) or a nil test.
func c09MemoisedNode(c *Ctx, p *core.Prog, scopeFns []*ssa.Function, fired map[string]bool) int {
	r := c.R
	astSuffix := "pkg/sql/ast"
	isNodeType := func(t types.Type) bool {
		if ptr, ok := t.Underlying().(*types.Pointer); ok {
			t = ptr.Elem()
		}
		n := core.NamedOf(t)
		if n == nil || n.Obj().Pkg() == nil {
			return false
		}
		pp := n.Obj().Pkg().Path()
		if !core.PathHasSuffix(pp, astSuffix) && !strings.HasPrefix(pp, "gosqlxsa/controls/") {
			return false
		}
		switch n.Underlying().(type) {
		case *types.Interface, *types.Struct:
			return true
		}
		return false
	}
	isCopier := func(f *ssa.Function) bool {
		if f == nil {
			return false
		}
		l := strings.ToLower(f.Name())
		return strings.HasPrefix(l, "clone") || strings.HasPrefix(l, "copy") || strings.HasPrefix(l, "deepcopy")
	}
	n := 0
	for _, fn := range scopeFns {
		seq := 0
		for _, b := range fn.Blocks {
			for _, in := range b.Instrs {
				call, ok := in.(*ssa.Call)
				if !ok {
					continue
				}
				f := call.Call.StaticCallee()
				if f == nil {
					continue
				}
				o := f
				if f.Origin() != nil {
					o = f.Origin()
				}
				if o.Pkg == nil || o.Pkg.Pkg.Path() != "sync" || (o.Name() != "OnceValue" && o.Name() != "OnceValues") {
					continue
				}
				sig, ok := call.Type().Underlying().(*types.Signature)
				if !ok || sig.Results().Len() == 0 || !isNodeType(sig.Results().At(0).Type()) {
					continue
				}
				n++
				seq++
				key := core.FnName(fn) + sprintf("|once#%d", seq)
				// every place the memoising function is called: here, or in literals that capture it
				var results []ssa.Value
				var collect func(fv ssa.Value, depth int)
				collect = func(fv ssa.Value, depth int) {
					if depth > 3 {
						return
					}
					for _, ref := range core.Referrers(fv) {
						switch x := ref.(type) {
						case *ssa.Call:
							if x.Call.Value == fv {
								if sig.Results().Len() == 1 {
									results = append(results, x)
								} else {
									for _, r2 := range core.Referrers(x) {
										if ex, ok := r2.(*ssa.Extract); ok && ex.Index == 0 {
											results = append(results, ex)
										}
									}
								}
							}
						case *ssa.MakeClosure:
							if lit, ok := x.Fn.(*ssa.Function); ok {
								for i, bnd := range x.Bindings {
									if bnd == fv && i < len(lit.FreeVars) {
										collect(lit.FreeVars[i], depth+1)
									}
								}
							}
						case *ssa.Store:
							// kept in a local cell that a literal captures
							if al, ok := x.Addr.(*ssa.Alloc); ok && x.Val == fv {
								for _, r2 := range core.Referrers(al) {
									if mc, ok := r2.(*ssa.MakeClosure); ok {
										if lit, ok := mc.Fn.(*ssa.Function); ok {
											for i, bnd := range mc.Bindings {
												if bnd == ssa.Value(al) && i < len(lit.FreeVars) {
													for _, r3 := range core.Referrers(lit.FreeVars[i]) {
														if ld, ok := r3.(*ssa.UnOp); ok {
															collect(ld, depth+1)
														}
													}
												}
											}
										}
									}
									if ld, ok := r2.(*ssa.UnOp); ok {
										collect(ld, depth+1)
									}
								}
							}
						}
					}
				}
				collect(call, 0)
				bad := ""
				for _, rv := range results {
					for _, use := range core.Referrers(rv) {
						switch u := use.(type) {
						case *ssa.BinOp:
							continue // nil test
						case ssa.CallInstruction:
							if isCopier(u.Common().StaticCallee()) {
								continue
							}
							bad = "the memoised node is passed to " + calleeName(u) + " at " + p.Pos(use.Pos())
						case *ssa.DebugRef:
							continue
						default:
							bad = "the memoised node is used at " + p.Pos(use.Pos()) + " without being copied"
						}
					}
				}
				if fired != nil {
					if bad != "" {
						fired[key] = true
					}
					continue
				}
				if bad == "" {
					r.OK("memoised-node", key, p.Pos(call.Pos()), "every use of the memoised node goes through a copying function")
				} else {
					r.Violate("memoised-node", key, p.Pos(call.Pos()), "sync."+o.Name()+" memoises an AST node, and "+bad+": every caller gets the same node, so the trees it is linked into share it (releasing or transforming one changes the others)")
				}
			}
		}
	}
	return n
}

func calleeName(ci ssa.CallInstruction) string {
	if f := ci.Common().StaticCallee(); f != nil {
		return f.Name()
	}
	if ci.Common().IsInvoke() {
		return ci.Common().Method.Name()
	}
	return "a function value"
}

// recvLike: v is the receiver parameter, or a load of the cell it was spilled to (a closure captures it).
func recvLike(recv ssa.Value, v ssa.Value) bool {
	if v == recv {
		return true
	}
	u, ok := v.(*ssa.UnOp)
	if !ok || u.Op != token.MUL {
		return false
	}
	al, ok := u.X.(*ssa.Alloc)
	if !ok {
		return false
	}
	n := 0
	for _, ref := range core.Referrers(al) {
		if st, ok := ref.(*ssa.Store); ok && st.Addr == ssa.Value(al) {
			n++
			if st.Val != recv {
				return false
			}
		}
	}
	return n == 1
}
