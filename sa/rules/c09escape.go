package rules

import (
	"go/token"
	"go/types"

	"golang.org/x/tools/go/ssa"

	"gosqlxsa/core"
)

// result-owned: what a method of a pooled / reusable object (Parser, Tokenizer) returns to its caller must
// not share storage with the object: a returned slice or map that is loaded from a receiver field, or that the
// method also stores into a receiver field, is overwritten by the next call on the same object (or by the next
// holder of the pooled object) while the first caller still holds it.

func c09ResultOwned(c *Ctx, p *core.Prog) {
	r := c.R
	r.Rule("result-owned", "a slice or map returned by a method of *Parser / *Tokenizer (the pooled, reusable objects) is not a receiver field's value and is not also stored into a receiver field by that method: results are fresh storage owned by the caller")
	isPooled := func(t types.Type) bool {
		n := core.NamedOf(t)
		if n == nil || n.Obj().Pkg() == nil {
			return false
		}
		return (n.Obj().Name() == "Parser" && core.PathHasSuffix(n.Obj().Pkg().Path(), "pkg/sql/parser")) ||
			(n.Obj().Name() == "Tokenizer" && core.PathHasSuffix(n.Obj().Pkg().Path(), "pkg/sql/tokenizer"))
	}
	isAggregate := func(t types.Type) bool {
		switch t.Underlying().(type) {
		case *types.Slice, *types.Map:
			return true
		}
		return false
	}
	// baseOf: strip re-slicing / appends back to the underlying storage value
	var baseOf func(v ssa.Value, depth int) ssa.Value
	baseOf = func(v ssa.Value, depth int) ssa.Value {
		if depth > 6 {
			return v
		}
		switch x := v.(type) {
		case *ssa.Slice:
			return baseOf(x.X, depth+1)
		case *ssa.Call:
			if core.IsBuiltinCall(&x.Call, "append") && len(x.Call.Args) > 0 {
				return baseOf(x.Call.Args[0], depth+1)
			}
		case *ssa.Phi:
			// a loop-carried append chain: follow the first non-self edge
			for _, e := range x.Edges {
				if b := baseOf(e, depth+1); b != ssa.Value(x) {
					return b
				}
			}
		}
		return v
	}
	recvField := func(v ssa.Value, recv ssa.Value) (string, bool) {
		u, ok := v.(*ssa.UnOp)
		if !ok || u.Op != token.MUL {
			return "", false
		}
		fa, ok := u.X.(*ssa.FieldAddr)
		if !ok || fa.X != recv {
			return "", false
		}
		return core.FieldName(fa.X.Type(), fa.Field), true
	}
	n := 0
	for _, rel := range []string{"pkg/sql/parser", "pkg/sql/tokenizer"} {
		for _, fn := range p.SrcFuncs(rel) {
			if fn.Parent() != nil || fn.Signature.Recv() == nil || !isPooled(fn.Signature.Recv().Type()) || len(fn.Params) == 0 {
				continue
			}
			recv := ssa.Value(fn.Params[0])
			res := fn.Signature.Results()
			for i := 0; i < res.Len(); i++ {
				if !isAggregate(res.At(i).Type()) {
					continue
				}
				n++
				key := core.FnName(fn) + sprintf("|result#%d", i)
				bad := ""
				for _, b := range fn.Blocks {
					ret, ok := b.Instrs[len(b.Instrs)-1].(*ssa.Return)
					if !ok || i >= len(ret.Results) {
						continue
					}
					v := retOperand(ret, i)
					if k, isC := v.(*ssa.Const); isC && k.IsNil() {
						continue
					}
					base := baseOf(v, 0)
					if f, ok := recvField(base, recv); ok {
						bad = "returns (a slice of) the receiver's field " + f
					}
					// also stored into a receiver field?
					for _, cand := range []ssa.Value{v, base} {
						for _, ref := range core.Referrers(cand) {
							if st, ok := ref.(*ssa.Store); ok && st.Val == cand {
								if fa, ok := st.Addr.(*ssa.FieldAddr); ok && fa.X == recv {
									bad = "the returned value is also kept in the receiver's field " + core.FieldName(fa.X.Type(), fa.Field)
								}
							}
						}
					}
				}
				if bad == "" {
					r.OK("result-owned", key, p.FnPos(fn), "fresh storage")
				} else {
					r.Violate("result-owned", key, p.FnPos(fn), bad+": the next call on this object (or on the pooled object's next holder) overwrites what the caller still holds")
				}
			}
		}
	}
	r.Floor("result-owned", n, 3, "slice/map results of Parser and Tokenizer methods")
}
