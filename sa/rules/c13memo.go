package rules

import (
	"sort"
	"strings"

	"golang.org/x/tools/go/ssa"

	"gosqlxsa/core"
)

// memo-key: a function that memoises its result in a map must key the entry by everything the result depends on.
// If the cached value is computed from a parameter that is not part of the key, two calls with the same key but a
// different value of that parameter get whichever result was cached first: error hints (and with them Error()
// texts) then depend on what the process did earlier.
func c13MemoKey(c *Ctx, p *core.Prog) {
	c13MemoScan(c, p, "")
}

// c10MemoPublishOnce: the same scan, deciding the publish-once clause under the given rule name.
func c10MemoPublishOnce(c *Ctx, p *core.Prog, rule string) {
	c.R.Rule(rule, "a memoising function (one that looks a key up in a shared cache and stores under it) stores under that key at most once per run: a placeholder or provisional value stored first is what concurrent readers receive as the answer")
	c13MemoScan(c, p, rule)
}

func c13MemoScan(c *Ctx, p *core.Prog, publishRule string) {
	r := c.R
	nPub := 0
	if publishRule == "" {
		r.Rule("memo-key", "in pkg/errors, pkg/sql/keywords and the parser/tokenizer packages, a function that looks a key up in a map and stores a computed value under the same key computes that value only from parameters the key is computed from")
	}
	n := 0
	for _, fn := range p.SrcFuncs("pkg/errors", "pkg/sql/keywords", "pkg/sql/parser", "pkg/sql/tokenizer", "pkg/gosqlx") {
		if len(fn.Params) < 2 && !(len(fn.Params) >= 1 && fn.Signature.Recv() == nil) {
			// with fewer than two non-receiver parameters there is nothing to leave out of the key
		}
		var updates []*ssa.MapUpdate
		lookups := map[string]bool{}
		mapName := func(v ssa.Value) string {
			if u, ok := v.(*ssa.UnOp); ok {
				switch a := u.X.(type) {
				case *ssa.Global:
					return "g:" + a.Name()
				case *ssa.FieldAddr:
					return fieldKey(a.X, a.Field)
				}
			}
			return ""
		}
		// also look into helper methods of a cache type: get(key) / set(key, value) pairs
		type kv struct {
			key, val ssa.Value
			at      ssa.Instruction
			cache   string
		}
		var sets []kv
		gets := map[string][]ssa.Value{}
		for _, b := range fn.Blocks {
			for _, in := range b.Instrs {
				switch x := in.(type) {
				case *ssa.MapUpdate:
					if nm := mapName(x.Map); nm != "" {
						updates = append(updates, x)
						sets = append(sets, kv{x.Key, x.Value, x, nm})
					}
				case *ssa.Lookup:
					if nm := mapName(x.X); nm != "" {
						lookups[nm] = true
						gets[nm] = append(gets[nm], x.Index)
					}
				case *ssa.Call:
					f := x.Call.StaticCallee()
					if f == nil || f.Signature.Recv() == nil || !core.InModule(f) {
						continue
					}
					recvT := core.NamedOf(f.Signature.Recv().Type())
					if recvT == nil || !strings.Contains(strings.ToLower(recvT.Obj().Name()), "cache") {
						continue
					}
					cn := recvT.Obj().Name()
					if g, ok := x.Call.Args[0].(*ssa.UnOp); ok {
						if gl, ok := g.X.(*ssa.Global); ok {
							cn += ":" + gl.Name()
						}
					} else if gl, ok := x.Call.Args[0].(*ssa.Global); ok {
						cn += ":" + gl.Name()
					}
					name := strings.ToLower(f.Name())
					switch {
					case (strings.HasPrefix(name, "get") || strings.HasPrefix(name, "load") || strings.HasPrefix(name, "lookup")) && len(x.Call.Args) == 2:
						gets[cn] = append(gets[cn], x.Call.Args[1])
					case (strings.HasPrefix(name, "set") || strings.HasPrefix(name, "put") || strings.HasPrefix(name, "store") || strings.HasPrefix(name, "add")) && len(x.Call.Args) == 3:
						sets = append(sets, kv{x.Call.Args[1], x.Call.Args[2], x, cn})
					}
				}
			}
		}
		_ = updates
		// publish-once: a memoising function stores under one key at most once per run; an earlier store (a placeholder,
		// a provisional answer) is what a concurrent reader of the cache gets as the final answer
		if publishRule != "" {
			pseq := 0
			for i, s1 := range sets {
				if len(gets[s1.cache]) == 0 {
					continue
				}
				for j, s2 := range sets {
					if i == j || s1.cache != s2.cache || s1.key != s2.key || s1.at == s2.at {
						continue
					}
					if s1.at.Block() == s2.at.Block() && s1.at.Pos() > s2.at.Pos() {
						continue
					}
					if !instrFollows(s1.at, s2.at) {
						continue
					}
					pseq++
					r.Violate(publishRule, core.FnName(fn)+sprintf("|publish#%d", pseq), p.Pos(s1.at.Pos()), "this store publishes a value under the key that the same run overwrites at "+p.Pos(s2.at.Pos())+": between the two, every other goroutine that looks the key up gets the provisional value as the answer, so a call's result depends on what runs beside it")
				}
			}
			if pseq == 0 {
				for _, s1 := range sets {
					if len(gets[s1.cache]) > 0 {
						nPub++
						r.OK(publishRule, core.FnName(fn)+"|"+s1.cache, p.Pos(s1.at.Pos()), "one store per key and run")
						break
					}
				}
			}
			continue
		}
		seq := 0
		for _, s := range sets {
			if len(gets[s.cache]) == 0 {
				continue // not a memo (no lookup of the same cache in this function)
			}
			if _, kp := s.key.(*ssa.Parameter); kp {
				if _, vp := s.val.(*ssa.Parameter); vp {
					continue // a plain setter (key and value are its parameters): nothing is computed here
				}
			}
			n++
			seq++
			key := core.FnName(fn) + sprintf("|memo#%d", seq)
			var missing []string
			params := fn.Params
			if fn.Signature.Recv() != nil && len(params) > 0 {
				params = params[1:]
			}
			for _, par := range params {
				if dependsDataOrControl(s.val, par, 0, map[ssa.Value]bool{}) && !dependsThroughCalls(s.key, par, 0, map[ssa.Value]bool{}) {
					missing = append(missing, par.Name())
				}
			}
			sort.Strings(missing)
			if len(missing) == 0 {
				r.OK("memo-key", key, p.Pos(s.at.Pos()), "the cached value depends only on what the key is made of")
			} else {
				r.Violate("memo-key", key, p.Pos(s.at.Pos()), "the value stored in the cache depends on parameter "+strings.Join(missing, ", ")+", which is not part of the key: a later call with the same key and a different "+strings.Join(missing, "/")+" gets the result cached for the earlier one, so the same input can produce different hints/messages depending on what was processed before")
			}
		}
	}
	if publishRule != "" {
		r.Floor(publishRule, nPub, 1, "memoising functions")
		return
	}
	r.Extra("memoising_functions", n)
}

// dependsDataOrControl: v is computed from target, or which value v takes (at a phi) is decided by a condition computed from target.
func dependsDataOrControl(v, target ssa.Value, depth int, seen map[ssa.Value]bool) bool {
	if dependsThroughCalls(v, target, 0, map[ssa.Value]bool{}) {
		return true
	}
	if depth > 6 || seen[v] {
		return false
	}
	seen[v] = true
	switch x := v.(type) {
	case *ssa.Phi:
		for i, e := range x.Edges {
			if dependsDataOrControl(e, target, depth+1, seen) {
				return true
			}
			for _, cd := range core.ControlDeps(x.Block().Preds[i]) {
				if dependsThroughCalls(cd.If.Cond, target, 0, map[ssa.Value]bool{}) {
					return true
				}
			}
		}
	case *ssa.UnOp:
		if a, ok := x.X.(*ssa.Alloc); ok {
			for _, ref := range core.Referrers(a) {
				if st, ok := ref.(*ssa.Store); ok && st.Addr == ssa.Value(a) {
					if dependsDataOrControl(st.Val, target, depth+1, seen) {
						return true
					}
					for _, cd := range core.ControlDeps(st.Block()) {
						if dependsThroughCalls(cd.If.Cond, target, 0, map[ssa.Value]bool{}) {
							return true
						}
					}
				}
			}
		}
	}
	return false
}
