package rules

import (
	"go/token"

	"golang.org/x/tools/go/ssa"

	"gosqlxsa/core"
)

// Rule nested-format-options (C06). Every statement's Format appends ";" when opts.AddSemicolon is set; that is right for
// the statement AST.Format is printing and wrong for a statement printed *inside* another one (the arms of a UNION, the
// body of a CTE, the query of INSERT … SELECT or CREATE VIEW, a sub-query): `SELECT a FROM t; UNION SELECT b FROM u;;`
// does not parse. So inside pkg/sql/ast a call of a Format method (or of a helper that forwards to one) anywhere but in
// (AST).Format passes options whose AddSemicolon has been cleared: the result of a function that stores false there, or
// a local copy with such a store.
func c06NestedFormatOptions(c *Ctx, p *core.Prog) int {
	r := c.R
	r.Rule("nested-format-options", "in pkg/sql/ast a statement printed inside another statement is formatted with options whose AddSemicolon is cleared; only (AST).Format hands the caller's options on unchanged")
	fns := p.SrcFuncs("pkg/sql/ast")
	isOptsType := func(v ssa.Value) bool {
		n := core.NamedOf(core.Deref(v.Type()))
		return n != nil && n.Obj().Name() == "FormatOptions"
	}
	// functions that return options with AddSemicolon cleared
	clears := map[*ssa.Function]bool{}
	for _, fn := range fns {
		for _, b := range fn.Blocks {
			for _, in := range b.Instrs {
				if st, ok := in.(*ssa.Store); ok {
					if fa, ok := st.Addr.(*ssa.FieldAddr); ok && core.FieldName(fa.X.Type(), fa.Field) == "AddSemicolon" {
						if cst, ok := st.Val.(*ssa.Const); ok && cst.Value != nil && cst.Value.String() == "false" && fn.Signature.Results().Len() == 1 {
							clears[fn] = true
						}
					}
				}
			}
		}
	}
	// forwards: helpers with a FormatOptions parameter that pass it on to a Format call (formatStmt)
	forwards := func(f *ssa.Function) bool {
		return f != nil && f.Blocks != nil && core.InPkgs(f, "pkg/sql/ast") && f.Name() != "Format" && f.Signature.Recv() == nil
	}
	var cleared func(v ssa.Value, fn *ssa.Function, d int) bool
	cleared = func(v ssa.Value, fn *ssa.Function, d int) bool {
		if d > 5 {
			return false
		}
		switch x := v.(type) {
		case *ssa.Call:
			return clears[x.Call.StaticCallee()]
		case *ssa.UnOp:
			if x.Op != token.MUL {
				return false
			}
			switch a := x.X.(type) {
			case *ssa.Alloc:
				// a local copy: some store clears the field before the use (any store in this function counts)
				for _, ref := range core.Referrers(a) {
					if fa, ok := ref.(*ssa.FieldAddr); ok && core.FieldName(fa.X.Type(), fa.Field) == "AddSemicolon" {
						for _, r2 := range core.Referrers(fa) {
							if st, ok := r2.(*ssa.Store); ok {
								if cst, ok := st.Val.(*ssa.Const); ok && cst.Value != nil && cst.Value.String() == "false" {
									return true
								}
							}
						}
					}
					if st, ok := ref.(*ssa.Store); ok && st.Addr == ssa.Value(a) && cleared(st.Val, fn, d+1) {
						return true
					}
				}
			}
		case *ssa.Phi:
			for _, e := range x.Edges {
				if !cleared(e, fn, d+1) {
					return false
				}
			}
			return true
		}
		return false
	}
	n := 0
	for _, fn := range fns {
		if fn.Name() == "Format" && fn.Signature.Recv() != nil {
			if nt := core.NamedOf(core.Deref(fn.Signature.Recv().Type())); nt != nil && nt.Obj().Name() == "AST" {
				continue // the top level: the caller's options apply to each statement as they are
			}
		}
		seq := 0
		for _, b := range fn.Blocks {
			for _, in := range b.Instrs {
				call, ok := in.(*ssa.Call)
				if !ok {
					continue
				}
				isFormat := false
				name := ""
				if call.Call.IsInvoke() {
					isFormat = call.Call.Method.Name() == "Format"
					name = "Format"
				} else if f := call.Call.StaticCallee(); f != nil {
					if f.Name() == "Format" && f.Signature.Recv() != nil && core.InPkgs(f, "pkg/sql/ast") {
						isFormat, name = true, "Format"
					} else if forwards(f) {
						// a helper is a forwarder if it has a FormatOptions parameter and itself reaches a Format call with it
						for _, par := range f.Params {
							if isOptsType(par) {
								for _, ref := range core.Referrers(par) {
									if c2, ok := ref.(*ssa.Call); ok && (c2.Call.IsInvoke() && c2.Call.Method.Name() == "Format") {
										isFormat, name = true, f.Name()
									}
								}
							}
						}
					}
				}
				if !isFormat {
					continue
				}
				var arg ssa.Value
				for _, a := range call.Call.Args {
					if isOptsType(a) {
						arg = a
					}
				}
				if arg == nil {
					continue
				}
				// inside a forwarder the parameter is passed through: the forwarder's callers are checked instead
				if forwards(fn) {
					if par, ok := arg.(*ssa.Parameter); ok && isOptsType(par) {
						continue
					}
				}
				n++
				seq++
				key := core.FnName(fn) + sprintf("|%s#%d", name, seq)
				if cleared(arg, fn, 0) {
					r.OK("nested-format-options", key, p.Pos(call.Pos()), "AddSemicolon cleared for the nested statement")
				} else {
					r.Violate("nested-format-options", key, p.Pos(call.Pos()), "a statement printed inside another one is formatted with the caller's options as they are: with AddSemicolon set (the readable style) it gets its own \";\" in the middle of the enclosing statement, and the output does not parse (`SELECT a FROM t; UNION SELECT b FROM u;;`, `WITH x AS (SELECT 1;) …`)")
				}
			}
		}
	}
	return n
}
