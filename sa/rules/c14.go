package rules

import (
	"go/token"
	"go/types"
	"sort"
	"strings"

	"golang.org/x/tools/go/ssa"

	"gosqlxsa/core"
)

func init() { Registry["C14"] = runC14 }

// childFlow decides, for one Children() method, which node-holding access
// paths of the receiver flow into the returned slice and under which conditions.
type childFlow struct {
	local  func(*ssa.Function) bool
	m      *AstModel
	p      *core.Prog
	sumMem map[*ssa.Function]map[int]int // 0 unknown/in progress, 1 yes, 2 no
	early  string                         // a helper rejected because it leaves a loop early
}

func (cf *childFlow) holdsVal(v ssa.Value) bool {
	t := v.Type()
	if _, ok := v.(*ssa.Alloc); ok {
		t = core.Deref(t)
	}
	return cf.m.Holds(t)
}

// paramFlows: may parameter i of fn flow into a result of fn?
func (cf *childFlow) paramFlows(fn *ssa.Function, i int) bool {
	if fn == nil || fn.Blocks == nil || i >= len(fn.Params) {
		return false
	}
	if cf.sumMem[fn] == nil {
		cf.sumMem[fn] = map[int]int{}
	}
	switch cf.sumMem[fn][i] {
	case 1:
		return true
	case 2, 3:
		return false
	}
	cf.sumMem[fn][i] = 3 // in progress
	ok := cf.flowsToReturn(fn.Params[i])
	if ok && leavesLoopEarly(fn) {
		ok = false
		cf.early = fn.Name()
	}
	if ok {
		cf.sumMem[fn][i] = 1
	} else {
		cf.sumMem[fn][i] = 2
	}
	return ok
}

// leavesLoopEarly: some loop of the helper is left from inside its body (break / return under a condition) and not only
// through its own header test. A helper that copies a list into the result transfers every element only if its loops
// run to completion; one that stops when a pre-computed budget is used up (sized from the first row, say) drops the rest.
func leavesLoopEarly(fn *ssa.Function) bool {
	for _, scc := range blockSCCs(fn, nil, nil, nil) {
		in := blockSet(scc)
		for _, b := range scc {
			isHeader := false
			for _, pr := range b.Preds {
				if !in[pr] {
					isHeader = true
				}
			}
			for _, sc := range b.Succs {
				if in[sc] || isHeader {
					continue
				}
				// leaving towards a panic is not an early exit with a result
				if len(sc.Instrs) > 0 {
					if _, isPanic := sc.Instrs[len(sc.Instrs)-1].(*ssa.Panic); isPanic {
						continue
					}
				}
				// an inner loop's normal exit lands in the enclosing loop: `sc` is then inside another cycle of fn
				inner := false
				for _, scc2 := range blockSCCs(fn, nil, nil, nil) {
					if len(scc2) > len(scc) && blockSet(scc2)[sc] && blockSet(scc2)[b] {
						inner = true
					}
				}
				if inner {
					continue
				}
				return true
			}
		}
	}
	return false
}

// flowsToReturn: may the value start (or something it is stored into) reach a
// Return operand of its function? Only node-holding values are followed.
func (cf *childFlow) flowsToReturn(start ssa.Value) bool {
	seen := map[ssa.Value]bool{start: true}
	work := []ssa.Value{start}
	push := func(v ssa.Value) {
		if v != nil && !seen[v] && cf.holdsVal(v) {
			seen[v] = true
			work = append(work, v)
		}
	}
	for len(work) > 0 {
		v := work[len(work)-1]
		work = work[:len(work)-1]
		for _, in := range core.Referrers(v) {
			switch x := in.(type) {
			case *ssa.Return:
				return true
			case *ssa.Store:
				if x.Val == v {
					push(core.Base(x.Addr))
				}
			case *ssa.Call:
				if core.IsBuiltinCall(&x.Call, "append") {
					push(x)
					continue
				}
				if callee := x.Call.StaticCallee(); callee != nil && cf.local(callee) {
					for i, a := range x.Call.Args {
						if a == v && cf.paramFlows(callee, i) {
							push(x)
						}
					}
				}
			case *ssa.MapUpdate:
				if x.Value == v {
					push(x.Map)
				}
			case ssa.Value:
				switch x.(type) {
				case *ssa.BinOp, *ssa.MakeClosure, *ssa.Alloc:
					continue
				}
				push(x)
			}
		}
	}
	return false
}

type joinPoint struct {
	block  *ssa.BasicBlock
	merged ssa.Value // nil for a direct Return
	pos    token.Pos
}

// analyse returns, per node path, the verdict for Children method fn.
func (cf *childFlow) analyse(fn *ssa.Function, paths []NodePath) map[string]pathVerdict {
	res := map[string]pathVerdict{}
	if len(fn.Params) == 0 {
		return res
	}
	recv := fn.Params[0]
	pr := core.NewPathResolver(fn, recv)
	// all values of the function
	var vals []ssa.Value
	for _, b := range fn.Blocks {
		for _, in := range b.Instrs {
			if v, ok := in.(ssa.Value); ok {
				vals = append(vals, v)
			}
		}
	}
	stores := map[ssa.Value][]*ssa.Store{}
	for _, b := range fn.Blocks {
		for _, in := range b.Instrs {
			if st, ok := in.(*ssa.Store); ok {
				stores[core.Base(st.Addr)] = append(stores[core.Base(st.Addr)], st)
			}
		}
	}
	// does the receiver escape wholesale into a call?  Then paths are undecidable.
	escapes := ""
	for _, b := range fn.Blocks {
		for _, in := range b.Instrs {
			if c, ok := in.(ssa.CallInstruction); ok {
				for _, a := range c.Common().Args {
					if p, ok := pr.Path(a); ok && p == "" && cf.holdsVal(a) {
						escapes = c.Common().String()
					}
				}
			}
		}
	}
	for _, np := range paths {
		F := np.Path
		if escapes != "" {
			res[F] = pathVerdict{status: core.Undecided, detail: "receiver is passed whole to " + escapes}
			continue
		}
		pure := map[ssa.Value]bool{}
		isSeedish := func(v ssa.Value) bool {
			p, ok := pr.Path(v)
			return ok && core.HasPrefixPath(p, F)
		}
		for _, v := range vals {
			if isSeedish(v) && cf.holdsVal(v) {
				pure[v] = true
			}
		}
		if len(pure) == 0 {
			res[F] = pathVerdict{status: core.Violated, detail: "field is never read in Children()"}
			continue
		}
		// purity fixpoint
		for changed := true; changed; {
			changed = false
			for _, v := range vals {
				if pure[v] || !cf.holdsVal(v) {
					continue
				}
				ok := false
				switch x := v.(type) {
				case *ssa.Alloc:
					ss := stores[x]
					ok = len(ss) > 0
					for _, st := range ss {
						if !pure[st.Val] {
							ok = false
						}
					}
				case *ssa.Phi:
					n := 0
					ok = true
					for _, e := range x.Edges {
						if core.IsNilConst(e) {
							continue
						}
						if !pure[e] {
							ok = false
						}
						n++
					}
					ok = ok && n > 0
				case *ssa.Call:
					if core.IsBuiltinCall(&x.Call, "append") {
						n := 0
						ok = true
						for _, a := range x.Call.Args {
							if core.IsNilConst(a) {
								continue
							}
							if !pure[a] {
								ok = false
							}
							n++
						}
						ok = ok && n > 0
					} else if callee := x.Call.StaticCallee(); callee != nil && cf.local(callee) && x.Call.Signature().Recv() == nil {
						n := 0
						ok = true
						for i, a := range x.Call.Args {
							if !cf.holdsVal(a) {
								continue
							}
							if !pure[a] || !cf.paramFlows(callee, i) {
								ok = false
							}
							n++
						}
						ok = ok && n > 0
					}
				case *ssa.UnOp:
					ok = x.Op == token.MUL && pure[x.X]
				case *ssa.FieldAddr:
					ok = pure[x.X]
				case *ssa.Field:
					ok = pure[x.X]
				case *ssa.IndexAddr:
					ok = pure[x.X]
				case *ssa.Index:
					ok = pure[x.X]
				case *ssa.Lookup:
					ok = pure[x.X]
				case *ssa.Slice:
					ok = pure[x.X]
				case *ssa.MakeInterface:
					ok = pure[x.X]
				case *ssa.ChangeInterface:
					ok = pure[x.X]
				case *ssa.ChangeType:
					ok = pure[x.X]
				case *ssa.Convert:
					ok = pure[x.X]
				case *ssa.TypeAssert:
					ok = pure[x.X]
				case *ssa.Range:
					ok = pure[x.X]
				case *ssa.Next:
					ok = pure[x.Iter]
				case *ssa.Extract:
					ok = pure[x.Tuple]
				}
				if ok {
					pure[v] = true
					changed = true
				}
			}
		}
		// joins
		var joins []joinPoint
		for v := range pure {
			for _, in := range core.Referrers(v) {
				switch x := in.(type) {
				case *ssa.Return:
					joins = append(joins, joinPoint{x.Block(), nil, x.Pos()})
				case *ssa.Store:
					if x.Val == v {
						if b := core.Base(x.Addr); !pure[b] {
							joins = append(joins, joinPoint{x.Block(), b, x.Pos()})
						}
					}
				case *ssa.Phi:
					if !pure[x] {
						for i, e := range x.Edges {
							if e == v {
								joins = append(joins, joinPoint{x.Block().Preds[i], x, x.Pos()})
							}
						}
					}
				case *ssa.Call:
					if pure[x] {
						continue
					}
					if core.IsBuiltinCall(&x.Call, "append") {
						joins = append(joins, joinPoint{x.Block(), x, x.Pos()})
					} else if callee := x.Call.StaticCallee(); callee != nil && cf.local(callee) {
						for i, a := range x.Call.Args {
							if a == v && cf.paramFlows(callee, i) {
								joins = append(joins, joinPoint{x.Block(), x, x.Pos()})
							}
						}
					}
				}
			}
		}
		sort.Slice(joins, func(i, j int) bool { return joins[i].pos < joins[j].pos })
		J := map[*ssa.BasicBlock]bool{}
		// a value that enters a phi from a block with two successors is included on that edge only
		// (`ordering := f.A; if len(f.B) > 0 { ordering = f.B }`: f.A is included on the edge that skips the if)
		JE := map[*ssa.BasicBlock]int{}
		var jpos token.Pos
		for _, j := range joins {
			if j.merged != nil && !cf.flowsToReturn(j.merged) {
				continue
			}
			if ph, isPhi := j.merged.(*ssa.Phi); isPhi && len(j.block.Succs) == 2 {
				for k, sc := range j.block.Succs {
					if sc == ph.Block() {
						JE[j.block] = k
					}
				}
				if !jpos.IsValid() {
					jpos = j.pos
				}
				continue
			}
			J[j.block] = true
			if !jpos.IsValid() {
				jpos = j.pos
			}
		}
		if len(J) == 0 && len(JE) == 0 {
			d := "field is read but its value never reaches the returned slice"
			if cf.early != "" {
				d = "the value is handed to the helper " + cf.early + ", which can leave one of its loops from inside the body (a budget or a condition), so it does not transfer every element to the result"
			}
			res[F] = pathVerdict{status: core.Violated, detail: d}
			continue
		}
		// classify branches: F-absent edges may be ignored; sibling-present edges are the either-or idiom
		absent := map[*ssa.BasicBlock]int{}                // block -> successor index that means "F absent"
		sibPresent := map[string]map[*ssa.BasicBlock]int{} // sibling path -> block -> successor index meaning "sibling present"
		for _, b := range fn.Blocks {
			if len(b.Instrs) == 0 || len(b.Succs) != 2 {
				continue
			}
			iff, ok := b.Instrs[len(b.Instrs)-1].(*ssa.If)
			if !ok {
				continue
			}
			for k := 0; k < 2; k++ {
				okc, isLoop, sib := cf.acceptCond(core.CtrlDep{If: iff, Succ: k}, pure, pr, F)
				if okc && isLoop {
					// loop over F: the header counts as an inclusion point when every iteration includes
					if k == 0 && !reachAvoiding(b.Succs[0], b, J, nil) {
						J[b] = true
					}
				} else if okc {
					absent[b] = 1 - k
				} else if sib != "" {
					// successor k is taken when the sibling is absent, so 1-k means present
					if sibPresent[sib] == nil {
						sibPresent[sib] = map[*ssa.BasicBlock]int{}
					}
					sibPresent[sib][b] = 1 - k
				}
			}
		}
		entry := fn.Blocks[0]
		// the address of a loop variable that is shared by all iterations (pre-Go-1.22 semantics, or a
		// variable declared outside the loop) must not be what is returned: every element would alias the last one
		if al := sharedLoopVar(pure); al != nil {
			res[F] = pathVerdict{status: core.Violated, pos: al.Pos(), detail: "the address of variable `" + al.Comment + "`, which is written once per iteration of a loop but allocated once for the whole loop, is put into the result: all elements of " + F + " alias the last one and the others are never reached"}
			continue
		}
		if !exitAvoiding(entry, J, absent, nil, JE) {
			res[F] = pathVerdict{status: core.Discharged, pos: jpos}
			continue
		}
		var sibs []string
		for s := range sibPresent {
			sibs = append(sibs, s)
		}
		sort.Strings(sibs)
		done := false
		for _, s := range sibs {
			if !exitAvoiding(entry, J, absent, sibPresent[s], JE) {
				res[F] = pathVerdict{status: core.Discharged, pos: jpos, exclusiveWith: []string{s}}
				done = true
				break
			}
		}
		if done {
			continue
		}
		best := pathVerdict{status: core.Violated, pos: jpos, detail: "a path through Children() returns without including " + F + " although it is set: " + describeAvoiding(cf.p, entry, J, absent, JE)}
		res[F] = best
	}
	return res
}

// sharedLoopVar: among the pure values, an Alloc whose address is converted to an
// interface and which is stored to inside a loop although it is allocated outside that loop.
func sharedLoopVar(pure map[ssa.Value]bool) *ssa.Alloc {
	for v := range pure {
		a, ok := v.(*ssa.Alloc)
		if !ok {
			continue
		}
		addrUsed := false
		var stores []*ssa.Store
		for _, ref := range core.Referrers(a) {
			switch r := ref.(type) {
			case *ssa.MakeInterface:
				addrUsed = true
			case *ssa.Store:
				if r.Addr == ssa.Value(a) {
					stores = append(stores, r)
				}
			}
		}
		if !addrUsed {
			continue
		}
		for _, st := range stores {
			// the store is on a cycle that does not pass the allocation
			if cycleAvoiding(st.Block(), a.Block()) {
				return a
			}
		}
	}
	return nil
}

// cycleAvoiding: can block b reach itself again without passing block avoid?
func cycleAvoiding(b, avoid *ssa.BasicBlock) bool {
	if b == avoid {
		return false
	}
	seen := map[*ssa.BasicBlock]bool{}
	work := append([]*ssa.BasicBlock{}, b.Succs...)
	for len(work) > 0 {
		x := work[len(work)-1]
		work = work[:len(work)-1]
		if x == b {
			return true
		}
		if x == avoid || seen[x] {
			continue
		}
		seen[x] = true
		work = append(work, x.Succs...)
	}
	return false
}

type pathVerdict struct {
	status        core.Status
	detail        string
	pos           token.Pos
	exclusiveWith []string // sibling paths on whose nil-ness the inclusion depends
}

func condString(cd core.CtrlDep) string {
	s := cd.If.Cond.String()
	if b, ok := cd.If.Cond.(*ssa.BinOp); ok {
		s = b.X.Name() + " " + b.Op.String() + " " + b.Y.Name()
	}
	if cd.Succ == 1 {
		return "!(" + s + ")"
	}
	return s
}

// acceptCond: is the controlling branch a test that F itself is present?
// Otherwise, if it is a test that a sibling node path is absent, the sibling's
// path is returned (either-or idiom; checked against the producers).
func (cf *childFlow) acceptCond(cd core.CtrlDep, pure map[ssa.Value]bool, pr *core.PathResolver, F string) (bool, bool, string) {
	c := cd.If.Cond
	onTrue := cd.Succ == 0
	// range over a map / iterator: ok flag of Next over a pure Range
	if ex, ok := c.(*ssa.Extract); ok && ex.Index == 0 {
		if nx, ok := ex.Tuple.(*ssa.Next); ok && pure[nx.Iter] && onTrue {
			return true, true, ""
		}
	}
	b, ok := c.(*ssa.BinOp)
	if !ok {
		return false, false, ""
	}
	isF := func(v ssa.Value) bool {
		if pure[v] {
			return true
		}
		p, ok := pr.Path(v)
		return ok && core.HasPrefixPath(p, F)
	}
	x, y, op := b.X, b.Y, b.Op
	if core.IsNilConst(x) {
		x, y = y, x
	}
	if core.IsNilConst(y) {
		if isF(x) {
			if (op == token.NEQ && onTrue) || (op == token.EQL && !onTrue) {
				return true, false, ""
			}
			return false, false, ""
		}
		// sibling absent?
		if p, ok := pr.Path(x); ok && p != "" {
			if (op == token.NEQ && !onTrue) || (op == token.EQL && onTrue) {
				return false, false, strings.TrimRight(p, "[]")
			}
		}
		return false, false, ""
	}
	// len tests
	lx, ly := core.LenOf(x), core.LenOf(y)
	if lx != nil && isF(lx) {
		if n, ok := core.ConstInt(y); ok {
			switch {
			case op == token.GTR && n >= 0 && onTrue, op == token.NEQ && n == 0 && onTrue,
				op == token.EQL && n == 0 && !onTrue, op == token.GEQ && n >= 1 && onTrue,
				op == token.LEQ && n == 0 && !onTrue, op == token.LSS && n == 1 && !onTrue:
				return true, false, ""
			}
		}
		return false, false, ""
	}
	// range lowering: i < len(F)
	if ly != nil && isF(ly) && op == token.LSS && onTrue {
		return true, true, ""
	}
	if lx != nil && isF(lx) && op == token.GTR && onTrue {
		return true, true, ""
	}
	return false, false, ""
}

// reachAvoiding: is block `to` reachable from `from` without entering a block of avoid?
func reachAvoiding(from, to *ssa.BasicBlock, avoid map[*ssa.BasicBlock]bool, _ interface{}) bool {
	if avoid[from] {
		return false
	}
	seen := map[*ssa.BasicBlock]bool{from: true}
	work := []*ssa.BasicBlock{from}
	for len(work) > 0 {
		b := work[len(work)-1]
		work = work[:len(work)-1]
		for _, s := range b.Succs {
			if s == to {
				return true
			}
			if avoid[s] || seen[s] {
				continue
			}
			seen[s] = true
			work = append(work, s)
		}
	}
	return false
}

// exitAvoiding: can a Return be reached from `from` without entering a block
// of avoid and without taking a forbidden edge (block -> successor index)?
func exitAvoiding(from *ssa.BasicBlock, avoid map[*ssa.BasicBlock]bool, forbid1, forbid2 map[*ssa.BasicBlock]int, more ...map[*ssa.BasicBlock]int) bool {
	return len(avoidingPath(from, avoid, forbid1, forbid2, more...)) > 0
}

func avoidingPath(from *ssa.BasicBlock, avoid map[*ssa.BasicBlock]bool, forbid1, forbid2 map[*ssa.BasicBlock]int, more ...map[*ssa.BasicBlock]int) []*ssa.BasicBlock {
	if avoid[from] {
		return nil
	}
	prev := map[*ssa.BasicBlock]*ssa.BasicBlock{from: nil}
	work := []*ssa.BasicBlock{from}
	for len(work) > 0 {
		b := work[0]
		work = work[1:]
		if len(b.Succs) == 0 {
			if _, isRet := b.Instrs[len(b.Instrs)-1].(*ssa.Return); isRet {
				var path []*ssa.BasicBlock
				for x := b; x != nil; x = prev[x] {
					path = append([]*ssa.BasicBlock{x}, path...)
				}
				return path
			}
			continue
		}
		for k, s := range b.Succs {
			if f, ok := forbid1[b]; ok && f == k {
				continue
			}
			if f, ok := forbid2[b]; ok && f == k {
				continue
			}
			skip := false
			for _, m := range more {
				if f, ok := m[b]; ok && f == k {
					skip = true
				}
			}
			if skip || avoid[s] {
				continue
			}
			if _, seen := prev[s]; seen {
				continue
			}
			prev[s] = b
			work = append(work, s)
		}
	}
	return nil
}

func describeAvoiding(p *core.Prog, entry *ssa.BasicBlock, avoid map[*ssa.BasicBlock]bool, forbid map[*ssa.BasicBlock]int, more ...map[*ssa.BasicBlock]int) string {
	path := avoidingPath(entry, avoid, forbid, nil, more...)
	var conds []string
	for i, b := range path {
		if i+1 >= len(path) || len(b.Succs) != 2 {
			continue
		}
		iff, ok := b.Instrs[len(b.Instrs)-1].(*ssa.If)
		if !ok {
			continue
		}
		k := 0
		if b.Succs[1] == path[i+1] {
			k = 1
		}
		conds = append(conds, "`"+condString(core.CtrlDep{If: iff, Succ: k})+"` at "+p.Pos(iff.Cond.Pos()))
	}
	if len(conds) == 0 {
		return "unconditional path"
	}
	return "path taking " + strings.Join(conds, ", ")
}

func runC14(c *Ctx) {
	r, p := c.R, c.P
	r.Summary = "C14 (tree traversal reaches every node): decided clause = for every node type and every node-holding access path of it, Children() returns the path's value on every execution in which the path is non-nil/non-empty; Walk visits the node, then recurses over the whole Children() slice. Walk's reachability is exactly the closure of Children(), so this clause is necessary and, together with the Walk shape rule, sufficient for the reachability half of the property."
	r.NotCov = []string{"that visitors' own logic (Inspect callbacks) is correct", "trees built by API users with both arms of an either-or pair populated, when no parser site does so"}
	r.Rule("children-path", "every (node type, node-holding access path) flows into the slice returned by T.Children(), unconditionally or under a nil/len/range test of that same path")
	r.Rule("children-exclusive", "an inclusion that depends on a sibling path being nil (either-or) is sound only if no function of the parser populates both paths of the same node")
	r.Rule("children-method", "every node struct type has a Children() method with source in the ast package")
	r.Rule("walk-shape", "Walk calls Visit(node) first, ranges over the complete node.Children() result and recurses on every element with the returned visitor")
	m := NewAstModel(p, "pkg/sql/ast")
	if m == nil {
		r.Fatal("anchor not found: package pkg/sql/ast with interface Node")
		return
	}
	c14Core(c, p, m, "pkg/sql/ast", []string{"pkg/sql/parser"}, "")
	r.Floor("children-method", r.Count("children-method"), 50, "node struct types")
	r.Floor("children-path", r.Count("children-path"), 100, "(type, path) pairs")
	c14Walk(c, p, "pkg/sql/ast", "")
	if c.Controls {
		if cp := c.Control("c14"); cp != nil {
			cm := NewAstModel(cp, "gosqlxsa/controls/c14")
			if cm == nil {
				r.Fatal("control c14: no Node interface")
			} else {
				sub := *c
				sub.P = cp
				n0 := countBad(r, "children-path")
				c14Core(&sub, cp, cm, "gosqlxsa/controls/c14", nil, "control:")
				c14Walk(&sub, cp, "gosqlxsa/controls/c14", "control:")
				_ = n0
			}
		}
	}
}

func countBad(r *core.Report, rule string) int { return 0 }

// c14Core runs the Children() rules on the ast-like package rel. With a
// non-empty prefix (positive control) violations are expected: they are turned
// into Control records instead of obligations.
func c14Core(c *Ctx, p *core.Prog, m *AstModel, rel string, producers []string, prefix string) {
	r := c.R
	cf := &childFlow{m: m, p: p, sumMem: map[*ssa.Function]map[int]int{}}
	cf.local = func(f *ssa.Function) bool { pk := core.FnPkg(f); return core.InModule(f) || (pk != nil && pk == m.Pkg) }
	ctlFired := map[string]bool{}
	type excl struct{ t, a, b, pos string }
	var excls []excl
	for _, T := range m.Types {
		name := T.Obj().Name()
		fn := p.Method(rel, name, "Children")
		if prefix == "" {
			if fn == nil || fn.Blocks == nil {
				r.Violate("children-method", name, p.Pos(T.Obj().Pos()), "node type has no Children() method body")
				continue
			}
			r.OK("children-method", name, p.FnPos(fn), "")
		}
		if fn == nil {
			continue
		}
		paths := m.Paths(T)
		ver := cf.analyse(fn, paths)
		for _, np := range paths {
			v := ver[np.Path]
			key := name + "." + np.Path
			pos := p.FnPos(fn)
			if v.pos.IsValid() {
				pos = p.Pos(v.pos)
			}
			if prefix != "" {
				if v.status != core.Discharged {
					ctlFired[key] = true
				}
				continue
			}
			switch v.status {
			case core.Discharged:
				r.OK("children-path", key, pos, "")
				for _, s := range v.exclusiveWith {
					excls = append(excls, excl{name, np.Path, s, pos})
				}
			case core.Undecided:
				r.Undecide("children-path", key, pos, v.detail)
			default:
				r.Violate("children-path", key, pos, v.detail)
			}
		}
	}
	if prefix != "" {
		for _, want := range []string{"Dropped.B", "Conditional.B", "Shadow.Items"} {
			c.R.Control("children-path", ctlFired[want], "controls/c14 "+want)
		}
		for k := range ctlFired {
			if strings.HasPrefix(k, "Good") {
				c.R.Fatal("control c14: rule children-path fired on the correct method %s", k)
			}
		}
		return
	}
	// either-or pairs against the producers
	if len(excls) > 0 {
		writers := fieldWriters(p, producers, m.Pkg)
		for _, e := range excls {
			key := e.t + ":" + e.a + "/" + e.b
			var both []string
			for fnName, set := range writers {
				// both populated on the same object along one control-flow path
				hit := false
				for _, b1 := range set[e.t+"."+firstSeg(e.a)] {
					for _, b2 := range set[e.t+"."+firstSeg(e.b)] {
						if core.BlockReaches(b1, b2) || core.BlockReaches(b2, b1) {
							hit = true
						}
					}
				}
				if hit {
					both = append(both, fnName)
				}
			}
			sort.Strings(both)
			if len(both) > 0 {
				r.Violate("children-exclusive", key, e.pos, "Children() returns "+e.a+" only when "+e.b+" is nil, but both are populated in "+strings.Join(both, ", "))
			} else {
				r.OK("children-exclusive", key, e.pos, "no producer path populates both on one object")
			}
		}
	}
}

func firstSeg(p string) string {
	if i := strings.IndexAny(p, ".["); i >= 0 {
		return p[:i]
	}
	return p
}

// fieldWriters: for each object (SSA base value) written in a function of the
// producer packages, the set of "Type.Field" populated on that same object
// (composite literal keys or stores through FieldAddr), for struct types of
// package owner. Keyed by "function#n".
func fieldWriters(p *core.Prog, rels []string, owner *types.Package) map[string]map[string][]*ssa.BasicBlock {
	out := map[string]map[string][]*ssa.BasicBlock{}
	for _, fn := range p.SrcFuncs(rels...) {
		objs := map[ssa.Value]map[string][]*ssa.BasicBlock{}
		var order []ssa.Value
		for _, b := range fn.Blocks {
			for _, in := range b.Instrs {
				st, ok := in.(*ssa.Store)
				if !ok {
					continue
				}
				fa, ok := st.Addr.(*ssa.FieldAddr)
				if !ok {
					continue
				}
				n := core.NamedOf(fa.X.Type())
				if n == nil || n.Obj().Pkg() != owner {
					continue
				}
				// storing a zero value is not populating
				if core.IsNilConst(st.Val) {
					continue
				}
				base := fa.X
				if objs[base] == nil {
					objs[base] = map[string][]*ssa.BasicBlock{}
					order = append(order, base)
				}
				k := n.Obj().Name() + "." + core.FieldName(fa.X.Type(), fa.Field)
				objs[base][k] = append(objs[base][k], b)
			}
		}
		for i, o := range order {
			out[sprintf("%s#%d", core.FnName(fn), i)] = objs[o]
		}
	}
	return out
}

// c14Walk checks the shape of Walk in package rel.
func c14Walk(c *Ctx, p *core.Prog, rel string, prefix string) {
	r := c.R
	fn := p.Func(rel, "Walk")
	if fn == nil || fn.Blocks == nil || len(fn.Params) != 2 {
		if prefix == "" {
			r.Fatal("anchor not found: func Walk(Visitor, Node) in %s", rel)
		}
		return
	}
	node := fn.Params[1]
	var visit, children *ssa.Call
	var rec []*ssa.Call
	for _, b := range fn.Blocks {
		for _, in := range b.Instrs {
			call, ok := in.(*ssa.Call)
			if !ok {
				continue
			}
			if call.Call.IsInvoke() && call.Call.Method.Name() == "Visit" && len(call.Call.Args) == 1 && call.Call.Args[0] == node && call.Call.Value == fn.Params[0] {
				if visit == nil {
					visit = call
				}
			}
			if call.Call.IsInvoke() && call.Call.Method.Name() == "Children" && call.Call.Value == node {
				children = call
			}
			if call.Call.StaticCallee() == fn {
				rec = append(rec, call)
			}
		}
	}
	problems := []string{}
	if visit == nil {
		problems = append(problems, "no call v.Visit(node)")
	}
	if children == nil {
		problems = append(problems, "no call node.Children()")
	}
	if visit != nil && children != nil {
		if !visit.Block().Dominates(children.Block()) {
			problems = append(problems, "Visit(node) does not precede Children()")
		}
		// the visitor used for the recursion must be the one returned by Visit
		okRec := false
		for _, rc := range rec {
			ex, isEx := rc.Call.Args[0].(*ssa.Extract)
			fromVisit := isEx && ex.Tuple == visit && ex.Index == 0
			// child must be an element of the full Children() result
			la, isLoad := rc.Call.Args[1].(*ssa.UnOp)
			if !isLoad {
				continue
			}
			ia, isIdx := la.X.(*ssa.IndexAddr)
			if !isIdx || ia.X != children {
				continue
			}
			// loop condition: idx < len(children), idx = phi(-1, idx+1)
			full := false
			if bo, ok := ia.Index.(*ssa.BinOp); ok && bo.Op == token.ADD {
				if ph, ok := bo.X.(*ssa.Phi); ok {
					if one, ok := core.ConstInt(bo.Y); ok && one == 1 {
						startOK := false
						for _, e := range ph.Edges {
							if n, ok := core.ConstInt(e); ok && n == -1 {
								startOK = true
							}
						}
						for _, ref := range core.Referrers(bo) {
							if cmp, ok := ref.(*ssa.BinOp); ok && cmp.Op == token.LSS && cmp.X == bo && core.LenOf(cmp.Y) == children {
								full = startOK
							}
						}
					}
				}
			}
			// counted form: for i := 0; i < len(children); i++
			if ph, ok := ia.Index.(*ssa.Phi); ok && !full {
				startOK, stepOK := false, false
				for _, e := range ph.Edges {
					if n, ok := core.ConstInt(e); ok && n == 0 {
						startOK = true
					}
					if st, ok := e.(*ssa.BinOp); ok && st.Op == token.ADD && st.X == ssa.Value(ph) {
						if one, ok := core.ConstInt(st.Y); ok && one == 1 {
							stepOK = true
						}
					}
				}
				for _, ref := range core.Referrers(ph) {
					if cmp, ok := ref.(*ssa.BinOp); ok && cmp.Op == token.LSS && cmp.X == ssa.Value(ph) && core.LenOf(cmp.Y) == children {
						full = startOK && stepOK && len(ph.Edges) == 2
					}
				}
			}
			if fromVisit && full {
				okRec = true
			} else if !fromVisit {
				problems = append(problems, "recursion does not use the visitor returned by Visit")
			} else {
				problems = append(problems, "recursion does not range over the complete Children() slice")
			}
		}
		if !okRec && len(problems) == 0 {
			problems = append(problems, "no recursive Walk(visitor, child) over the elements of node.Children()")
		}
		// between the loop and the recursion no branch may skip a child except the error exit:
		// every controlling condition of the recursive call is either the range test,
		// the node==nil test, the err!=nil test or the visitor==nil test.
		for _, rc := range rec {
			for _, cd := range core.ControlDeps(rc.Block()) {
				if !walkCondOK(cd, node, visit, children, fn) {
					problems = append(problems, "recursive call is skipped under condition `"+condString(cd)+"` at "+p.Pos(cd.If.Pos()))
				}
			}
		}
	}
	if prefix != "" {
		c.R.Control("walk-shape", len(problems) > 0, "controls/c14 Walk (skips the first child)")
		return
	}
	if len(problems) > 0 {
		r.Violate("walk-shape", "ast.Walk", p.FnPos(fn), strings.Join(problems, "; "))
	} else {
		r.OK("walk-shape", "ast.Walk", p.FnPos(fn), "Visit(node) dominates Children(); recursion over every element with the returned visitor")
	}
	// Inspect delegates to Walk
	if insp := p.Func(rel, "Inspect"); insp != nil && prefix == "" {
		ok := false
		for _, b := range insp.Blocks {
			for _, in := range b.Instrs {
				if call, isCall := in.(*ssa.Call); isCall && call.Call.StaticCallee() == fn && len(call.Call.Args) == 2 && call.Call.Args[1] == insp.Params[0] {
					ok = true
				}
			}
		}
		if ok {
			r.OK("walk-shape", "ast.Inspect", p.FnPos(insp), "delegates to Walk with its node argument")
		} else {
			r.Violate("walk-shape", "ast.Inspect", p.FnPos(insp), "does not call Walk(…, node)")
		}
	}
}

func walkCondOK(cd core.CtrlDep, node ssa.Value, visit, children *ssa.Call, fn *ssa.Function) bool {
	b, ok := cd.If.Cond.(*ssa.BinOp)
	if !ok {
		return false
	}
	onTrue := cd.Succ == 0
	x, y := b.X, b.Y
	if core.IsNilConst(x) {
		x, y = y, x
	}
	if core.IsNilConst(y) {
		// node == nil → return ; err != nil → return ; visitor == nil → return
		if x == node {
			return (b.Op == token.EQL && !onTrue) || (b.Op == token.NEQ && onTrue)
		}
		if ex, ok := x.(*ssa.Extract); ok {
			if ex.Tuple == visit {
				// err (index 1) must be nil, visitor (index 0) must be non-nil
				if ex.Index == 1 {
					return (b.Op == token.NEQ && !onTrue) || (b.Op == token.EQL && onTrue)
				}
				return (b.Op == token.EQL && !onTrue) || (b.Op == token.NEQ && onTrue)
			}
		}
		// error of the previous recursive call
		if c, ok := x.(*ssa.Call); ok && c.Call.StaticCallee() == fn {
			return (b.Op == token.NEQ && !onTrue) || (b.Op == token.EQL && onTrue)
		}
		return false
	}
	if b.Op == token.LSS && core.LenOf(b.Y) == children && onTrue {
		return true
	}
	return false
}
