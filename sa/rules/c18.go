package rules

import (
	"go/token"
	"strings"

	"golang.org/x/tools/go/ssa"

	"gosqlxsa/core"
)

func init() { Registry["C18"] = runC18 }

func runC18(c *Ctx) {
	r, p := c.R, c.P
	r.Summary = "C18 (language server never dies, answers each request once, mirrors the document): decided clauses = message dispatch runs under a deferred recover(); responses are sent only from the dispatcher (who-may-call) and every path through it sends exactly one response for a request whose handler ran, none for a notification, at most one otherwise and only under an id != nil test; the framed writer is used only by sendMessage, under its mutex, with a Content-Length computed from the very byte slice that is written; the document map is accessed only under the manager's lock; every index/slice expression of pkg/lsp is within bounds by a dominating guard or audited."
	r.NotCov = []string{"UTF-16 column arithmetic and the values the clamps produce", "content and anchoring of published diagnostics", "rate-limiter drops (documented behaviour)"}
	r.Rule("recover-barrier", "handleMessage (or the per-message call in Run's loop) defers a closure that calls recover() before anything else can panic")
	r.Rule("send-callers", "sendResult and sendError are called only from the message dispatcher (handleMessage, its deferred closure, handleMalformedRequest)")
	r.Rule("one-response", "in handleMessage: from the call of HandleRequest every path to the return sends exactly one response; from the call of HandleNotification none; on every path at most one; every send is control-dependent on an `id != nil` test")
	r.Rule("framing", "the writer field is used only in sendMessage, with the write mutex held for both writes; the header is Sprintf(\"Content-Length: %d\\r\\n\\r\\n\", len(content)) for the same content value that is written next")
	r.Rule("doc-lock", "the documents map of DocumentManager is read under its RWMutex and written under the write lock (guarded-by rule restricted to pkg/lsp)")
	r.Rule("mirror-coupling", "Document.Lines is always the split of Document.Content: every store to Content is followed, in the same block or on every path before the lines are read, the document is handed on or the function returns, by a store of splitLines(<that content>) into Lines of the same document, and applyChange receives Content and Lines loaded from the same document at the call")
	r.Rule("bounds", "index/slice expressions of pkg/lsp are within bounds by a dominating guard (same engine as C01) or audited")
	srv := p.Method("pkg/lsp", "Server", "handleMessage")
	run := p.Method("pkg/lsp", "Server", "Run")
	if srv == nil || run == nil {
		r.Fatal("anchor not found: (*lsp.Server).handleMessage / Run")
		return
	}
	// R1
	if hasRecoverDefer(srv) || callUnderRecover(run, srv) {
		r.OK("recover-barrier", "handleMessage", p.FnPos(srv), "deferred recover() at the top of the dispatcher")
	} else {
		r.Violate("recover-barrier", "handleMessage", p.FnPos(srv), "message dispatch is not protected by a deferred recover(): one panicking handler terminates the server")
	}
	c18RunExits(c, p, run)
	c18DocState(c, p)
	// R2 who-may-call
	senders := map[*ssa.Function]bool{}
	for _, n := range []string{"sendResult", "sendError"} {
		if f := p.Method("pkg/lsp", "Server", n); f != nil {
			senders[f] = true
		} else {
			r.Fatal("anchor not found: (*lsp.Server).%s", n)
		}
	}
	allowed := map[string]bool{"handleMessage": true, "handleMalformedRequest": true}
	nsend := 0
	for _, fn := range p.ModuleFuncs() {
		for _, b := range fn.Blocks {
			for _, in := range b.Instrs {
				ci, ok := in.(ssa.CallInstruction)
				if !ok {
					continue
				}
				if callee := ci.Common().StaticCallee(); callee != nil && senders[callee] {
					nsend++
					key := core.FnName(fn) + "|" + callee.Name()
					if allowed[outer(fn).Name()] && core.InPkgs(fn, "pkg/lsp") {
						r.OK("send-callers", key, p.Pos(in.Pos()), "")
					} else {
						r.Violate("send-callers", key, p.Pos(in.Pos()), "a response is sent from outside the dispatcher: a request can be answered twice")
					}
				}
			}
		}
	}
	r.Floor("send-callers", nsend, 1, "response send sites")
	c18OneResponse(c, p, srv, senders)
	c18Framing(c, p)
	// R5 document store: lock discipline in pkg/lsp
	fns := p.SrcFuncs("pkg/lsp")
	la := newLockAnalysis(p, fns)
	nd := 0
	seq := map[string]int{}
	for _, u := range la.collectFieldUses() {
		if u.typ.Obj().Name() != "DocumentManager" || u.fresh {
			continue
		}
		nd++
		base := u.field + "|" + core.FnName(u.fn)
		seq[base]++
		key := base + sprintf("#%d", seq[base])
		if _, ok := heldAny(u.held, u.typ, u.write); ok {
			r.OK("doc-lock", key, p.Pos(u.in.Pos()), "")
		} else {
			r.Violate("doc-lock", key, p.Pos(u.in.Pos()), "DocumentManager."+u.field+" accessed without the manager's lock (write lock for writes)")
		}
	}
	r.Floor("doc-lock", nd, 2, "accesses to the document map")
	c18Mirror(c, p)
	c18LinesPartition(c, p)
	c18ChangeApplied(c, p)
	c18PublishedFromMirror(c, p)
	// R3 bounds
	be := newBoundsEngine(p)
	nb := 0
	for _, fn := range fns {
		for _, o := range be.checkFunction(fn) {
			nb++
			key := core.FnName(fn) + "|" + o.expr
			switch {
			case o.ok:
				r.OK("bounds", key, p.Pos(o.pos), "")
			case lspBoundsAudit[key] != "":
				auditDump(key, o.fp)
				if want, ok := auditFP[key]; ok && want != o.fp {
					r.Violate("bounds", key, p.Pos(o.pos), "this expression is in the audited table, but the values it uses are now computed differently from when it was read (fingerprint "+o.fp+", audited "+want+"): the audit no longer applies; "+o.reason)
					continue
				}
				r.OK("bounds", key, p.Pos(o.pos), "audited: "+lspBoundsAudit[key])
			default:
				r.Violate("bounds", key, p.Pos(o.pos), "index/slice expression without a recognised bounds guard ("+o.reason+")")
			}
		}
	}
	r.Floor("bounds", nb, 12, "index/slice expressions in pkg/lsp")
}

func c18Mirror(c *Ctx, p *core.Prog) {
	r := c.R
	n := 0
	for _, fn := range p.SrcFuncs("pkg/lsp") {
		seq := 0
		for _, b := range fn.Blocks {
			for i, in := range b.Instrs {
				switch x := in.(type) {
				case *ssa.Store:
					fa, ok := x.Addr.(*ssa.FieldAddr)
					if !ok || core.FieldName(fa.X.Type(), fa.Field) != "Content" {
						continue
					}
					if nt := core.NamedOf(fa.X.Type()); nt == nil || nt.Obj().Name() != "Document" {
						continue
					}
					if a, isAlloc := fa.X.(*ssa.Alloc); isAlloc && a.Heap {
						continue // a fresh Document (Open builds it with both fields; Get returns a copy of a coupled pair)
					}
					n++
					seq++
					key := core.FnName(fn) + sprintf("|Content#%d", seq)
					ok2 := false
					for _, later := range b.Instrs[i+1:] {
						st, isSt := later.(*ssa.Store)
						if !isSt {
							continue
						}
						fl, isFa := st.Addr.(*ssa.FieldAddr)
						if !isFa || core.FieldName(fl.X.Type(), fl.Field) != "Lines" || fl.X != fa.X {
							continue
						}
						if call, isCall := st.Val.(*ssa.Call); isCall && call.Call.StaticCallee() != nil && call.Call.StaticCallee().Name() == "splitLines" {
							arg := call.Call.Args[0]
							// the argument is the stored content value, or a fresh load of the Content field just stored
							if arg == x.Val || sameFieldLoad(arg, x.Val) {
								ok2 = true
							}
							if u, isLoad := arg.(*ssa.UnOp); isLoad {
								if fc, isFc := u.X.(*ssa.FieldAddr); isFc && fc.X == fa.X && core.FieldName(fc.X.Type(), fc.Field) == "Content" {
									ok2 = true
								}
							}
						}
						// … or a line table that has been kept in step with the content in local variables
						if c18Coupled(x.Val, st.Val, map[[2]ssa.Value]bool{}) {
							ok2 = true
						}
					}
					if !ok2 && c18SplitOnEveryPath(b, i+1, fa.X, map[*ssa.BasicBlock]bool{}) {
						// both arms of a branch assign Content and the join re-splits it once: same effect, later block
						r.OK("mirror-coupling", key, p.Pos(x.Pos()), "Lines re-split from the document's content on every path before the lines are used or the function returns")
						continue
					}
					if ok2 {
						r.OK("mirror-coupling", key, p.Pos(x.Pos()), "Lines re-split from the new content in the same block")
					} else {
						r.Violate("mirror-coupling", key, p.Pos(x.Pos()), "Document.Content is assigned without re-splitting Document.Lines from it in the same step: positions of the next edit are resolved against stale lines")
					}
				case *ssa.Call:
					if f := x.Call.StaticCallee(); f == nil || f.Name() != "applyChange" || len(x.Call.Args) < 2 {
						continue
					}
					n++
					seq++
					key := core.FnName(fn) + sprintf("|applyChange#%d", seq)
					fresh := func(v ssa.Value, field string) ssa.Value {
						u, ok := v.(*ssa.UnOp)
						if !ok || u.Block() != b {
							return nil
						}
						fa, ok := u.X.(*ssa.FieldAddr)
						if !ok || core.FieldName(fa.X.Type(), fa.Field) != field {
							return nil
						}
						return fa.X
					}
					dc, dl := fresh(x.Call.Args[0], "Content"), fresh(x.Call.Args[1], "Lines")
					if (dc != nil && dl != nil && dc == dl) || c18Coupled(x.Call.Args[0], x.Call.Args[1], map[[2]ssa.Value]bool{}) {
						r.OK("mirror-coupling", key, p.Pos(x.Pos()), "content and lines loaded from the same document at the call")
					} else {
						r.Violate("mirror-coupling", key, p.Pos(x.Pos()), "applyChange is not given the document's current Content and Lines (both loaded at the call): an edit is positioned with a line table that does not belong to the text it is applied to")
					}
				}
			}
		}
	}
	r.Floor("mirror-coupling", n, 1, "Content stores / applyChange calls")
	// Open builds a fresh Document: its composite literal must split the very content it stores
	c18OpenLiteral(c, p)
	c18VersionTracked(c, p)
}

// c18VersionTracked: the mirrored document carries the version of the last change the client sent. Update has to store
// its version parameter on every path on which the document was found - also for a change that carries no edits:
// diagnostics are published for "that text and version", and the version is what the client matches them by.
func c18VersionTracked(c *Ctx, p *core.Prog) {
	r := c.R
	r.Rule("version-tracked", "(*DocumentManager).Update stores its version parameter into Document.Version on every path on which the document was found (only the lookup-miss branch may return without it)")
	fn := p.Method("pkg/lsp", "DocumentManager", "Update")
	if fn == nil {
		r.Undecide("version-tracked", "Update", "-", "(*DocumentManager).Update not found")
		return
	}
	// the int parameter that ends up in Document.Version somewhere
	stores := map[*ssa.BasicBlock]bool{}
	for _, b := range fn.Blocks {
		for _, in := range b.Instrs {
			st, ok := in.(*ssa.Store)
			if !ok {
				continue
			}
			fa, ok := st.Addr.(*ssa.FieldAddr)
			if !ok || core.FieldName(fa.X.Type(), fa.Field) != "Version" {
				continue
			}
			if _, isPar := st.Val.(*ssa.Parameter); isPar {
				stores[b] = true
			}
		}
	}
	if len(stores) == 0 {
		r.Violate("version-tracked", "Update", p.FnPos(fn), "Update never stores its version parameter into Document.Version")
		return
	}
	// the lookup-miss edge: `doc, ok := m[uri]; if !ok { return }`
	missEdge := map[*ssa.BasicBlock]int{}
	for _, b := range fn.Blocks {
		iff, ok := b.Instrs[len(b.Instrs)-1].(*ssa.If)
		if !ok {
			continue
		}
		cond := iff.Cond
		neg := false
		if u, ok := cond.(*ssa.UnOp); ok && u.Op == token.NOT {
			cond, neg = u.X, true
		}
		ex, ok := cond.(*ssa.Extract)
		if !ok || ex.Index != 1 {
			continue
		}
		if lk, ok := ex.Tuple.(*ssa.Lookup); !ok || !lk.CommaOk {
			continue
		}
		// successor taken when ok is false
		k := 1
		if neg {
			k = 0
		}
		missEdge[b] = k
	}
	seen := map[*ssa.BasicBlock]bool{}
	var bad *ssa.BasicBlock
	var walk func(b *ssa.BasicBlock)
	walk = func(b *ssa.BasicBlock) {
		if seen[b] || stores[b] || bad != nil {
			return
		}
		seen[b] = true
		if _, isRet := b.Instrs[len(b.Instrs)-1].(*ssa.Return); isRet {
			bad = b
			return
		}
		for k, sc := range b.Succs {
			if mk, ok := missEdge[b]; ok && mk == k {
				continue
			}
			walk(sc)
		}
	}
	walk(fn.Blocks[0])
	if bad == nil {
		r.OK("version-tracked", "Update", p.FnPos(fn), "every path on which the document exists stores the version")
	} else {
		pos := p.FnPos(fn)
		for _, in := range bad.Instrs {
			if in.Pos().IsValid() {
				pos = p.Pos(in.Pos())
			}
		}
		r.Violate("version-tracked", "Update", pos, "Update can return with the document found but its Version not updated: later diagnostics are labelled with the previous version")
	}
}

// c18OpenLiteral: wherever a Document literal is built with a Content, its Lines is splitLines(that content)
// or a copy of the Lines of the document whose Content is copied.
func c18OpenLiteral(c *Ctx, p *core.Prog) {
	r := c.R
	for _, fn := range p.SrcFuncs("pkg/lsp") {
		seq := 0
		for _, b := range fn.Blocks {
			for _, in := range b.Instrs {
				a, ok := in.(*ssa.Alloc)
				if !ok || !a.Heap {
					continue
				}
				if nt := core.NamedOf(a.Type()); nt == nil || nt.Obj().Name() != "Document" {
					continue
				}
				var content, lines ssa.Value
				for _, ref := range core.Referrers(a) {
					if fa, ok := ref.(*ssa.FieldAddr); ok {
						for _, r2 := range core.Referrers(fa) {
							if st, ok := r2.(*ssa.Store); ok && st.Addr == ssa.Value(fa) {
								switch core.FieldName(fa.X.Type(), fa.Field) {
								case "Content":
									content = st.Val
								case "Lines":
									lines = st.Val
								}
							}
						}
					}
				}
				if content == nil {
					continue
				}
				seq++
				key := core.FnName(fn) + sprintf("|Document{}#%d", seq)
				ok2 := false
				if call, isCall := lines.(*ssa.Call); isCall && call.Call.StaticCallee() != nil && call.Call.StaticCallee().Name() == "splitLines" && (call.Call.Args[0] == content || sameFieldLoad(call.Call.Args[0], content)) {
					ok2 = true
				}
				// copy of an existing coupled pair: Content and Lines (or a copy of Lines) of the same source document
				if uc, isLoad := content.(*ssa.UnOp); isLoad {
					if fc, isFa := uc.X.(*ssa.FieldAddr); isFa && core.FieldName(fc.X.Type(), fc.Field) == "Content" && lines != nil {
						ok2 = true
					}
				}
				if ok2 {
					r.OK("mirror-coupling", key, p.Pos(a.Pos()), "")
				} else {
					r.Violate("mirror-coupling", key, p.Pos(a.Pos()), "a Document is built whose Lines is not the split of its Content")
				}
			}
		}
	}
}

// sameFieldLoad: a and b are loads of the same field of the same object value.
func sameFieldLoad(a, b ssa.Value) bool {
	ua, ok1 := a.(*ssa.UnOp)
	ub, ok2 := b.(*ssa.UnOp)
	if !ok1 || !ok2 {
		return false
	}
	fa, ok1 := ua.X.(*ssa.FieldAddr)
	fb, ok2 := ub.X.(*ssa.FieldAddr)
	return ok1 && ok2 && fa.Field == fb.Field && (fa.X == fb.X || sameFieldLoadAddr(fa.X, fb.X))
}

func sameFieldLoadAddr(a, b ssa.Value) bool {
	// both are the address of the same local (range variable copy) or loads of it
	if a == b {
		return true
	}
	return false
}

var lspBoundsAudit = map[string]string{
	"(*lsp.Document).GetWordAtPosition|runes[start - 1]":           "start begins at pos.Character (0 <= pos.Character < len(runes) by the two early returns) and only decreases while start > 0 (read 2026-09-26)",
	"(*lsp.Document).GetWordAtPosition|runes[start:end]":           "0 <= start <= pos.Character <= end <= len(runes): start only decreases while > 0, end only grows while < len(runes) (read 2026-09-26)",
	"(*lsp.Handler).createDiagnosticFromError|lines[line]":         "line is clamped to >= 0 on the two structured-error branches and by extractPositionFromError (every assignment is followed by `if line < 0 { line = 0 }`; defaultLine is 0 at the call site); the use is under line < len(lines) (read 2026-09-26)",
	"(*lsp.Handler).createDiagnosticFromError|lineContent[end]":    "end starts at char, which is clamped to >= 0 like line, and the loop guard is end < len(lineContent) (read 2026-09-26)",
	"(*lsp.Handler).getFunctionAtPosition|line[funcStart]":         "funcStart starts at funcEnd-1 with 0 <= funcEnd < len(line) (funcEnd is an index at which line[i] was read) and the loop guard is funcStart >= 0 (read 2026-09-26)",
	"(*lsp.Handler).getFunctionAtPosition|line[funcStart:funcEnd]": "after the loop funcStart is in [0, funcEnd] and the early return excludes funcStart >= funcEnd; funcEnd < len(line) (read 2026-09-26)",
	"lsp.applyChange|content[endOffset:]":                          "endOffset >= startOffset >= 0 by the clamps above it, and the slice is taken under endOffset < len(content) (read 2026-09-26)",
}

func hasRecoverDefer(fn *ssa.Function) bool {
	if len(fn.Blocks) == 0 {
		return false
	}
	for _, in := range fn.Blocks[0].Instrs {
		switch x := in.(type) {
		case *ssa.Defer:
			if mc, ok := x.Call.Value.(*ssa.MakeClosure); ok {
				if cl, _ := mc.Fn.(*ssa.Function); cl != nil {
					for _, cb := range cl.Blocks {
						for _, ci := range cb.Instrs {
							if cc, ok := ci.(*ssa.Call); ok && core.IsBuiltinCall(&cc.Call, "recover") {
								return true
							}
						}
					}
				}
			}
		case *ssa.Call:
			// anything that can panic before the defer is registered defeats the barrier
			if _, isB := x.Call.Value.(*ssa.Builtin); !isB {
				return false
			}
		}
	}
	return false
}

// callUnderRecover: run calls target from a function literal that defers recover.
func callUnderRecover(run, target *ssa.Function) bool {
	for _, an := range run.AnonFuncs {
		calls := false
		for _, b := range an.Blocks {
			for _, in := range b.Instrs {
				if c, ok := in.(*ssa.Call); ok && c.Call.StaticCallee() == target {
					calls = true
				}
			}
		}
		if calls && hasRecoverDefer(an) {
			return true
		}
	}
	return false
}

func c18OneResponse(c *Ctx, p *core.Prog, fn *ssa.Function, senders map[*ssa.Function]bool) {
	r := c.R
	sends := func(b *ssa.BasicBlock, from int) int {
		n := 0
		for i := from; i < len(b.Instrs); i++ {
			if call, ok := b.Instrs[i].(*ssa.Call); ok {
				if callee := call.Call.StaticCallee(); callee != nil && (senders[callee]) {
					n++
				}
				if callee := call.Call.StaticCallee(); callee != nil && callee.Name() == "handleMalformedRequest" {
					n++ // sends at most one under its own id test; count as one for the upper bound
				}
			}
		}
		return n
	}
	// loops would make path counting unbounded
	if len(blockSCCs(fn, nil, nil, nil)) > 0 {
		r.Undecide("one-response", "handleMessage", p.FnPos(fn), "the dispatcher contains a loop: response counting per path is not decidable by this rule")
		return
	}
	type mm struct{ min, max int }
	memo := map[*ssa.BasicBlock]mm{}
	var walk func(b *ssa.BasicBlock, from int) mm
	walk = func(b *ssa.BasicBlock, from int) mm {
		if from == 0 {
			if v, ok := memo[b]; ok {
				return v
			}
		}
		own := sends(b, from)
		res := mm{own, own}
		if len(b.Succs) > 0 {
			lo, hi := 1<<30, -1
			for _, s := range b.Succs {
				v := walk(s, 0)
				if v.min < lo {
					lo = v.min
				}
				if v.max > hi {
					hi = v.max
				}
			}
			res = mm{own + lo, own + hi}
		}
		if from == 0 {
			memo[b] = res
		}
		return res
	}
	var reqCall, notifCall *ssa.Call
	for _, b := range fn.Blocks {
		for _, in := range b.Instrs {
			if call, ok := in.(*ssa.Call); ok {
				name := ""
				if call.Call.IsInvoke() {
					name = call.Call.Method.Name()
				} else if f := call.Call.StaticCallee(); f != nil {
					name = f.Name()
				}
				switch name {
				case "HandleRequest":
					reqCall = call
				case "HandleNotification":
					notifCall = call
				}
			}
		}
	}
	if reqCall == nil || notifCall == nil {
		r.Fatal("anchor not found: handler.HandleRequest / HandleNotification calls in handleMessage")
		return
	}
	idx := func(call *ssa.Call) int {
		for i, in := range call.Block().Instrs {
			if in == ssa.Instruction(call) {
				return i
			}
		}
		return 0
	}
	v := walk(reqCall.Block(), idx(reqCall))
	if v.min == 1 && v.max == 1 {
		r.OK("one-response", "after-HandleRequest", p.Pos(reqCall.Pos()), "exactly one send on every path")
	} else {
		r.Violate("one-response", "after-HandleRequest", p.Pos(reqCall.Pos()), sprintf("after the request handler returns a path sends between %d and %d responses (must be exactly 1)", v.min, v.max))
	}
	v = walk(notifCall.Block(), idx(notifCall))
	if v.max == 0 {
		r.OK("one-response", "after-HandleNotification", p.Pos(notifCall.Pos()), "no send")
	} else {
		r.Violate("one-response", "after-HandleNotification", p.Pos(notifCall.Pos()), "a notification is answered")
	}
	v = walk(fn.Blocks[0], 0)
	if v.max <= 1 {
		r.OK("one-response", "any-path", p.FnPos(fn), "at most one send on any path")
	} else {
		r.Violate("one-response", "any-path", p.FnPos(fn), sprintf("some path through the dispatcher sends %d responses", v.max))
	}
	// the handler call itself must be under `req.ID != nil`, sends likewise
	checkIDGuard := func(b *ssa.BasicBlock, key string, pos token.Pos) {
		ok := false
		for _, cd := range core.ControlDeps(b) {
			for _, bo := range condConjuncts(cd.If.Cond, 0) {
				if (bo.Op == token.NEQ && cd.Succ == 0 || bo.Op == token.EQL && cd.Succ == 1) && (core.IsNilConst(bo.X) || core.IsNilConst(bo.Y)) {
					other := bo.X
					if core.IsNilConst(other) {
						other = bo.Y
					}
					if u, isLoad := other.(*ssa.UnOp); isLoad {
						if fa, isFa := u.X.(*ssa.FieldAddr); isFa && core.FieldName(fa.X.Type(), fa.Field) == "ID" {
							ok = true
						}
					}
				}
			}
		}
		if ok {
			r.OK("one-response", key, p.Pos(pos), "under an id != nil test")
		} else {
			r.Violate("one-response", key, p.Pos(pos), "not guarded by an `id != nil` test: a notification could be answered")
		}
	}
	checkIDGuard(reqCall.Block(), "HandleRequest|id-guard", reqCall.Pos())
	// no silent drop: once the message has been decoded, a path that reaches the return without a send must
	// have seen `id == nil` (it is a notification); a path that saw `id != nil` carries exactly one send.
	idTest := func(iff *ssa.If) bool {
		for _, bo := range condConjuncts(iff.Cond, 0) {
			if (bo.Op == token.NEQ || bo.Op == token.EQL) && (core.IsNilConst(bo.X) || core.IsNilConst(bo.Y)) {
				other := bo.X
				if core.IsNilConst(other) {
					other = bo.Y
				}
				if u, isLoad := other.(*ssa.UnOp); isLoad {
					if fa, isFa := u.X.(*ssa.FieldAddr); isFa && core.FieldName(fa.X.Type(), fa.Field) == "ID" {
						return true
					}
				}
			}
		}
		return false
	}
	// start points: the success side of every test of a json.Unmarshal error
	type start struct {
		b   *ssa.BasicBlock
		pos token.Pos
	}
	var starts []start
	for _, b := range fn.Blocks {
		iff, ok := b.Instrs[len(b.Instrs)-1].(*ssa.If)
		if !ok {
			continue
		}
		bo, ok := iff.Cond.(*ssa.BinOp)
		if !ok || !(core.IsNilConst(bo.X) || core.IsNilConst(bo.Y)) {
			continue
		}
		e := bo.X
		if core.IsNilConst(e) {
			e = bo.Y
		}
		call, ok := e.(*ssa.Call)
		if !ok {
			continue
		}
		if f := call.Call.StaticCallee(); f == nil || f.Name() != "Unmarshal" {
			continue
		}
		succ := 0 // err == nil: true branch
		if bo.Op == token.NEQ {
			succ = 1
		}
		starts = append(starts, start{b.Succs[succ], call.Pos()})
	}
	if len(starts) == 0 {
		r.Fatal("anchor not found: json.Unmarshal error test in handleMessage")
	}
	for i, st := range starts {
		key := sprintf("decoded#%d|answered", i+1)
		var badPath string
		npaths := 0
		var dfs func(b *ssa.BasicBlock, n int, sawNil, sawNonNil bool, trail []string)
		dfs = func(b *ssa.BasicBlock, n int, sawNil, sawNonNil bool, trail []string) {
			if badPath != "" || npaths > 4096 {
				return
			}
			n += sends(b, 0)
			if len(b.Succs) == 0 {
				npaths++
				if _, isRet := b.Instrs[len(b.Instrs)-1].(*ssa.Return); !isRet {
					return // panic exit
				}
				switch {
				case sawNonNil && n != 1:
					badPath = sprintf("a path on which the id is known to be present sends %d responses (%s)", n, strings.Join(trail, " -> "))
				case !sawNonNil && !sawNil && n == 0:
					badPath = "a decoded message reaches the return without any response and without ever looking at its id (" + strings.Join(trail, " -> ") + "): a request taking this path is never answered"
				}
				return
			}
			if iff, ok := b.Instrs[len(b.Instrs)-1].(*ssa.If); ok && idTest(iff) {
				// which successor means "id != nil"?
				nonNilSucc := 0
				for _, bo := range condConjuncts(iff.Cond, 0) {
					if bo.Op == token.EQL && (core.IsNilConst(bo.X) || core.IsNilConst(bo.Y)) {
						nonNilSucc = 1
					}
				}
				for si, sb := range b.Succs {
					// the id does not change while the message is dispatched: a later test cannot contradict an earlier one
					if (sawNonNil && si != nonNilSucc) || (sawNil && si == nonNilSucc) {
						continue
					}
					t2 := append(append([]string{}, trail...), p.Pos(iff.Cond.Pos()))
					dfs(sb, n, sawNil || si != nonNilSucc, sawNonNil || si == nonNilSucc, t2)
				}
				return
			}
			for _, sb := range b.Succs {
				dfs(sb, n, sawNil, sawNonNil, trail)
			}
		}
		dfs(st.b, 0, false, false, []string{p.Pos(st.pos)})
		if badPath == "" {
			r.OK("one-response", key, p.Pos(st.pos), sprintf("%d paths from the decoded message to the return: each either answers once or is on the id == nil side", npaths))
		} else {
			r.Violate("one-response", key, p.Pos(st.pos), badPath)
		}
	}
	n := 0
	for _, b := range fn.Blocks {
		for _, in := range b.Instrs {
			if call, ok := in.(*ssa.Call); ok {
				if callee := call.Call.StaticCallee(); callee != nil && senders[callee] {
					n++
					checkIDGuard(b, sprintf("send#%d|id-guard", n), call.Pos())
				}
			}
		}
	}
}

func c18Framing(c *Ctx, p *core.Prog) {
	r := c.R
	send := p.Method("pkg/lsp", "Server", "sendMessage")
	if send == nil {
		r.Fatal("anchor not found: (*lsp.Server).sendMessage")
		return
	}
	// writer field used only in sendMessage (and the constructor)
	for _, fn := range p.SrcFuncs("pkg/lsp") {
		for _, b := range fn.Blocks {
			for _, in := range b.Instrs {
				fa, ok := in.(*ssa.FieldAddr)
				if !ok || core.FieldName(fa.X.Type(), fa.Field) != "writer" {
					continue
				}
				if n := core.NamedOf(fa.X.Type()); n == nil || n.Obj().Name() != "Server" {
					continue
				}
				if a, isAlloc := fa.X.(*ssa.Alloc); isAlloc && a.Heap {
					continue // constructor
				}
				key := "writer|" + core.FnName(fn)
				if fn == send {
					r.OK("framing", key, p.Pos(in.Pos()), "")
				} else {
					r.Violate("framing", key, p.Pos(in.Pos()), "the output writer is used outside sendMessage: frames can interleave or bypass the Content-Length header")
				}
			}
		}
	}
	la := newLockAnalysis(p, []*ssa.Function{send})
	var writes []*ssa.Call
	for _, b := range send.Blocks {
		for _, in := range b.Instrs {
			if call, ok := in.(*ssa.Call); ok && call.Call.IsInvoke() && call.Call.Method.Name() == "Write" {
				writes = append(writes, call)
			}
		}
	}
	if len(writes) != 2 {
		r.Violate("framing", "sendMessage|writes", p.FnPos(send), sprintf("expected a header write and a content write, found %d Write calls", len(writes)))
		return
	}
	for i, w := range writes {
		key := sprintf("sendMessage|write#%d|locked", i+1)
		if held := la.at(send, w); held["Server.writeMu"] == 'W' {
			r.OK("framing", key, p.Pos(w.Pos()), "under writeMu")
		} else {
			r.Violate("framing", key, p.Pos(w.Pos()), "write to the client without holding writeMu")
		}
	}
	// header = []byte(Sprintf("Content-Length: %d\r\n\r\n", len(content))) ; second write writes content
	content := writes[1].Call.Args[0]
	okHeader := false
	var walk func(v ssa.Value, d int)
	walk = func(v ssa.Value, d int) {
		if d > 6 {
			return
		}
		switch x := v.(type) {
		case *ssa.Convert:
			walk(x.X, d+1)
		case *ssa.Call:
			if f := x.Call.StaticCallee(); f != nil && f.Name() == "Sprintf" {
				if format, ok := core.ConstString(x.Call.Args[0]); ok && strings.HasPrefix(format, "Content-Length: %d\r\n\r\n") {
					for _, o := range variadicOperands(x.Call.Args[1]) {
						if mi, ok := o.(*ssa.MakeInterface); ok && core.LenOf(mi.X) == content {
							okHeader = true
						}
					}
				}
			}
		}
	}
	walk(writes[0].Call.Args[0], 0)
	if !okHeader {
		// the same header assembled by hand: appends of the constant pieces "Content-Length: " and "\r\n\r\n" around
		// strconv.AppendInt / Itoa / FormatInt of len(content)
		var lenUsed, prefix, suffix bool
		seen := map[ssa.Value]bool{}
		var scan func(v ssa.Value, d int)
		scan = func(v ssa.Value, d int) {
			if d > 10 || v == nil || seen[v] {
				return
			}
			seen[v] = true
			if s, ok := core.ConstString(v); ok {
				if strings.HasPrefix(s, "Content-Length: ") {
					prefix = true
				}
				if strings.HasSuffix(s, "\r\n\r\n") {
					suffix = true
				}
				return
			}
			if core.LenOf(v) == content {
				lenUsed = true
				return
			}
			if in, ok := v.(ssa.Instruction); ok {
				if c, isCall := v.(*ssa.Call); isCall {
					if f := c.Call.StaticCallee(); f != nil && core.FnPkg(f) != nil {
						switch core.FnPkg(f).Path() {
						case "strconv", "strings", "bytes", "fmt":
						default:
							if _, isB := c.Call.Value.(*ssa.Builtin); !isB {
								return
							}
						}
					}
				}
				var ops []*ssa.Value
				for _, o := range in.Operands(ops) {
					if *o != nil {
						scan(*o, d+1)
					}
				}
			}
		}
		scan(writes[0].Call.Args[0], 0)
		okHeader = lenUsed && prefix && suffix
	}
	if okHeader && writes[0].Block().Dominates(writes[1].Block()) {
		r.OK("framing", "sendMessage|content-length", p.Pos(writes[0].Pos()), "Content-Length is len() of the very slice written next")
	} else {
		r.Violate("framing", "sendMessage|content-length", p.Pos(writes[0].Pos()), "the Content-Length header is not computed from the byte slice that is written as the body")
	}
}

// c18LinesPartition: positionToOffset adds len(line)+1 per preceding line, which is the byte offset only if the lines are
// exactly the pieces of the content between "\n" separators. splitLines (the function mirror-coupling anchors on) must
// therefore return strings.Split(content, "\n") itself, or a constant slice for the empty document, with no element
// rewritten: trimming "\r", dropping a trailing empty line or splitting on another separator shifts every later edit.
func c18LinesPartition(c *Ctx, p *core.Prog) {
	r := c.R
	r.Rule("lines-partition", "splitLines returns strings.Split(content, \"\\n\") of its parameter unmodified (or a constant slice for the empty document): positionToOffset's len(line)+1 arithmetic is the byte offset only then")
	fn := p.Func("pkg/lsp", "splitLines")
	if fn == nil {
		r.Undecide("lines-partition", "splitLines", "-", "pkg/lsp.splitLines not found: the line table is built some other way; re-audit")
		return
	}
	if len(fn.Params) != 1 {
		r.Violate("lines-partition", "splitLines", p.FnPos(fn), "splitLines no longer takes the content alone")
		return
	}
	var probs []string
	isSplit := func(v ssa.Value) bool {
		call, ok := v.(*ssa.Call)
		if !ok {
			return false
		}
		f := call.Call.StaticCallee()
		if f == nil || core.FnPkg(f) == nil || core.FnPkg(f).Path() != "strings" || f.Name() != "Split" || len(call.Call.Args) != 2 {
			return false
		}
		sep, isC := core.ConstString(call.Call.Args[1])
		return isC && sep == "\n" && call.Call.Args[0] == ssa.Value(fn.Params[0])
	}
	var okVal func(v ssa.Value, d int) bool
	okVal = func(v ssa.Value, d int) bool {
		if d > 4 {
			return false
		}
		switch x := v.(type) {
		case *ssa.Phi:
			for _, e := range x.Edges {
				if !okVal(e, d+1) {
					return false
				}
			}
			return true
		case *ssa.Slice:
			// a composite literal []string{""}: a fresh array whose elements are constants
			if al, ok := x.X.(*ssa.Alloc); ok {
				for _, ref := range core.Referrers(al) {
					if ia, ok := ref.(*ssa.IndexAddr); ok {
						for _, r2 := range core.Referrers(ia) {
							if st, ok := r2.(*ssa.Store); ok {
								if _, isC := st.Val.(*ssa.Const); !isC {
									return false
								}
							}
						}
					}
				}
				return true
			}
		}
		return isSplit(v)
	}
	for _, b := range fn.Blocks {
		for _, in := range b.Instrs {
			switch x := in.(type) {
			case *ssa.Return:
				if len(x.Results) != 1 || !okVal(x.Results[0], 0) {
					probs = append(probs, "the value returned at "+p.Pos(x.Pos())+" is not strings.Split(content, \"\\n\") (or a constant slice)")
				}
			case *ssa.Store:
				if ia, ok := x.Addr.(*ssa.IndexAddr); ok && isSplit(ia.X) {
					probs = append(probs, "an element of the split is rewritten at "+p.Pos(x.Pos()))
				}
			}
		}
	}
	if len(probs) == 0 {
		r.OK("lines-partition", "splitLines", p.FnPos(fn), "returns strings.Split(content, \"\\n\") unmodified")
	} else {
		r.Violate("lines-partition", "splitLines", p.FnPos(fn), strings.Join(probs, "; ")+": the lines no longer add up to the content, so the byte offset of every position after the first affected line is wrong and an incremental edit lands in the wrong place")
	}
}

// c18Coupled: l is the line table of content c — both loaded from the same document in one block, l = splitLines(c), or
// merges (phis of one block) whose inputs are coupled edge by edge (a working copy carried through a loop).
func c18Coupled(c, l ssa.Value, busy map[[2]ssa.Value]bool) bool {
	k := [2]ssa.Value{c, l}
	if busy[k] {
		return true // loop-carried pair: assumed while its other inputs are checked
	}
	busy[k] = true
	if call, ok := l.(*ssa.Call); ok && call.Call.StaticCallee() != nil && call.Call.StaticCallee().Name() == "splitLines" && len(call.Call.Args) == 1 {
		return call.Call.Args[0] == c || sameFieldLoad(call.Call.Args[0], c)
	}
	uc, ok1 := c.(*ssa.UnOp)
	ul, ok2 := l.(*ssa.UnOp)
	if ok1 && ok2 && uc.Op == token.MUL && ul.Op == token.MUL {
		fc, okc := uc.X.(*ssa.FieldAddr)
		fl, okl := ul.X.(*ssa.FieldAddr)
		if okc && okl && fc.X == fl.X && core.FieldName(fc.X.Type(), fc.Field) == "Content" && core.FieldName(fl.X.Type(), fl.Field) == "Lines" && uc.Block() == ul.Block() {
			// no store to either field between the two loads
			lo, hi := -1, -1
			for i, in := range uc.Block().Instrs {
				if in == ssa.Instruction(uc) || in == ssa.Instruction(ul) {
					if lo < 0 {
						lo = i
					}
					hi = i
				}
			}
			for _, in := range uc.Block().Instrs[lo:hi] {
				if st, ok := in.(*ssa.Store); ok {
					if fa, ok := st.Addr.(*ssa.FieldAddr); ok && fa.X == fc.X {
						return false
					}
				}
				if _, isCall := in.(ssa.CallInstruction); isCall {
					return false
				}
			}
			return true
		}
	}
	pc, ok1 := c.(*ssa.Phi)
	pl, ok2 := l.(*ssa.Phi)
	if ok1 && ok2 && pc.Block() == pl.Block() {
		for i := range pc.Edges {
			if !c18Coupled(pc.Edges[i], pl.Edges[i], busy) {
				return false
			}
		}
		return true
	}
	return false
}

// c18ChangeApplied: the mirror follows the protocol only if every didChange that could be decoded is applied. In each
// function of pkg/lsp that calls DocumentManager.Update with a parameter decoded by json.Unmarshal, every return is
// either behind the Update call or on the branch taken when the decoding failed. A handler that returns earlier for any
// other reason (an "out of date" version, an unknown URI it decides to skip) loses the edit: the transport is ordered,
// there are no reordered messages to protect against.
func c18ChangeApplied(c *Ctx, p *core.Prog) {
	r := c.R
	r.Rule("change-applied", "a handler that applies a decoded didChange to the document manager does so on every path: each return lies behind the Update call or on the failure branch of the parameter decoding")
	n := 0
	for _, fn := range p.SrcFuncs("pkg/lsp") {
		var upd *ssa.Call
		var failBlocks []*ssa.BasicBlock
		for _, b := range fn.Blocks {
			for _, in := range b.Instrs {
				call, ok := in.(*ssa.Call)
				if !ok {
					continue
				}
				f := call.Call.StaticCallee()
				if f == nil {
					continue
				}
				if f.Name() == "Update" && f.Signature.Recv() != nil {
					if nt := core.NamedOf(core.Deref(f.Signature.Recv().Type())); nt != nil && nt.Obj().Name() == "DocumentManager" {
						upd = call
					}
				}
				if f.Name() == "Unmarshal" && core.FnPkg(f) != nil && core.FnPkg(f).Path() == "encoding/json" {
					for _, ref := range core.Referrers(call) {
						bo, ok := ref.(*ssa.BinOp)
						if !ok || (bo.Op != token.NEQ && bo.Op != token.EQL) {
							continue
						}
						for _, r2 := range core.Referrers(bo) {
							if iff, ok := r2.(*ssa.If); ok {
								k := 0
								if bo.Op == token.EQL {
									k = 1
								}
								failBlocks = append(failBlocks, iff.Block().Succs[k])
							}
						}
					}
				}
			}
		}
		if upd == nil || len(failBlocks) == 0 {
			continue
		}
		n++
		var bad *ssa.Return
		for _, b := range fn.Blocks {
			ret, ok := b.Instrs[len(b.Instrs)-1].(*ssa.Return)
			if !ok {
				continue
			}
			okRet := upd.Block() == b || upd.Block().Dominates(b)
			for _, fb := range failBlocks {
				if fb == b || fb.Dominates(b) {
					okRet = true
				}
			}
			if !okRet {
				bad = ret
			}
		}
		if bad == nil {
			r.OK("change-applied", core.FnName(fn), p.Pos(upd.Pos()), "every return is behind Update or on the decoding-failure branch")
		} else {
			r.Violate("change-applied", core.FnName(fn), p.Pos(bad.Pos()), "this return is reached with the change decoded but not applied (it is neither behind the Update call nor on the decoding-failure branch): the edit is lost, the mirrored text no longer matches the editor's, and later edits land at wrong offsets")
		}
	}
	r.Floor("change-applied", n, 1, "handlers that apply a decoded change")
}

// c18PublishedFromMirror: the diagnostics published after a change are those of the mirrored text. In every handler that
// applies a change (calls DocumentManager.Update), the text it hands to the publishing function (a function of pkg/lsp
// that parses a string parameter with pkg/gosqlx and sends textDocument/publishDiagnostics) is read back from the
// document manager after the Update call - the result of one of its methods, or a field of the document such a method
// returned - on every path. A handler that takes the text from the notification instead ("a full-sync change already
// carries the whole text") publishes the diagnostics of an intermediate text when a later change of the same
// notification edits it again, and publishes for documents the manager does not hold.
func c18PublishedFromMirror(c *Ctx, p *core.Prog) {
	r := c.R
	r.Rule("published-from-mirror", "in a handler that calls DocumentManager.Update, every text passed afterwards to the function that parses it and publishes diagnostics is, on every path, the result of a DocumentManager method called after (or being) that Update, or a field of the document such a call returned")
	isDM := func(f *ssa.Function) bool {
		if f == nil || f.Signature.Recv() == nil {
			return false
		}
		nt := core.NamedOf(core.Deref(f.Signature.Recv().Type()))
		return nt != nil && nt.Obj().Name() == "DocumentManager" && core.InPkgs(f, "pkg/lsp")
	}
	// publishers: function -> indices (in Params) of the text parameters it parses
	publishers := map[*ssa.Function][]int{}
	for _, fn := range p.SrcFuncs("pkg/lsp") {
		if fn.Parent() != nil {
			continue
		}
		sends := false
		var textIdx []int
		for _, b := range fn.Blocks {
			for _, in := range b.Instrs {
				ci, ok := in.(ssa.CallInstruction)
				if !ok {
					continue
				}
				cc := ci.Common()
				f := cc.StaticCallee()
				if f == nil {
					continue
				}
				if f.Name() == "SendNotification" {
					for _, a := range cc.Args {
						if s, ok := core.ConstString(a); ok && s == "textDocument/publishDiagnostics" {
							sends = true
						}
					}
				}
				if core.InPkgs(f, "pkg/gosqlx") {
					for _, a := range cc.Args {
						for i, par := range fn.Params {
							if a == ssa.Value(par) && isStringOrBytes(par.Type()) {
								textIdx = append(textIdx, i)
							}
						}
					}
				}
			}
		}
		if sends && len(textIdx) > 0 {
			publishers[fn] = textIdx
		}
	}
	if len(publishers) == 0 {
		r.Fatal("anchor not found: no function of pkg/lsp parses a text parameter with pkg/gosqlx and publishes diagnostics")
		return
	}
	n := 0
	for _, fn := range p.SrcFuncs("pkg/lsp") {
		var upd *ssa.Call
		for _, b := range fn.Blocks {
			for _, in := range b.Instrs {
				if call, ok := in.(*ssa.Call); ok && isDM(call.Call.StaticCallee()) && call.Call.StaticCallee().Name() == "Update" {
					upd = call
				}
			}
		}
		if upd == nil {
			continue
		}
		after := func(in ssa.Instruction) bool {
			if in.Block() == upd.Block() {
				for _, x := range in.Block().Instrs {
					if x == ssa.Instruction(upd) {
						return true
					}
					if x == in {
						return false
					}
				}
			}
			return upd.Block().Dominates(in.Block())
		}
		// fromMirror: "" when every leaf of v is read from the document manager after the update, else the offending leaf
		var fromMirror func(v ssa.Value, inFn bool, depth int, seen map[ssa.Value]bool) string
		fromMirror = func(v ssa.Value, inFn bool, depth int, seen map[ssa.Value]bool) string {
			if seen[v] {
				return ""
			}
			seen[v] = true
			switch x := v.(type) {
			case *ssa.Const:
				if s, ok := core.ConstString(x); ok && s != "" {
					return "the constant " + x.Name()
				}
				return ""
			case *ssa.Phi:
				for _, e := range x.Edges {
					if w := fromMirror(e, inFn, depth, seen); w != "" {
						return w
					}
				}
				return ""
			case *ssa.Extract:
				return fromMirror(x.Tuple, inFn, depth, seen)
			case *ssa.UnOp:
				if x.Op == token.MUL {
					if fa, ok := x.X.(*ssa.FieldAddr); ok {
						if nt := core.NamedOf(core.Deref(fa.X.Type())); nt != nil && nt.Obj().Name() == "Document" {
							return fromMirror(fa.X, inFn, depth, seen)
						}
					}
				}
			case *ssa.Field:
				if nt := core.NamedOf(core.Deref(x.X.Type())); nt != nil && nt.Obj().Name() == "Document" {
					return fromMirror(x.X, inFn, depth, seen)
				}
			case *ssa.Call:
				f := x.Call.StaticCallee()
				if isDM(f) {
					if inFn && !after(x) {
						return "the result of " + f.Name() + " called before the change is applied"
					}
					return ""
				}
				// a helper of pkg/lsp that reads the manager for the handler
				if f != nil && f.Blocks != nil && core.InPkgs(f, "pkg/lsp") && depth < 2 {
					if inFn && !after(x) {
						return "the result of " + f.Name() + " called before the change is applied"
					}
					for _, b := range f.Blocks {
						if ret, ok := b.Instrs[len(b.Instrs)-1].(*ssa.Return); ok && len(ret.Results) > 0 {
							if w := fromMirror(ret.Results[0], false, depth+1, map[ssa.Value]bool{}); w != "" {
								return w + " (returned by " + f.Name() + ")"
							}
						}
					}
					return ""
				}
			}
			return "`" + c18Describe(v) + "`"
		}
		seq := 0
		for _, b := range fn.Blocks {
			for _, in := range b.Instrs {
				call, ok := in.(*ssa.Call)
				if !ok {
					continue
				}
				idx, ok := publishers[call.Call.StaticCallee()]
				if !ok || !after(call) {
					continue
				}
				for _, i := range idx {
					// Params includes the receiver, and so does Call.Args for a static method call
					if i >= len(call.Call.Args) {
						continue
					}
					n++
					seq++
					key := core.FnName(fn) + "|" + call.Call.StaticCallee().Name() + sprintf("#%d", seq)
					if w := fromMirror(call.Call.Args[i], true, 0, map[ssa.Value]bool{}); w == "" {
						r.OK("published-from-mirror", key, p.Pos(call.Pos()), "text read back from the document manager after Update")
					} else {
						r.Violate("published-from-mirror", key, p.Pos(call.Pos()), "on some path the text whose diagnostics are published is "+w+", not the text the document manager holds after the change: the published diagnostics are those of another text than the mirrored one (an intermediate text when the notification carries further edits; a text for a document that is not open)")
					}
				}
			}
		}
	}
	r.Floor("published-from-mirror", n, 1, "texts handed to the publishing function after a change was applied")
}

func c18Describe(v ssa.Value) string {
	if u, ok := v.(*ssa.UnOp); ok && u.Op == token.MUL {
		if t := fieldPathTerm(u.X); t != "" {
			return t
		}
		if fa, ok := u.X.(*ssa.FieldAddr); ok {
			return "field " + core.FieldName(fa.X.Type(), fa.Field)
		}
	}
	return v.String()
}

// c18SplitOnEveryPath: from instruction index `from` of block b, every path reaches a store of splitLines(<fresh load of
// doc.Content>) into doc.Lines before it reaches a return, another store to doc.Content, a load of doc.Lines or a call
// that is handed the document. A block met again on the way (loop) is taken as covered: a path that leaves the loop does so
// through blocks examined here.
func c18SplitOnEveryPath(b *ssa.BasicBlock, from int, doc ssa.Value, seen map[*ssa.BasicBlock]bool) bool {
	isField := func(v ssa.Value, name string) bool {
		fa, ok := v.(*ssa.FieldAddr)
		return ok && fa.X == doc && core.FieldName(fa.X.Type(), fa.Field) == name
	}
	for _, in := range b.Instrs[from:] {
		switch x := in.(type) {
		case *ssa.Store:
			if isField(x.Addr, "Lines") {
				if call, ok := x.Val.(*ssa.Call); ok && call.Call.StaticCallee() != nil && call.Call.StaticCallee().Name() == "splitLines" && len(call.Call.Args) == 1 {
					if u, ok := call.Call.Args[0].(*ssa.UnOp); ok && isField(u.X, "Content") {
						return true
					}
				}
				return false
			}
			if isField(x.Addr, "Content") {
				return false
			}
		case *ssa.UnOp:
			if x.Op == token.MUL && isField(x.X, "Lines") {
				return false
			}
		case *ssa.Call:
			for _, a := range x.Call.Args {
				if a == doc {
					return false
				}
			}
		case *ssa.Return:
			return false
		}
	}
	if len(b.Succs) == 0 {
		return false
	}
	for _, s := range b.Succs {
		if seen[s] {
			continue
		}
		seen[s] = true
		if !c18SplitOnEveryPath(s, 0, doc, seen) {
			return false
		}
	}
	return true
}
