package rules

import (
	"sort"
	"go/token"
	"go/types"
	"strings"

	"golang.org/x/tools/go/ssa"

	"gosqlxsa/core"
)

func init() { Registry["C05"] = runC05 }

func isLocationType(t types.Type) bool {
	n := core.NamedOf(t)
	return n != nil && n.Obj().Name() == "Location" && n.Obj().Pkg() != nil && strings.HasSuffix(n.Obj().Pkg().Path(), "/pkg/models")
}

// locationOrigin classifies where a models.Location value comes from.
func locationOrigin(v ssa.Value, conv map[*ssa.Function]bool, depth int) string {
	if depth > 8 || v == nil {
		return "unknown"
	}
	switch x := v.(type) {
	case *ssa.Call:
		if f := x.Call.StaticCallee(); f != nil {
			if conv[f] {
				return "conversion"
			}
			return "call " + f.Name()
		}
		return "dynamic call"
	case *ssa.Const:
		return "zero"
	case *ssa.Phi:
		out := ""
		for _, e := range x.Edges {
			o := locationOrigin(e, conv, depth+1)
			if o != "conversion" && o != "zero" && o != "literal-const" {
				return o
			}
			out = o
		}
		return out
	case *ssa.UnOp:
		if x.Op != token.MUL {
			return "unknown"
		}
		switch a := x.X.(type) {
		case *ssa.Alloc:
			// composite literal / local: look at the stores
			res := "zero"
			for _, ref := range core.Referrers(a) {
				switch r := ref.(type) {
				case *ssa.FieldAddr:
					for _, r2 := range core.Referrers(r) {
						st, ok := r2.(*ssa.Store)
						if !ok || st.Addr != ssa.Value(r) {
							continue
						}
						if _, isC := st.Val.(*ssa.Const); isC {
							if res == "zero" {
								res = "literal-const"
							}
							continue
						}
						if cursorField(st.Val) != "" {
							return "raw cursor field " + cursorField(st.Val)
						}
						return "computed field"
					}
				case *ssa.Store:
					if r.Addr == ssa.Value(a) {
						o := locationOrigin(r.Val, conv, depth+1)
						if o != "zero" {
							res = o
						}
					}
				}
			}
			return res
		case *ssa.FieldAddr:
			return "field " + core.FieldName(a.X.Type(), a.Field)
		}
	case *ssa.Extract:
		return locationOrigin(x.Tuple, conv, depth+1)
	case *ssa.Parameter:
		return "parameter"
	case *ssa.Field:
		return "field " + core.FieldName(x.X.Type(), x.Field)
	}
	return "unknown"
}

// cursorField: v is a load of <Position>.Line / .Column.
func cursorField(v ssa.Value) string {
	var x ssa.Value
	var idx int
	switch l := v.(type) {
	case *ssa.UnOp:
		fa, ok := l.X.(*ssa.FieldAddr)
		if !ok {
			return ""
		}
		x, idx = fa.X, fa.Field
	case *ssa.Field:
		x, idx = l.X, l.Field
	default:
		return ""
	}
	n := core.NamedOf(x.Type())
	if n == nil || n.Obj().Name() != "Position" {
		return ""
	}
	f := core.FieldName(x.Type(), idx)
	if f == "Line" || f == "Column" {
		return "Position." + f
	}
	return ""
}

func runC05(c *Ctx) {
	r, p := c.R, c.P
	r.Summary = "C05 (reported source positions point at the right characters): decided clauses = every models.Location the tokenizer puts into a token span, a comment or an error comes from the single offset-to-line/column conversion (toSQLPosition / getCurrentPosition / getLocation) or is a constant; a Location assembled from the raw cursor fields Position.Line/Column is reported (the cursor's column convention differs after a newline); the conversion functions return Line >= 1 and Column >= 1 on every path; the Start of a token is the cursor at the beginning of the scan that produced it (a scan that skips a comment and scans again takes the start again)."
	r.NotCov = []string{"that the position is the right one (arithmetic over the input), monotonicity and containment of spans, parser error locations"}
	r.Rule("single-conversion", "in pkg/sql/tokenizer every models.Location passed to an error builder or stored into TokenWithSpan.Start/End or Comment.Start/End is the result of a conversion function (a Tokenizer method returning models.Location computed from a byte offset) or built from constants only")
	r.Rule("one-based", "each conversion function returns a Location whose Line and Column are >= 1 on every path")
	tk := p.Pkg("pkg/sql/tokenizer")
	if tk == nil {
		r.Fatal("anchor not found: pkg/sql/tokenizer")
		return
	}
	// conversion functions: methods of Tokenizer returning models.Location
	conv := map[*ssa.Function]bool{}
	for _, fn := range p.SrcFuncs("pkg/sql/tokenizer") {
		if fn.Parent() != nil || fn.Signature.Recv() == nil || fn.Signature.Results().Len() != 1 || !isLocationType(fn.Signature.Results().At(0).Type()) {
			continue
		}
		if n := core.NamedOf(fn.Signature.Recv().Type()); n != nil && n.Obj().Name() == "Tokenizer" {
			conv[fn] = true
		}
	}
	if len(conv) < 2 {
		r.Fatal("anchor not found: Tokenizer methods returning models.Location (found %d)", len(conv))
		return
	}
	n := 0
	for _, fn := range p.SrcFuncs("pkg/sql/tokenizer") {
		if conv[fn] {
			continue
		}
		seq := map[string]int{}
		for _, b := range fn.Blocks {
			for _, in := range b.Instrs {
				var vals []ssa.Value
				what := ""
				switch x := in.(type) {
				case *ssa.Call:
					if f := x.Call.StaticCallee(); f != nil && core.FnPkg(f) != nil && strings.HasSuffix(core.FnPkg(f).Path(), "/pkg/errors") {
						for _, a := range x.Call.Args {
							if isLocationType(a.Type()) {
								vals = append(vals, a)
								what = f.Name()
							}
						}
					}
				case *ssa.Store:
					if fa, ok := x.Addr.(*ssa.FieldAddr); ok && isLocationType(x.Val.Type()) {
						tn := core.NamedOf(fa.X.Type())
						fn2 := core.FieldName(fa.X.Type(), fa.Field)
						if tn != nil && (tn.Obj().Name() == "TokenWithSpan" || tn.Obj().Name() == "Comment") && (fn2 == "Start" || fn2 == "End") {
							vals = append(vals, x.Val)
							what = tn.Obj().Name() + "." + fn2
						}
					}
				}
				for _, v := range vals {
					n++
					seq[what]++
					key := core.FnName(fn) + "|" + what + sprintf("#%d", seq[what])
					o := locationOrigin(v, conv, 0)
					switch {
					case o == "conversion" || o == "zero" || o == "literal-const":
						r.OK("single-conversion", key, p.Pos(in.Pos()), o)
					case strings.HasPrefix(o, "raw cursor field"):
						r.Violate("single-conversion", key, p.Pos(in.Pos()), "Location built from the "+o+" instead of the offset conversion: the cursor's column is 0-based after a newline, so the reported column is off by one on every line but the first")
					default:
						r.Violate("single-conversion", key, p.Pos(in.Pos()), "Location does not come from the offset conversion ("+o+")")
					}
				}
			}
		}
	}
	r.Floor("single-conversion", n, 12, "Location sinks in the tokenizer")
	// offset-only: the conversion is a function of the byte offset and the line table. The Line/Column the cursor
	// carries are bookkeeping that the scanners maintain loosely (the column restarts at 0 or at 1 after a newline
	// depending on the scanner; a jump of the offset leaves the line behind); a conversion that starts from them
	// inherits every such slip.
	r.Rule("offset-only", "the conversion functions (and what they call inside the tokenizer) read only the Index of a Position, never its Line or Column")
	{
		inTok := func(f *ssa.Function) bool { return f != nil && f.Blocks != nil && core.InPkgs(f, "pkg/sql/tokenizer") }
		var roots []*ssa.Function
		for f := range conv {
			roots = append(roots, f)
		}
		sort.Slice(roots, func(i, j int) bool { return core.FnName(roots[i]) < core.FnName(roots[j]) })
		reach := p.Reachable(roots, inTok)
		var fs []*ssa.Function
		for f := range reach {
			fs = append(fs, f)
		}
		sort.Slice(fs, func(i, j int) bool { return core.FnName(fs[i]) < core.FnName(fs[j]) })
		bad := 0
		for _, f := range fs {
			seq := 0
			for _, b := range f.Blocks {
				for _, in := range b.Instrs {
					var xt types.Type
					var fi int
					var pos token.Pos
					switch x := in.(type) {
					case *ssa.FieldAddr:
						xt, fi, pos = x.X.Type(), x.Field, x.Pos()
						// an address taken only to store into the field is not a read
						onlyStores := true
						for _, ref := range core.Referrers(x) {
							if st, ok := ref.(*ssa.Store); !ok || st.Addr != ssa.Value(x) {
								onlyStores = false
							}
						}
						if onlyStores {
							continue
						}
					case *ssa.Field:
						xt, fi, pos = x.X.Type(), x.Field, x.Pos()
					default:
						continue
					}
					nt := core.NamedOf(xt)
					if nt == nil || nt.Obj().Name() != "Position" || nt.Obj().Pkg() == nil || !core.PathHasSuffix(nt.Obj().Pkg().Path(), "pkg/sql/tokenizer") {
						continue
					}
					fname := core.FieldName(xt, fi)
					if fname != "Line" && fname != "Column" {
						continue
					}
					bad++
					seq++
					r.Violate("offset-only", core.FnName(f)+sprintf("|%s#%d", fname, seq), p.Pos(pos), "the conversion reads the cursor's own "+fname+" instead of deriving it from the offset and the line table: every scanner that moves the offset without keeping "+fname+" exact now shifts the reported positions")
				}
			}
		}
		if bad == 0 {
			r.OK("offset-only", "conversions", "-", sprintf("%d functions reachable from the %d conversion functions read Position.Index only", len(fs), len(conv)))
		}
	}
	runC05Start(c, conv)
	runC05Lookahead(c)
	c05Lockstep(c, c.P)
	c05LocationCopied(c, c.P)
	c.R.Floor("error-location-fresh", c05ErrorLocationFresh(c, c.P), 20, "error builders given a currentLocation()")
	// one-based
	be := newBoundsEngine(p)
	for fn := range conv {
		for _, b := range fn.Blocks {
			ret, ok := b.Instrs[len(b.Instrs)-1].(*ssa.Return)
			if !ok {
				continue
			}
			v := ret.Results[0]
			if call, isCall := v.(*ssa.Call); isCall {
				if f := call.Call.StaticCallee(); f != nil && conv[f] {
					r.OK("one-based", fn.Name()+"|delegates", p.Pos(ret.Pos()), "returns "+f.Name()+"(…)")
					continue
				}
			}
			// composite literal: Line and Column stores
			ld, ok := v.(*ssa.UnOp)
			if !ok {
				r.Undecide("one-based", fn.Name(), p.Pos(ret.Pos()), "returned Location is not a composite literal")
				continue
			}
			a, ok := ld.X.(*ssa.Alloc)
			if !ok {
				r.Undecide("one-based", fn.Name(), p.Pos(ret.Pos()), "returned Location is not a composite literal")
				continue
			}
			for _, ref := range core.Referrers(a) {
				fa, ok := ref.(*ssa.FieldAddr)
				if !ok {
					continue
				}
				fname := core.FieldName(fa.X.Type(), fa.Field)
				for _, r2 := range core.Referrers(fa) {
					st, ok := r2.(*ssa.Store)
					if !ok || st.Addr != ssa.Value(fa) {
						continue
					}
					key := fn.Name() + "|" + fname
					if atLeastOne(be, st.Val, st, 0) {
						r.OK("one-based", key, p.Pos(st.Pos()), ">= 1 on every path")
					} else {
						r.Violate("one-based", key, p.Pos(st.Pos()), fname+" of the returned Location is not provably >= 1")
					}
				}
			}
		}
	}
}

// atLeastOne: v >= 1 by construction: constants, phis of such (cycles taken
// optimistically: an induction that only adds non-negative steps), x + c with
// x >= 0 and c >= 1 (or x >= 1 and c >= 0); facts are taken where v is computed.
func atLeastOne(be *boundsEngine, v ssa.Value, use ssa.Instruction, depth int) bool {
	return atLeastOneB(be, v, use, depth, map[ssa.Value]bool{})
}

func atLeastOneB(be *boundsEngine, v ssa.Value, use ssa.Instruction, depth int, busy map[ssa.Value]bool) bool {
	if depth > 10 {
		return false
	}
	if k, ok := core.ConstInt(v); ok {
		return k >= 1
	}
	if busy[v] {
		return true
	}
	busy[v] = true
	defer delete(busy, v)
	at := use
	if in, ok := v.(ssa.Instruction); ok {
		at = in
	}
	switch x := v.(type) {
	case *ssa.Phi:
		for i, e := range x.Edges {
			if atLeastOneB(be, e, use, depth+1, busy) {
				continue
			}
			// a guard on the incoming edge: `if n > 0 { line = n }`
			pred := x.Block().Preds[i]
			last := pred.Instrs[len(pred.Instrs)-1]
			one := lin{"", 1, nil, true}
			ok := false
			for _, mode := range []bool{false, true} {
				be.pathMode = mode
				if be.leq(one, be.linOf(e), 0, be.edgeFacts(pred, x.Block()), last) {
					ok = true
				}
			}
			be.pathMode = false
			if !ok {
				return false
			}
		}
		return true
	case *ssa.BinOp:
		if x.Op == token.ADD {
			facts := be.dominatingFacts(at.Block())
			if k, ok := core.ConstInt(x.Y); ok {
				if k >= 1 && be.nonneg(x.X, facts, at, 0, map[ssa.Value]bool{}) {
					return true
				}
				if k >= 0 && atLeastOneB(be, x.X, use, depth+1, busy) {
					return true
				}
			}
			if atLeastOneB(be, x.X, use, depth+1, busy) && be.nonneg(x.Y, facts, at, 0, map[ssa.Value]bool{}) {
				return true
			}
		}
	case *ssa.Convert:
		return atLeastOneB(be, x.X, use, depth+1, busy)
	}
	return false
}

// ---- start-at-token ------------------------------------------------------------------------

var c05CursorKeys = []string{"Tokenizer.pos", "Position.Index", "Position.Line", "Position.Column"}

func c05MovesCursor(be *boundsEngine, p *core.Prog, in ssa.Instruction) bool {
	switch x := in.(type) {
	case *ssa.Store:
		for a := x.Addr; ; {
			fa, ok := a.(*ssa.FieldAddr)
			if !ok {
				return false
			}
			k := fieldKey(fa.X, fa.Field)
			for _, c := range c05CursorKeys {
				if k == c {
					return true
				}
			}
			a = fa.X
		}
	case ssa.CallInstruction:
		if _, isB := x.Common().Value.(*ssa.Builtin); isB {
			return false
		}
		for _, c := range p.Callees(x) {
			if c.Blocks == nil {
				continue
			}
			ms := be.modSet(c)
			for _, k := range c05CursorKeys {
				if ms[k] {
					return true
				}
			}
		}
	}
	return false
}

// c05OnCycleAvoiding: can control leave instruction c and reach it again without executing instruction avoid?
func c05OnCycleAvoiding(c, avoid ssa.Instruction) bool {
	cb := c.Block()
	idx := func(b *ssa.BasicBlock, in ssa.Instruction) int {
		for i, x := range b.Instrs {
			if x == in {
				return i
			}
		}
		return -1
	}
	ci := idx(cb, c)
	// scan from just after c
	seen := map[*ssa.BasicBlock]bool{}
	var scan func(b *ssa.BasicBlock, from int) bool
	scan = func(b *ssa.BasicBlock, from int) bool {
		for i := from; i < len(b.Instrs); i++ {
			if avoid != nil && b.Instrs[i] == avoid {
				return false
			}
			if b.Instrs[i] == c {
				return true
			}
		}
		for _, s := range b.Succs {
			if seen[s] {
				continue
			}
			seen[s] = true
			if scan(s, 0) {
				return true
			}
		}
		return false
	}
	return scan(cb, ci+1)
}

// c05ProducingCall: the call whose result is the token value v (nil when v is built in place).
func c05ProducingCall(v ssa.Value) (*ssa.Call, int) {
	switch x := v.(type) {
	case *ssa.Extract:
		if c, ok := x.Tuple.(*ssa.Call); ok {
			return c, x.Index
		}
	case *ssa.Call:
		return x, 0
	}
	return nil, 0
}

// c05ScansOnce: following the token value down the call chain, no producing call sits in a loop of its function.
func c05ScansOnce(p *core.Prog, c *ssa.Call, idx int, depth int) (bool, string) {
	if depth > 6 {
		return true, ""
	}
	g := c.Call.StaticCallee()
	if g == nil || g.Blocks == nil {
		return true, ""
	}
	for _, b := range g.Blocks {
		ret, ok := b.Instrs[len(b.Instrs)-1].(*ssa.Return)
		if !ok || idx >= len(ret.Results) {
			continue
		}
		c2, i2 := c05ProducingCall(retOperand(ret, idx))
		if c2 == nil {
			continue
		}
		if c05OnCycleAvoiding(c2, nil) {
			f2 := "a function value"
			if sc := c2.Call.StaticCallee(); sc != nil {
				f2 = sc.Name()
			}
			return false, g.Name() + " calls " + f2 + " in a loop (it scans again after skipping), so it may scan more than once per call"
		}
		if ok, why := c05ScansOnce(p, c2, i2, depth+1); !ok {
			return false, why
		}
	}
	return true, ""
}

// c05StartOK: the cursor value P used as the start of the token T is the cursor at the beginning of the scan that produced T.
func c05StartOK(be *boundsEngine, p *core.Prog, T, P ssa.Value, depth int) (bool, string) {
	if depth > 6 {
		return false, "call chain too deep"
	}
	c, ti := c05ProducingCall(T)
	if c == nil {
		return true, "token built in place"
	}
	_ = ti
	// (a) the start is returned by the same call: check inside the callee
	if ex, ok := P.(*ssa.Extract); ok && ex.Tuple == ssa.Value(c) {
		g := c.Call.StaticCallee()
		if g == nil || g.Blocks == nil {
			return false, "start comes from a call that cannot be resolved"
		}
		for _, b := range g.Blocks {
			ret, ok := b.Instrs[len(b.Instrs)-1].(*ssa.Return)
			if !ok {
				continue
			}
			if ok, why := c05StartOK(be, p, retOperand(ret, ti), retOperand(ret, ex.Index), depth+1); !ok {
				return false, why
			}
		}
		return true, "start returned together with the token"
	}
	// (b) a cursor snapshot taken in this function
	var ld ssa.Instruction
	switch x := P.(type) {
	case *ssa.UnOp:
		if fa, ok := x.X.(*ssa.FieldAddr); ok && fieldKey(fa.X, fa.Field) == "Tokenizer.pos" {
			ld = x
		}
	case *ssa.Call:
		if f := x.Call.StaticCallee(); f != nil && f.Name() == "Clone" && len(x.Call.Args) == 1 {
			if u, ok := x.Call.Args[0].(*ssa.UnOp); ok {
				if fa, ok := u.X.(*ssa.FieldAddr); ok && fieldKey(fa.X, fa.Field) == "Tokenizer.pos" {
					ld = x
				}
			}
		}
	}
	if ld == nil {
		return false, "the start position is neither returned with the token nor a snapshot of the cursor"
	}
	if ld.Parent() != c.Parent() || !ld.Block().Dominates(c.Block()) {
		return false, "the cursor snapshot is not taken on the way to the scan"
	}
	// same iteration: every way from the scan back to the scan passes the snapshot
	if c05OnCycleAvoiding(c, ld) {
		return false, "the scan can run again without the start being taken again"
	}
	// nothing moves the cursor between the snapshot and the scan
	seen := map[*ssa.BasicBlock]bool{}
	var walk func(b *ssa.BasicBlock, from int) (bool, ssa.Instruction)
	walk = func(b *ssa.BasicBlock, from int) (bool, ssa.Instruction) {
		for i := from; i < len(b.Instrs); i++ {
			in := b.Instrs[i]
			if in == ssa.Instruction(c) {
				return false, nil
			}
			if in == ld {
				return false, nil
			}
			if c05MovesCursor(be, p, in) {
				return true, in
			}
		}
		for _, s := range b.Succs {
			if seen[s] || !core.BlockReaches(s, c.Block()) {
				continue
			}
			seen[s] = true
			if bad, at := walk(s, 0); bad {
				return true, at
			}
		}
		return false, nil
	}
	start := 0
	for i, in := range ld.Block().Instrs {
		if in == ld {
			start = i + 1
		}
	}
	if bad, at := walk(ld.Block(), start); bad {
		return false, "the cursor may move between the snapshot and the scan (" + p.Pos(at.Pos()) + ")"
	}
	// the scan itself produces exactly one element per call
	if ok, why := c05ScansOnce(p, c, ti, 0); !ok {
		return false, "the start is taken before the call, but " + why + ": a token that follows a comment gets the comment's position"
	}
	return true, "snapshot immediately before a single scan"
}

func runC05Start(c *Ctx, conv map[*ssa.Function]bool) {
	r, p := c.R, c.P
	r.Rule("start-at-token", "the Start of every emitted token is the cursor at the beginning of the scan that produced that token: it is returned together with the token, or captured immediately before a call that scans exactly once (no loop that skips a comment and scans again between the capture and the token)")
	be := newBoundsEngine(p)
	n := 0
	for _, fn := range p.SrcFuncs("pkg/sql/tokenizer") {
		seq := 0
		for _, b := range fn.Blocks {
			for _, in := range b.Instrs {
				st, ok := in.(*ssa.Store)
				if !ok {
					continue
				}
				fa, ok := st.Addr.(*ssa.FieldAddr)
				if !ok {
					continue
				}
				tn := core.NamedOf(fa.X.Type())
				if tn == nil || tn.Obj().Name() != "TokenWithSpan" || core.FieldName(fa.X.Type(), fa.Field) != "Start" {
					continue
				}
				call, ok := st.Val.(*ssa.Call)
				if !ok {
					continue
				}
				f := call.Call.StaticCallee()
				if f == nil || !conv[f] {
					continue
				}
				var P ssa.Value
				for _, a := range call.Call.Args[1:] {
					if n := core.NamedOf(a.Type()); n != nil && n.Obj().Name() == "Position" {
						P = a
					}
				}
				if P == nil {
					continue // current position (no snapshot involved)
				}
				if u, ok := P.(*ssa.UnOp); ok && u.Op == token.MUL {
					if pfa, ok := u.X.(*ssa.FieldAddr); ok && core.FieldName(pfa.X.Type(), pfa.Field) == "pos" {
						// toSQLPosition(t.pos) is getCurrentPosition() written out: the cursor read at this very point
						if u.Block() == st.Block() {
							continue
						}
					}
				}
				// the token stored in the same struct
				var T ssa.Value
				for _, ref := range core.Referrers(fa.X) {
					fa2, ok := ref.(*ssa.FieldAddr)
					if !ok || core.FieldName(fa2.X.Type(), fa2.Field) != "Token" {
						continue
					}
					for _, r2 := range core.Referrers(fa2) {
						if s2, ok := r2.(*ssa.Store); ok && s2.Addr == ssa.Value(fa2) {
							T = s2.Val
						}
					}
				}
				seq++
				n++
				key := core.FnName(fn) + sprintf("|Start#%d", seq)
				if T == nil {
					r.Undecide("start-at-token", key, p.Pos(st.Pos()), "cannot find the token stored next to this Start")
					continue
				}
				if ok, why := c05StartOK(be, p, T, P, 0); ok {
					r.OK("start-at-token", key, p.Pos(st.Pos()), why)
				} else {
					r.Violate("start-at-token", key, p.Pos(st.Pos()), why)
				}
			}
		}
	}
	r.Floor("start-at-token", n, 1, "token Start stores with a cursor snapshot")
}

// ---- lookahead-restore ---------------------------------------------------------------------

// isCursorSnapshot: v is a copy of the tokenizer cursor (t.pos or t.pos.Clone()).
// isPosIndexAddr: &t.pos.Index
func isPosIndexAddr(a ssa.Value) bool {
	fa, ok := a.(*ssa.FieldAddr)
	if !ok || core.FieldName(fa.X.Type(), fa.Field) != "Index" {
		return false
	}
	inner, ok := fa.X.(*ssa.FieldAddr)
	return ok && fieldKey(inner.X, inner.Field) == "Tokenizer.pos"
}

func isCursorSnapshot(v ssa.Value) bool {
	switch x := v.(type) {
	case *ssa.UnOp:
		if fa, ok := x.X.(*ssa.FieldAddr); ok && x.Op == token.MUL && fieldKey(fa.X, fa.Field) == "Tokenizer.pos" {
			return true
		}
		// the byte offset alone (`save := t.pos.Index … t.pos.Index = save`)
		if x.Op == token.MUL && isPosIndexAddr(x.X) {
			return true
		}
	case *ssa.Call:
		if f := x.Call.StaticCallee(); f != nil && f.Name() == "Clone" && len(x.Call.Args) == 1 {
			return isCursorSnapshot(x.Call.Args[0])
		}
	}
	return false
}

// definedAfter: is v (or something it is computed from) produced by an instruction that runs after `at`?
func definedAfter(v ssa.Value, at ssa.Instruction, depth int, seen map[ssa.Value]bool) bool {
	if depth > 6 || seen[v] {
		return false
	}
	seen[v] = true
	in, ok := v.(ssa.Instruction)
	if !ok {
		return false
	}
	if in.Block() == at.Block() {
		after := false
		for _, x := range in.Block().Instrs {
			if x == at {
				after = true
				continue
			}
			if x == in && after {
				return true
			}
		}
	} else if at.Block().Dominates(in.Block()) {
		return true
	}
	var ops []*ssa.Value
	for _, o := range in.Operands(ops) {
		if *o != nil && definedAfter(*o, at, depth+1, seen) {
			return true
		}
	}
	return false
}

// returnedTokenParts: the values stored into the Token composite returned by ret (or the returned value itself).
func returnedTokenParts(ret *ssa.Return) []ssa.Value {
	if len(ret.Results) == 0 {
		return nil
	}
	v := retOperand(ret, 0)
	var out []ssa.Value
	if u, ok := v.(*ssa.UnOp); ok {
		if a, ok := u.X.(*ssa.Alloc); ok {
			for _, ref := range core.Referrers(a) {
				if fa, ok := ref.(*ssa.FieldAddr); ok {
					for _, r2 := range core.Referrers(fa) {
						if st, ok := r2.(*ssa.Store); ok && st.Addr == ssa.Value(fa) {
							out = append(out, st.Val)
						}
					}
				}
			}
			return out
		}
	}
	return []ssa.Value{v}
}

func runC05Lookahead(c *Ctx) {
	r, p := c.R, c.P
	r.Rule("lookahead-restore", "a reader that snapshots the cursor to look ahead (and restores it somewhere) restores it on every path to a return whose token is built only from what was read before the snapshot; otherwise the token's End (and the next token's Start) lies after text that does not belong to it")
	n := 0
	for _, fn := range p.SrcFuncs("pkg/sql/tokenizer") {
		seq := 0
		for _, b := range fn.Blocks {
			for _, in := range b.Instrs {
				snap, ok := in.(ssa.Value)
				if !ok || !isCursorSnapshot(snap) {
					continue
				}
				if c, isCall := snap.(*ssa.Call); !isCall {
					// a plain load that only feeds a Clone() is the Clone's business
					feedsClone := false
					for _, ref := range core.Referrers(snap) {
						if rc, ok := ref.(*ssa.Call); ok && isCursorSnapshot(rc) {
							feedsClone = true
						}
					}
					if feedsClone {
						continue
					}
					_ = c
				}
				// restores: stores of the snapshot back into the cursor
				restores := map[ssa.Instruction]bool{}
				for _, ref := range core.Referrers(snap) {
					if st, ok := ref.(*ssa.Store); ok && st.Val == snap {
						if fa, ok := st.Addr.(*ssa.FieldAddr); ok && fieldKey(fa.X, fa.Field) == "Tokenizer.pos" {
							restores[st] = true
						}
						if isPosIndexAddr(st.Addr) {
							restores[st] = true
						}
					}
				}
				if len(restores) == 0 {
					continue // a start-of-token snapshot, not a lookahead
				}
				seq++
				n++
				key := core.FnName(fn) + sprintf("|snapshot#%d", seq)
				// walk forward from the snapshot; stop at restores; a reached return must be a commit
				seen := map[*ssa.BasicBlock]bool{}
				var bad *ssa.Return
				var walk func(bb *ssa.BasicBlock, from int)
				walk = func(bb *ssa.BasicBlock, from int) {
					for i := from; i < len(bb.Instrs) && bad == nil; i++ {
						x := bb.Instrs[i]
						if restores[x] {
							return
						}
						if ret, ok := x.(*ssa.Return); ok {
							commit := false
							for _, part := range returnedTokenParts(ret) {
								if definedAfter(part, in, 0, map[ssa.Value]bool{}) {
									commit = true
								}
							}
							// an error return is a commit too (the scan is abandoned)
							if len(ret.Results) > 1 && !core.IsNilConst(retOperand(ret, len(ret.Results)-1)) {
								commit = true
							}
							if !commit {
								bad = ret
							}
							return
						}
					}
					for _, s := range bb.Succs {
						if !seen[s] && bad == nil {
							seen[s] = true
							walk(s, 0)
						}
					}
				}
				start := 0
				for i, x := range b.Instrs {
					if x == in {
						start = i + 1
					}
				}
				walk(b, start)
				if bad != nil {
					r.Violate("lookahead-restore", key, p.Pos(bad.Pos()), "this return yields a token built from text read before the look-ahead snapshot at "+p.Pos(in.Pos())+", but a path from the snapshot reaches it without restoring the cursor: the token's End includes the text skipped while looking ahead")
				} else {
					r.OK("lookahead-restore", key, p.Pos(in.Pos()), sprintf("%d restore site(s); every non-committing return is behind one", len(restores)))
				}
			}
		}
	}
	r.Floor("lookahead-restore", n, 1, "look-ahead snapshots in the tokenizer")
}
