package rules

import (
	"go/token"
	"go/types"
	"strings"

	"golang.org/x/tools/go/ssa"

	"gosqlxsa/core"
)

func init() { Registry["C05"] = runC05 }

func isLocationType(t types.Type) bool {
	n := core.NamedOf(t)
	return n != nil && n.Obj().Name() == "Location" && n.Obj().Pkg() != nil && strings.HasSuffix(n.Obj().Pkg().Path(), "/pkg/models")
}

// locationOrigin classifies where a models.Location value comes from.
func locationOrigin(v ssa.Value, conv map[*ssa.Function]bool, depth int) string {
	if depth > 8 || v == nil {
		return "unknown"
	}
	switch x := v.(type) {
	case *ssa.Call:
		if f := x.Call.StaticCallee(); f != nil {
			if conv[f] {
				return "conversion"
			}
			return "call " + f.Name()
		}
		return "dynamic call"
	case *ssa.Const:
		return "zero"
	case *ssa.Phi:
		out := ""
		for _, e := range x.Edges {
			o := locationOrigin(e, conv, depth+1)
			if o != "conversion" && o != "zero" && o != "literal-const" {
				return o
			}
			out = o
		}
		return out
	case *ssa.UnOp:
		if x.Op != token.MUL {
			return "unknown"
		}
		switch a := x.X.(type) {
		case *ssa.Alloc:
			// composite literal / local: look at the stores
			res := "zero"
			for _, ref := range core.Referrers(a) {
				switch r := ref.(type) {
				case *ssa.FieldAddr:
					for _, r2 := range core.Referrers(r) {
						st, ok := r2.(*ssa.Store)
						if !ok || st.Addr != ssa.Value(r) {
							continue
						}
						if _, isC := st.Val.(*ssa.Const); isC {
							if res == "zero" {
								res = "literal-const"
							}
							continue
						}
						if cursorField(st.Val) != "" {
							return "raw cursor field " + cursorField(st.Val)
						}
						return "computed field"
					}
				case *ssa.Store:
					if r.Addr == ssa.Value(a) {
						o := locationOrigin(r.Val, conv, depth+1)
						if o != "zero" {
							res = o
						}
					}
				}
			}
			return res
		case *ssa.FieldAddr:
			return "field " + core.FieldName(a.X.Type(), a.Field)
		}
	case *ssa.Extract:
		return locationOrigin(x.Tuple, conv, depth+1)
	case *ssa.Parameter:
		return "parameter"
	case *ssa.Field:
		return "field " + core.FieldName(x.X.Type(), x.Field)
	}
	return "unknown"
}

// cursorField: v is a load of <Position>.Line / .Column.
func cursorField(v ssa.Value) string {
	var x ssa.Value
	var idx int
	switch l := v.(type) {
	case *ssa.UnOp:
		fa, ok := l.X.(*ssa.FieldAddr)
		if !ok {
			return ""
		}
		x, idx = fa.X, fa.Field
	case *ssa.Field:
		x, idx = l.X, l.Field
	default:
		return ""
	}
	n := core.NamedOf(x.Type())
	if n == nil || n.Obj().Name() != "Position" {
		return ""
	}
	f := core.FieldName(x.Type(), idx)
	if f == "Line" || f == "Column" {
		return "Position." + f
	}
	return ""
}

func runC05(c *Ctx) {
	r, p := c.R, c.P
	r.Summary = "C05 (reported source positions point at the right characters): decided clauses = every models.Location the tokenizer puts into a token span, a comment or an error comes from the single offset-to-line/column conversion (toSQLPosition / getCurrentPosition / getLocation) or is a constant; a Location assembled from the raw cursor fields Position.Line/Column is reported (the cursor's column convention differs after a newline); the conversion functions return Line >= 1 and Column >= 1 on every path."
	r.NotCov = []string{"that the position is the right one (arithmetic over the input), monotonicity and containment of spans, parser error locations, the token-after-comment start position"}
	r.Rule("single-conversion", "in pkg/sql/tokenizer every models.Location passed to an error builder or stored into TokenWithSpan.Start/End or Comment.Start/End is the result of a conversion function (a Tokenizer method returning models.Location computed from a byte offset) or built from constants only")
	r.Rule("one-based", "each conversion function returns a Location whose Line and Column are >= 1 on every path")
	tk := p.Pkg("pkg/sql/tokenizer")
	if tk == nil {
		r.Fatal("anchor not found: pkg/sql/tokenizer")
		return
	}
	// conversion functions: methods of Tokenizer returning models.Location
	conv := map[*ssa.Function]bool{}
	for _, fn := range p.SrcFuncs("pkg/sql/tokenizer") {
		if fn.Parent() != nil || fn.Signature.Recv() == nil || fn.Signature.Results().Len() != 1 || !isLocationType(fn.Signature.Results().At(0).Type()) {
			continue
		}
		if n := core.NamedOf(fn.Signature.Recv().Type()); n != nil && n.Obj().Name() == "Tokenizer" {
			conv[fn] = true
		}
	}
	if len(conv) < 2 {
		r.Fatal("anchor not found: Tokenizer methods returning models.Location (found %d)", len(conv))
		return
	}
	n := 0
	for _, fn := range p.SrcFuncs("pkg/sql/tokenizer") {
		if conv[fn] {
			continue
		}
		seq := map[string]int{}
		for _, b := range fn.Blocks {
			for _, in := range b.Instrs {
				var vals []ssa.Value
				what := ""
				switch x := in.(type) {
				case *ssa.Call:
					if f := x.Call.StaticCallee(); f != nil && core.FnPkg(f) != nil && strings.HasSuffix(core.FnPkg(f).Path(), "/pkg/errors") {
						for _, a := range x.Call.Args {
							if isLocationType(a.Type()) {
								vals = append(vals, a)
								what = f.Name()
							}
						}
					}
				case *ssa.Store:
					if fa, ok := x.Addr.(*ssa.FieldAddr); ok && isLocationType(x.Val.Type()) {
						tn := core.NamedOf(fa.X.Type())
						fn2 := core.FieldName(fa.X.Type(), fa.Field)
						if tn != nil && (tn.Obj().Name() == "TokenWithSpan" || tn.Obj().Name() == "Comment") && (fn2 == "Start" || fn2 == "End") {
							vals = append(vals, x.Val)
							what = tn.Obj().Name() + "." + fn2
						}
					}
				}
				for _, v := range vals {
					n++
					seq[what]++
					key := core.FnName(fn) + "|" + what + sprintf("#%d", seq[what])
					o := locationOrigin(v, conv, 0)
					switch {
					case o == "conversion" || o == "zero" || o == "literal-const":
						r.OK("single-conversion", key, p.Pos(in.Pos()), o)
					case strings.HasPrefix(o, "raw cursor field"):
						r.Violate("single-conversion", key, p.Pos(in.Pos()), "Location built from the "+o+" instead of the offset conversion: the cursor's column is 0-based after a newline, so the reported column is off by one on every line but the first")
					default:
						r.Violate("single-conversion", key, p.Pos(in.Pos()), "Location does not come from the offset conversion ("+o+")")
					}
				}
			}
		}
	}
	r.Floor("single-conversion", n, 20, "Location sinks in the tokenizer")
	// one-based
	be := newBoundsEngine(p)
	for fn := range conv {
		for _, b := range fn.Blocks {
			ret, ok := b.Instrs[len(b.Instrs)-1].(*ssa.Return)
			if !ok {
				continue
			}
			v := ret.Results[0]
			if call, isCall := v.(*ssa.Call); isCall {
				if f := call.Call.StaticCallee(); f != nil && conv[f] {
					r.OK("one-based", fn.Name()+"|delegates", p.Pos(ret.Pos()), "returns "+f.Name()+"(…)")
					continue
				}
			}
			// composite literal: Line and Column stores
			ld, ok := v.(*ssa.UnOp)
			if !ok {
				r.Undecide("one-based", fn.Name(), p.Pos(ret.Pos()), "returned Location is not a composite literal")
				continue
			}
			a, ok := ld.X.(*ssa.Alloc)
			if !ok {
				r.Undecide("one-based", fn.Name(), p.Pos(ret.Pos()), "returned Location is not a composite literal")
				continue
			}
			for _, ref := range core.Referrers(a) {
				fa, ok := ref.(*ssa.FieldAddr)
				if !ok {
					continue
				}
				fname := core.FieldName(fa.X.Type(), fa.Field)
				for _, r2 := range core.Referrers(fa) {
					st, ok := r2.(*ssa.Store)
					if !ok || st.Addr != ssa.Value(fa) {
						continue
					}
					key := fn.Name() + "|" + fname
					if atLeastOne(be, st.Val, st, 0) {
						r.OK("one-based", key, p.Pos(st.Pos()), ">= 1 on every path")
					} else {
						r.Violate("one-based", key, p.Pos(st.Pos()), fname+" of the returned Location is not provably >= 1")
					}
				}
			}
		}
	}
}

// atLeastOne: v >= 1 by construction: constants, phis of such (cycles taken
// optimistically: an induction that only adds non-negative steps), x + c with
// x >= 0 and c >= 1 (or x >= 1 and c >= 0); facts are taken where v is computed.
func atLeastOne(be *boundsEngine, v ssa.Value, use ssa.Instruction, depth int) bool {
	return atLeastOneB(be, v, use, depth, map[ssa.Value]bool{})
}

func atLeastOneB(be *boundsEngine, v ssa.Value, use ssa.Instruction, depth int, busy map[ssa.Value]bool) bool {
	if depth > 10 {
		return false
	}
	if k, ok := core.ConstInt(v); ok {
		return k >= 1
	}
	if busy[v] {
		return true
	}
	busy[v] = true
	defer delete(busy, v)
	at := use
	if in, ok := v.(ssa.Instruction); ok {
		at = in
	}
	switch x := v.(type) {
	case *ssa.Phi:
		for _, e := range x.Edges {
			if !atLeastOneB(be, e, use, depth+1, busy) {
				return false
			}
		}
		return true
	case *ssa.BinOp:
		if x.Op == token.ADD {
			facts := be.dominatingFacts(at.Block())
			if k, ok := core.ConstInt(x.Y); ok {
				if k >= 1 && be.nonneg(x.X, facts, at, 0, map[ssa.Value]bool{}) {
					return true
				}
				if k >= 0 && atLeastOneB(be, x.X, use, depth+1, busy) {
					return true
				}
			}
			if atLeastOneB(be, x.X, use, depth+1, busy) && be.nonneg(x.Y, facts, at, 0, map[ssa.Value]bool{}) {
				return true
			}
		}
	case *ssa.Convert:
		return atLeastOneB(be, x.X, use, depth+1, busy)
	}
	return false
}
