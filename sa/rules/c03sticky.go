package rules

import (
	"go/types"
	"strings"

	"golang.org/x/tools/go/ssa"

	"gosqlxsa/core"
)

// sticky-modifier: inside a parser loop that builds one node per iteration (set-operation chains, lists of
// columns / items), a scalar written into a node field must be computed in that iteration. A variable declared
// outside the loop and only ever *set* inside it (all = true under `if ALL`) keeps its value for the following
// iterations: a modifier written once (UNION ALL) is attached to every later element (… UNION …).
func c03Sticky(c *Ctx, p *core.Prog) {
	r := c.R
	r.Rule("sticky-modifier", "in parser loops, a boolean/string/number stored into a field of an AST node is not a loop-carried variable that can retain the previous iteration's value (a header phi that reaches itself through the loop body without a fresh assignment)")
	astPk := p.Pkg("pkg/sql/ast")
	if astPk == nil {
		r.Fatal("anchor not found: pkg/sql/ast")
		return
	}
	n := 0
	for _, fn := range p.SrcFuncs("pkg/sql/parser") {
		sccs := blockSCCs(fn, nil, nil, nil)
		if len(sccs) == 0 {
			continue
		}
		seq := 0
		for _, scc := range sccs {
			in := blockSet(scc)
			// can value v be header phi ph without a fresh definition (through phis only)?
			var reaches func(v ssa.Value, ph *ssa.Phi, seen map[ssa.Value]bool) bool
			reaches = func(v ssa.Value, ph *ssa.Phi, seen map[ssa.Value]bool) bool {
				if v == ssa.Value(ph) {
					return true
				}
				x, ok := v.(*ssa.Phi)
				if !ok || seen[x] || !in[x.Block()] {
					return false
				}
				seen[x] = true
				for _, e := range x.Edges {
					if reaches(e, ph, seen) {
						return true
					}
				}
				return false
			}
			sticky := func(ph *ssa.Phi) bool {
				for i, e := range ph.Edges {
					if in[ph.Block().Preds[i]] && reaches(e, ph, map[ssa.Value]bool{}) {
						return true
					}
				}
				return false
			}
			for _, b := range scc {
				for _, ins := range b.Instrs {
					st, ok := ins.(*ssa.Store)
					if !ok {
						continue
					}
					fa, ok := st.Addr.(*ssa.FieldAddr)
					if !ok {
						continue
					}
					T := core.NamedOf(fa.X.Type())
					if T == nil || T.Obj().Pkg() != astPk.Types {
						continue
					}
					if _, isBasic := st.Val.Type().Underlying().(*types.Basic); !isBasic {
						continue
					}
					n++
					// find a header phi the stored value can be (through phis of this loop)
					var culprit *ssa.Phi
					var walk func(v ssa.Value, seen map[ssa.Value]bool)
					walk = func(v ssa.Value, seen map[ssa.Value]bool) {
						x, ok := v.(*ssa.Phi)
						if !ok || seen[x] || !in[x.Block()] || culprit != nil {
							return
						}
						seen[x] = true
						if sticky(x) {
							culprit = x
							return
						}
						for _, e := range x.Edges {
							walk(e, seen)
						}
					}
					walk(st.Val, map[ssa.Value]bool{})
					if culprit == nil {
						continue
					}
					seq++
					name := culprit.Comment
					if name == "" {
						name = culprit.Name()
					}
					key := core.FnName(fn) + "|" + T.Obj().Name() + "." + core.FieldName(fa.X.Type(), fa.Field) + sprintf("#%d", seq)
					r.Violate("sticky-modifier", key, p.Pos(st.Pos()), "the value stored into "+T.Obj().Name()+"."+core.FieldName(fa.X.Type(), fa.Field)+" is the loop-carried variable `"+name+"`, which keeps the previous iteration's value when this iteration does not assign it: a modifier written on an earlier element is attached to the later ones as well")
				}
			}
		}
	}
	r.OK("sticky-modifier", "scan", "-", sprintf("%d scalar stores into AST node fields inside parser loops examined", n))
	r.Floor("sticky-modifier", n, 20, "scalar stores into node fields inside parser loops")
}

var _ = strings.TrimSpace
