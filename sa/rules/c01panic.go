package rules

import (
	"go/ast"
	goparser "go/parser"
	"regexp"
	"os"
	"go/token"
	"go/types"
	"sort"
	"strings"

	"golang.org/x/tools/go/ssa"

	"gosqlxsa/core"
)

// c01Roots: the public entry points named by the property.
func c01Roots(p *core.Prog) []*ssa.Function {
	var roots []*ssa.Function
	for _, rel := range []string{"pkg/gosqlx", "pkg/sql/tokenizer", "pkg/sql/parser", "pkg/sql/ast", "pkg/sql/security", "pkg/linter", "pkg/sql/keywords", "pkg/errors", "pkg/formatter"} {
		for _, fn := range p.SrcFuncs(rel) {
			if fn.Parent() != nil || fn.Object() == nil || !fn.Object().Exported() {
				continue
			}
			if fn.Name() == "MustParse" {
				continue // documented to panic
			}
			if recv := fn.Signature.Recv(); recv != nil {
				if n := core.NamedOf(recv.Type()); n == nil || !n.Obj().Exported() {
					continue
				}
			}
			roots = append(roots, fn)
		}
	}
	return roots
}

var boundsPkgs = []string{"pkg/formatter", "pkg/sql/tokenizer", "pkg/sql/parser", "pkg/sql/ast", "pkg/gosqlx", "pkg/sql/security", "pkg/errors", "pkg/sql/keywords", "pkg/sql/token", "pkg/models", "pkg/metrics", "pkg/linter", "pkg/linter/rules/whitespace", "pkg/linter/rules/keywords", "pkg/linter/rules/style"}

func c01Panics(c *Ctx) {
	r, p := c.R, c.P
	r.Rule("no-panic", "no function reachable from a public entry point (MustParse excepted) executes panic(), regexp.MustCompile on a non-constant pattern, or strings.Repeat with a count that is not provably non-negative")
	r.Rule("type-assert", "every single-result type assertion x.(T) in scope is applied to the result of sync.Pool.Get (whose dynamic type is fixed by C09's pool-type rule); everything else uses the comma-ok form or a type switch")
	r.Rule("bounds", "every index and slice expression on a slice, string or array in the parsing packages is within bounds by a dominating guard (range/counted loop, comparison with len, constant index under a length test, caller-established precondition), or is listed in the audited table with its reason")
	r.Rule("children-nil-guard", "in every Children() method a pointer-typed field converted to the Node interface is converted only under a nil test of that same field (a typed nil inside an interface would pass Walk's nil check and crash in the callee)")
	r.Rule("recover-barrier", "Tokenize and TokenizeContext run their scanning loop inside a function literal that defers a closure calling recover() and storing the error result")
	roots := c01Roots(p)
	reach := p.Reachable(roots, func(f *ssa.Function) bool { return core.InModule(f) && f.Blocks != nil })
	var fns []*ssa.Function
	for f := range reach {
		if f.Blocks != nil && f.Synthetic == "" {
			fns = append(fns, f)
		}
	}
	sort.Slice(fns, func(i, j int) bool {
		a, b := core.FnName(fns[i]), core.FnName(fns[j])
		if a != b {
			return a < b
		}
		return fns[i].Pos() < fns[j].Pos()
	})
	r.Extra("entry_points", len(roots))
	r.Extra("functions_in_scope", len(fns))
	r.Floor("no-panic", len(fns), 400, "functions reachable from the entry points")
	be := newBoundsEngine(p)
	// R1 / R2
	npanic, nassert := 0, 0
	for _, fn := range fns {
		seq := map[string]int{}
		for _, b := range fn.Blocks {
			for _, in := range b.Instrs {
				switch x := in.(type) {
				case *ssa.Panic:
					npanic++
					seq["panic"]++
					r.Violate("no-panic", core.FnName(fn)+sprintf("|panic#%d", seq["panic"]), p.Pos(x.Pos()), "explicit panic reachable from a public entry point")
				case *ssa.Call:
					if f := x.Call.StaticCallee(); f != nil && core.FnPkg(f) != nil {
						switch core.FnPkg(f).Path() + "." + f.Name() {
						case "regexp.MustCompile":
							if _, isC := x.Call.Args[0].(*ssa.Const); !isC {
								seq["mc"]++
								r.Violate("no-panic", core.FnName(fn)+sprintf("|MustCompile#%d", seq["mc"]), p.Pos(x.Pos()), "regexp.MustCompile on a non-constant pattern")
							}
						case "strings.Repeat":
							seq["rep"]++
							key := core.FnName(fn) + sprintf("|strings.Repeat#%d", seq["rep"])
							e2 := be
							e2.pathMode = true
							facts := e2.dominatingFacts(b)
							ok := e2.nonneg(x.Call.Args[1], facts, in, 0, map[ssa.Value]bool{})
							e2.pathMode = false
							if !ok {
								ok = be.nonneg(x.Call.Args[1], be.dominatingFacts(b), in, 0, map[ssa.Value]bool{})
							}
							if ok {
								r.OK("no-panic", key, p.Pos(x.Pos()), "count is non-negative")
							} else if why := repeatAudit[core.FnName(fn)]; why != "" {
								r.OK("no-panic", key, p.Pos(x.Pos()), "audited: "+why)
							} else {
								r.Violate("no-panic", key, p.Pos(x.Pos()), "strings.Repeat count is not provably non-negative (a negative count panics)")
							}
						}
					}
				case *ssa.TypeAssert:
					if x.CommaOk {
						continue
					}
					nassert++
					seq["ta"]++
					key := core.FnName(fn) + sprintf("|assert#%d", seq["ta"])
					okA := false
					if call, isCall := x.X.(*ssa.Call); isCall && isPoolMethod(&call.Call, "Get") {
						okA = true
					}
					if okA {
						r.OK("type-assert", key, p.Pos(x.Pos()), "Pool.Get().("+types.TypeString(x.AssertedType, nil)+")")
					} else {
						r.Violate("type-assert", key, p.Pos(x.Pos()), "single-result type assertion on a value that is not a Pool.Get() result: panics when the dynamic type differs")
					}
				}
			}
		}
	}
	r.OK("no-panic", "scan", "-", sprintf("%d functions scanned, %d explicit panics", len(fns), npanic))
	r.Floor("type-assert", nassert, 10, "single-result type assertions")
	// R3 bounds
	total, audited := 0, 0
	usedAudit := map[string]bool{}
	// expressions present per function (to recognise an audited expression that moved into an extracted helper)
	present := map[string]map[string]bool{}
	obsOf := map[*ssa.Function][]boundOb{}
	byName := map[string]*ssa.Function{}
	for _, fn := range fns {
		if !core.InPkgs(fn, boundsPkgs...) {
			continue
		}
		obs := be.checkFunction(fn)
		obsOf[fn] = obs
		byName[core.FnName(fn)] = fn
		present[core.FnName(fn)] = map[string]bool{}
		for _, o := range obs {
			present[core.FnName(fn)][o.expr] = true
		}
	}
	// movedAudit: the expression is audited for function F, F no longer contains it, and fn is called from F only
	movedAudit := func(fn *ssa.Function, expr string) string {
		for k, why := range boundsAudit {
			i := strings.LastIndex(k, "|")
			if i < 0 || k[i+1:] != expr {
				continue
			}
			from := byName[k[:i]]
			if from == nil || from == fn || present[k[:i]][expr] {
				continue
			}
			node := p.CallGraph().Nodes[fn]
			if node == nil || len(node.In) == 0 {
				continue
			}
			only := true
			for _, e := range node.In {
				if e.Caller.Func != from {
					only = false
				}
			}
			if only {
				return "audited in " + k[:i] + ", from which this code was extracted (its only caller): " + why
			}
		}
		return ""
	}
	// sharedAudit: the expression is audited for F and still occurs there; fn is called from F only, and every name of
	// the expression that is a parameter of fn is bound, at every call, to F's variable of the same name (the repeated
	// expression was folded into a helper, e.g. the four "invalid number" exits of readNumber)
	sharedAudit := func(fn *ssa.Function, expr string) string {
		ex, err := goparser.ParseExpr(expr)
		if err != nil {
			return ""
		}
		names := map[string]bool{}
		ast.Inspect(ex, func(n ast.Node) bool {
			if id, ok := n.(*ast.Ident); ok {
				names[id.Name] = true
			}
			return true
		})
		for k, why := range boundsAudit {
			i := strings.LastIndex(k, "|")
			if i < 0 || k[i+1:] != expr {
				continue
			}
			from := byName[k[:i]]
			if from == nil || from == fn || !present[k[:i]][expr] {
				continue
			}
			node := p.CallGraph().Nodes[fn]
			if node == nil || len(node.In) == 0 {
				continue
			}
			ok := true
			for _, e := range node.In {
				if e.Caller.Func != from || e.Site == nil {
					ok = false
					break
				}
				args := e.Site.Common().Args
				off := len(args) - len(fn.Params)
				for j, par := range fn.Params {
					if fn.Signature.Recv() != nil && j == 0 {
						continue // the receiver: the same object when the caller passes its own
					}
					if !names[par.Name()] {
						continue
					}
					// the argument in the source must be the identifier of that name
					ce, _ := callExprAt(from, e.Site.Pos())
					aj := j + off
					if fn.Signature.Recv() != nil {
						aj = j - 1
					}
					if ce == nil || aj < 0 || aj >= len(ce.Args) {
						ok = false
						break
					}
					if id, isID := ce.Args[aj].(*ast.Ident); !isID || id.Name != par.Name() {
						ok = false
					}
				}
				if fn.Signature.Recv() != nil && len(args) > 0 && len(from.Params) > 0 && args[0] != ssa.Value(from.Params[0]) {
					ok = false
				}
			}
			if ok {
				return "audited in " + k[:i] + ", which still contains it and is the only caller of this helper, passing its own variables of the same names: " + why
			}
		}
		return ""
	}
	for _, fn := range fns {
		if !core.InPkgs(fn, boundsPkgs...) {
			continue
		}
		for _, o := range obsOf[fn] {
			total++
			key := core.FnName(fn) + "|" + o.expr
			switch {
			case o.ok:
				r.OK("bounds", key, p.Pos(o.pos), "")
			case boundsAudit[key] != "":
				audited++
				usedAudit[key] = true
				auditDump(key, o.fp)
				if want, ok := auditFP[key]; ok && want != o.fp {
					r.Violate("bounds", key, p.Pos(o.pos), "this expression is in the audited table, but the values it uses are now computed differently from when it was read (fingerprint "+o.fp+", audited "+want+"): the audit no longer applies; "+o.reason)
					continue
				}
				r.OK("bounds", key, p.Pos(o.pos), "audited: "+boundsAudit[key])
			case bareAudit(key) != "":
				// the same function written as a method / as a plain function: same audited code
				bk := bareAudit(key)
				audited++
				usedAudit[bk] = true
				if want, ok := auditFP[bk]; ok && want != o.fp {
					r.Violate("bounds", key, p.Pos(o.pos), "this expression is in the audited table (as "+bk+"), but the values it uses are now computed differently from when it was read (fingerprint "+o.fp+", audited "+want+"): the audit no longer applies; "+o.reason)
					continue
				}
				r.OK("bounds", key, p.Pos(o.pos), "audited (as "+bk+"): "+boundsAudit[bk])
			case movedAudit(fn, o.expr) != "":
				audited++
				r.OK("bounds", key, p.Pos(o.pos), movedAudit(fn, o.expr))
			case sharedAudit(fn, o.expr) != "":
				audited++
				r.OK("bounds", key, p.Pos(o.pos), sharedAudit(fn, o.expr))
			default:
				r.Violate("bounds", key, p.Pos(o.pos), "index/slice expression without a recognised bounds guard ("+o.reason+") and not in the audited table")
			}
		}
	}
	r.Floor("bounds", total, 250, "index/slice expressions")
	r.Extra("bounds_audited", audited)
	r.Assume("bounds: parameters of exported functions are judged by the module's own call sites only; slices are compared with len, not cap")
	c01ChildrenNil(c)
	c01Recover(c)
}

// repeatAudit: strings.Repeat sites whose count comes from caller-supplied
// formatting options, not from the SQL input.
var repeatAudit = map[string]string{
	"errors.FormatMultiLineContext": "count is len(prefix)+Column-1 inside `if location.Column > 0`, so it is >= len(prefix) >= 0; the second Repeat is under highlightLen > 1 (read 2026-09-27)",
	"errors.FormatContextWindow":    "count is len(prefix)+Column-1 inside `if location.Column > 0`, so it is >= len(prefix) >= 0; the second Repeat is under highlightLen > 1 (read 2026-09-27)",
	"(*errors.Error).formatContext": "count is len(prefix)+Column-1 inside `if e.Location.Column > 0`, so it is >= len(prefix) >= 0 (read 2026-09-26)",
	"(*ast.formatter).indentStr":    "count is IndentWidth*depth: IndentWidth is a caller-supplied formatting option (not SQL input) and depth only counts nesting from 0; a negative IndentWidth is a configuration error outside the property's quantifier (read 2026-09-26)",
}

func c01ChildrenNil(c *Ctx) {
	r, p := c.R, c.P
	m := NewAstModel(p, "pkg/sql/ast")
	if m == nil {
		r.Fatal("anchor not found: pkg/sql/ast Node")
		return
	}
	n := 0
	for _, T := range m.Types {
		fn := p.Method("pkg/sql/ast", T.Obj().Name(), "Children")
		if fn == nil || fn.Blocks == nil || len(fn.Params) == 0 {
			continue
		}
		pr := core.NewPathResolver(fn, fn.Params[0])
		for _, b := range fn.Blocks {
			for _, in := range b.Instrs {
				mi, ok := in.(*ssa.MakeInterface)
				if !ok {
					continue
				}
				if _, isPtr := mi.X.Type().Underlying().(*types.Pointer); !isPtr {
					continue
				}
				if ld, isLoad := mi.X.(*ssa.UnOp); !isLoad || ld.Op != token.MUL {
					continue // &x.F, &local: an address, never nil
				}
				path, ok := pr.Path(mi.X)
				if !ok || path == "" || strings.Contains(path, "[") {
					continue // address of a local copy / element: never nil
				}
				n++
				key := T.Obj().Name() + "." + path
				guarded := false
				for _, cd := range core.ControlDeps(b) {
					bo, ok := cd.If.Cond.(*ssa.BinOp)
					if !ok {
						continue
					}
					x, y := bo.X, bo.Y
					if core.IsNilConst(x) {
						x, y = y, x
					}
					if !core.IsNilConst(y) {
						continue
					}
					if px, ok := pr.Path(x); ok && px == path {
						if (bo.Op == token.NEQ && cd.Succ == 0) || (bo.Op == token.EQL && cd.Succ == 1) {
							guarded = true
						}
					}
				}
				if guarded {
					r.OK("children-nil-guard", key, p.Pos(mi.Pos()), "")
				} else {
					r.Violate("children-nil-guard", key, p.Pos(mi.Pos()), "pointer field "+path+" is put into the []Node without a nil test: a nil "+path+" becomes a non-nil interface holding a nil pointer, and Walk calls Children() on it")
				}
			}
		}
	}
	r.Floor("children-nil-guard", n, 10, "pointer-field conversions in Children()")
}

func c01Recover(c *Ctx) {
	r, p := c.R, c.P
	for _, name := range []string{"Tokenize", "TokenizeContext"} {
		fn := p.Method("pkg/sql/tokenizer", "Tokenizer", name)
		if fn == nil {
			r.Fatal("anchor not found: (*Tokenizer).%s", name)
			continue
		}
		ok := false
		for _, an := range fn.AnonFuncs {
			hasLoop, hasBarrier := false, false
			for _, b := range an.Blocks {
				for _, in := range b.Instrs {
					if call, isCall := in.(*ssa.Call); isCall {
						if f := call.Call.StaticCallee(); f != nil && f.Name() == "nextToken" {
							hasLoop = true
						}
					}
					if d, isDefer := in.(*ssa.Defer); isDefer && b.Index == 0 {
						if mc, isMC := d.Call.Value.(*ssa.MakeClosure); isMC {
							if cl, _ := mc.Fn.(*ssa.Function); cl != nil {
								rec, store := false, false
								for _, cb := range cl.Blocks {
									for _, ci := range cb.Instrs {
										if cc, isC := ci.(*ssa.Call); isC && core.IsBuiltinCall(&cc.Call, "recover") {
											rec = true
										}
										if st, isSt := ci.(*ssa.Store); isSt && isErrorType(st.Val.Type()) {
											store = true
										}
									}
								}
								if rec && store {
									hasBarrier = true
								}
							}
						}
					}
				}
			}
			if hasLoop && hasBarrier {
				ok = true
			}
		}
		if ok {
			r.OK("recover-barrier", name, p.FnPos(fn), "scanning loop runs under a deferred recover that sets the error result")
		} else {
			r.Violate("recover-barrier", name, p.FnPos(fn), "the scanning loop is not protected by a deferred recover(): a panic in the tokenizer escapes to the caller")
		}
	}
}

// auditDump (developer aid): with GOSQLX_SA_FPDUMP=<file> the fingerprints of all audited expressions are appended
// to the file, from which bounds_audit_fp.go is regenerated after an audit.
func auditDump(key, fp string) {
	if path := os.Getenv("GOSQLX_SA_FPDUMP"); path != "" {
		if f, err := os.OpenFile(path, os.O_APPEND|os.O_CREATE|os.O_WRONLY, 0o644); err == nil {
			_, _ = f.WriteString(key + "\t" + fp + "\n")
			_ = f.Close()
		}
	}
}

var bareKeyRe = regexp.MustCompile(`^\(\*?(\w+)\.\w+\)\.(\w+)\|`)

// bareKeyOf: "(*pkg.T).name|expr" and "pkg.name|expr" name the same code when a method is turned into a function or back.
func bareKeyOf(k string) string {
	return bareKeyRe.ReplaceAllString(k, "$1.$2|")
}

// bareAudit: the audited key that names the same function (method or plain) and expression, if any.
func bareAudit(key string) string {
	want := bareKeyOf(key)
	for k := range boundsAudit {
		if k != key && bareKeyOf(k) == want {
			return k
		}
	}
	return ""
}

// callExprAt: the call expression of fn's source whose opening parenthesis is at pos.
func callExprAt(fn *ssa.Function, pos token.Pos) (*ast.CallExpr, bool) {
	syn := fn.Syntax()
	if syn == nil {
		return nil, false
	}
	var found *ast.CallExpr
	ast.Inspect(syn, func(n ast.Node) bool {
		if ce, ok := n.(*ast.CallExpr); ok && ce.Lparen == pos {
			found = ce
		}
		return found == nil
	})
	return found, found != nil
}
