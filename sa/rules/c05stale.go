package rules

import (
	"golang.org/x/tools/go/ssa"

	"gosqlxsa/core"
)

// Rule error-location-fresh (C05). In the parser, a location handed to an error builder of pkg/errors is the location of
// the current token at that moment: the result of p.currentLocation() must not have been taken before a call that can
// move the cursor which lies on a path to the builder. A location saved at the start of a construct and attached to an
// error raised after the construct has been parsed points at the construct's first token, not at the offending one.
func c05ErrorLocationFresh(c *Ctx, p *core.Prog) int {
	r := c.R
	r.Rule("error-location-fresh", "in pkg/sql/parser the Location given to an error builder is a currentLocation() taken after the last call that can move the cursor on the way to the builder (a syntax error is located at the offending token, not at the start of the enclosing construct)")
	adv := p.Method("pkg/sql/parser", "Parser", "advance")
	if adv == nil {
		r.Fatal("anchor not found: (*Parser).advance")
		return 0
	}
	g := p.Restrict(func(f *ssa.Function) bool { return f != nil && f.Blocks != nil && core.InPkgs(f, "pkg/sql/parser") })
	mayAdvance := g.ReachesIn(adv)
	mayAdvance[adv] = true
	n := 0
	for _, fn := range p.SrcFuncs("pkg/sql/parser") {
		var movers []ssa.Instruction
		for _, b := range fn.Blocks {
			for _, in := range b.Instrs {
				if call, ok := in.(*ssa.Call); ok {
					if f := call.Call.StaticCallee(); f != nil && mayAdvance[f] {
						movers = append(movers, in)
					}
				}
			}
		}
		seq := 0
		for _, b := range fn.Blocks {
			for _, in := range b.Instrs {
				call, ok := in.(*ssa.Call)
				if !ok {
					continue
				}
				f := call.Call.StaticCallee()
				if f == nil || !core.InPkgs(f, "pkg/errors") {
					continue
				}
				for _, a := range call.Call.Args {
					loc, ok := a.(*ssa.Call)
					if !ok {
						continue
					}
					lf := loc.Call.StaticCallee()
					if lf == nil || lf.Name() != "currentLocation" {
						continue
					}
					n++
					seq++
					key := core.FnName(fn) + sprintf("|%s#%d", f.Name(), seq)
					var stale ssa.Instruction
					for _, m := range movers {
						if m == ssa.Instruction(loc) || m == ssa.Instruction(call) {
							continue
						}
						if instrFollows(loc, m) && instrFollows(m, call) && !instrFollows(call, loc) {
							stale = m
							break
						}
					}
					if stale == nil {
						r.OK("error-location-fresh", key, p.Pos(call.Pos()), "")
					} else {
						r.Violate("error-location-fresh", key, p.Pos(call.Pos()), "the location given to "+f.Name()+" was taken at "+p.Pos(loc.Pos())+", before the cursor could move at "+p.Pos(stale.Pos())+": the error is located at an earlier token than the one that caused it")
					}
				}
			}
		}
	}
	return n
}
