package rules

import (
	"go/constant"
	"go/token"
	"go/types"
	"sort"
	"strings"

	"golang.org/x/tools/go/ssa"

	"gosqlxsa/core"
)

// skip-loop-terminator: a parser loop that consumes whatever token comes next (an advance() reached in an iteration
// that has taken no positive token test) is a skip loop. Recovery relies on the failing statement's parser stopping
// inside its own statement, so a skip loop must stop at the end of input and at the statement terminator; one that
// only waits for `)` walks through `;` and takes the following, well-formed statements with it.
type tokTest struct {
	isTest  bool
	posSucc int     // successor index on which the test holds
	consts  []int64 // token-type constants mentioned
}

var pureMemo map[*ssa.Function]int

// purePredicate: a method of *Parser with a single bool result that neither moves the cursor nor writes parser state
// (isType, isIdentifier, canBeAlias, peek…): calling it is a test of the current token, not consumption.
func purePredicate(f *ssa.Function, depth int) bool {
	if f == nil || f.Blocks == nil || depth > 3 {
		return false
	}
	if v, ok := pureMemo[f]; ok {
		return v == 1
	}
	res := f.Signature.Results()
	if res.Len() != 1 {
		pureMemo[f] = 2
		return false
	}
	if b, ok := res.At(0).Type().Underlying().(*types.Basic); !ok || b.Kind() != types.Bool {
		pureMemo[f] = 2
		return false
	}
	pureMemo[f] = 1 // optimistic for recursion
	ok := true
	for _, b := range f.Blocks {
		for _, in := range b.Instrs {
			switch x := in.(type) {
			case *ssa.Store:
				if _, isField := x.Addr.(*ssa.FieldAddr); isField {
					ok = false
				}
				if _, isIdx := x.Addr.(*ssa.IndexAddr); isIdx {
					if al, isAlloc := x.Addr.(*ssa.IndexAddr).X.(*ssa.Alloc); !isAlloc || al == nil {
						ok = false
					}
				}
			case ssa.CallInstruction:
				g := x.Common().StaticCallee()
				if g == nil {
					if _, isB := x.Common().Value.(*ssa.Builtin); !isB {
						ok = false
					}
					continue
				}
				if g.Signature.Recv() != nil && core.NamedOf(core.Deref(g.Signature.Recv().Type())) != nil && core.NamedOf(core.Deref(g.Signature.Recv().Type())).Obj().Name() == "Parser" {
					if g.Name() == "advance" || !purePredicate(g, depth+1) {
						ok = false
					}
				}
			}
		}
	}
	if !ok {
		pureMemo[f] = 2
	}
	return ok
}

func c12SkipLoops(c *Ctx, p *core.Prog) {
	r := c.R
	r.Rule("consume-examined", "outside loops, every advance() of pkg/sql/parser consumes a token that has been looked at since the cursor last moved: by a positive token test, by a peekToken() test before the previous advance, or by comparisons with EOF and the semicolon (inside loops skip-loop-terminator decides)")
	r.Rule("skip-loop-terminator", "in pkg/sql/parser, a loop in which advance() can be reached while the current token has not been examined by a positive token test since the cursor last moved (it consumes any token) tests for both the end of input and the semicolon inside the loop")
	pk := p.Pkg("pkg/models")
	if pk == nil {
		r.Fatal("anchor not found: package pkg/models")
		return
	}
	tt := func(name string) (int64, bool) {
		o := pk.Types.Scope().Lookup(name)
		if o == nil {
			return 0, false
		}
		cst, ok := o.(interface{ Val() constant.Value })
		if !ok {
			return 0, false
		}
		v, ok := constant.Int64Val(cst.Val())
		return v, ok
	}
	eof, ok1 := tt("TokenTypeEOF")
	semi, ok2 := tt("TokenTypeSemicolon")
	if !ok1 || !ok2 {
		r.Fatal("anchor not found: models.TokenTypeEOF / TokenTypeSemicolon")
		return
	}
	isParserRecv := func(f *ssa.Function) bool {
		if f == nil || f.Signature.Recv() == nil {
			return false
		}
		n := core.NamedOf(core.Deref(f.Signature.Recv().Type()))
		return n != nil && n.Obj().Name() == "Parser"
	}
	fromCurrentToken := func(v ssa.Value) bool {
		seen := 0
		var walk func(v ssa.Value) bool
		walk = func(v ssa.Value) bool {
			seen++
			if seen > 12 {
				return false
			}
			switch x := v.(type) {
			case *ssa.UnOp:
				return walk(x.X)
			case *ssa.FieldAddr:
				if core.FieldName(x.X.Type(), x.Field) == "currentToken" {
					return true
				}
				return walk(x.X)
			case *ssa.Field:
				return walk(x.X)
			case *ssa.Call:
				if f := x.Call.StaticCallee(); f != nil && core.FnPkg(f) != nil && core.FnPkg(f).Path() == "strings" && len(x.Call.Args) > 0 {
					return walk(x.Call.Args[0])
				}
			case *ssa.ChangeType:
				return walk(x.X)
			case *ssa.Convert:
				return walk(x.X)
			}
			return false
		}
		return walk(v)
	}
	// a value read off the result of p.peekToken() (its Literal / Type, possibly through strings.ToUpper …)
	fromPeek := func(v ssa.Value) bool {
		for i := 0; i < 10; i++ {
			switch x := v.(type) {
			case *ssa.UnOp:
				v = x.X
			case *ssa.FieldAddr:
				v = x.X
			case *ssa.Field:
				v = x.X
			case *ssa.ChangeType:
				v = x.X
			case *ssa.Convert:
				v = x.X
			case *ssa.Alloc:
				// the token copied into a local: its single store
				var st ssa.Value
				for _, ref := range core.Referrers(x) {
					if s, ok := ref.(*ssa.Store); ok && s.Addr == ssa.Value(x) {
						if st != nil {
							return false
						}
						st = s.Val
					}
				}
				if st == nil {
					return false
				}
				v = st
			case *ssa.Call:
				f := x.Call.StaticCallee()
				if isParserRecv(f) && f.Name() == "peekToken" {
					return true
				}
				if f != nil && core.FnPkg(f) != nil && core.FnPkg(f).Path() == "strings" && len(x.Call.Args) > 0 {
					v = x.Call.Args[0]
					continue
				}
				return false
			default:
				return false
			}
		}
		return false
	}
	peekTest := func(cond ssa.Value) (bool, int) {
		pol := 0
		for {
			u, ok := cond.(*ssa.UnOp)
			if !ok || u.Op != token.NOT {
				break
			}
			cond = u.X
			pol ^= 1
		}
		switch x := cond.(type) {
		case *ssa.BinOp:
			if (x.Op == token.EQL || x.Op == token.NEQ) && (fromPeek(x.X) || fromPeek(x.Y)) {
				if x.Op == token.NEQ {
					pol ^= 1
				}
				return true, pol
			}
		case *ssa.Call:
			if f := x.Call.StaticCallee(); f != nil && core.FnPkg(f) != nil && core.FnPkg(f).Path() == "strings" && f.Name() == "EqualFold" {
				for _, a := range x.Call.Args {
					if fromPeek(a) {
						return true, pol
					}
				}
			}
		}
		return false, 0
	}
	var constsOfHelper func(f *ssa.Function, depth int) []int64
	var classify func(cond ssa.Value) tokTest
	// a flag that is given a non-zero value only where a positive token test has just succeeded (`kind = kw.name; break`
	// inside `if p.isType(kw.tok)`): testing the flag afterwards is testing the token
	flagTest := func(x *ssa.BinOp, pol int) (tokTest, bool) {
		if x.Op != token.EQL && x.Op != token.NEQ {
			return tokTest{}, false
		}
		var ph *ssa.Phi
		var zero ssa.Value
		for _, pair := range [][2]ssa.Value{{x.X, x.Y}, {x.Y, x.X}} {
			if q, ok := pair[0].(*ssa.Phi); ok {
				if cst, ok := pair[1].(*ssa.Const); ok {
					ph, zero = q, cst
				}
			}
		}
		if ph == nil {
			return tokTest{}, false
		}
		isZero := func(v ssa.Value) bool {
			cst, ok := v.(*ssa.Const)
			if !ok {
				return false
			}
			z := zero.(*ssa.Const)
			if cst.Value == nil || z.Value == nil {
				return cst.Value == nil && z.Value == nil
			}
			return cst.Value.String() == z.Value.String()
		}
		// collect the leaves of the merge with the block each arrives from
		type leaf struct {
			v    ssa.Value
			from *ssa.BasicBlock
		}
		var leaves []leaf
		seen := map[*ssa.Phi]bool{}
		var walk func(q *ssa.Phi, d int)
		walk = func(q *ssa.Phi, d int) {
			if seen[q] || d > 4 {
				return
			}
			seen[q] = true
			for i, e := range q.Edges {
				if qq, ok := e.(*ssa.Phi); ok {
					walk(qq, d+1)
					continue
				}
				leaves = append(leaves, leaf{e, q.Block().Preds[i]})
			}
		}
		walk(ph, 0)
		nonZero := 0
		for _, l := range leaves {
			if isZero(l.v) {
				continue
			}
			nonZero++
			// the block the non-zero value comes from lies behind the positive side of a token test
			okLeaf := false
			for d := l.from; d != nil && !okLeaf; d = d.Idom() {
				id := d.Idom()
				if id == nil || len(d.Preds) != 1 || d.Preds[0] != id {
					continue
				}
				if iff, ok := id.Instrs[len(id.Instrs)-1].(*ssa.If); ok {
					if _, isBin := iff.Cond.(*ssa.BinOp); isBin {
						if b2, ok := iff.Cond.(*ssa.BinOp); ok && b2 == x {
							continue
						}
					}
					t := classify(iff.Cond)
					if t.isTest && id.Succs[t.posSucc] == d {
						okLeaf = true
					}
				}
			}
			if !okLeaf {
				return tokTest{}, false
			}
		}
		if nonZero == 0 {
			return tokTest{}, false
		}
		t := tokTest{isTest: true, posSucc: pol}
		if x.Op == token.EQL { // flag == zero: the positive (non-zero) side is the false successor
			t.posSucc ^= 1
		}
		return t, true
	}
	classify = func(cond ssa.Value) tokTest {
		pol := 0
		for {
			u, ok := cond.(*ssa.UnOp)
			if !ok || u.Op != token.NOT {
				break
			}
			cond = u.X
			pol ^= 1
		}
		if bo, ok := cond.(*ssa.BinOp); ok {
			if t, ok := flagTest(bo, pol); ok {
				return t
			}
		}
		switch x := cond.(type) {
		case *ssa.Extract:
			// `kind, ok := table[p.currentToken.Type]; if ok { … }`: membership of the token in a lookup table
			if lk, isLk := x.Tuple.(*ssa.Lookup); isLk && lk.CommaOk && x.Index == 1 && fromCurrentToken(lk.Index) {
				return tokTest{isTest: true, posSucc: pol}
			}
		case *ssa.Call:
			f := x.Call.StaticCallee()
			if isParserRecv(f) && purePredicate(f, 0) {
				t := tokTest{isTest: true, posSucc: pol}
				for _, a := range x.Call.Args {
					if k, ok := core.ConstInt(a); ok {
						t.consts = append(t.consts, k)
					}
					// variadic isAnyType(a, b, c): constants stored into the backing array
					if sl, ok := a.(*ssa.Slice); ok {
						if al, ok := sl.X.(*ssa.Alloc); ok {
							for _, ref := range core.Referrers(al) {
								if ia, ok := ref.(*ssa.IndexAddr); ok {
									for _, r2 := range core.Referrers(ia) {
										if st, ok := r2.(*ssa.Store); ok {
											if k, ok := core.ConstInt(st.Val); ok {
												t.consts = append(t.consts, k)
											}
										}
									}
								}
							}
						}
					}
				}
				t.consts = append(t.consts, constsOfHelper(f, 0)...)
				return t
			}
			if f != nil && core.FnPkg(f) != nil && core.FnPkg(f).Path() == "strings" && f.Name() == "EqualFold" {
				for _, a := range x.Call.Args {
					if fromCurrentToken(a) {
						return tokTest{isTest: true, posSucc: pol}
					}
				}
			}
		case *ssa.BinOp:
			if x.Op == token.EQL || x.Op == token.NEQ {
				if fromCurrentToken(x.X) || fromCurrentToken(x.Y) {
					t := tokTest{isTest: true, posSucc: pol}
					if x.Op == token.NEQ {
						t.posSucc ^= 1
					}
					for _, a := range []ssa.Value{x.X, x.Y} {
						if k, ok := core.ConstInt(a); ok {
							t.consts = append(t.consts, k)
						}
					}
					return t
				}
			}
		}
		return tokTest{}
	}
	pureMemo = map[*ssa.Function]int{}
	helperMemo := map[*ssa.Function][]int64{}
	constsOfHelper = func(f *ssa.Function, depth int) []int64 {
		if f == nil || f.Blocks == nil || depth > 1 {
			return nil
		}
		if v, ok := helperMemo[f]; ok {
			return v
		}
		helperMemo[f] = nil
		var out []int64
		for _, b := range f.Blocks {
			for _, in := range b.Instrs {
				switch x := in.(type) {
				case *ssa.BinOp:
					if (x.Op == token.EQL || x.Op == token.NEQ) && (fromCurrentToken(x.X) || fromCurrentToken(x.Y)) {
						for _, a := range []ssa.Value{x.X, x.Y} {
							if k, ok := core.ConstInt(a); ok {
								out = append(out, k)
							}
						}
					}
				case *ssa.Call:
					if g := x.Call.StaticCallee(); isParserRecv(g) && g != f && strings.HasPrefix(g.Name(), "is") {
						for _, a := range x.Call.Args {
							if k, ok := core.ConstInt(a); ok {
								out = append(out, k)
							}
						}
						out = append(out, constsOfHelper(g, depth+1)...)
					}
				}
			}
		}
		helperMemo[f] = out
		return out
	}
	isAdvance := func(in ssa.Instruction) bool {
		c, ok := in.(*ssa.Call)
		if !ok {
			return false
		}
		f := c.Call.StaticCallee()
		return isParserRecv(f) && f.Name() == "advance"
	}
	nLoops, nSkip, nAdv := 0, 0, 0
	const (
		stE     = 1  // the current token has been examined by a positive test since the cursor last moved
		stU     = 2  // it has not
		stNoEOF = 4  // on some path it has not been compared with EOF since the cursor last moved
		stNoSem = 8  // … nor with the semicolon
		stNoPk  = 16 // on some path the token after the current one has not been positively examined through peekToken()
	)
	isCursorLoad := func(v ssa.Value) bool {
		u, ok := v.(*ssa.UnOp)
		if !ok || u.Op != token.MUL {
			return false
		}
		fa, ok := u.X.(*ssa.FieldAddr)
		return ok && core.FieldName(fa.X.Type(), fa.Field) == "currentPos"
	}
	// functions from which advance() is reachable: calling one may move the cursor
	mayAdvance := map[*ssa.Function]bool{}
	if adv := p.Method("pkg/sql/parser", "Parser", "advance"); adv != nil {
		g := p.Restrict(func(f *ssa.Function) bool { return f != nil && f.Blocks != nil && core.InPkgs(f, "pkg/sql/parser") })
		for f := range g.ReachesIn(adv) {
			mayAdvance[f] = true
		}
		mayAdvance[adv] = true
	} else {
		r.Fatal("anchor not found: (*Parser).advance")
		return
	}
	consumes := func(in ssa.Instruction) bool {
		c, ok := in.(*ssa.Call)
		if !ok {
			return false
		}
		f := c.Call.StaticCallee()
		if f == nil || f.Blocks == nil {
			return false
		}
		return mayAdvance[f]
	}
	// The state in which a function is entered is the union of the states at its call sites inside the package (three
	// rounds: callers first); a function nobody in the package calls directly is entered with its token examined (the
	// statement dispatch looked at it).
	callStates := map[*ssa.Function]int{}
	for pass := 0; pass < 3; pass++ {
		final := pass == 2
		newCall := map[*ssa.Function]int{}
		for _, fn := range p.SrcFuncs("pkg/sql/parser") {
			if len(fn.Blocks) == 0 {
				continue
			}
			sccs := blockSCCs(fn, nil, nil, nil)
			// forward may-analysis over the whole function. On entry the token counts as examined: callers dispatch on it.
			lbAll := map[*ssa.BasicBlock]bool{}
			for _, scc := range sccs {
				for _, b := range scc {
					lbAll[b] = true
				}
			}
			entry := stE | stNoPk
			if cs, ok := callStates[fn]; ok && pass > 0 && fn.Parent() == nil {
				entry = cs
			}
			inState := map[*ssa.BasicBlock]int{fn.Blocks[0]: entry}
			atAdvance := map[ssa.Instruction]int{}
			atLoad := map[ssa.Value]int{} // state at each load of the cursor (a snapshot the code may compare with later)
			endState := map[*ssa.BasicBlock]int{}
			for changed := true; changed; {
				changed = false
				for _, b := range fn.Blocks {
					st := inState[b]
					if st == 0 {
						continue
					}
					for _, in := range b.Instrs {
						if isAdvance(in) {
							atAdvance[in] |= st
						}
						if call, ok := in.(*ssa.Call); ok {
							if cf := call.Call.StaticCallee(); isParserRecv(cf) && cf.Blocks != nil && !purePredicate(cf, 0) && cf.Name() != "advance" {
								newCall[cf] |= st
							}
						}
						if consumes(in) {
							if isAdvance(in) && st&stNoPk == 0 {
								st = stE | stNoPk // the token now current is the one peekToken() showed
							} else {
								st = stU | stNoEOF | stNoSem | stNoPk
							}
						}
						if v, ok := in.(ssa.Value); ok && isCursorLoad(v) {
							if atLoad[v]|st != atLoad[v] {
								atLoad[v] |= st
								changed = true
							}
						}
					}
					endState[b] = st
					var t tokTest
					snapSucc, snapState := -1, 0
					// `a && b` used as a value (a case of a tagless switch, a condition kept in a variable) arrives as a phi
					// that is false on the edge where a failed and b on the edge from the block that evaluated b: on the
					// true side the run came through that block, so its end state is the one to continue from
					andBase := 0
					var condV ssa.Value
					if len(b.Instrs) > 0 {
						if iff, ok := b.Instrs[len(b.Instrs)-1].(*ssa.If); ok {
							condV = iff.Cond
							if ph, ok := iff.Cond.(*ssa.Phi); ok && ph.Block() == b {
								var only ssa.Value
								var from *ssa.BasicBlock
								simple := true
								for i, e := range ph.Edges {
									if cst, ok := e.(*ssa.Const); ok && cst.Value != nil && cst.Value.String() == "false" {
										continue
									}
									if only != nil {
										simple = false
									}
									only, from = e, b.Preds[i]
								}
								if simple && only != nil && endState[from] != 0 {
									condV = only
									andBase = endState[from]
								}
							}
							t = classify(condV)
							// progress guard `p.currentPos == saved`: on the equal side the cursor is where it was when
							// saved was loaded, so what was known about the token then is known again
							if bo, ok := iff.Cond.(*ssa.BinOp); ok && (bo.Op == token.EQL || bo.Op == token.NEQ) && isCursorLoad(bo.X) && isCursorLoad(bo.Y) && bo.X != bo.Y {
								old := bo.Y
								if bo.X.(*ssa.UnOp).Block() != b || bo.Y.(*ssa.UnOp).Block() == b && bo.Y.Pos() > bo.X.Pos() {
									old = bo.X
								}
								if atLoad[old] != 0 {
									snapState = atLoad[old]
									snapSucc = 0
									if bo.Op == token.NEQ {
										snapSucc = 1
									}
								}
							}
						}
					}
					pkTest, pkSucc := false, 0
					if len(b.Instrs) > 0 {
						if iff, ok := b.Instrs[len(b.Instrs)-1].(*ssa.If); ok {
							_ = iff
							pkTest, pkSucc = peekTest(condV)
						}
					}
					for k, sc := range b.Succs {
						out := st
						if andBase != 0 && k == 0 {
							out = andBase
						}
						if pkTest && k == pkSucc && (andBase == 0 || k == 0) {
							out &^= stNoPk
						}
						if t.isTest && (andBase == 0 || k == 0) {
							for _, kk := range t.consts {
								if kk == eof {
									out &^= stNoEOF
								}
								if kk == semi {
									out &^= stNoSem
								}
							}
							if k == t.posSucc {
								out = stE | out&stNoPk
							}
						}
						if k == snapSucc {
							out = snapState
						}
						if inState[sc]|out != inState[sc] {
							inState[sc] |= out
							changed = true
						}
					}
				}
			}
			if !final {
				continue
			}
			{
				var ks []ssa.Instruction
				for in := range atAdvance {
					ks = append(ks, in)
				}
				sort.Slice(ks, func(i, j int) bool { return ks[i].Pos() < ks[j].Pos() })
				nb := 0
				for _, in := range ks {
					nAdv++
					if atAdvance[in]&stU != 0 && atAdvance[in]&(stNoEOF|stNoSem) != 0 && !lbAll[in.Block()] {
						nb++
						r.Violate("consume-examined", core.FnName(fn)+sprintf("|blind#%d", nb), p.Pos(in.Pos()), "this advance() consumes a token that, on some path, nobody has looked at since the cursor last moved (no positive test of it, no peekToken() test before the previous advance, no comparison with EOF and `;`): when the statement is cut off here the token is its terminator, which recovery then cannot find")
					}
				}
				if nb == 0 && len(ks) > 0 {
					r.OK("consume-examined", core.FnName(fn), p.FnPos(fn), sprintf("%d advance() calls, each on an examined token", len(ks)))
				}
			}
			seq := 0
			for _, scc := range sccs {
				in := blockSet(scc)
				hasAdv := false
				var site, blind ssa.Instruction
				for _, b := range scc {
					for _, ins := range b.Instrs {
						if isAdvance(ins) {
							hasAdv = true
							if atAdvance[ins]&stU != 0 && (site == nil || ins.Pos() < site.Pos()) {
								site = ins
							}
							if atAdvance[ins]&stU != 0 && atAdvance[ins]&(stNoEOF|stNoSem) != 0 && (blind == nil || ins.Pos() < blind.Pos()) {
								blind = ins
							}
						}
					}
				}
				if !hasAdv {
					continue
				}
				nLoops++
				if site == nil {
					continue
				}
				nSkip++
				seq++
				tested := map[int64]bool{}
				for _, b := range scc {
					if iff, ok := b.Instrs[len(b.Instrs)-1].(*ssa.If); ok {
						for _, k := range classify(iff.Cond).consts {
							tested[k] = true
						}
					}
				}
				_ = in
				key := core.FnName(fn) + sprintf("|skip#%d", seq)
				var miss []string
				if !tested[eof] {
					miss = append(miss, "TokenTypeEOF")
				}
				if !tested[semi] {
					miss = append(miss, "TokenTypeSemicolon")
				}
				if len(miss) == 0 && blind != nil {
					what := ""
					if atAdvance[blind]&stNoEOF != 0 {
						what = "EOF"
					}
					if atAdvance[blind]&stNoSem != 0 {
						if what != "" {
							what += " or "
						}
						what += "the semicolon"
					}
					r.Violate("skip-loop-terminator", key, p.Pos(blind.Pos()), "this advance() consumes a token that, on some path, has not been compared with "+what+" since the cursor last moved (the loop tests for them elsewhere, but not between the move and this advance): recovery can swallow a statement's `;` and with it the statement that follows")
				} else if len(miss) == 0 {
					r.OK("skip-loop-terminator", key, p.Pos(site.Pos()), "the skip loop tests for end of input and semicolon")
				} else {
					r.Violate("skip-loop-terminator", key, p.Pos(site.Pos()), "this loop consumes any token (advance() on a token that no positive test has examined since the cursor last moved) and never tests for "+strings.Join(miss, " / ")+": a statement cut off here swallows the `;` and the statements after it, which recovery then cannot return")
				}
			}
		}
		callStates = newCall
	}
	r.Extra("parser_loops_with_advance", nLoops)
	r.Extra("skip_loops", nSkip)
	r.Floor("skip-loop-terminator", nLoops, 30, "parser loops that call advance()")
	r.Floor("consume-examined", nAdv, 300, "advance() calls in the parser")
}
