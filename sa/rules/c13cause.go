package rules

import (
	"go/token"

	"golang.org/x/tools/go/ssa"

	"gosqlxsa/core"
)

// Rule cause-attached (C13, C11). The chain rule trusts WithCause(e) and WrapError(…, e) to attach e. This rule reads the
// trusted functions themselves: in pkg/errors, a function returning *Error that takes an error parameter stores it into
// an error-typed field of an *Error, or hands it to another such function, on every path to a return — except under the
// true branch of `param == nil`. A builder that drops the cause under some other condition cuts the chain to the context
// error (errors.Is(err, context.Canceled) turns false) at every rewrap site at once.
func c13CauseAttached(c *Ctx, p *core.Prog, rule string) int {
	r := c.R
	fns := p.SrcFuncs("pkg/errors")
	var isAttacher func(f *ssa.Function, idx int, depth int) bool
	attachMemo := map[*ssa.Function]bool{}
	cands := map[*ssa.Function]int{}
	for _, fn := range fns {
		if fn.Parent() != nil || fn.Signature.Results().Len() != 1 {
			continue
		}
		if n := core.NamedOf(core.Deref(fn.Signature.Results().At(0).Type())); n == nil || n.Obj().Name() != "Error" {
			continue
		}
		for i, par := range fn.Params {
			if isErrorType(par.Type()) {
				cands[fn] = i
			}
		}
	}
	isAttacher = func(f *ssa.Function, idx int, depth int) bool {
		j, ok := cands[f]
		return ok && j == idx
	}
	_ = attachMemo
	n := 0
	for _, fn := range fns {
		idx, ok := cands[fn]
		if !ok {
			continue
		}
		n++
		par := fn.Params[idx]
		attaches := func(b *ssa.BasicBlock) bool {
			for _, in := range b.Instrs {
				switch x := in.(type) {
				case *ssa.Store:
					if x.Val == ssa.Value(par) {
						if fa, ok := x.Addr.(*ssa.FieldAddr); ok && isErrorType(core.Deref(fa.Type())) {
							return true
						}
					}
				case ssa.CallInstruction:
					cc := x.Common()
					if callee := cc.StaticCallee(); callee != nil {
						for j, a := range cc.Args {
							if a == ssa.Value(par) && isAttacher(callee, j, 0) {
								return true
							}
						}
					}
				}
			}
			return false
		}
		// edges taken when the parameter is nil
		nilEdge := map[[2]*ssa.BasicBlock]bool{}
		for _, b := range fn.Blocks {
			iff, ok := b.Instrs[len(b.Instrs)-1].(*ssa.If)
			if !ok {
				continue
			}
			bo, ok := iff.Cond.(*ssa.BinOp)
			if !ok || (bo.Op != token.EQL && bo.Op != token.NEQ) {
				continue
			}
			// `cause == nil`, or `cause == e` (the error refused as its own cause: Unwrap would not terminate)
			isSelf := func(v ssa.Value) bool {
				if mi, ok := v.(*ssa.MakeInterface); ok {
					v = mi.X
				}
				return fn.Signature.Recv() != nil && len(fn.Params) > 0 && v == ssa.Value(fn.Params[0])
			}
			if (bo.X == ssa.Value(par) && (core.IsNilConst(bo.Y) || isSelf(bo.Y))) || (bo.Y == ssa.Value(par) && (core.IsNilConst(bo.X) || isSelf(bo.X))) {
				k := 0
				if bo.Op == token.NEQ {
					k = 1
				}
				nilEdge[[2]*ssa.BasicBlock{b, b.Succs[k]}] = true
			}
		}
		bad := ssa.Instruction(nil)
		seen := map[*ssa.BasicBlock]bool{}
		work := []*ssa.BasicBlock{fn.Blocks[0]}
		for len(work) > 0 && bad == nil {
			b := work[len(work)-1]
			work = work[:len(work)-1]
			if seen[b] {
				continue
			}
			seen[b] = true
			if attaches(b) {
				continue
			}
			if ret, ok := b.Instrs[len(b.Instrs)-1].(*ssa.Return); ok {
				bad = ret
				break
			}
			for _, sc := range b.Succs {
				if !nilEdge[[2]*ssa.BasicBlock{b, sc}] {
					work = append(work, sc)
				}
			}
		}
		key := core.FnName(fn) + "|" + par.Name()
		if bad == nil {
			r.OK(rule, key, p.FnPos(fn), "the error parameter is stored as the cause (or handed to a builder that does) on every path on which it is not nil")
		} else {
			r.Violate(rule, key, p.Pos(bad.Pos()), "this return is reached with a non-nil `"+par.Name()+"` that has not been stored as the cause: every rewrap site that relies on "+fn.Name()+" loses the chain to the original error (errors.Is(err, context.Canceled) / errors.As stop working there)")
		}
	}
	return n
}
