package rules

import (
	"go/token"
	"golang.org/x/tools/go/ssa"

	"gosqlxsa/core"
)

// munch-lookahead: in readPunctuation an operator token is recognised from its own characters plus at most
// one character of look-ahead. Along every loop-free path to a return of a constant operator token, track
// d = (furthest input offset read) - (offset of the cursor): AdvanceRune lowers d by one, a read that looks
// l characters past the cursor raises d to at least l. At the return d must be <= 1: a decision that
// depended on text further away makes the token stream depend on what happens to follow the operator.

type munchModel struct {
	be   *boundsEngine
	p    *core.Prog
	look map[*ssa.Function]int // helper -> look-ahead relative to its offset parameter (0 = does not read input)
	busy map[*ssa.Function]bool
}

func isInputLoadOf(v ssa.Value) bool {
	u, ok := v.(*ssa.UnOp)
	if !ok {
		return false
	}
	fa, ok := u.X.(*ssa.FieldAddr)
	return ok && fieldKey(fa.X, fa.Field) == "Tokenizer.input"
}

// readLook: if in reads the input relative to base (a term), how far past base does it look (in bytes/runes, >= 1)? 0 = no read.
func (m *munchModel) readLook(in ssa.Instruction, base string) int {
	m.be.pathMode = true
	defer func() { m.be.pathMode = false }()
	isRuneSize := func(v ssa.Value) bool {
		ex, ok := v.(*ssa.Extract)
		if !ok || ex.Index != 1 {
			return false
		}
		call, ok := ex.Tuple.(*ssa.Call)
		if !ok {
			return false
		}
		f := call.Call.StaticCallee()
		return f != nil && core.FnPkg(f) != nil && core.FnPkg(f).Path() == "unicode/utf8"
	}
	var rel func(idx ssa.Value) (int, bool)
	rel = func(idx ssa.Value) (int, bool) {
		l := m.be.linOf(idx)
		if l.ok && l.term == base {
			return int(l.off), true
		}
		// base + k + size-of-a-decoded-rune: one character further
		if bo, ok := idx.(*ssa.BinOp); ok && bo.Op == token.ADD {
			for _, pair := range [][2]ssa.Value{{bo.X, bo.Y}, {bo.Y, bo.X}} {
				if isRuneSize(pair[1]) {
					if k, ok := rel(pair[0]); ok {
						return k + 1, true
					}
				}
			}
		}
		return 0, false
	}
	switch x := in.(type) {
	case *ssa.IndexAddr:
		if isInputLoadOf(x.X) {
			if k, ok := rel(x.Index); ok && k >= 0 {
				return k + 1
			}
		}
	case *ssa.Index:
		if isInputLoadOf(x.X) {
			if k, ok := rel(x.Index); ok && k >= 0 {
				return k + 1
			}
		}
	case *ssa.Call:
		f := x.Call.StaticCallee()
		if f == nil {
			return 0
		}
		// utf8.DecodeRune(t.input[base+k:])
		if core.FnPkg(f) != nil && core.FnPkg(f).Path() == "unicode/utf8" && len(x.Call.Args) == 1 {
			if sl, ok := x.Call.Args[0].(*ssa.Slice); ok && isInputLoadOf(sl.X) && sl.Low != nil {
				if k, ok := rel(sl.Low); ok && k >= 0 {
					return k + 1
				}
			}
			return 0
		}
		// a tokenizer helper that receives an offset
		if core.InPkgs(f, "pkg/sql/tokenizer") && f.Blocks != nil {
			best := 0
			for i, a := range x.Call.Args {
				if k, ok := rel(a); ok && k >= 0 && i < len(f.Params) {
					if hl := m.helperLook(f, f.Params[i]); hl > 0 && k+hl > best {
						best = k + hl
					}
				}
			}
			return best
		}
	}
	return 0
}

// helperLook: how far past its offset parameter par does helper f read the input?
func (m *munchModel) helperLook(f *ssa.Function, par *ssa.Parameter) int {
	if v, ok := m.look[f]; ok {
		return v
	}
	if m.busy[f] {
		return 0
	}
	m.busy[f] = true
	defer delete(m.busy, f)
	best := 0
	for _, b := range f.Blocks {
		for _, in := range b.Instrs {
			if l := m.readLook(in, par.Name()); l > best {
				best = l
			}
		}
	}
	m.look[f] = best
	return best
}

func c04Munch(c *Ctx) {
	r, p := c.R, c.P
	r.Rule("munch-lookahead", "in readPunctuation every return of a constant operator token is reached with at most one character of look-ahead beyond the token's own characters (reads are counted relative to the cursor, through helpers that take an offset): recognising an operator must not depend on text further away")
	fn := p.Method("pkg/sql/tokenizer", "Tokenizer", "readPunctuation")
	if fn == nil {
		r.Fatal("anchor not found: (*Tokenizer).readPunctuation")
		return
	}
	m := &munchModel{be: newBoundsEngine(p), p: p, look: map[*ssa.Function]int{}, busy: map[*ssa.Function]bool{}}
	// the cursor term in path mode
	cursor := ""
	m.be.pathMode = true
	for _, b := range fn.Blocks {
		for _, in := range b.Instrs {
			if u, ok := in.(*ssa.UnOp); ok && cursor == "" {
				if fa, ok := u.X.(*ssa.FieldAddr); ok && fieldKey(fa.X, fa.Field) == "Position.Index" {
					if l := m.be.linOf(u); l.ok {
						cursor = l.term
					}
				}
			}
		}
	}
	m.be.pathMode = false
	if cursor == "" {
		r.Fatal("anchor not found: a read of t.pos.Index in readPunctuation")
		return
	}
	inLoopB := map[*ssa.BasicBlock]bool{}
	for _, scc := range blockSCCs(fn, nil, nil, nil) {
		for _, b := range scc {
			inLoopB[b] = true
		}
	}
	isAdvance := func(in ssa.Instruction) bool {
		call, ok := in.(*ssa.Call)
		if !ok {
			return false
		}
		f := call.Call.StaticCallee()
		return f != nil && (f.Name() == "AdvanceRune" || f.Name() == "AdvanceN") && f.Signature.Recv() != nil
	}
	// d at block entry (max over loop-free paths), -1000 = not reached
	const none = -1000
	dIn := map[*ssa.BasicBlock]int{}
	for _, b := range fn.Blocks {
		dIn[b] = none
	}
	dIn[fn.Blocks[0]] = 0
	// blocks in reverse postorder
	var order []*ssa.BasicBlock
	seen := map[*ssa.BasicBlock]bool{}
	var dfs func(b *ssa.BasicBlock)
	dfs = func(b *ssa.BasicBlock) {
		seen[b] = true
		for _, s := range b.Succs {
			if !seen[s] {
				dfs(s)
			}
		}
		order = append([]*ssa.BasicBlock{b}, order...)
	}
	dfs(fn.Blocks[0])
	n := 0
	seq := map[string]int{}
	for _, b := range order {
		if inLoopB[b] || dIn[b] == none {
			continue
		}
		d := dIn[b]
		for _, in := range b.Instrs {
			if isAdvance(in) {
				d--
				if d < 0 {
					d = 0
				}
				continue
			}
			if l := m.readLook(in, cursor); l > d {
				d = l
			}
			if ret, ok := in.(*ssa.Return); ok {
				val := ""
				for _, part := range returnedTokenParts(ret) {
					if s, ok := core.ConstString(part); ok && s != "" {
						val = s
					}
				}
				if val == "" {
					continue
				}
				n++
				seq[val]++
				key := "readPunctuation|" + val
				if seq[val] > 1 {
					key += sprintf("#%d", seq[val])
				}
				if d <= 1 {
					r.OK("munch-lookahead", key, p.Pos(ret.Pos()), sprintf("look-ahead %d", d))
				} else {
					r.Violate("munch-lookahead", key, p.Pos(ret.Pos()), sprintf("the decision to return %q has read %d characters past the end of the token on some path: whether this operator is recognised depends on text that follows it (e.g. the character after the next one), so inserting or removing a separator there changes the token stream", val, d))
				}
			}
		}
		for _, s := range b.Succs {
			if inLoopB[s] {
				continue
			}
			if d > dIn[s] {
				dIn[s] = d
			}
		}
	}
	r.Floor("munch-lookahead", n, 20, "returns of constant operator tokens in readPunctuation")
}
