package rules

import (
	"go/token"
	"go/types"
	"sort"

	"golang.org/x/tools/go/ssa"

	"gosqlxsa/core"
)

// Rule prefilter-admits-keys (C03/C04). A function that re-types a word by comparing it (case-folded) with string
// constants, and that first rejects the word by its length (`if n < a || n > b { return … }`), must admit the length of
// every constant it compares with: a key outside the admitted range can never match again (ANY behind `n < 4`), and the
// word silently stays an identifier, so a whole class of statements stops parsing.
func c03PrefilterAdmitsKeys(c *Ctx, p *core.Prog, scope []string, fired map[string]bool) int {
	r := c.R
	n := 0
	for _, fn := range p.SrcFuncs(scope...) {
		if fn.Parent() != nil {
			continue
		}
		var par *ssa.Parameter
		cnt := 0
		for _, q := range fn.Params {
			if b, ok := q.Type().Underlying().(*types.Basic); ok && b.Info()&types.IsString != 0 {
				par = q
				cnt++
			}
		}
		if cnt != 1 {
			continue
		}
		isLenOfPar := func(v ssa.Value) bool {
			l := core.LenOf(v)
			return l != nil && l == ssa.Value(par)
		}
		// same length as the parameter: the parameter, a case mapping of it, or the string of a buffer of len(par) bytes
		var sameLen func(v ssa.Value, d int) bool
		sameLen = func(v ssa.Value, d int) bool {
			if d > 6 {
				return false
			}
			switch x := v.(type) {
			case *ssa.Parameter:
				return x == par
			case *ssa.Phi:
				for _, e := range x.Edges {
					if !sameLen(e, d+1) {
						return false
					}
				}
				return true
			case *ssa.Convert:
				return sameLen(x.X, d+1)
			case *ssa.ChangeType:
				return sameLen(x.X, d+1)
			case *ssa.Slice:
				return x.Low == nil && x.High != nil && isLenOfPar(x.High)
			case *ssa.MakeSlice:
				return isLenOfPar(x.Len)
			case *ssa.Call:
				f := x.Call.StaticCallee()
				if f == nil || len(x.Call.Args) != 1 {
					return false
				}
				if pk := core.FnPkg(f); pk != nil && (pk.Path() == "strings" || pk.Path() == "bytes") && (f.Name() == "ToUpper" || f.Name() == "ToLower") {
					return sameLen(x.Call.Args[0], d+1)
				}
				// a helper of this module that returns a string of the length of its argument
				if core.InModule(f) && f.Blocks != nil && len(f.Params) == 1 && d < 3 {
					ok := true
					found := false
					for _, b := range f.Blocks {
						if ret, isRet := b.Instrs[len(b.Instrs)-1].(*ssa.Return); isRet && len(ret.Results) == 1 {
							found = true
							if !helperSameLen(ret.Results[0], f.Params[0], 0) {
								ok = false
							}
						}
					}
					return ok && found && sameLen(x.Call.Args[0], d+1)
				}
			}
			return false
		}
		// the admitted range of len(par): rejected when an early-returning branch is taken
		lo, hi := int64(0), int64(1<<40)
		guards := 0
		for _, b := range fn.Blocks {
			iff, ok := b.Instrs[len(b.Instrs)-1].(*ssa.If)
			if !ok {
				continue
			}
			bo, ok := iff.Cond.(*ssa.BinOp)
			if !ok {
				continue
			}
			k, isC := core.ConstInt(bo.Y)
			x := bo.X
			op := bo.Op
			if !isC {
				k, isC = core.ConstInt(bo.X)
				x = bo.Y
				switch op { // c OP len  ==  len OP' c
				case token.LSS:
					op = token.GTR
				case token.GTR:
					op = token.LSS
				case token.LEQ:
					op = token.GEQ
				case token.GEQ:
					op = token.LEQ
				}
			}
			if !isC || !isLenOfPar(x) {
				continue
			}
			// which successor rejects (returns at once, through empty blocks)?
			rejects := func(sc *ssa.BasicBlock) bool {
				for i := 0; i < 3; i++ {
					ins := sc.Instrs
					// leading bookkeeping of a return in a function with defers: result spilled to a cell, rundefers, reload
					j := 0
					for ; j < len(ins)-1; j++ {
						switch x := ins[j].(type) {
						case *ssa.RunDefers:
							continue
						case *ssa.Store:
							if _, isCell := x.Addr.(*ssa.Alloc); isCell {
								if _, isC := x.Val.(*ssa.Const); isC {
									continue
								}
							}
						case *ssa.UnOp:
							if _, isCell := x.X.(*ssa.Alloc); isCell && x.Op == token.MUL {
								continue
							}
						}
						break
					}
					if j != len(ins)-1 {
						return false
					}
					if _, isRet := ins[j].(*ssa.Return); isRet {
						return true
					}
					if _, isJ := ins[j].(*ssa.Jump); isJ && j == 0 {
						sc = sc.Succs[0]
						continue
					}
					return false
				}
				return false
			}
			tRej, fRej := rejects(b.Succs[0]), rejects(b.Succs[1])
			if tRej == fRej {
				continue
			}
			if fRej { // the condition must hold to go on: negate
				switch op {
				case token.LSS:
					op = token.GEQ
				case token.GTR:
					op = token.LEQ
				case token.LEQ:
					op = token.GTR
				case token.GEQ:
					op = token.LSS
				default:
					continue
				}
			}
			// rejected when len OP k
			switch op {
			case token.LSS:
				if k > lo {
					lo = k
				}
			case token.LEQ:
				if k+1 > lo {
					lo = k + 1
				}
			case token.GTR:
				if k < hi {
					hi = k
				}
			case token.GEQ:
				if k-1 < hi {
					hi = k - 1
				}
			default:
				continue
			}
			guards++
		}
		if guards == 0 {
			continue
		}
		// keys compared with a same-length value
		var keys []string
		pos := map[string]token.Pos{}
		for _, b := range fn.Blocks {
			for _, in := range b.Instrs {
				bo, ok := in.(*ssa.BinOp)
				if !ok || bo.Op != token.EQL {
					continue
				}
				for _, pair := range [][2]ssa.Value{{bo.X, bo.Y}, {bo.Y, bo.X}} {
					if s, isC := core.ConstString(pair[1]); isC && sameLen(pair[0], 0) {
						if _, dup := pos[s]; !dup {
							keys = append(keys, s)
							pos[s] = bo.Pos()
						}
					}
				}
			}
		}
		if len(keys) == 0 {
			continue
		}
		n++
		sort.Strings(keys)
		var out []string
		for _, k := range keys {
			if int64(len(k)) < lo || int64(len(k)) > hi {
				out = append(out, k)
			}
		}
		key := core.FnName(fn)
		if fired != nil {
			if len(out) > 0 {
				fired[key] = true
			}
			continue
		}
		if len(out) == 0 {
			r.OK("prefilter-admits-keys", key, p.FnPos(fn), sprintf("length pre-filter [%d, %d] admits all %d compared words", lo, hi, len(keys)))
		} else {
			r.Violate("prefilter-admits-keys", key, p.Pos(pos[out[0]]), sprintf("the length pre-filter admits only %d..%d characters, but the function compares the word with %q (%d characters): that word can never match again and keeps whatever type it had before", lo, hi, out, len(out[0])))
		}
	}
	return n
}

// helperSameLen: inside a helper, v has the length of the helper's parameter.
func helperSameLen(v ssa.Value, par *ssa.Parameter, d int) bool {
	if d > 5 {
		return false
	}
	switch x := v.(type) {
	case *ssa.Parameter:
		return x == par
	case *ssa.Convert:
		return helperSameLen(x.X, par, d+1)
	case *ssa.Phi:
		for _, e := range x.Edges {
			if !helperSameLen(e, par, d+1) {
				return false
			}
		}
		return true
	case *ssa.MakeSlice:
		l := core.LenOf(x.Len)
		return l != nil && l == ssa.Value(par)
	case *ssa.Slice:
		if x.Low == nil && x.High != nil {
			l := core.LenOf(x.High)
			return l != nil && l == ssa.Value(par)
		}
	}
	return false
}
