package rules

import (
	"go/token"
	"go/types"

	"golang.org/x/tools/go/ssa"

	"gosqlxsa/core"
)

// instrReaches: is there an execution path from just after `from` to `to` that does not execute `avoid`?
func instrReaches(from, to, avoid ssa.Instruction) bool {
	seen := map[*ssa.BasicBlock]bool{}
	var scan func(b *ssa.BasicBlock, i int) bool
	scan = func(b *ssa.BasicBlock, i int) bool {
		for ; i < len(b.Instrs); i++ {
			if b.Instrs[i] == to {
				return true
			}
			if avoid != nil && b.Instrs[i] == avoid {
				return false
			}
		}
		for _, s := range b.Succs {
			if !seen[s] {
				seen[s] = true
				if scan(s, 0) {
					return true
				}
			}
		}
		return false
	}
	fb := from.Block()
	for i, in := range fb.Instrs {
		if in == from {
			return scan(fb, i+1)
		}
	}
	return false
}

// flowsToTokenText: does the string value v end up (through conversions, concatenation, case mapping, locals)
// in a field of a models.Token / models.Word that a reader returns?
func flowsToTokenText(v ssa.Value, depth int, seen map[ssa.Value]bool) bool {
	if depth > 8 || seen[v] {
		return false
	}
	seen[v] = true
	for _, ref := range core.Referrers(v) {
		switch x := ref.(type) {
		case *ssa.Store:
			if x.Val != v {
				continue
			}
			switch a := x.Addr.(type) {
			case *ssa.FieldAddr:
				if n := core.NamedOf(a.X.Type()); n != nil && (n.Obj().Name() == "Token" || n.Obj().Name() == "Word") {
					return true
				}
			case *ssa.Alloc:
				for _, r2 := range core.Referrers(a) {
					if ld, ok := r2.(*ssa.UnOp); ok && ld.Op == token.MUL {
						if flowsToTokenText(ld, depth+1, seen) {
							return true
						}
					}
				}
			}
		case *ssa.Convert, *ssa.ChangeType, *ssa.Phi, *ssa.Slice:
			if flowsToTokenText(x.(ssa.Value), depth+1, seen) {
				return true
			}
		case *ssa.BinOp:
			if x.Op == token.ADD && flowsToTokenText(x, depth+1, seen) {
				return true
			}
		case *ssa.Call:
			f := x.Call.StaticCallee()
			if f != nil && core.FnPkg(f) != nil && (core.FnPkg(f).Path() == "strings" || core.FnPkg(f).Path() == "bytes") {
				if b, ok := x.Type().Underlying().(*types.Basic); ok && b.Info()&types.IsString != 0 {
					if flowsToTokenText(x, depth+1, seen) {
						return true
					}
				}
			}
		}
	}
	return false
}

// c04Layout: token text never spans skipped layout.
func c04Layout(c *Ctx) {
	r, p := c.R, c.P
	r.Rule("value-excludes-layout", "a token's text taken as a slice of the input never spans a whitespace skip: no call of skipWhitespace lies on a path between the capture of the slice's start offset and the slice (otherwise the value of a two-word keyword contains the blanks, tabs or newlines that happened to separate the words, and the token stream depends on layout)")
	skip := p.Method("pkg/sql/tokenizer", "Tokenizer", "skipWhitespace")
	if skip == nil {
		r.Fatal("anchor not found: (*Tokenizer).skipWhitespace")
		return
	}
	isInputLoad := func(v ssa.Value) bool {
		u, ok := v.(*ssa.UnOp)
		if !ok || u.Op != token.MUL {
			return false
		}
		fa, ok := u.X.(*ssa.FieldAddr)
		return ok && fieldKey(fa.X, fa.Field) == "Tokenizer.input"
	}
	n := 0
	for _, fn := range p.SrcFuncs("pkg/sql/tokenizer") {
		var skips []ssa.Instruction
		for _, b := range fn.Blocks {
			for _, in := range b.Instrs {
				if ci, ok := in.(ssa.CallInstruction); ok {
					// direct calls, and calls of helpers that skip whitespace themselves
					for _, cal := range p.Callees(ci) {
						if cal == skip {
							skips = append(skips, in)
						}
					}
				}
			}
		}
		seq := 0
		for _, b := range fn.Blocks {
			for _, in := range b.Instrs {
				sl, ok := in.(*ssa.Slice)
				if !ok || !isInputLoad(sl.X) || sl.Low == nil {
					continue
				}
				if !flowsToTokenText(sl, 0, map[ssa.Value]bool{}) {
					continue
				}
				seq++
				n++
				key := core.FnName(fn) + sprintf("|input-slice#%d", seq)
				lowDef, ok := sl.Low.(ssa.Instruction)
				if !ok {
					r.OK("value-excludes-layout", key, p.Pos(sl.Pos()), "start offset is a constant or parameter")
					continue
				}
				var bad ssa.Instruction
				for _, k := range skips {
					if instrReaches(lowDef, k, nil) && instrReaches(k, sl, lowDef) {
						bad = k
					}
				}
				if bad != nil {
					r.Violate("value-excludes-layout", key, p.Pos(sl.Pos()), "the token text is input[start:…] with start captured at "+p.Pos(lowDef.Pos())+", and whitespace is skipped at "+p.Pos(bad.Pos())+" before the slice is taken: the value contains the separator exactly as written (layout-dependent), and consumers that compare it with a canonical spelling stop matching")
				} else {
					r.OK("value-excludes-layout", key, p.Pos(sl.Pos()), "no whitespace skip between the start offset and the slice")
				}
			}
		}
	}
	r.Floor("value-excludes-layout", n, 2, "input slices that become token text")
}
