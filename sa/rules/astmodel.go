package rules

import (
	"go/types"
	"sort"

	"gosqlxsa/core"
)

// AstModel describes the node types of pkg/sql/ast (or of a control package
// with the same shape): which named struct types implement Node and which
// access paths inside each can hold further nodes.
type AstModel struct {
	Pkg       *types.Package
	NodeIface *types.Interface
	Types     []*types.Named // node struct types, sorted by name
	Generic   []string       // generic struct types, skipped
}

// NewAstModel builds the model for the package at rel (relative to the module).
func NewAstModel(p *core.Prog, rel string) *AstModel {
	pk := p.Pkg(rel)
	if pk == nil {
		return nil
	}
	obj := pk.Types.Scope().Lookup("Node")
	if obj == nil {
		return nil
	}
	iface, ok := obj.Type().Underlying().(*types.Interface)
	if !ok {
		return nil
	}
	m := &AstModel{Pkg: pk.Types, NodeIface: iface}
	names := pk.Types.Scope().Names()
	sort.Strings(names)
	for _, n := range names {
		tn, ok := pk.Types.Scope().Lookup(n).(*types.TypeName)
		if !ok || tn.IsAlias() {
			continue
		}
		named, ok := tn.Type().(*types.Named)
		if !ok {
			continue
		}
		if _, ok := named.Underlying().(*types.Struct); !ok {
			continue
		}
		if named.TypeParams().Len() > 0 {
			// generic containers hold []T: not statically node-holding
			m.Generic = append(m.Generic, named.Obj().Name())
			continue
		}
		if m.IsNodeType(named) {
			m.Types = append(m.Types, named)
		}
	}
	return m
}

// IsNodeType reports whether T or *T implements Node.
func (m *AstModel) IsNodeType(t types.Type) bool {
	if _, ok := t.Underlying().(*types.Interface); ok {
		return false
	}
	return types.Implements(t, m.NodeIface) || types.Implements(types.NewPointer(t), m.NodeIface)
}

// IsNodeIface reports whether t is an interface type that includes Node's methods.
func (m *AstModel) IsNodeIface(t types.Type) bool {
	i, ok := t.Underlying().(*types.Interface)
	if !ok || i.NumMethods() == 0 {
		return false
	}
	return types.Implements(t, m.NodeIface)
}

// Holds reports whether a value of type t can contain a node (directly, by
// pointer, in a slice/array/map, or inside an inline non-node struct).
func (m *AstModel) Holds(t types.Type) bool { return m.holds(t, map[types.Type]bool{}) }

func (m *AstModel) holds(t types.Type, seen map[types.Type]bool) bool {
	if seen[t] {
		return false
	}
	seen[t] = true
	switch u := t.(type) {
	case *types.Alias:
		return m.holds(types.Unalias(u), seen)
	case *types.Named:
		if _, ok := u.Underlying().(*types.Interface); ok {
			return m.IsNodeIface(u)
		}
		if m.IsNodeType(u) {
			return true
		}
		return m.holds(u.Underlying(), seen)
	case *types.Pointer:
		return m.holds(u.Elem(), seen)
	case *types.Slice:
		return m.holds(u.Elem(), seen)
	case *types.Array:
		return m.holds(u.Elem(), seen)
	case *types.Map:
		return m.holds(u.Elem(), seen)
	case *types.Struct:
		for i := 0; i < u.NumFields(); i++ {
			if m.holds(u.Field(i).Type(), seen) {
				return true
			}
		}
	case *types.Interface:
		return m.IsNodeIface(u)
	}
	return false
}

// isNodeEndpoint: the type is a node, pointer to node, node interface, or a
// container (slice/array/map, nested) of those — i.e. a field of this type is
// one "node-holding path" whose elements are children.
func (m *AstModel) isNodeEndpoint(t types.Type) bool {
	switch u := types.Unalias(t).(type) {
	case *types.Named:
		if _, ok := u.Underlying().(*types.Interface); ok {
			return m.IsNodeIface(u)
		}
		if m.IsNodeType(u) {
			return true
		}
		// named slice types etc.
		switch uu := u.Underlying().(type) {
		case *types.Slice, *types.Array, *types.Map:
			return m.isNodeEndpoint(uu)
		}
		return false
	case *types.Pointer:
		if n, ok := types.Unalias(u.Elem()).(*types.Named); ok && m.IsNodeType(n) {
			return true
		}
		return false
	case *types.Slice:
		return m.isNodeEndpoint(u.Elem())
	case *types.Array:
		return m.isNodeEndpoint(u.Elem())
	case *types.Map:
		return m.isNodeEndpoint(u.Elem())
	case *types.Interface:
		return m.IsNodeIface(u)
	}
	return false
}

// NodePath is one node-holding access path of a node type.
type NodePath struct {
	Path string
	Type types.Type
}

// Paths enumerates the node-holding access paths of struct type t: fields whose
// type is a node endpoint, recursing through inline (non-node) structs,
// pointers to them and containers of them.
func (m *AstModel) Paths(t types.Type) []NodePath {
	var out []NodePath
	m.paths(t, "", map[types.Type]bool{}, &out)
	return out
}

func (m *AstModel) paths(t types.Type, prefix string, seen map[types.Type]bool, out *[]NodePath) {
	st := core.StructOf(t)
	if st == nil || seen[t] {
		return
	}
	seen[t] = true
	defer delete(seen, t)
	for i := 0; i < st.NumFields(); i++ {
		f := st.Field(i)
		p := f.Name()
		if prefix != "" {
			p = prefix + "." + p
		}
		ft := f.Type()
		if m.isNodeEndpoint(ft) {
			*out = append(*out, NodePath{p, ft})
			continue
		}
		if !m.Holds(ft) {
			continue
		}
		// non-node struct, pointer to it, or container of it
		suffix := ""
		cur := types.Unalias(ft)
		for {
			switch u := cur.Underlying().(type) {
			case *types.Slice:
				suffix += "[]"
				cur = types.Unalias(u.Elem())
				continue
			case *types.Array:
				suffix += "[]"
				cur = types.Unalias(u.Elem())
				continue
			case *types.Map:
				suffix += "[]"
				cur = types.Unalias(u.Elem())
				continue
			case *types.Pointer:
				cur = types.Unalias(u.Elem())
				continue
			}
			break
		}
		m.paths(cur, p+suffix, seen, out)
	}
}
