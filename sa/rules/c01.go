package rules

import (
	"go/token"
	"sort"
	"strings"

	"golang.org/x/tools/go/ssa"

	"gosqlxsa/core"
)

func init() { Registry["C01"] = runC01 }

func runC01(c *Ctx) {
	r := c.R
	r.Summary = "C01 (no input can crash, panic or hang any entry point): decided clauses = hang freedom of every loop of the parser and tokenizer (each cycle of each function's SSA block graph makes progress on the token/byte cursor and cannot iterate at end of input, or is a counted/range loop), with the end-of-input behaviour of advance(); absence of explicit panics and single-result type assertions outside the pool discipline; index/slice bounds obligations discharged by dominating guards; nil-guards for typed-nil conversions in Children(); recover barriers in both tokenizer entry points."
	r.NotCov = []string{"nil dereference in general", "integer overflow", "panics inside the standard library on arguments not modelled", "memory exhaustion other than through a non-terminating loop", "linter rule loops (range over strings.Split results)"}
	c01Hang(c)
	c01Panics(c)
	c01OptionalDeref(c, c.P)
}

// c01Hang: R6.0 + R6 for the parser, R6 for the tokenizer.
func c01Hang(c *Ctx) {
	r, p := c.R, c.P
	r.Rule("advance-eof", "advance() is the only writer that moves the parser cursor, moves it by +1, and on the branch where the cursor is past the end of the token slice stores a token of type EOF into currentToken: past the end the parser sees end of input for ever")
	r.Rule("parser-loop", "every cycle in the SSA block graph of a pkg/sql/parser function (a) disappears when blocks/edges that must advance the cursor are removed and (b) disappears when edges that imply `current token is not end of input` are removed, or is a counted/range loop; with advance-eof this bounds iterations by the number of tokens")
	r.Rule("tokenizer-loop", "every cycle in a pkg/sql/tokenizer function advances the byte cursor and cannot iterate once the cursor has reached len(input), or is a counted/range loop")
	m, missing := newParserModel(p)
	if m == nil {
		r.Fatal("anchor not found: %s", missing)
		return
	}
	c01AdvanceEOF(c, m)
	spec := m.spec()
	nl, nb := 0, 0
	for _, fn := range m.fns {
		n, b, fs := checkLoops(fn, spec)
		nl += n
		nb += b
		bad := map[int][]loopFinding{}
		for _, f := range fs {
			bad[f.ordinal] = append(bad[f.ordinal], f)
		}
		for i := 1; i <= n; i++ {
			key := core.FnName(fn) + sprintf("|loop#%d", i)
			if len(bad[i]) == 0 {
				r.OK("parser-loop", key, p.FnPos(fn), "")
				continue
			}
			var parts []string
			for _, f := range bad[i] {
				if f.kind == "no-progress" {
					parts = append(parts, "a cycle near "+p.Pos(f.pos)+" can repeat without consuming a token")
				} else {
					parts = append(parts, "a cycle near "+p.Pos(f.pos)+" can repeat while the current token is end of input")
				}
			}
			r.Violate("parser-loop", key, p.Pos(bad[i][0].pos), strings.Join(parts, "; "))
		}
	}
	r.Floor("parser-loop", nl, 40, "loops in parser functions")
	var must []string
	for f, v := range m.onOK {
		if v {
			must = append(must, f.Name())
		}
	}
	sort.Strings(must)
	r.Extra("parser_loops", nl)
	r.Extra("parser_bounded_loops", nb)
	r.Extra("must_advance_on_success", len(must))
	c01Tokenizer(c)
}

// c01AdvanceEOF checks R6.0 and the who-may-write rule for the cursor.
func c01AdvanceEOF(c *Ctx, m *parserModel) {
	r, p := c.R, c.P
	adv := m.advance
	// find a store of an EOF-typed token into currentToken on an edge where cursor >= len(tokens)
	eofStore := false
	guarded := false
	for _, b := range adv.Blocks {
		for _, in := range b.Instrs {
			st, ok := in.(*ssa.Store)
			if !ok {
				continue
			}
			isEOF := false
			// field-wise: &p.currentToken.Type = EOF
			if fa, ok := st.Addr.(*ssa.FieldAddr); ok && isFieldOf(fa.X, m.T, "currentToken") && core.FieldName(fa.X.Type(), fa.Field) == "Type" {
				if k, ok := core.ConstInt(st.Val); ok && k == m.eof {
					isEOF = true
				}
			}
			// whole: p.currentToken = *tmp with tmp.Type = EOF
			if isFieldOf(st.Addr, m.T, "currentToken") {
				if ld, ok := st.Val.(*ssa.UnOp); ok {
					if tmp, ok := ld.X.(*ssa.Alloc); ok {
						for _, ref := range core.Referrers(tmp) {
							if fa, ok := ref.(*ssa.FieldAddr); ok && core.FieldName(fa.X.Type(), fa.Field) == "Type" {
								for _, r2 := range core.Referrers(fa) {
									if s2, ok := r2.(*ssa.Store); ok {
										if k, ok := core.ConstInt(s2.Val); ok && k == m.eof {
											isEOF = true
										}
									}
								}
							}
						}
					}
				}
			}
			if !isEOF {
				continue
			}
			eofStore = true
			// every controlling condition must be the cursor compared with len(tokens), on the past-the-end side
			cds := core.ControlDeps(b)
			all := len(cds) > 0
			for _, cd := range cds {
				bo, ok := cd.If.Cond.(*ssa.BinOp)
				if !ok || !m.isCursorLoad(bo.X) || core.LenOf(bo.Y) == nil {
					all = false
					continue
				}
				onTrue := cd.Succ == 0
				switch {
				case bo.Op == token.LSS && !onTrue, bo.Op == token.GEQ && onTrue, bo.Op == token.GTR && onTrue, bo.Op == token.LEQ && !onTrue:
				default:
					all = false
				}
			}
			if all {
				guarded = true
			}
		}
	}
	switch {
	case eofStore && guarded:
		r.OK("advance-eof", "advance|eof-token", p.FnPos(adv), "past the end of the slice currentToken becomes an EOF token")
	case eofStore:
		r.Violate("advance-eof", "advance|eof-token", p.FnPos(adv), "advance() stores an EOF token but not on the branch where the cursor is past the end")
	default:
		r.Violate("advance-eof", "advance|eof-token", p.FnPos(adv), "advance() leaves currentToken unchanged once the cursor is past the end: a token slice without EOF makes consuming loops spin for ever")
	}
	// who may write the cursor / the current token
	fa := collectFieldAccess(m.fns, m.T)
	for _, fn := range m.fns {
		for _, f := range []string{"currentPos", "tokens"} {
			for i, st := range fa.writes[fn][f] {
				key := "writer|" + core.FnName(fn) + "|" + f + sprintf("#%d", i+1)
				switch {
				case fn == adv && f == "currentPos":
					r.OK("advance-eof", key, p.Pos(st.Pos()), "the +1 step")
				case isResetValue(st.Val) && f == "currentPos":
					r.OK("advance-eof", key, p.Pos(st.Pos()), "reset to 0 at an entry point / Reset / Release")
				case f == "tokens" && (isResetValue(st.Val) || paramDerived(st.Val) != ""):
					r.OK("advance-eof", key, p.Pos(st.Pos()), "input installed at an entry point")
				default:
					r.Violate("advance-eof", key, p.Pos(st.Pos()), "writes Parser."+f+" outside advance()/entry points: the cursor may move backwards or the slice change under the loops")
				}
			}
		}
	}
}
