package rules

import (
	"go/token"
	"sort"
	"strings"

	"golang.org/x/tools/go/ssa"

	"gosqlxsa/core"
)

// dialectAgreement (C07 for the library, C19 for the CLI): a function that puts a tokenizer under a dialect
// (tokenizer.NewWithDialect(d), (*Tokenizer).SetDialect(d)) and builds the parser that will read those tokens
// (parser.NewParser(opts...)) has to give that parser the same dialect on every path: each NewParser call of the function
// carries a WithDialect(x) option whose argument comes from the same source as d. A branch that builds the parser with
// another option list ("strict mode: NewParser(WithStrictMode())") silently parses MySQL tokens under the default
// grammar - `LIMIT a, b` is then rejected by this entry point and accepted by its siblings and by the library.
//
// The option list is followed through slice literals, append(...) and phis (an option slice that is extended
// conditionally is the natural way to write such a feature and is accepted when the base list has the option); a list
// that comes from somewhere else (a parameter, a field) is not decided and not reported.
const dialectAgreementText = "a function that configures a tokenizer with a dialect (NewWithDialect / SetDialect) and calls parser.NewParser passes, on every path and at every such call, a WithDialect option whose argument has the same source as the tokenizer's dialect (option lists followed through literals, append and phis)"

func dialectAgreement(c *Ctx, rule string, min int, rels ...string) {
	r, p := c.R, c.P
	r.Rule(rule, dialectAgreementText)
	newParser := p.Func("pkg/sql/parser", "NewParser")
	withDialect := p.Func("pkg/sql/parser", "WithDialect")
	if newParser == nil || withDialect == nil {
		r.Fatal("anchor not found: parser.NewParser / parser.WithDialect")
		return
	}
	n := 0
	for _, fn := range p.SrcFuncs(rels...) {
		var tokArgs []ssa.Value
		var parserCalls []*ssa.Call
		for _, b := range fn.Blocks {
			for _, in := range b.Instrs {
				call, ok := in.(*ssa.Call)
				if !ok {
					continue
				}
				callee := call.Call.StaticCallee()
				if callee == nil {
					continue
				}
				switch {
				case core.InPkgs(callee, "pkg/sql/tokenizer") && callee.Name() == "NewWithDialect" && len(call.Call.Args) == 1:
					tokArgs = append(tokArgs, call.Call.Args[0])
				case core.InPkgs(callee, "pkg/sql/tokenizer") && callee.Name() == "SetDialect" && len(call.Call.Args) == 2:
					tokArgs = append(tokArgs, call.Call.Args[1])
				case callee == newParser:
					parserCalls = append(parserCalls, call)
				}
			}
		}
		if len(tokArgs) == 0 || len(parserCalls) == 0 {
			continue
		}
		want := map[string]bool{}
		for _, a := range tokArgs {
			for t := range dialectLeaves(a, 0, map[ssa.Value]bool{}) {
				want[t] = true
			}
		}
		for i, call := range parserCalls {
			n++
			key := core.FnName(fn) + sprintf("|NewParser#%d", i+1)
			var opts ssa.Value
			if len(call.Call.Args) == 1 {
				opts = call.Call.Args[0]
			}
			st, why := optsCarryDialect(opts, withDialect, want, map[ssa.Value]bool{})
			switch st {
			case 1:
				r.OK(rule, key, p.Pos(call.Pos()), "WithDialect from the tokenizer's dialect source ("+strings.Join(sortedKeys(want), ", ")+")")
			case 0:
				r.OK(rule, key, p.Pos(call.Pos()), "option list not built in this function: not decided")
			default:
				r.Violate(rule, key, p.Pos(call.Pos()), "this function puts its tokenizer under a dialect ("+strings.Join(sortedKeys(want), ", ")+") but builds this parser "+why+": dialect-specific tokens are parsed under the default grammar on this path, so the verdict differs from the sibling entry points and from the library")
			}
		}
	}
	r.Floor(rule, n, min, "parser constructions in functions that configure a tokenizer dialect")
}

func sortedKeys(m map[string]bool) []string {
	var out []string
	for k := range m {
		out = append(out, k)
	}
	sort.Strings(out)
	return out
}

// dialectLeaves: the sources a dialect value is computed from (parameters, field paths, constants, other values),
// through conversions, phis, binary operations and call arguments.
func dialectLeaves(v ssa.Value, depth int, seen map[ssa.Value]bool) map[string]bool {
	out := map[string]bool{}
	if v == nil || seen[v] || depth > 8 {
		return out
	}
	seen[v] = true
	add := func(m map[string]bool) {
		for k := range m {
			out[k] = true
		}
	}
	switch x := v.(type) {
	case *ssa.Convert:
		add(dialectLeaves(x.X, depth+1, seen))
	case *ssa.ChangeType:
		add(dialectLeaves(x.X, depth+1, seen))
	case *ssa.MakeInterface:
		add(dialectLeaves(x.X, depth+1, seen))
	case *ssa.Phi:
		for _, e := range x.Edges {
			add(dialectLeaves(e, depth+1, seen))
		}
	case *ssa.BinOp:
		add(dialectLeaves(x.X, depth+1, seen))
		add(dialectLeaves(x.Y, depth+1, seen))
	case *ssa.Call:
		if len(x.Call.Args) == 0 {
			out["val:"+x.Name()] = true
		}
		for _, a := range x.Call.Args {
			add(dialectLeaves(a, depth+1, seen))
		}
	case *ssa.Parameter:
		out["param:"+x.Name()] = true
	case *ssa.Const:
		if s, ok := core.ConstString(x); ok {
			out["const:"+s] = true
		} else {
			out["const"] = true
		}
	case *ssa.UnOp:
		if x.Op == token.MUL {
			if t := fieldPathTerm(x.X); t != "" {
				out[t] = true
				return out
			}
		}
		out["val:"+x.Name()] = true
	case *ssa.Field:
		if t := fieldPathTerm(x); t != "" {
			out[t] = true
		} else {
			out["val:"+x.Name()] = true
		}
	default:
		out["val:"+v.Name()] = true
	}
	return out
}

// fieldPathTerm names a field chain from a parameter or free variable: "v.Opts.Dialect".
func fieldPathTerm(v ssa.Value) string {
	switch x := v.(type) {
	case *ssa.FieldAddr:
		if b := fieldPathTerm(x.X); b != "" {
			return b + "." + core.FieldName(x.X.Type(), x.Field)
		}
	case *ssa.Field:
		if b := fieldPathTerm(x.X); b != "" {
			return b + "." + core.FieldName(x.X.Type(), x.Field)
		}
	case *ssa.UnOp:
		if x.Op == token.MUL {
			return fieldPathTerm(x.X)
		}
	case *ssa.Parameter:
		return x.Name()
	case *ssa.FreeVar:
		return x.Name()
	case *ssa.Global:
		return x.Name()
	}
	return ""
}

// optsCarryDialect: 1 = every path gives the list a WithDialect option from an agreeing source, -1 = some path does not,
// 0 = the list is not built here.
func optsCarryDialect(opts ssa.Value, withDialect *ssa.Function, want map[string]bool, busy map[ssa.Value]bool) (int, string) {
	if opts == nil {
		return -1, "without any option"
	}
	if busy[opts] {
		return 1, "" // a loop that extends the list: decided by its entry
	}
	busy[opts] = true
	defer delete(busy, opts)
	literal := func(v ssa.Value) (int, string) {
		els := variadicOperands(v)
		sawOther := ""
		for _, e := range els {
			call, ok := e.(*ssa.Call)
			if !ok {
				// an option value that is not a direct With… call (a variable, a closure): cannot be ruled out
				return 0, ""
			}
			if call.Call.StaticCallee() != withDialect || len(call.Call.Args) != 1 {
				continue
			}
			got := dialectLeaves(call.Call.Args[0], 0, map[ssa.Value]bool{})
			for t := range got {
				if want[t] {
					return 1, ""
				}
			}
			sawOther = strings.Join(sortedKeys(got), ", ")
		}
		if sawOther != "" {
			return -1, "with WithDialect(" + sawOther + "), a different source"
		}
		return -1, "with an option list that has no WithDialect"
	}
	switch x := opts.(type) {
	case *ssa.Const:
		return -1, "without any option" // nil slice: NewParser()
	case *ssa.Slice:
		if _, ok := x.X.(*ssa.Alloc); ok && x.Low == nil && x.High == nil {
			return literal(x)
		}
		return optsCarryDialect(x.X, withDialect, want, busy)
	case *ssa.Phi:
		res := 1
		why := ""
		for _, e := range x.Edges {
			st, w := optsCarryDialect(e, withDialect, want, busy)
			if st == -1 {
				return -1, w + " on one of the paths"
			}
			if st == 0 {
				res = 0
			}
			why = w
		}
		return res, why
	case *ssa.Call:
		if core.IsBuiltinCall(&x.Call, "append") && len(x.Call.Args) == 2 {
			if st, _ := optsCarryDialect(x.Call.Args[1], withDialect, want, busy); st == 1 {
				return 1, ""
			}
			return optsCarryDialect(x.Call.Args[0], withDialect, want, busy)
		}
	}
	return 0, ""
}
