package rules

import (
	"fmt"
	"os"
	"go/token"
	"go/types"
	"sort"
	"strings"

	"golang.org/x/tools/go/ssa"

	"gosqlxsa/core"
)

// Rule released-once (C09). Two halves, both read from the code on every run:
//
//  producer: in the tree builders (prodScope) one value — a node pointer, or a struct value that carries node pointers —
//  is stored into two different slots (struct type, field) of the tree, and one store can follow the other. The two
//  slots then share whatever pooled nodes hang below them ("co-aliased slots"; today: the first JoinClause.Left is a
//  copy of SelectStatement.From[0]).
//
//  consumer: a release function hands to the pools the values at two access paths, relative to the same root, that run
//  through the two co-aliased slots and continue with the same fields. The node at the end is then put twice, and two
//  later Gets return the same pointer to independent holders.
//
// Releasing through one of the two slots only is accepted. Paths are computed through local work lists (slices filled
// with append and drained with range).
type slotStore struct {
	slot string
	at   ssa.Instruction
}

func c09SlotOf(x ssa.Value, field int) string {
	t := x.Type()
	if pt, ok := t.Underlying().(*types.Pointer); ok {
		t = pt.Elem()
	}
	n := core.NamedOf(t)
	name := "struct"
	if n != nil {
		name = n.Obj().Name()
	}
	return name + "." + core.FieldName(x.Type(), field)
}

// carriesNode: a value of this type can hold (a pointer to) a node of package astRel.
func carriesNode(t types.Type, astRel string, depth int) bool {
	if depth > 3 {
		return false
	}
	switch u := t.Underlying().(type) {
	case *types.Pointer:
		if n := core.NamedOf(u.Elem()); n != nil && n.Obj().Pkg() != nil && strings.HasSuffix(n.Obj().Pkg().Path(), astRel) {
			_, isStruct := n.Underlying().(*types.Struct)
			return isStruct
		}
	case *types.Interface:
		if n := core.NamedOf(t); n != nil && n.Obj().Pkg() != nil && strings.HasSuffix(n.Obj().Pkg().Path(), astRel) {
			return true
		}
	case *types.Slice:
		return carriesNode(u.Elem(), astRel, depth+1)
	case *types.Array:
		return carriesNode(u.Elem(), astRel, depth+1)
	case *types.Struct:
		for i := 0; i < u.NumFields(); i++ {
			if carriesNode(u.Field(i).Type(), astRel, depth+1) {
				return true
			}
		}
	}
	return false
}

// c09SlotStores: the slots into which v, as a whole, is stored (following local variables, phis, conversions, slices,
// arrays and append).
func c09SlotStores(v ssa.Value) []slotStore {
	seen := map[ssa.Value]bool{}
	var out []slotStore
	var visit func(v ssa.Value)
	visit = func(v ssa.Value) {
		if v == nil || seen[v] || len(seen) > 400 {
			return
		}
		seen[v] = true
		_, isCell := v.(*ssa.Alloc)
		for _, ref := range core.Referrers(v) {
			switch x := ref.(type) {
			case *ssa.UnOp:
				// a struct variable assembled field by field: every read of the whole variable is the same value
				if isCell && x.Op == token.MUL {
					visit(x)
				}
			case *ssa.Store:
				if x.Val != v {
					continue
				}
				switch a := x.Addr.(type) {
				case *ssa.FieldAddr:
					out = append(out, slotStore{c09SlotOf(a.X, a.Field), x})
				case *ssa.IndexAddr:
					visit(a.X)
				case *ssa.Alloc:
					for _, r2 := range core.Referrers(a) {
						if u, ok := r2.(*ssa.UnOp); ok && u.Op == token.MUL {
							visit(u)
						}
					}
				}
			case *ssa.Phi:
				visit(x)
			case *ssa.MakeInterface:
				visit(x)
			case *ssa.ChangeType:
				visit(x)
			case *ssa.ChangeInterface:
				visit(x)
			case *ssa.Convert:
				visit(x)
			case *ssa.Slice:
				visit(x)
			case *ssa.TypeAssert:
				if !x.CommaOk {
					visit(x)
				}
			case *ssa.Call:
				if b, ok := x.Call.Value.(*ssa.Builtin); ok && b.Name() == "append" {
					visit(x)
				}
			}
		}
	}
	visit(v)
	return out
}

func instrFollows(a, b ssa.Instruction) bool {
	if a.Block() == b.Block() {
		ia, ib := -1, -1
		for i, in := range a.Block().Instrs {
			if in == a {
				ia = i
			}
			if in == b {
				ib = i
			}
		}
		if ia < ib {
			return true
		}
	}
	seen := map[*ssa.BasicBlock]bool{}
	work := append([]*ssa.BasicBlock{}, a.Block().Succs...)
	for len(work) > 0 {
		x := work[len(work)-1]
		work = work[:len(work)-1]
		if seen[x] {
			continue
		}
		seen[x] = true
		if x == b.Block() {
			return true
		}
		work = append(work, x.Succs...)
	}
	return false
}

// c09CoAliased: pairs of distinct slots that receive the same value in one function of prodScope. Key "A|B" with A < B.
func c09CoAliased(p *core.Prog, prodScope []string, astRel string) map[string]string {
	out := map[string]string{}
	for _, fn := range p.SrcFuncs(prodScope...) {
		consider := func(v ssa.Value) {
			if v == nil || !carriesNode(v.Type(), astRel, 0) {
				return
			}
			// origins only: values that are not themselves a copy of another tracked value
			switch v.(type) {
			case *ssa.Phi, *ssa.MakeInterface, *ssa.ChangeType, *ssa.ChangeInterface, *ssa.Slice:
				return
			}
			ss := c09SlotStores(v)
			for i := 0; i < len(ss); i++ {
				for j := i + 1; j < len(ss); j++ {
					a, b := ss[i], ss[j]
					if a.slot == b.slot || a.at == b.at {
						continue
					}
					if !instrFollows(a.at, b.at) && !instrFollows(b.at, a.at) {
						continue
					}
					if a.slot > b.slot {
						a, b = b, a
					}
					k := a.slot + "|" + b.slot
					if _, ok := out[k]; !ok {
						out[k] = core.FnName(fn) + " stores one value at " + p.Pos(a.at.Pos()) + " and at " + p.Pos(b.at.Pos())
					}
				}
			}
		}
		for _, par := range fn.Params {
			consider(par)
		}
		for _, b := range fn.Blocks {
			for _, in := range b.Instrs {
				if v, ok := in.(ssa.Value); ok {
					if u, isLoad := v.(*ssa.UnOp); isLoad && u.Op == token.MUL {
						if _, fromCell := u.X.(*ssa.Alloc); fromCell {
							continue // a read of a local variable: the value stored there is the origin
						}
					}
					consider(v)
				}
			}
		}
	}
	return out
}

type relPath struct {
	root  ssa.Value
	steps []string
}

func (rp relPath) String() string { return strings.Join(rp.steps, " → ") }

// c09PathsOf: the access paths (root value, slots walked) at which v is found. Work lists are looked through.
func c09PathsOf(v ssa.Value) []relPath {
	type key struct {
		v    ssa.Value
		elem bool
	}
	busy := map[key]bool{}
	var of func(v ssa.Value, d int) []relPath
	var elems, elemsDirect, elemsOf func(s ssa.Value, d int) []relPath
	var ofAddr func(a ssa.Value, d int) []relPath
	ext := func(ps []relPath, step string) []relPath {
		var out []relPath
		for _, q := range ps {
			st := append(append([]string{}, q.steps...), step)
			out = append(out, relPath{q.root, st})
		}
		return out
	}
	ofAddr = func(a ssa.Value, d int) []relPath {
		if d > 12 {
			return nil
		}
		switch x := a.(type) {
		case *ssa.FieldAddr:
			return ext(of(x.X, d+1), c09SlotOf(x.X, x.Field))
		case *ssa.IndexAddr:
			return elems(x.X, d+1)
		case *ssa.Alloc:
			var out []relPath
			for _, ref := range core.Referrers(x) {
				if st, ok := ref.(*ssa.Store); ok && st.Addr == ssa.Value(x) {
					out = append(out, of(st.Val, d+1)...)
				}
			}
			return out
		}
		return nil
	}
	// the paths of the elements of slice / array value s
	elems = func(s ssa.Value, d int) []relPath {
		if d > 12 || busy[key{s, true}] {
			return nil
		}
		busy[key{s, true}] = true
		defer delete(busy, key{s, true})
		return append(elemsDirect(s, d), elemsOf(s, d)...)
	}
	// what is stored through s[i] = v on this very value
	elemsDirect = func(s ssa.Value, d int) []relPath {
		if _, isLoad := s.(*ssa.UnOp); isLoad {
			return nil // a loaded slice: writes through it are writes to whatever it was loaded from
		}
		var out []relPath
		for _, ref := range core.Referrers(s) {
			if ia, ok := ref.(*ssa.IndexAddr); ok && ia.X == s {
				for _, r2 := range core.Referrers(ia) {
					if st, ok := r2.(*ssa.Store); ok && st.Addr == ssa.Value(ia) {
						out = append(out, of(st.Val, d+1)...)
					}
				}
			}
		}
		return out
	}
	elemsOf = func(s ssa.Value, d int) []relPath {
		switch x := s.(type) {
		case *ssa.UnOp:
			if x.Op == token.MUL {
				if _, isField := x.X.(*ssa.FieldAddr); isField {
					return ofAddr(x.X, d+1) // elements of a field: the field's own path
				}
				if al, ok := x.X.(*ssa.Alloc); ok {
					var out []relPath
					for _, ref := range core.Referrers(al) {
						if st, ok := ref.(*ssa.Store); ok && st.Addr == ssa.Value(al) {
							out = append(out, elems(st.Val, d+1)...)
						}
					}
					return out
				}
			}
		case *ssa.Phi:
			var out []relPath
			for _, e := range x.Edges {
				out = append(out, elems(e, d+1)...)
			}
			return out
		case *ssa.Slice:
			return elems(x.X, d+1)
		case *ssa.Alloc:
			// a backing array: what is stored into its elements
			var out []relPath
			for _, ref := range core.Referrers(x) {
				if ia, ok := ref.(*ssa.IndexAddr); ok {
					for _, r2 := range core.Referrers(ia) {
						if st, ok := r2.(*ssa.Store); ok && st.Addr == ssa.Value(ia) {
							out = append(out, of(st.Val, d+1)...)
						}
					}
				}
			}
			return out
		case *ssa.Call:
			if b, ok := x.Call.Value.(*ssa.Builtin); ok && b.Name() == "append" {
				var out []relPath
				for _, a := range x.Call.Args {
					out = append(out, elems(a, d+1)...)
				}
				return out
			}
		case *ssa.Parameter:
			return []relPath{{root: x}}
		}
		return nil
	}
	of = func(v ssa.Value, d int) []relPath {
		if d > 12 || busy[key{v, false}] {
			return nil
		}
		busy[key{v, false}] = true
		defer delete(busy, key{v, false})
		switch x := v.(type) {
		case *ssa.Parameter:
			return []relPath{{root: x}}
		case *ssa.UnOp:
			if x.Op == token.MUL {
				return ofAddr(x.X, d+1)
			}
		case *ssa.Field:
			return ext(of(x.X, d+1), c09SlotOf(x.X, x.Field))
		case *ssa.TypeAssert:
			return of(x.X, d+1)
		case *ssa.Extract:
			if ta, ok := x.Tuple.(*ssa.TypeAssert); ok && x.Index == 0 {
				return of(ta.X, d+1)
			}
			if nx, ok := x.Tuple.(*ssa.Next); ok && x.Index == 2 {
				if rg, ok := nx.Iter.(*ssa.Range); ok {
					return elems(rg.X, d+1)
				}
			}
		case *ssa.MakeInterface:
			return of(x.X, d+1)
		case *ssa.ChangeInterface:
			return of(x.X, d+1)
		case *ssa.ChangeType:
			return of(x.X, d+1)
		case *ssa.Phi:
			var out []relPath
			for _, e := range x.Edges {
				out = append(out, of(e, d+1)...)
			}
			return out
		case *ssa.FieldAddr, *ssa.IndexAddr:
			return ofAddr(x, d+1) // the address of a part: the part's path
		}
		return nil
	}
	ps := of(v, 0)
	// de-duplicate
	seen := map[string]bool{}
	var out []relPath
	for _, q := range ps {
		k := sprintf("%p|", q.root) + q.String()
		if !seen[k] {
			seen[k] = true
			out = append(out, q)
		}
	}
	return out
}

// c09ReleasedOnce runs the consumer half over the functions of relScope with the co-aliased pairs co. fired != nil: control.
func c09ReleasedOnce(c *Ctx, p *core.Prog, relScope []string, co map[string]string, fired map[string]bool, hit map[string]bool) int {
	r := c.R
	ri := &releaseInfo{p: p, memo: map[*ssa.Function]map[int]int{}}
	n := 0
	for _, fn := range p.SrcFuncs(relScope...) {
		type rel struct {
			path relPath
			at   ssa.Instruction
		}
		var rels []rel
		for _, b := range fn.Blocks {
			for _, in := range b.Instrs {
				ci, ok := in.(ssa.CallInstruction)
				if !ok {
					continue
				}
				cc := ci.Common()
				var args []ssa.Value
				if isPoolMethod(cc, "Put") {
					args = cc.Args
				} else if callee := cc.StaticCallee(); callee != nil && callee.Blocks != nil {
					for j, a := range cc.Args {
						if ri.releases(callee, j) {
							args = append(args, a)
						}
					}
				}
				for _, a := range args {
					if os.Getenv("SA_DEBUG") != "" {
						fmt.Fprintln(os.Stderr, "DEBUG rel", core.FnName(fn), a, c09PathsOf(a))
					}
					for _, q := range c09PathsOf(a) {
						if len(q.steps) > 0 {
							rels = append(rels, rel{q, in})
						}
					}
				}
			}
		}
		n += len(rels)
		reported := map[string]bool{}
		for i := 0; i < len(rels); i++ {
			for j := 0; j < len(rels); j++ {
				if i == j || rels[i].path.root != rels[j].path.root {
					continue
				}
				P, Q := rels[i].path.steps, rels[j].path.steps
				for a := range P {
					for b := range Q {
						if P[a] >= Q[b] {
							continue
						}
						why, ok := co[P[a]+"|"+Q[b]]
						if !ok || strings.Join(P[a+1:], "/") != strings.Join(Q[b+1:], "/") {
							continue
						}
						key := core.FnName(fn) + "|" + rels[i].path.String() + "|" + rels[j].path.String()
						if reported[key] {
							continue
						}
						reported[key] = true
						hit[P[a]+"|"+Q[b]] = true
						if fired != nil {
							fired[key] = true
							continue
						}
						r.Violate("released-once", key, p.Pos(rels[j].at.Pos()), "this release hands to the pools the value at "+rels[j].path.String()+", and the release at "+p.Pos(rels[i].at.Pos())+" the value at "+rels[i].path.String()+"; the slots "+P[a]+" and "+Q[b]+" can hold the same value ("+why+"), so the node below them is put twice and two later Gets return the same pointer to independent holders")
					}
				}
			}
		}
	}
	return n
}

func c09ReleasedOnceRule(c *Ctx, p *core.Prog) {
	r := c.R
	r.Rule("released-once", "no release function of pkg/sql/ast hands to the pools the values at two access paths (relative to one root) that run through two slots the parser fills with the same value and continue with the same fields: the shared node would be put twice")
	co := c09CoAliased(p, []string{"pkg/sql/parser"}, "pkg/sql/ast")
	var ks []string
	for k := range co {
		ks = append(ks, k)
	}
	sort.Strings(ks)
	r.Extra("co_aliased_slots", ks)
	hit := map[string]bool{}
	n := c09ReleasedOnce(c, p, []string{"pkg/sql/ast"}, co, nil, hit)
	r.Extra("release_paths", n)
	for _, k := range ks {
		if hit[k] {
			continue
		}
		r.OK("released-once", "shared|"+k, "-", "the parser fills both slots with one value ("+co[k]+"); no release function releases through both")
	}
	r.Floor("released-once", n, 15, "released access paths in pkg/sql/ast")
	if c.Controls {
		if cp := c.Control("c09"); cp != nil {
			cco := c09CoAliased(cp, []string{"gosqlxsa/controls/c09"}, "controls/c09")
			fired := map[string]bool{}
			c09ReleasedOnce(c, cp, []string{"gosqlxsa/controls/c09"}, cco, fired, map[string]bool{})
			twice, once := false, false
			for k := range fired {
				if strings.HasPrefix(k, "c09.PutTreeTwice|") {
					twice = true
				}
				if strings.HasPrefix(k, "c09.PutTreeOnce|") {
					once = true
				}
			}
			if os.Getenv("SA_DEBUG") != "" {
				fmt.Fprintln(os.Stderr, "DEBUG c09once", cco, fired)
			}
			_, shared := cco["Pair.Left|Tree.From"]
			r.Control("released-once", shared && twice && !once, "controls/c09 buildTree stores one Ref in Tree.From and Pair.Left; PutTreeTwice releases through both (reported), PutTreeOnce through one (accepted)")
		}
	}
}
