package rules

import (
	"go/constant"
	"go/token"

	"golang.org/x/tools/go/ssa"

	"gosqlxsa/core"
)

// c07EndTest: rule end-test-fresh. In every statement loop (a loop of pkg/sql/parser that calls the statement parser) the
// call is reached only on paths on which the current token has been compared with EOF since the cursor last moved.
// parseStatement on the EOF token fails with "expected statement, got EOF", so a loop copy that skips tokens and then
// parses without looking again rejects input the other copies accept (trailing `;;`). Forward may-dataflow over the
// function: U = the cursor may have moved since the last EOF test, T = tested; a call from which advance() is reachable
// gives U, both successors of a branch on an EOF token test give T; the state at the call must not contain U.
func c07EndTest(c *Ctx, p *core.Prog, rule string, only string) int {
	r := c.R
	pk := p.Pkg("pkg/models")
	if pk == nil {
		r.Fatal("anchor not found: package pkg/models")
		return 0
	}
	o := pk.Types.Scope().Lookup("TokenTypeEOF")
	cst, ok := o.(interface{ Val() constant.Value })
	if o == nil || !ok {
		r.Fatal("anchor not found: models.TokenTypeEOF")
		return 0
	}
	eof, _ := constant.Int64Val(cst.Val())
	adv := p.Method("pkg/sql/parser", "Parser", "advance")
	if adv == nil {
		r.Fatal("anchor not found: (*Parser).advance")
		return 0
	}
	g := p.Restrict(func(f *ssa.Function) bool { return f != nil && f.Blocks != nil && core.InPkgs(f, "pkg/sql/parser") })
	mayAdvance := g.ReachesIn(adv)
	mayAdvance[adv] = true
	isParserRecv := func(f *ssa.Function) bool {
		if f == nil || f.Signature.Recv() == nil {
			return false
		}
		n := core.NamedOf(core.Deref(f.Signature.Recv().Type()))
		return n != nil && n.Obj().Name() == "Parser"
	}
	fromCurrentToken := func(v ssa.Value) bool {
		for i := 0; i < 8; i++ {
			switch x := v.(type) {
			case *ssa.UnOp:
				v = x.X
			case *ssa.Field:
				v = x.X
			case *ssa.FieldAddr:
				if core.FieldName(x.X.Type(), x.Field) == "currentToken" {
					return true
				}
				v = x.X
			default:
				return false
			}
		}
		return false
	}
	pureMemoLocal := pureMemo
	if pureMemoLocal == nil {
		pureMemo = map[*ssa.Function]int{}
	}
	// an EOF test: a pure *Parser predicate called with the EOF constant (directly or in its variadic list), or a
	// comparison of the current token's type with it
	var hasEOFArg func(call *ssa.Call) bool
	hasEOFArg = func(call *ssa.Call) bool {
		for _, a := range call.Call.Args {
			if k, ok := core.ConstInt(a); ok && k == eof {
				return true
			}
			if sl, ok := a.(*ssa.Slice); ok {
				if al, ok := sl.X.(*ssa.Alloc); ok {
					for _, ref := range core.Referrers(al) {
						if ia, ok := ref.(*ssa.IndexAddr); ok {
							for _, r2 := range core.Referrers(ia) {
								if st, ok := r2.(*ssa.Store); ok {
									if k, ok := core.ConstInt(st.Val); ok && k == eof {
										return true
									}
								}
							}
						}
					}
				}
			}
		}
		return false
	}
	var isEOFTest func(cond ssa.Value, d int) bool
	isEOFTest = func(cond ssa.Value, d int) bool {
		if d > 4 {
			return false
		}
		switch x := cond.(type) {
		case *ssa.UnOp:
			if x.Op == token.NOT {
				return isEOFTest(x.X, d+1)
			}
		case *ssa.Call:
			f := x.Call.StaticCallee()
			if isParserRecv(f) && purePredicate(f, 0) {
				if hasEOFArg(x) {
					return true
				}
				// a helper such as atEnd(): its own body compares the token with EOF
				if len(x.Call.Args) == 1 {
					for _, b := range f.Blocks {
						for _, in := range b.Instrs {
							switch y := in.(type) {
							case *ssa.Call:
								if g := y.Call.StaticCallee(); isParserRecv(g) && g != f && hasEOFArg(y) {
									return true
								}
							case *ssa.BinOp:
								if isEOFTest(y, d+1) {
									return true
								}
							}
						}
					}
				}
			}
		case *ssa.BinOp:
			if x.Op == token.EQL || x.Op == token.NEQ {
				for i, a := range []ssa.Value{x.X, x.Y} {
					other := x.Y
					if i == 1 {
						other = x.X
					}
					if k, ok := core.ConstInt(a); ok && k == eof && fromCurrentToken(other) {
						return true
					}
				}
			}
		case *ssa.Phi:
			// a && b materialised as a phi of the two tests
			for _, e := range x.Edges {
				if isEOFTest(e, d+1) {
					return true
				}
			}
		}
		return false
	}
	const (
		stT = 1
		stU = 2
	)
	n := 0
	for _, fn := range p.SrcFuncs("pkg/sql/parser") {
		if len(fn.Blocks) == 0 || (only != "" && fn.Name() != only) {
			continue
		}
		lb := loopBlocks(fn)
		var sites []*ssa.Call
		for _, b := range fn.Blocks {
			if !lb[b] {
				continue
			}
			for _, in := range b.Instrs {
				if call, ok := in.(*ssa.Call); ok && isStatementParser(call.Call.StaticCallee(), 0) {
					sites = append(sites, call)
				}
			}
		}
		if len(sites) == 0 || isStatementParser(fn, 0) {
			continue
		}
		inState := map[*ssa.BasicBlock]int{fn.Blocks[0]: stU}
		at := map[*ssa.Call]int{}
		lastMove := map[*ssa.Call]ssa.Instruction{}
		mover := map[*ssa.BasicBlock]ssa.Instruction{}
		for changed := true; changed; {
			changed = false
			for _, b := range fn.Blocks {
				st := inState[b]
				if st == 0 {
					continue
				}
				mv := mover[b]
				for _, in := range b.Instrs {
					call, ok := in.(*ssa.Call)
					if !ok {
						continue
					}
					for _, s := range sites {
						if s == call {
							at[s] |= st
							if st&stU != 0 && mv != nil {
								lastMove[s] = mv
							}
						}
					}
					if f := call.Call.StaticCallee(); f != nil && mayAdvance[f] {
						st = stU
						mv = in
					}
				}
				if len(b.Instrs) > 0 {
					if iff, ok := b.Instrs[len(b.Instrs)-1].(*ssa.If); ok && isEOFTest(iff.Cond, 0) {
						st = stT
						mv = nil
					}
				}
				for _, sc := range b.Succs {
					if inState[sc]|st != inState[sc] {
						inState[sc] |= st
						changed = true
					}
					if st&stU != 0 && mv != nil && mover[sc] == nil {
						mover[sc] = mv
						changed = true
					}
				}
			}
		}
		for i, s := range sites {
			n++
			key := core.FnName(fn) + sprintf("|stmt#%d", i+1)
			if at[s]&stU == 0 {
				r.OK(rule, key, p.Pos(s.Pos()), "the statement parser is called only after the current token has been compared with EOF since the cursor last moved")
				continue
			}
			where := "the function's entry"
			if mv := lastMove[s]; mv != nil {
				where = "the cursor move at " + p.Pos(mv.Pos())
			}
			r.Violate(rule, key, p.Pos(s.Pos()), "a path from "+where+" reaches this call of the statement parser without a test of the current token against EOF: when the skipped tokens were the last ones, the statement parser is run on EOF and the input is rejected (\"expected statement, got EOF\") although the other copies of the loop accept it")
		}
	}
	return n
}
