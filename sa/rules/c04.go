package rules

import (
	"go/token"
	"go/types"
	"strings"
	"unicode"

	"golang.org/x/tools/go/ssa"

	"gosqlxsa/core"
)

func init() { Registry["C04"] = runC04 }

// litTaint classifies a string value: raw text of a token (Literal / Value field),
// possibly after case normalisation.
type litTaint int

const (
	notLit litTaint = iota
	rawLit
	normLit
)

func isTokenTextField(x ssa.Value, idx int) bool {
	n := core.NamedOf(x.Type())
	if n == nil {
		return false
	}
	f := core.FieldName(x.Type(), idx)
	switch n.Obj().Name() {
	case "Token":
		return f == "Literal" || f == "Value"
	}
	return rawTextFields[n.Obj().Name()+"."+f]
}

// rawTextFields: AST string fields ("Type.Field") that the parser fills with the text of a token as written (set only
// while a rule that follows token text into the tree is running).
var rawTextFields = map[string]bool{}

// computeRawTextFields: string fields of pkg/sql/ast structs into which some parser function stores a value that is
// (derived from) Token.Literal / Token.Value without case normalisation.
func computeRawTextFields(p *core.Prog) map[string]bool {
	out := map[string]bool{}
	for _, fn := range p.SrcFuncs("pkg/sql/parser") {
		for _, b := range fn.Blocks {
			for _, in := range b.Instrs {
				st, ok := in.(*ssa.Store)
				if !ok {
					continue
				}
				fa, ok := st.Addr.(*ssa.FieldAddr)
				if !ok {
					continue
				}
				n := core.NamedOf(fa.X.Type())
				if n == nil || n.Obj().Pkg() == nil || !core.PathHasSuffix(n.Obj().Pkg().Path(), "pkg/sql/ast") {
					continue
				}
				if bt, ok := st.Val.Type().Underlying().(*types.Basic); !ok || bt.Info()&types.IsString == 0 {
					continue
				}
				if literalTaint(st.Val, 0, map[ssa.Value]bool{}) == rawLit {
					out[n.Obj().Name()+"."+core.FieldName(fa.X.Type(), fa.Field)] = true
				}
			}
		}
	}
	return out
}

func literalTaint(v ssa.Value, depth int, seen map[ssa.Value]bool) litTaint {
	if depth > 12 || v == nil || seen[v] {
		return notLit
	}
	seen[v] = true
	switch x := v.(type) {
	case *ssa.UnOp:
		if x.Op != token.MUL {
			return notLit
		}
		switch a := x.X.(type) {
		case *ssa.FieldAddr:
			if isTokenTextField(a.X, a.Field) {
				return rawLit
			}
		case *ssa.Alloc:
			worst := notLit
			for _, ref := range core.Referrers(a) {
				if st, ok := ref.(*ssa.Store); ok && st.Addr == ssa.Value(a) {
					if t := literalTaint(st.Val, depth+1, seen); t == rawLit {
						return rawLit
					} else if t == normLit {
						worst = normLit
					}
				}
			}
			return worst
		}
	case *ssa.Field:
		if isTokenTextField(x.X, x.Field) {
			return rawLit
		}
	case *ssa.Phi:
		worst := notLit
		for _, e := range x.Edges {
			if t := literalTaint(e, depth+1, seen); t == rawLit {
				return rawLit
			} else if t == normLit {
				worst = normLit
			}
		}
		return worst
	case *ssa.Call:
		if f := x.Call.StaticCallee(); f != nil && core.FnPkg(f) != nil && core.FnPkg(f).Path() == "strings" && len(x.Call.Args) > 0 {
			switch f.Name() {
			case "ToUpper", "ToLower":
				if literalTaint(x.Call.Args[0], depth+1, seen) != notLit {
					return normLit
				}
			case "TrimSpace", "Trim", "TrimPrefix", "TrimSuffix", "TrimLeft", "TrimRight":
				return literalTaint(x.Call.Args[0], depth+1, seen)
			}
		}
	case *ssa.ChangeType:
		return literalTaint(x.X, depth+1, seen)
	case *ssa.Convert:
		return literalTaint(x.X, depth+1, seen)
	}
	return notLit
}

func hasLetter(s string) bool {
	for _, r := range s {
		if unicode.IsLetter(r) {
			return true
		}
	}
	return false
}

func runC04(c *Ctx) {
	r, p := c.R, c.P
	r.Summary = "C04 (the token stream is a faithful, layout-independent reading of the text): decided clause = letter case of keywords never changes kinds or the parse: wherever parser or tokenizer code compares the raw text of a token (Token.Literal / Token.Value) with a word, the comparison is case-normalised (strings.EqualFold, or ToUpper/ToLower applied first); every lookup in a keyword table (package-level map with upper-case constant keys) uses a case-normalised key."
	r.NotCov = []string{"maximal munch, escapes, separators, the single EOF token and every other lexical faithfulness clause (relations on runtime strings)"}
	r.Rule("literal-compare", "a value derived from Token.Literal / Token.Value without ToUpper/ToLower is never compared with ==, != or switch against a string constant that contains a letter (use strings.EqualFold or normalise first)")
	r.Rule("table-key", "a lookup in a keyword table (package-level map[string]… whose initialiser keys are all upper-case constants) uses a key produced by strings.ToUpper, a []byte upper-casing buffer, or a constant")
	scope := []string{"pkg/sql/parser", "pkg/sql/tokenizer"}
	ncmp := 0
	for _, fn := range p.SrcFuncs(scope...) {
		seq := map[string]int{}
		for _, b := range fn.Blocks {
			for _, in := range b.Instrs {
				bo, ok := in.(*ssa.BinOp)
				if !ok || !(bo.Op == token.EQL || bo.Op == token.NEQ) {
					continue
				}
				k, other := bo.Y, bo.X
				if _, isC := core.ConstString(k); !isC {
					k, other = bo.X, bo.Y
				}
				s, isC := core.ConstString(k)
				if !isC || !hasLetter(s) {
					continue
				}
				t := literalTaint(other, 0, map[ssa.Value]bool{})
				if t == notLit {
					continue
				}
				ncmp++
				seq[s]++
				key := core.FnName(fn) + "|" + s
				if seq[s] > 1 {
					key += sprintf("#%d", seq[s])
				}
				if t == normLit {
					r.OK("literal-compare", key, p.Pos(bo.Pos()), "compared after ToUpper/ToLower")
				} else {
					r.Violate("literal-compare", key, p.Pos(bo.Pos()), "the raw text of a token is compared case-sensitively with \""+s+"\": the same SQL in another letter case takes a different path")
				}
			}
		}
	}
	// EqualFold sites count as discharged instances of the same obligation
	for _, fn := range p.SrcFuncs(scope...) {
		seq := 0
		for _, b := range fn.Blocks {
			for _, in := range b.Instrs {
				call, ok := in.(*ssa.Call)
				if !ok {
					continue
				}
				if f := call.Call.StaticCallee(); f != nil && core.FnPkg(f) != nil && core.FnPkg(f).Path() == "strings" && f.Name() == "EqualFold" {
					if literalTaint(call.Call.Args[0], 0, map[ssa.Value]bool{}) != notLit || literalTaint(call.Call.Args[1], 0, map[ssa.Value]bool{}) != notLit {
						ncmp++
						seq++
						r.OK("literal-compare", core.FnName(fn)+sprintf("|EqualFold#%d", seq), p.Pos(call.Pos()), "")
					}
				}
			}
		}
	}
	r.Floor("literal-compare", ncmp, 25, "comparisons of token text with words")
	c04Tables(c, p)
	c04Layout(c)
	c04Munch(c)
	c04DecodeWrites(c, c.P)
	c.R.Floor("quoted-marked", c04QuotedMarked(c, c.P), 2, "tokens built from a decode buffer")
	c.R.Rule("text-match-kind-guarded", "in the token converter (functions of pkg/sql/parser that receive a tokenizer token) the token's text is compared with keyword spellings - directly or through a helper - only where the token's Type has been positively established")
	c.R.Floor("text-match-kind-guarded", c04TextMatchKindGuarded(c, c.P), 2, "text matches in the token converter")
	c.R.Rule("decode-verbatim", "in the tokenizer's readers the rune or byte written to a value buffer inside a loop is never f(c) for a character c decoded in that loop and a function f of this module: content is kept as written, a mapping such as normalizeQuote may only serve the comparison with the delimiter")
	c.R.Floor("decode-verbatim", c04DecodeVerbatim(c, c.P, "pkg/sql/tokenizer", nil), 5, "buffer writes inside tokenizer loops")
	if c.Controls {
		if cp := c.Control("c04"); cp != nil {
			fired := map[string]bool{}
			c04DecodeVerbatim(c, cp, "gosqlxsa/controls/c04", fired)
			c.R.Control("decode-verbatim", fired["c04.rewriting|write#1"] && !fired["c04.verbatim|write#1"], "controls/c04 rewriting (writes fold(c)) and verbatim (writes c, folds only to compare)")
		}
	}
}

func c04Tables(c *Ctx, p *core.Prog) {
	r := c.R
	c04Prog = p
	tables := map[*ssa.Global]bool{}
	for _, rel := range []string{"pkg/sql/tokenizer", "pkg/sql/parser", "pkg/sql/keywords"} {
		sp := p.SSAPkg(p.Pkg(rel))
		if sp == nil {
			continue
		}
		init := sp.Func("init")
		if init == nil {
			continue
		}
		keys := map[*ssa.Global][]string{}
		for _, b := range init.Blocks {
			for _, in := range b.Instrs {
				mu, ok := in.(*ssa.MapUpdate)
				if !ok {
					continue
				}
				k, isC := core.ConstString(mu.Key)
				if !isC {
					continue
				}
				// which global does this map end up in?
				for _, ref := range core.Referrers(mu.Map) {
					if st, ok := ref.(*ssa.Store); ok {
						if g, ok := st.Addr.(*ssa.Global); ok {
							keys[g] = append(keys[g], k)
						}
					}
				}
			}
		}
		for g, ks := range keys {
			mt, ok := core.Deref(g.Type()).Underlying().(*types.Map)
			if !ok {
				continue
			}
			if b, ok := mt.Key().Underlying().(*types.Basic); !ok || b.Kind() != types.String {
				continue
			}
			upper, letters := true, 0
			for _, k := range ks {
				if hasLetter(k) {
					letters++
				}
				if k != strings.ToUpper(k) {
					upper = false
				}
			}
			if upper && letters >= 3 {
				tables[g] = true
			}
		}
	}
	n := 0
	for _, fn := range p.SrcFuncs("pkg/sql/tokenizer", "pkg/sql/parser", "pkg/sql/keywords") {
		seq := map[string]int{}
		for _, b := range fn.Blocks {
			for _, in := range b.Instrs {
				lk, ok := in.(*ssa.Lookup)
				if !ok {
					continue
				}
				u, ok := lk.X.(*ssa.UnOp)
				if !ok {
					continue
				}
				g, ok := u.X.(*ssa.Global)
				if !ok || !tables[g] {
					continue
				}
				n++
				seq[g.Name()]++
				key := core.FnName(fn) + "|" + g.Name() + sprintf("#%d", seq[g.Name()])
				if keyNormalised(lk.Index, 0) {
					r.OK("table-key", key, p.Pos(lk.Pos()), "")
				} else {
					r.Violate("table-key", key, p.Pos(lk.Pos()), "keyword table "+g.Name()+" (upper-case keys) is indexed with a key that is not case-normalised")
				}
			}
		}
	}
	r.Extra("keyword_tables", len(tables))
	r.Floor("table-key", n, 1, "keyword table lookups")
}

var c04Prog *core.Prog

func keyNormalised(v ssa.Value, depth int) bool {
	if depth > 8 {
		return false
	}
	switch x := v.(type) {
	case *ssa.Const:
		return true
	case *ssa.Call:
		if f := x.Call.StaticCallee(); f != nil && core.FnPkg(f) != nil && core.FnPkg(f).Path() == "strings" && f.Name() == "ToUpper" {
			return true
		}
	case *ssa.BinOp:
		if x.Op == token.ADD {
			return keyNormalised(x.X, depth+1) && keyNormalised(x.Y, depth+1)
		}
	case *ssa.Phi:
		for _, e := range x.Edges {
			if !keyNormalised(e, depth+1) {
				return false
			}
		}
		return true
	case *ssa.Convert:
		// string(upperBuf): a byte buffer filled by an upper-casing loop
		if _, isSlice := x.X.Type().Underlying().(*types.Slice); isSlice {
			return true
		}
		return keyNormalised(x.X, depth+1)
	case *ssa.UnOp:
		if a, ok := x.X.(*ssa.Alloc); ok {
			all, n := true, 0
			for _, ref := range core.Referrers(a) {
				if st, ok := ref.(*ssa.Store); ok && st.Addr == ssa.Value(a) {
					n++
					if !keyNormalised(st.Val, depth+1) {
						all = false
					}
				}
			}
			return all && n > 0
		}
	case *ssa.Parameter:
		// the caller normalises: accept only when every in-module call site passes a normalised key
		fn := x.Parent()
		idx := -1
		for i, q := range fn.Params {
			if q == x {
				idx = i
			}
		}
		if c04Prog == nil || idx < 0 || (fn.Object() != nil && fn.Object().Exported()) {
			return false
		}
		node := c04Prog.CallGraph().Nodes[fn]
		if node == nil || len(node.In) == 0 {
			return false
		}
		for _, e := range node.In {
			if e.Site == nil || idx >= len(e.Site.Common().Args) || !keyNormalised(e.Site.Common().Args[idx], depth+1) {
				return false
			}
		}
		return true
	}
	return false
}
