package rules

import (
	"go/token"
	"go/types"
	"sort"
	"strings"

	"golang.org/x/tools/go/ssa"

	"gosqlxsa/core"
)

func init() {
	Registry["C09"] = runC09
}

// poolFilter selects which pools a property is responsible for.
type poolFilter func(site poolSite) bool

// isStatefulPool: pools of parser / tokenizer objects (C08) vs everything else (C09).
func isStatefulPool(s poolSite) bool {
	n := core.NamedOf(s.typ)
	if n == nil || n.Obj().Pkg() == nil {
		return false
	}
	path := n.Obj().Pkg().Path()
	return (strings.HasSuffix(path, "/parser") && n.Obj().Name() == "Parser") || (strings.HasSuffix(path, "/tokenizer") && n.Obj().Name() == "Tokenizer")
}

// putResetRule: every field of a pooled struct is in a state-independent
// (reset) state at the Put, or is reset by every Get wrapper of that pool.
// putResetScratch: fields ("pkg.Type.field") whose previous content no code can observe (see c08Scratch); they need
// no reset on the way into the pool.
var putResetScratch = map[string]string{}

func putResetRule(c *Ctx, p *core.Prog, keep poolFilter, rule string, control bool) (structPuts int, fired map[string]bool) {
	r := c.R
	fired = map[string]bool{}
	eng := newResetEngine(p)
	sites := poolSites(p)
	byPool := map[string][]poolSite{}
	for _, s := range sites {
		byPool[s.pool] = append(byPool[s.pool], s)
	}
	// get-side facts per pool: fields reset after every Get before the wrapper returns
	getSide := func(pool string) (factSet, int) {
		var acc factSet
		n := 0
		for _, s := range byPool[pool] {
			if s.isPut {
				continue
			}
			n++
			if s.val == nil {
				return factSet{}, n
			}
			res := eng.analyse(s.fn, s.val)
			returned := false
			for _, b := range s.fn.Blocks {
				if len(b.Instrs) == 0 {
					continue
				}
				ret, ok := b.Instrs[len(b.Instrs)-1].(*ssa.Return)
				if !ok {
					continue
				}
				for _, rv := range ret.Results {
					if rv == s.val || derefOf(rv) == s.val {
						returned = true
					}
				}
				f := res.At(ret)
				if acc == nil {
					acc = f
				} else {
					acc = intersect(acc, f)
				}
			}
			if !returned {
				// Get used in place: facts at the first use that is not part of a reset
				return factSet{}, n
			}
		}
		if acc == nil {
			acc = factSet{}
		}
		return acc, n
	}
	for _, s := range sites {
		if !s.isPut || !keep(s) {
			continue
		}
		fnName := core.FnName(s.fn)
		// which case of a type switch? name the site by function + pooled type
		tname := types.TypeString(s.typ, func(p *types.Package) string { return p.Name() })
		siteKey := fnName + "|" + s.pool
		st := core.StructOf(s.typ)
		_, isPtr := s.typ.Underlying().(*types.Pointer)
		if st != nil && isPtr {
			structPuts++
			res := eng.analyse(s.fn, s.val)
			facts := res.At(s.call)
			gfacts, _ := getSide(s.pool)
			foreign := core.NamedOf(s.typ) != nil && core.NamedOf(s.typ).Obj().Pkg() != nil && !strings.HasPrefix(core.NamedOf(s.typ).Obj().Pkg().Path(), core.Mod) && !control
			if foreign {
				key := siteKey + "|" + tname
				if facts["*"] || gfacts["*"] {
					r.OK(rule, key, p.Pos(s.call.Pos()), "foreign type reset through its Reset() method")
				} else {
					r.Violate(rule, key, p.Pos(s.call.Pos()), "pooled "+tname+" is neither Reset() before Put nor after Get")
				}
				continue
			}
			for i := 0; i < st.NumFields(); i++ {
				f := st.Field(i).Name()
				tn := strings.TrimPrefix(tname, "*")
				key := fnName + "|" + tn + "." + f
				if control {
					if !(covered(facts, s.typ, f) || covered(gfacts, s.typ, f)) {
						fired[tn+"."+f] = true
					}
					continue
				}
				switch {
				case putResetScratch[tn+"."+f] != "":
					r.OK(rule, key, p.Pos(s.call.Pos()), putResetScratch[tn+"."+f])
				case covered(facts, s.typ, f):
					r.OK(rule, key, p.Pos(s.call.Pos()), "reset on every path to the Put")
				case covered(gfacts, s.typ, f):
					r.OK(rule, key, p.Pos(s.call.Pos()), "reset by every Get wrapper of "+s.pool)
				default:
					r.Violate(rule, key, p.Pos(s.call.Pos()), "field "+tn+"."+f+" can still hold the previous holder's value when the object is put into "+s.pool)
				}
			}
			continue
		}
		if control {
			continue
		}
		// non-struct pooled values
		key := siteKey + "|" + tname
		switch u := s.typ.Underlying().(type) {
		case *types.Map:
			if mapCleared(s.fn, s.val, s.call) {
				r.OK(rule, key, p.Pos(s.call.Pos()), "map emptied by a delete-all loop / clear before Put")
			} else {
				r.Violate(rule, key, p.Pos(s.call.Pos()), "pooled map is not emptied before Put")
			}
		case *types.Pointer:
			if _, isSlice := u.Elem().Underlying().(*types.Slice); isSlice {
				// scratch buffers: length is re-established by the user ((*p)[:n] or [:0]); contents are write-before-read scratch
				res := eng.analyse(s.fn, s.val)
				facts := res.At(s.call)
				gfacts, _ := getSide(s.pool)
				if facts["*"] || gfacts["*"] || sliceUsersReslice(p, byPool[s.pool]) {
					r.OK(rule, key, p.Pos(s.call.Pos()), "slice buffer is truncated/re-sliced on Get or Put")
				} else {
					r.Violate(rule, key, p.Pos(s.call.Pos()), "pooled slice buffer keeps its previous length and contents")
				}
			} else {
				r.Undecide(rule, key, p.Pos(s.call.Pos()), "pooled value of unsupported kind "+tname)
			}
		default:
			r.Undecide(rule, key, p.Pos(s.call.Pos()), "pooled value of unsupported kind "+tname)
		}
	}
	return
}

func derefOf(v ssa.Value) ssa.Value {
	if u, ok := v.(*ssa.UnOp); ok && u.Op == token.MUL {
		return u.X
	}
	return nil
}

// sliceUsersReslice: every Get of a *[]T pool is followed by a re-slice
// (*p)[:n] of the pointed-to slice before any element is read.
func sliceUsersReslice(p *core.Prog, sites []poolSite) bool {
	n := 0
	for _, s := range sites {
		if s.isPut {
			continue
		}
		n++
		if s.val == nil {
			return false
		}
		for _, ref := range core.Referrers(s.val) {
			switch x := ref.(type) {
			case *ssa.UnOp:
				for _, r2 := range core.Referrers(x) {
					switch r2.(type) {
					case *ssa.Slice, *ssa.DebugRef:
					default:
						return false
					}
				}
			case *ssa.Store, *ssa.MakeInterface, *ssa.DebugRef, *ssa.Return:
			default:
				_ = x
				return false
			}
		}
	}
	return n > 0
}

// mapCleared: a `for k := range m { delete(m, k) }` loop or clear(m) precedes the Put on every path.
func mapCleared(fn *ssa.Function, m ssa.Value, put ssa.Instruction) bool {
	for _, b := range fn.Blocks {
		for _, in := range b.Instrs {
			call, ok := in.(*ssa.Call)
			if !ok {
				continue
			}
			if core.IsBuiltinCall(&call.Call, "clear") && len(call.Call.Args) == 1 && call.Call.Args[0] == m {
				if b.Dominates(put.Block()) {
					return true
				}
			}
			if core.IsBuiltinCall(&call.Call, "delete") && len(call.Call.Args) == 2 && call.Call.Args[0] == m {
				// key must come from ranging over m itself
				if ex, ok := call.Call.Args[1].(*ssa.Extract); ok {
					if nx, ok := ex.Tuple.(*ssa.Next); ok {
						if rg, ok := nx.Iter.(*ssa.Range); ok && rg.X == m {
							// loop header (block of Next) dominates the put, and the delete is unconditional in the body:
							// the body block is the true successor of the header's If
							hb := nx.Block()
							if hb.Dominates(put.Block()) && len(hb.Succs) == 2 && hb.Succs[0] == b {
								return true
							}
						}
					}
				}
			}
		}
	}
	return false
}

// poolTypeRule: New, Put and Get of each pool agree on one dynamic type.
func poolTypeRule(c *Ctx, p *core.Prog, rule string, control bool) (int, bool) {
	r := c.R
	sites := poolSites(p)
	type info struct {
		types map[string][]string
		pos   string
	}
	pools := map[string]*info{}
	add := func(pool, t, what, pos string) {
		if pools[pool] == nil {
			pools[pool] = &info{types: map[string][]string{}, pos: pos}
		}
		pools[pool].types[t] = append(pools[pool].types[t], what)
	}
	q := func(p *types.Package) string { return p.Name() }
	for _, s := range sites {
		if s.typ == nil {
			if !s.isPut {
				add(s.pool, "<unasserted>", "Get in "+core.FnName(s.fn), p.Pos(s.call.Pos()))
			}
			continue
		}
		what := "Get in "
		if s.isPut {
			what = "Put in "
		}
		add(s.pool, types.TypeString(s.typ, q), what+core.FnName(s.fn), p.Pos(s.call.Pos()))
	}
	// New functions: composite literal sync.Pool{New: func…} stored into the pool variable/field
	for _, fn := range p.ModuleFuncs() {
		for _, b := range fn.Blocks {
			for _, in := range b.Instrs {
				st, ok := in.(*ssa.Store)
				if !ok {
					continue
				}
				fa, ok := st.Addr.(*ssa.FieldAddr)
				if !ok {
					continue
				}
				n := core.NamedOf(fa.X.Type())
				if n == nil || n.Obj().Pkg() == nil || n.Obj().Pkg().Path() != "sync" || n.Obj().Name() != "Pool" || core.FieldName(fa.X.Type(), fa.Field) != "New" {
					continue
				}
				var newFn *ssa.Function
				switch v := st.Val.(type) {
				case *ssa.MakeClosure:
					newFn, _ = v.Fn.(*ssa.Function)
				case *ssa.Function:
					newFn = v
				}
				pool := poolIDOf(fa.X)
				if a, ok := fa.X.(*ssa.Alloc); ok {
					// composite literal built in a temporary, then stored somewhere
					for _, ref := range core.Referrers(a) {
						if ld, ok := ref.(*ssa.UnOp); ok {
							for _, r2 := range core.Referrers(ld) {
								if st2, ok := r2.(*ssa.Store); ok && st2.Val == ld {
									pool = poolIDOf(st2.Addr)
								}
							}
						}
					}
				}
				if newFn == nil {
					continue
				}
				for _, nb := range newFn.Blocks {
					for _, ni := range nb.Instrs {
						if ret, ok := ni.(*ssa.Return); ok && len(ret.Results) == 1 {
							t := ret.Results[0].Type()
							if mi, ok := ret.Results[0].(*ssa.MakeInterface); ok {
								t = mi.X.Type()
							}
							add(pool, types.TypeString(t, q), "New", p.Pos(st.Pos()))
						}
					}
				}
			}
		}
	}
	var names []string
	for k := range pools {
		names = append(names, k)
	}
	sort.Strings(names)
	fired := false
	for _, k := range names {
		inf := pools[k]
		if len(inf.types) == 1 {
			if !control {
				for t := range inf.types {
					r.OK(rule, k, inf.pos, "single dynamic type "+t)
				}
			}
			continue
		}
		var parts []string
		for t, w := range inf.types {
			parts = append(parts, t+" ("+strings.Join(w, ", ")+")")
		}
		sort.Strings(parts)
		if control {
			fired = true
			continue
		}
		r.Violate(rule, k, inf.pos, "pool carries more than one dynamic type: "+strings.Join(parts, "; "))
	}
	return len(names), fired
}

// releaseSummary: which parameters of fn end up in a sync.Pool.Put (directly or
// through callees)?
type releaseInfo struct {
	p    *core.Prog
	memo map[*ssa.Function]map[int]int
}

func (ri *releaseInfo) releases(fn *ssa.Function, i int) bool {
	if fn == nil || fn.Blocks == nil || i >= len(fn.Params) {
		return false
	}
	if ri.memo[fn] == nil {
		ri.memo[fn] = map[int]int{}
	}
	switch ri.memo[fn][i] {
	case 1:
		return true
	case 2, 3:
		return false
	}
	ri.memo[fn][i] = 3
	par := fn.Params[i]
	res := false
	for _, ref := range core.Referrers(par) {
		switch x := ref.(type) {
		case *ssa.MakeInterface:
			for _, r2 := range core.Referrers(x) {
				if ci, ok := r2.(ssa.CallInstruction); ok && isPoolMethod(ci.Common(), "Put") {
					res = true
				}
			}
		case ssa.CallInstruction:
			cc := x.Common()
			if isPoolMethod(cc, "Put") {
				res = true
				continue
			}
			if callee := cc.StaticCallee(); callee != nil && core.InModule(callee) {
				for j, a := range cc.Args {
					if a == par && ri.releases(callee, j) {
						res = true
					}
				}
			}
		}
	}
	if !res {
		// through a local work list: the parameter is queued in a slice whose elements are drained into the pools
	scan:
		for _, b := range fn.Blocks {
			for _, in := range b.Instrs {
				ci, ok := in.(ssa.CallInstruction)
				if !ok {
					continue
				}
				cc := ci.Common()
				var args []ssa.Value
				if isPoolMethod(cc, "Put") {
					args = cc.Args
				} else if callee := cc.StaticCallee(); callee != nil && core.InModule(callee) && callee != fn {
					for j, a := range cc.Args {
						if _, direct := a.(*ssa.Parameter); !direct && ri.releases(callee, j) {
							args = append(args, a)
						}
					}
				}
				for _, a := range args {
					if _, direct := a.(*ssa.Parameter); direct {
						continue
					}
					for _, q := range c09PathsOf(a) {
						if q.root == ssa.Value(par) && len(q.steps) == 0 {
							res = true
							break scan
						}
					}
				}
			}
		}
	}
	if res {
		ri.memo[fn][i] = 1
	} else {
		ri.memo[fn][i] = 2
	}
	return res
}

// useAfterReleaseRule: after a non-deferred release call on value x, no
// instruction reachable without passing x's definition uses x; a value
// released by a deferred call is not (part of) the function's result.
func useAfterReleaseRule(c *Ctx, p *core.Prog, fns []*ssa.Function, rule string, control bool) (int, bool) {
	r := c.R
	ri := &releaseInfo{p: p, memo: map[*ssa.Function]map[int]int{}}
	n := 0
	fired := false
	for _, fn := range fns {
		seq := map[string]int{}
		drs := deferredReleases(fn, ri)
		for _, b := range fn.Blocks {
			for idx, in := range b.Instrs {
				ci, ok := in.(ssa.CallInstruction)
				if !ok {
					continue
				}
				cc := ci.Common()
				var rel ssa.Value
				what := ""
				if isPoolMethod(cc, "Put") && len(cc.Args) == 2 {
					if mi, ok := cc.Args[1].(*ssa.MakeInterface); ok {
						rel = mi.X
					} else {
						rel = cc.Args[1]
					}
					what = "Pool.Put"
				} else if callee := cc.StaticCallee(); callee != nil && (core.InModule(callee) || control) {
					for j, a := range cc.Args {
						if ri.releases(callee, j) {
							rel = a
							what = core.FnName(callee)
						}
					}
				}
				if rel == nil {
					continue
				}
				if _, isConst := rel.(*ssa.Const); isConst {
					continue
				}
				n++
				seq[what]++
				key := core.FnName(fn) + "|" + what + "#" + itoa(seq[what])
				_, deferred := in.(*ssa.Defer)
				if deferred {
					bad := ""
					for _, rb := range fn.Blocks {
						for _, ri2 := range rb.Instrs {
							if ret, ok := ri2.(*ssa.Return); ok {
								for _, rv := range ret.Results {
									if derivedFrom(rv, rel, 0) && isRefType(rv.Type()) {
										bad = "returns a value reachable from the object released by the deferred " + what + " at " + p.Pos(ret.Pos())
									}
								}
							}
						}
					}
					if bad != "" {
						if control {
							fired = true
						} else {
							r.Violate(rule, key, p.Pos(in.Pos()), bad)
						}
					} else if !control {
						r.OK(rule, key, p.Pos(in.Pos()), "deferred release; released object is not returned")
					}
					continue
				}
				// double release: the same variable is also released by a deferred closure
				if cell := cellOf(rel); cell != nil {
					for _, dr := range drs {
						if dr.cell != cell {
							continue
						}
						dbl := false
						if dr.flag == nil {
							dbl = true
						} else {
							stops := map[ssa.Instruction]bool{}
							for _, st := range storesConst(fn, dr.flag, !dr.runsWhen) {
								stops[st] = true
							}
							dbl = reachesReturnWithout(in, stops)
						}
						if dbl {
							if control {
								fired = true
							} else {
								r.Violate(rule, key+"|double", p.Pos(in.Pos()), "the object released here is released again by the deferred "+dr.what+" registered at "+p.Pos(dr.deferIn.Pos())+" on a path that does not disable it: the same object enters the pool twice and two later callers share it")
							}
						}
					}
				}
				// uses after the call
				use := useAfter(fn, b, idx, rel)
				if use != nil {
					if control {
						fired = true
					} else {
						r.Violate(rule, key, p.Pos(in.Pos()), "value is used at "+p.Pos(use.Pos())+" after being released by "+what)
					}
				} else if !control {
					r.OK(rule, key, p.Pos(in.Pos()), "no use of the released value on any path after the call")
				}
			}
		}
	}
	return n, fired
}

func isRefType(t types.Type) bool {
	switch t.Underlying().(type) {
	case *types.Pointer, *types.Slice, *types.Map, *types.Interface, *types.Chan:
		return true
	}
	return false
}

// derivedFrom: v is obj or computed from obj by loads, field/index selection, slicing or interface conversion.
func derivedFrom(v, obj ssa.Value, depth int) bool {
	if v == obj {
		return true
	}
	if depth > 12 {
		return false
	}
	switch x := v.(type) {
	case *ssa.UnOp:
		if x.Op == token.MUL {
			return derivedFrom(x.X, obj, depth+1)
		}
	case *ssa.Alloc:
		// a local cell (a result spilled because the function defers): whatever is stored into it
		for _, ref := range core.Referrers(x) {
			if st, ok := ref.(*ssa.Store); ok && st.Addr == ssa.Value(x) && derivedFrom(st.Val, obj, depth+1) {
				return true
			}
		}
	case *ssa.FieldAddr:
		return derivedFrom(x.X, obj, depth+1)
	case *ssa.Field:
		return derivedFrom(x.X, obj, depth+1)
	case *ssa.IndexAddr:
		return derivedFrom(x.X, obj, depth+1)
	case *ssa.Index:
		return derivedFrom(x.X, obj, depth+1)
	case *ssa.Slice:
		return derivedFrom(x.X, obj, depth+1)
	case *ssa.MakeInterface:
		return derivedFrom(x.X, obj, depth+1)
	case *ssa.ChangeInterface:
		return derivedFrom(x.X, obj, depth+1)
	case *ssa.ChangeType:
		return derivedFrom(x.X, obj, depth+1)
	case *ssa.Phi:
		for _, e := range x.Edges {
			if e == obj {
				return true
			}
		}
	}
	return false
}

// useAfter finds an instruction that uses rel and is reachable from the point
// just after instruction idx of block b without passing rel's definition.
func useAfter(fn *ssa.Function, b *ssa.BasicBlock, idx int, rel ssa.Value) ssa.Instruction {
	uses := map[ssa.Instruction]bool{}
	for _, ref := range core.Referrers(rel) {
		if _, ok := ref.(*ssa.DebugRef); ok {
			continue
		}
		uses[ref] = true
	}
	// MakeInterface(rel) feeding the release itself is a use before the call
	def, _ := rel.(ssa.Instruction)
	check := func(blk *ssa.BasicBlock, from int) (ssa.Instruction, bool) {
		for i := from; i < len(blk.Instrs); i++ {
			in := blk.Instrs[i]
			if def != nil && in == def {
				return nil, true // redefinition: stop along this path
			}
			if uses[in] {
				return in, true
			}
			if isNoReturnCall(in) {
				return nil, true // log.Fatal…, os.Exit, panic: the path ends here
			}
		}
		return nil, false
	}
	if u, stop := check(b, idx+1); u != nil {
		return u
	} else if stop {
		return nil
	}
	seen := map[*ssa.BasicBlock]bool{}
	work := append([]*ssa.BasicBlock{}, b.Succs...)
	for len(work) > 0 {
		blk := work[len(work)-1]
		work = work[:len(work)-1]
		if seen[blk] {
			continue
		}
		seen[blk] = true
		u, stop := check(blk, 0)
		if u != nil {
			return u
		}
		if stop {
			continue
		}
		work = append(work, blk.Succs...)
	}
	return nil
}

func itoa(n int) string { return sprintf("%d", n) }

// cellOf: if v is a load of a local cell (captured variable), return the cell.
func cellOf(v ssa.Value) *ssa.Alloc {
	if u, ok := v.(*ssa.UnOp); ok && u.Op == token.MUL {
		if a, ok := u.X.(*ssa.Alloc); ok {
			return a
		}
	}
	return nil
}

// deferredRelease describes `defer func() { if !flag { Release(x) } }()`.
type deferredRelease struct {
	deferIn  *ssa.Defer
	cell     *ssa.Alloc // the captured variable holding the released object
	what     string
	flag     *ssa.Alloc // captured bool guarding the release, or nil when unconditional
	runsWhen bool       // the release runs when *flag == runsWhen
}

// deferredReleases finds deferred closures of fn that release a captured variable.
func deferredReleases(fn *ssa.Function, ri *releaseInfo) []deferredRelease {
	var out []deferredRelease
	for _, b := range fn.Blocks {
		for _, in := range b.Instrs {
			d, ok := in.(*ssa.Defer)
			if !ok {
				continue
			}
			mc, ok := d.Call.Value.(*ssa.MakeClosure)
			if !ok {
				continue
			}
			cl, _ := mc.Fn.(*ssa.Function)
			if cl == nil {
				continue
			}
			bind := func(fv ssa.Value) *ssa.Alloc {
				for i, f := range cl.FreeVars {
					if ssa.Value(f) == fv && i < len(mc.Bindings) {
						a, _ := mc.Bindings[i].(*ssa.Alloc)
						return a
					}
				}
				return nil
			}
			for _, cb := range cl.Blocks {
				for _, ci := range cb.Instrs {
					call, ok := ci.(*ssa.Call)
					if !ok {
						continue
					}
					var rel ssa.Value
					what := ""
					if isPoolMethod(&call.Call, "Put") && len(call.Call.Args) == 2 {
						rel, what = call.Call.Args[1], "Pool.Put"
						if mi, ok := rel.(*ssa.MakeInterface); ok {
							rel = mi.X
						}
					} else if callee := call.Call.StaticCallee(); callee != nil {
						for j, a := range call.Call.Args {
							if ri.releases(callee, j) {
								rel, what = a, core.FnName(callee)
							}
						}
					}
					if rel == nil {
						continue
					}
					u, ok := rel.(*ssa.UnOp)
					if !ok {
						continue
					}
					cell := bind(u.X)
					if cell == nil {
						continue
					}
					dr := deferredRelease{deferIn: d, cell: cell, what: what}
					for _, cd := range core.ControlDeps(cb) {
						cond, neg := stripNot(cd.If.Cond)
						if lu, ok := cond.(*ssa.UnOp); ok && lu.Op == token.MUL {
							if f := bind(lu.X); f != nil {
								dr.flag = f
								// release block is on successor cd.Succ; cond true means *flag != neg
								dr.runsWhen = (cd.Succ == 0) != neg
							}
						}
					}
					out = append(out, dr)
				}
			}
		}
	}
	return out
}

// afterStore: blocks (and positions) reachable after a store of constant val into cell.
func storesConst(fn *ssa.Function, cell *ssa.Alloc, val bool) []*ssa.Store {
	var out []*ssa.Store
	for _, b := range fn.Blocks {
		for _, in := range b.Instrs {
			if st, ok := in.(*ssa.Store); ok && st.Addr == ssa.Value(cell) {
				if c, ok := st.Val.(*ssa.Const); ok && c.Value != nil && (c.Value.String() == "true") == val {
					out = append(out, st)
				}
			}
		}
	}
	return out
}

// reachesReturnWithout: from instruction `from`, can a Return be reached without passing any of the stops?
func reachesReturnWithout(from ssa.Instruction, stops map[ssa.Instruction]bool) bool {
	b := from.Block()
	start := 0
	for i, in := range b.Instrs {
		if in == from {
			start = i + 1
		}
	}
	seen := map[*ssa.BasicBlock]bool{}
	var walk func(blk *ssa.BasicBlock, i0 int) bool
	walk = func(blk *ssa.BasicBlock, i0 int) bool {
		for i := i0; i < len(blk.Instrs); i++ {
			if stops[blk.Instrs[i]] {
				return false
			}
			if _, ok := blk.Instrs[i].(*ssa.Return); ok {
				return true
			}
		}
		for _, s := range blk.Succs {
			if !seen[s] {
				seen[s] = true
				if walk(s, 0) {
					return true
				}
			}
		}
		return false
	}
	return walk(b, start)
}

func runC09(c *Ctx) {
	r, p := c.R, c.P
	r.Summary = "C09 (returned values belong to the caller; pooled nodes come back clean): decided clauses = (1) at every sync.Pool.Put of a struct pointer every field of the struct is in a state-independent reset state on every path (or is reset by every Get wrapper of that pool); (2) each pool carries one dynamic type at New/Get/Put; (3) no function uses a value after releasing it, and a value released by defer is not returned. These are the mechanisms that make a recycled node indistinguishable from a fresh one."
	r.NotCov = []string{"aliasing between two live trees created by the parser itself (no DAG-freedom proof)", "goroutine interleavings (C10)", "content of scratch byte buffers (write-before-read by construction, not checked)"}
	r.Rule("put-reset", "for every Pool.Put(x) with x a pointer to struct T: every field of T is, on every path from the definition of x to the Put, assigned a state-independent value (zero, constant, [:0] truncation, fresh allocation) directly, through *x = T{…} or through a callee whose summary resets it; or every Get wrapper of the pool resets it before returning")
	r.Rule("pool-type", "the type returned by a pool's New, the static type of every Put argument and the asserted type of every Get agree")
	r.Rule("use-after-release", "after a non-deferred release (Pool.Put or a function that puts its argument) the released value is not used on any path; the argument of a deferred release is not part of the function's result")
	nputs, _ := putResetRule(c, p, func(s poolSite) bool { return !isStatefulPool(s) }, "put-reset", false)
	r.Floor("put-reset", nputs, 25, "Put sites of struct pointers")
	np, _ := poolTypeRule(c, p, "pool-type", false)
	r.Floor("pool-type", np, 20, "sync.Pool instances")
	nrel, _ := useAfterReleaseRule(c, p, p.ModuleFuncs(), "use-after-release", false)
	r.Floor("use-after-release", nrel, 50, "release sites")
	c09ResultOwned(c, p)
	c09CapturedNode(c, p)
	c09ReleasedPartEscapes(c, p)
	c09ReleasedOnceRule(c, p)
	r.Floor("release-own-tree", c09ReleaseOwnTree(c, p), 5, "release calls outside pkg/sql/ast")
	r.Rule("memoised-node", "a value memoised by sync.OnceValue / OnceValues whose type is an AST node is used only as the argument of a copying function (clone…, copy…, deepCopy…) or in a nil test")
	if nm := c09MemoisedNode(c, p, p.ModuleFuncs(), nil); nm == 0 {
		r.OK("memoised-node", "scan", "-", "no AST node is memoised with sync.OnceValue / OnceValues")
	}
	r.Rule("guard-field-match", "in the release functions of pkg/sql/ast (Put…, Release…), the child released under `if x.A != nil` is x.A: a branch that tests one field and queues or releases another, untested, one releases that node twice and leaks the tested one")
	ng := guardFieldMatch(c, p, "guard-field-match", []string{"pkg/sql/ast"}, func(f *ssa.Function) bool {
		return strings.HasPrefix(outer(f).Name(), "Put") || strings.HasPrefix(outer(f).Name(), "Release")
	})
	r.OK("guard-field-match", "scan", "-", sprintf("%d presence-guarded regions that use sibling fields examined", ng))
	if c.Controls {
		if cp := c.Control("c09"); cp != nil {
			sub := *c
			_, fired := putResetRule(&sub, cp, func(poolSite) bool { return true }, "put-reset", true)
			r.Control("put-reset", fired["c09.Node.Stale"] && fired["c09.Node.Cond"], "controls/c09 Node.Stale (never cleared) and Node.Cond (cleared on one branch only)")
			if fired["c09.Node.Name"] || fired["c09.Node.Items"] || fired["c09.Node.Kept"] || fired["c09.Node.ViaCallee"] || fired["c09.Whole.A"] || fired["c09.Whole.B"] {
				r.Fatal("control c09: put-reset fired on a correctly reset field: %v", fired)
			}
			_, tf := poolTypeRule(&sub, cp, "pool-type", true)
			r.Control("pool-type", tf, "controls/c09 mixedPool (Put *Other into a pool of *Node)")
			var cfns []*ssa.Function
			for fn := range cp.AllFunctions() {
				if fn.Pkg != nil && fn.Pkg.Pkg.Path() == "gosqlxsa/controls/c09" && fn.Blocks != nil {
					cfns = append(cfns, fn)
				}
			}
			_, uf := useAfterReleaseRule(&sub, cp, cfns, "use-after-release", true)
			r.Control("use-after-release", uf, "controls/c09 useAfterPut")
			mf := map[string]bool{}
			c09MemoisedNode(&sub, cp, cfns, mf)
			r.Control("memoised-node", mf["c09.sharedMemo|once#1"] && !mf["c09.copiedMemo|once#1"], "controls/c09 sharedMemo (memoised node linked into every holder) and copiedMemo (cloned on every use)")
		}
	}
}

// isNoReturnCall: a call after which control does not come back (log.Fatal*, os.Exit, runtime.Goexit, testing's
// Fatal*/FailNow/Skip*), or a panic.
func isNoReturnCall(in ssa.Instruction) bool {
	if _, ok := in.(*ssa.Panic); ok {
		return true
	}
	ci, ok := in.(ssa.CallInstruction)
	if !ok {
		return false
	}
	f := ci.Common().StaticCallee()
	if f == nil || core.FnPkg(f) == nil {
		return false
	}
	switch core.FnPkg(f).Path() {
	case "log":
		return strings.HasPrefix(f.Name(), "Fatal") || strings.HasPrefix(f.Name(), "Panic")
	case "os":
		return f.Name() == "Exit"
	case "runtime":
		return f.Name() == "Goexit"
	case "testing":
		return strings.HasPrefix(f.Name(), "Fatal") || f.Name() == "FailNow" || strings.HasPrefix(f.Name(), "Skip")
	}
	return false
}
