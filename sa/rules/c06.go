package rules

import (
	"go/types"
	"go/token"
	"sort"
	"strings"

	"golang.org/x/tools/go/ssa"

	"gosqlxsa/core"
)

func init() { Registry["C06"] = runC06 }

// astFieldReads: "Type.field" pairs of ast struct types read by the functions in set.
func astFieldReads(fns map[*ssa.Function]bool, astPath string) map[string]bool {
	out := map[string]bool{}
	for fn := range fns {
		for _, b := range fn.Blocks {
			for _, in := range b.Instrs {
				var x ssa.Value
				var idx int
				switch v := in.(type) {
				case *ssa.FieldAddr:
					// a FieldAddr that is only stored to is not a read
					onlyStore := true
					for _, ref := range core.Referrers(v) {
						if st, ok := ref.(*ssa.Store); ok && st.Addr == ssa.Value(v) {
							continue
						}
						if _, ok := ref.(*ssa.DebugRef); ok {
							continue
						}
						onlyStore = false
					}
					if onlyStore {
						continue
					}
					// for a field that holds a node, a list or an optional scalar, asking whether it is there (nil / len
					// tests) is not reading it: the serialiser has to use the content somewhere
					if st := core.StructOf(core.NamedOf(v.X.Type())); st != nil {
						switch st.Field(v.Field).Type().Underlying().(type) {
						case *types.Pointer, *types.Interface, *types.Slice, *types.Map:
							if !contentRead(v) {
								continue
							}
						}
					}
					x, idx = v.X, v.Field
				case *ssa.Field:
					x, idx = v.X, v.Field
				default:
					continue
				}
				n := core.NamedOf(x.Type())
				if n == nil || n.Obj().Pkg() == nil || n.Obj().Pkg().Path() != astPath {
					continue
				}
				out[n.Obj().Name()+"."+core.FieldName(x.Type(), idx)] = true
			}
		}
	}
	return out
}

// astFieldWrites: "Type.field" pairs populated (non-zero store) by functions of rels.
func astFieldWrites(p *core.Prog, rels []string, astPath string) map[string]string {
	out := map[string]string{}
	for _, fn := range p.SrcFuncs(rels...) {
		for _, b := range fn.Blocks {
			for _, in := range b.Instrs {
				st, ok := in.(*ssa.Store)
				if !ok {
					continue
				}
				fa, ok := st.Addr.(*ssa.FieldAddr)
				if !ok {
					continue
				}
				n := core.NamedOf(fa.X.Type())
				if n == nil || n.Obj().Pkg() == nil || n.Obj().Pkg().Path() != astPath {
					continue
				}
				if c, isC := st.Val.(*ssa.Const); isC && (c.Value == nil || isZeroConst(c)) {
					continue
				}
				k := n.Obj().Name() + "." + core.FieldName(fa.X.Type(), fa.Field)
				if _, seen := out[k]; !seen {
					out[k] = p.Pos(st.Pos())
				}
			}
		}
	}
	return out
}

// c06Derived: parser-populated fields that duplicate information printed from another field.
var c06Derived = map[string]string{
	"SelectStatement.TableName": "duplicates From[0].Name (kept for backward compatibility)",
	"JoinClause.Left":           "synthetic copy of the left table reference, which is printed from From / the previous join",
	"AST.Comments":              "comments are preserved by the CLI formatter, not by SQL()/Format (documented)",
}

// c06RedundantWith: at every store into field k ("Type.Field") in the parser, the stored value (or the elements appended
// to it) also flows - directly or through calls - into a store to another field of the same object. Returns that field's
// key, or "" when some store has no such companion.
func c06RedundantWith(p *core.Prog, astPath, k string) string {
	companion := ""
	found := false
	for _, fn := range p.SrcFuncs("pkg/sql/parser") {
		for _, b := range fn.Blocks {
			for _, in := range b.Instrs {
				st, ok := in.(*ssa.Store)
				if !ok {
					continue
				}
				fa, ok := st.Addr.(*ssa.FieldAddr)
				if !ok {
					continue
				}
				n := core.NamedOf(fa.X.Type())
				if n == nil || n.Obj().Pkg() == nil || n.Obj().Pkg().Path() != astPath || n.Obj().Name()+"."+core.FieldName(fa.X.Type(), fa.Field) != k {
					continue
				}
				if c, isC := st.Val.(*ssa.Const); isC && (c.Value == nil || isZeroConst(c)) {
					continue
				}
				found = true
				// sources: the value, or what is appended
				var srcs []ssa.Value
				if call, ok := st.Val.(*ssa.Call); ok && core.IsBuiltinCall(&call.Call, "append") && len(call.Call.Args) == 2 {
					srcs = append(srcs, argLeaves(call.Call.Args[1])...)
				} else {
					srcs = append(srcs, st.Val)
				}
				// forward closure
				derived := map[ssa.Value]bool{}
				work := append([]ssa.Value{}, srcs...)
				for steps := 0; len(work) > 0 && steps < 200; steps++ {
					v := work[len(work)-1]
					work = work[:len(work)-1]
					if derived[v] {
						continue
					}
					derived[v] = true
					for _, ref := range core.Referrers(v) {
						switch x := ref.(type) {
						case *ssa.Call:
							work = append(work, x)
						case *ssa.MakeInterface:
							work = append(work, x)
						case *ssa.ChangeType:
							work = append(work, x)
						case *ssa.ChangeInterface:
							work = append(work, x)
						case *ssa.Phi:
							work = append(work, x)
						case *ssa.Extract:
							work = append(work, x)
						case *ssa.Slice:
							work = append(work, x)
						case *ssa.Store:
							// into a varargs array / local cell: follow the cell's base
							if ia, ok := x.Addr.(*ssa.IndexAddr); ok && x.Val == v {
								work = append(work, ia.X)
							}
						}
					}
				}
				here := ""
				for d := range derived {
					for _, ref := range core.Referrers(d) {
						st2, ok := ref.(*ssa.Store)
						if !ok || st2.Val != d || st2 == st {
							continue
						}
						fa2, ok := st2.Addr.(*ssa.FieldAddr)
						if !ok || !sameObject(fa2.X, fa.X) && fa2.X != fa.X {
							continue
						}
						g := n.Obj().Name() + "." + core.FieldName(fa2.X.Type(), fa2.Field)
						if g != k && (here == "" || g < here) {
							here = g
						}
					}
				}
				if here == "" {
					return ""
				}
				if companion == "" {
					companion = here
				} else if companion != here {
					return ""
				}
			}
		}
	}
	if !found {
		return ""
	}
	return companion
}

func runC06(c *Ctx) {
	r, p := c.R, c.P
	r.Summary = "C06 (serialising and re-parsing gives the same tree; formatting is stable): decided clause (necessary condition) = a serialiser cannot preserve what it never reads: every (node type, field) the parser populates is read by the code reachable from each serialiser family's entry (AST.SQL / SQL() methods, AST.Format / Format methods); the families agree on the fields they read; every statement type the parser returns has a SQL() method."
	r.NotCov = []string{"round-trip equality itself (runtime relation)", "path-dependent losses: a field read on one path but ignored on another (BinaryExpression.Not on the IS NULL path), missing parentheses, unquoted reserved words", "the CLI formatter's token-based output"}
	r.Rule("ser-field", "every (type, field) populated by pkg/sql/parser (non-zero store) and not in the derived table is read by a function reachable from the serialiser family's entry points")
	r.Rule("ser-agree", "for parser-populated fields, the SQL family and the Format family read the same set")
	r.Rule("ser-method", "every concrete statement/expression type the parser constructs has a SQL() method")
	astPk := p.Pkg("pkg/sql/ast")
	if astPk == nil {
		r.Fatal("anchor not found: pkg/sql/ast")
		return
	}
	astPath := astPk.PkgPath
	P := astFieldWrites(p, []string{"pkg/sql/parser"}, astPath)
	inAst := func(f *ssa.Function) bool { return f != nil && f.Blocks != nil && core.InPkgs(f, "pkg/sql/ast") }
	family := func(method string) map[*ssa.Function]bool {
		var roots []*ssa.Function
		for _, fn := range p.SrcFuncs("pkg/sql/ast") {
			if fn.Parent() == nil && fn.Signature.Recv() != nil && fn.Name() == method {
				roots = append(roots, fn)
			}
		}
		return p.Reachable(roots, inAst)
	}
	fams := map[string]map[string]bool{"SQL": astFieldReads(family("SQL"), astPath), "Format": astFieldReads(family("Format"), astPath)}
	if len(fams["SQL"]) < 100 || len(fams["Format"]) < 100 {
		r.Fatal("serialiser families read too few fields (SQL %d, Format %d): anchors moved?", len(fams["SQL"]), len(fams["Format"]))
	}
	var keys []string
	for k := range P {
		keys = append(keys, k)
	}
	sort.Strings(keys)
	r.Floor("ser-field", len(keys), 150, "parser-populated (type, field) pairs")
	for _, fam := range []string{"SQL", "Format"} {
		reads := fams[fam]
		// types with no field read at all by this family
		typeRead := map[string]bool{}
		for k := range reads {
			typeRead[k[:strings.Index(k, ".")]] = true
		}
		reportedType := map[string]bool{}
		for _, k := range keys {
			t := k[:strings.Index(k, ".")]
			if why, ok := c06Derived[k]; ok {
				r.OK("ser-field", fam+"|"+k, P[k], "derived: "+why)
				continue
			}
			if reads[k] {
				r.OK("ser-field", fam+"|"+k, P[k], "")
				continue
			}
			if !typeRead[t] {
				if !reportedType[t] {
					reportedType[t] = true
					r.Violate("ser-field", fam+"|"+t+".*", P[k], "the parser builds "+t+" nodes but no function of the "+fam+" family reads any field of "+t+": such nodes are dropped or printed as a placeholder")
				}
				continue
			}
			if g := c06RedundantWith(p, astPath, k); g != "" && reads[g] {
				r.OK("ser-field", fam+"|"+k, P[k], "second representation of what is printed from "+g+": wherever the parser fills this field it stores a value computed from the same source into "+g+" of the same node")
				continue
			}
			r.Violate("ser-field", fam+"|"+k, P[k], "the parser populates "+k+" but the "+fam+" family never reads it: the information is lost when the tree is serialised")
		}
	}
	for _, k := range keys {
		if c06Derived[k] != "" {
			continue
		}
		a, b := fams["SQL"][k], fams["Format"][k]
		if a == b {
			r.OK("ser-agree", k, P[k], "")
		} else if a {
			r.Violate("ser-agree", k, P[k], "read by SQL() but not by Format(): the two serialisers print different things for the same tree")
		} else {
			r.Violate("ser-agree", k, P[k], "read by Format() but not by SQL()")
		}
	}
	// ser-method: concrete types the parser returns as ast.Statement
	built := map[string]string{}
	for _, fn := range p.SrcFuncs("pkg/sql/parser") {
		for _, b := range fn.Blocks {
			for _, in := range b.Instrs {
				mi, ok := in.(*ssa.MakeInterface)
				if !ok {
					continue
				}
				it := core.NamedOf(mi.Type())
				if it == nil || it.Obj().Name() != "Statement" || it.Obj().Pkg() == nil || it.Obj().Pkg().Path() != astPath {
					continue
				}
				if n := core.NamedOf(mi.X.Type()); n != nil && n.Obj().Pkg() != nil && n.Obj().Pkg().Path() == astPath {
					if _, seen := built[n.Obj().Name()]; !seen {
						built[n.Obj().Name()] = p.Pos(mi.Pos())
					}
				}
			}
		}
	}
	var bn []string
	for k := range built {
		bn = append(bn, k)
	}
	sort.Strings(bn)
	for _, name := range bn {
		if p.Method("pkg/sql/ast", name, "SQL") != nil {
			r.OK("ser-method", name, built[name], "")
		} else {
			r.Violate("ser-method", name, built[name], "the parser constructs "+name+" but the type has no SQL() method: AST.SQL() skips it or prints a placeholder")
		}
	}
	r.Floor("ser-method", len(bn), 10, "statement types returned by the parser")
	runC06Kw(c)
	c06OptionIndependence(c, p, astPath)
	c06Flags(c, p, P, astPath)
	c06SerExclusive(c, p)
	c06QuoteRule(c, p)
	r.Floor("nested-format-options", c06NestedFormatOptions(c, p), 5, "nested Format calls")
	r.Rule("guard-field-match", "in the serialisers of pkg/sql/ast, code that runs only when an optional field of a node is present uses that field (or hands the node on); a branch that tests one field and uses only another, untested, one is reported")
	ng := guardFieldMatch(c, p, "guard-field-match", []string{"pkg/sql/ast"}, func(f *ssa.Function) bool {
		return !strings.HasPrefix(f.Name(), "Put") && !strings.HasPrefix(f.Name(), "Release") && !strings.HasPrefix(f.Name(), "Get")
	})
	r.OK("guard-field-match", "scan", "-", sprintf("%d presence-guarded regions that use sibling fields examined", ng))
	_ = token.ADD
}
