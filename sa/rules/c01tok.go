package rules

import (
	"strings"

	"gosqlxsa/core"
)

func c01Tokenizer(c *Ctx) {
	r, p := c.R, c.P
	m, missing := newTokenizerModel(p)
	if m == nil {
		r.Fatal("anchor not found: %s", missing)
		return
	}
	spec := m.spec()
	nl := 0
	for _, fn := range m.fns {
		n, _, fs := checkLoops(fn, spec)
		nl += n
		bad := map[int][]loopFinding{}
		for _, f := range fs {
			bad[f.ordinal] = append(bad[f.ordinal], f)
		}
		for i := 1; i <= n; i++ {
			key := core.FnName(fn) + sprintf("|loop#%d", i)
			if len(bad[i]) == 0 {
				r.OK("tokenizer-loop", key, p.FnPos(fn), "")
				continue
			}
			var parts []string
			for _, f := range bad[i] {
				if f.kind == "no-progress" {
					parts = append(parts, "a cycle near "+p.Pos(f.pos)+" can repeat without consuming a byte")
				} else {
					parts = append(parts, "a cycle near "+p.Pos(f.pos)+" can repeat after the cursor has reached the end of the input")
				}
			}
			r.Violate("tokenizer-loop", key, p.Pos(bad[i][0].pos), strings.Join(parts, "; "))
		}
	}
	r.Floor("tokenizer-loop", nl, 12, "loops in tokenizer functions")
	r.Extra("tokenizer_loops", nl)
	r.Assume("tokenizer progress atoms (pos.AdvanceRune, pos.Index += rune size) are only executed below len(input): each is preceded by a read of input[pos] whose bounds obligation is part of the index-bounds rule")
}
