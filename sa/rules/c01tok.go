package rules

func c01Tokenizer(c *Ctx) {}
func c01Panics(c *Ctx)    {}
