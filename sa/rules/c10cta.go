package rules

import (
	"go/token"
	"go/types"

	"golang.org/x/tools/go/ssa"

	"gosqlxsa/core"
)

// check-then-act: an insertion into a lock-guarded map that is decided by a lookup made in an earlier
// critical section (the lock was released between the lookup and the insertion). Two goroutines can both
// miss, and the second insertion replaces the first one's entry: a lost update although every access is locked.

func mapFieldKey(v ssa.Value) string {
	u, ok := v.(*ssa.UnOp)
	if !ok || u.Op != token.MUL {
		return ""
	}
	fa, ok := u.X.(*ssa.FieldAddr)
	if !ok {
		return ""
	}
	return fieldKey(fa.X, fa.Field)
}

func c10CheckThenAct(c *Ctx, p *core.Prog, fns []*ssa.Function, la *lockAnalysis) {
	r := c.R
	r.Rule("check-then-act", "an insertion into a mutex-guarded map that depends on the outcome of a lookup in the same map happens in the same critical section as that lookup (no Unlock/RUnlock of the guarding mutex between them), or is preceded by a second lookup under the write lock")
	n := 0
	for _, fn := range fns {
		seq := 0
		for _, b := range fn.Blocks {
			for _, in := range b.Instrs {
				mu, ok := in.(*ssa.MapUpdate)
				if !ok {
					continue
				}
				mk := mapFieldKey(mu.Map)
				if mk == "" {
					continue
				}
				held := la.at(fn, mu)
				if len(held) == 0 {
					continue // not a guarded map (guarded-by reports unguarded access)
				}
				// lookups of the same map that decide whether this update runs
				var deciding []*ssa.Lookup
				for _, cd := range core.ControlDeps(b) {
					var walk func(v ssa.Value, d int)
					seen := map[ssa.Value]bool{}
					walk = func(v ssa.Value, d int) {
						if d > 8 || seen[v] {
							return
						}
						seen[v] = true
						if lk, ok := v.(*ssa.Lookup); ok && mapFieldKey(lk.X) == mk {
							deciding = append(deciding, lk)
							return
						}
						if vi, ok := v.(ssa.Instruction); ok {
							var ops []*ssa.Value
							for _, o := range vi.Operands(ops) {
								if *o != nil {
									walk(*o, d+1)
								}
							}
						}
					}
					walk(cd.If.Cond, 0)
				}
				if len(deciding) == 0 {
					continue
				}
				n++
				seq++
				key := core.FnName(fn) + "|" + mk + sprintf("#%d", seq)
				bad := ""
				for _, lk := range deciding {
					// is there an unlock of a held mutex on a path from the lookup to the update?
					for name := range held {
						for _, b2 := range fn.Blocks {
							for _, in2 := range b2.Instrs {
								call, ok := in2.(*ssa.Call)
								if !ok {
									continue
								}
								nm, op := lockOp(&call.Call)
								if nm != name || !(op == "Unlock" || op == "RUnlock") {
									continue
								}
								if instrReaches(lk, call, nil) && instrReaches(call, mu, nil) {
									bad = "the lookup at " + p.Pos(lk.Pos()) + " that decides this insertion ran in an earlier critical section (" + name + " is released at " + p.Pos(call.Pos()) + " in between)"
								}
							}
						}
					}
				}
				// a re-check under the current lock redeems it
				if bad != "" {
					for _, lk := range deciding {
						if st := la.at(fn, lk); len(st) > 0 {
							same := true
							for name, mode := range held {
								if st[name] != mode {
									same = false
								}
							}
							if same && lk.Block().Dominates(b) {
								unlockBetween := false
								for name := range held {
									for _, b2 := range fn.Blocks {
										for _, in2 := range b2.Instrs {
											if call, ok := in2.(*ssa.Call); ok {
												if nm, op := lockOp(&call.Call); nm == name && (op == "Unlock" || op == "RUnlock") && instrReaches(lk, call, nil) && instrReaches(call, mu, nil) {
													unlockBetween = true
												}
											}
										}
									}
								}
								if !unlockBetween {
									bad = ""
								}
							}
						}
					}
				}
				if bad == "" {
					r.OK("check-then-act", key, p.Pos(mu.Pos()), "lookup and insertion in one critical section")
				} else {
					r.Violate("check-then-act", key, p.Pos(mu.Pos()), bad+": two goroutines can both miss and the later insertion replaces the earlier entry (lost update, invisible to the race detector)")
				}
			}
		}
	}
	r.Extra("check_then_act_sites", n)
}

// escape-from-lock: a map (or slice) field read while its mutex is held is only a reference: iterating,
// indexing or updating it after the mutex has been released races with writers exactly as if no lock had
// been taken (the runtime aborts with "concurrent map iteration and map write").
func c10EscapeFromLock(c *Ctx, p *core.Prog, fns []*ssa.Function, la *lockAnalysis) {
	r := c.R
	r.Rule("escape-from-lock", "a map or slice loaded from a field of a mutex-carrying struct while one of the struct's mutexes is held is ranged over, indexed, looked up or updated only while that mutex is still held (copy the contents under the lock instead of keeping the reference)")
	n := 0
	for _, fn := range fns {
		seq := 0
		for _, b := range fn.Blocks {
			for _, in := range b.Instrs {
				ld, ok := in.(*ssa.UnOp)
				if !ok || ld.Op != token.MUL {
					continue
				}
				fa, ok := ld.X.(*ssa.FieldAddr)
				if !ok {
					continue
				}
				T := core.NamedOf(fa.X.Type())
				if T == nil || len(structMutexes(T)) == 0 {
					continue
				}
				switch ld.Type().Underlying().(type) {
				case *types.Map, *types.Slice:
				default:
					continue
				}
				heldAt := la.at(fn, ld)
				mname, held := heldAny(heldAt, T, false)
				if !held {
					continue // unguarded reads are the guarded-by rule's business
				}
				n++
				seq++
				key := core.FnName(fn) + "|" + T.Obj().Name() + "." + core.FieldName(fa.X.Type(), fa.Field) + sprintf("#%d", seq)
				bad := ""
				for _, ref := range core.Referrers(ld) {
					use, isInstr := ref.(ssa.Instruction)
					if !isInstr {
						continue
					}
					switch u := ref.(type) {
					case *ssa.Range, *ssa.Lookup, *ssa.MapUpdate, *ssa.IndexAddr, *ssa.Index:
						_ = u
					case *ssa.Call:
						if !(core.IsBuiltinCall(&u.Call, "delete") || core.IsBuiltinCall(&u.Call, "len")) {
							continue
						}
					default:
						continue
					}
					if _, still := heldAny(la.at(fn, use), T, false); !still {
						bad = "used at " + p.Pos(use.Pos()) + " after " + T.Obj().Name() + "." + mname + " was released"
					}
					// a Range is consumed by Next instructions: they must be under the lock too
					if rg, ok := ref.(*ssa.Range); ok {
						for _, r2 := range core.Referrers(rg) {
							if nx, ok := r2.(*ssa.Next); ok {
								if _, still := heldAny(la.at(fn, nx), T, false); !still {
									bad = "iterated at " + p.Pos(rg.Pos()) + " after " + T.Obj().Name() + "." + mname + " was released"
								}
							}
						}
					}
				}
				if bad == "" {
					r.OK("escape-from-lock", key, p.Pos(ld.Pos()), "used only while the lock is held")
				} else {
					r.Violate("escape-from-lock", key, p.Pos(ld.Pos()), "the reference read under the lock is "+bad+": concurrent writers modify the same map/slice (data race; the runtime aborts on concurrent map iteration and write)")
				}
			}
		}
	}
	r.Extra("guarded_reference_loads", n)
}
