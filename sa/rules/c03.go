package rules

import (
	"go/constant"
	"go/token"
	"go/types"
	"sort"
	"strings"

	"golang.org/x/tools/go/ssa"

	"gosqlxsa/core"
)

func init() { Registry["C03"] = runC03 }

// operandCallees: which parse functions produced value v (through phis, extracts, interface conversions).
func operandCallees(v ssa.Value, depth int, out map[string]bool) {
	if depth > 8 || v == nil {
		return
	}
	switch x := v.(type) {
	case *ssa.Extract:
		operandCallees(x.Tuple, depth+1, out)
	case *ssa.Call:
		if f := x.Call.StaticCallee(); f != nil {
			// a helper that receives an already parsed expression and returns it (with suffixes applied, wrapped, …)
			// does not choose the operand's precedence level: the level is that of the expression passed in
			through := false
			for i, a := range x.Call.Args {
				if i == 0 && f.Signature.Recv() != nil {
					continue
				}
				if strings.HasSuffix(a.Type().String(), "ast.Expression") {
					operandCallees(a, depth+1, out)
					through = true
				}
			}
			if !through {
				out[f.Name()] = true
			}
		} else {
			out["<dynamic>"] = true
		}
	case *ssa.Phi:
		for _, e := range x.Edges {
			operandCallees(e, depth+1, out)
		}
	case *ssa.MakeInterface:
		operandCallees(x.X, depth+1, out)
	case *ssa.ChangeInterface:
		operandCallees(x.X, depth+1, out)
	case *ssa.Alloc:
		n := core.NamedOf(x.Type())
		if n != nil {
			out["<node "+n.Obj().Name()+">"] = true
		}
	case *ssa.UnOp:
		if a, ok := x.X.(*ssa.Alloc); ok {
			for _, ref := range core.Referrers(a) {
				if st, ok := ref.(*ssa.Store); ok && st.Addr == ssa.Value(a) {
					operandCallees(st.Val, depth+1, out)
				}
			}
		}
	}
}

type binSite struct {
	fn          *ssa.Function
	pos         token.Pos
	left, right []string
	ops         []string // token type names that lead to this construction
	inLoop      bool
}

func setKeys(m map[string]bool) []string {
	var out []string
	for k := range m {
		out = append(out, k)
	}
	sort.Strings(out)
	return out
}

func runC03(c *Ctx) {
	r, p := c.R, c.P
	r.Summary = "C03 (the parsed tree is the tree the SQL grammar prescribes): decided clause = the operator precedence/associativity ladder, recovered from the recursive-descent code: the chain of operand calls from parseExpression downwards orders the operator classes as OR < AND < comparison < || < +,- < *,/,% < JSON/cast; each left-associative level builds its node in a loop that folds the previous result into Left; in every function that builds a binary node from two parsed operands both operands are parsed by the same callee (otherwise `a = b + 1` parses the right side at a tighter level than the left)."
	r.NotCov = []string{"clause-by-clause construction, written values, aliases, 'never rejected' and every other part of C03: relations between input text and tree values"}
	r.Rule("prefilter-admits-keys", "a function of the token conversion / tokenizer / keyword packages that rejects a word by its length before comparing it with string constants admits the length of every constant it compares with")
	if npf := c03PrefilterAdmitsKeys(c, c.P, []string{"pkg/sql/parser", "pkg/sql/tokenizer", "pkg/sql/keywords", "pkg/models"}, nil); npf == 0 {
		r.OK("prefilter-admits-keys", "scan", "-", "no word-typing function rejects by length before comparing with constants")
	}
	if c.Controls {
		if cp := c.Control("c03"); cp != nil {
			fired := map[string]bool{}
			c03PrefilterAdmitsKeys(c, cp, []string{"gosqlxsa/controls/c03"}, fired)
			r.Control("prefilter-admits-keys", fired["c03.tooNarrow"] && !fired["c03.wideEnough"], "controls/c03 tooNarrow (n < 4 before a switch with \"ANY\") and wideEnough")
		}
	}
	c03LiteralShortcut(c, c.P)
	r.Rule("ladder-order", "following the left-operand callee from parseExpression gives a chain of functions whose operator classes appear in the standard order OR, AND, comparison, ||, additive, multiplicative; operator classes of different levels are disjoint")
	r.Rule("left-assoc", "the OR, AND, ||, additive and multiplicative levels construct their BinaryExpression inside a loop whose Left operand includes the previously built node")
	r.Rule("operand-symmetry", "where a BinaryExpression is built from two parsed operands, the callee that parsed the right operand is the callee that parsed the left operand (not a looser level, not the function itself: that would fold a chain to the right)")
	mk := p.Pkg("pkg/models")
	if mk == nil || p.Pkg("pkg/sql/parser") == nil {
		r.Fatal("anchor not found: pkg/models / pkg/sql/parser")
		return
	}
	tokNames := map[int64]string{}
	for _, n := range mk.Types.Scope().Names() {
		if cst, ok := mk.Types.Scope().Lookup(n).(*types.Const); ok && strings.HasPrefix(n, "TokenType") && cst.Val().Kind() == constant.Int {
			v, _ := constant.Int64Val(cst.Val())
			short := strings.TrimPrefix(n, "TokenType")
			if old, dup := tokNames[v]; !dup || len(short) < len(old) {
				tokNames[v] = short
			}
		}
	}
	var sites []binSite
	for _, fn := range p.SrcFuncs("pkg/sql/parser") {
		for _, b := range fn.Blocks {
			for _, in := range b.Instrs {
				a, ok := in.(*ssa.Alloc)
				if !ok {
					continue
				}
				if n := core.NamedOf(a.Type()); n == nil || n.Obj().Name() != "BinaryExpression" {
					continue
				}
				l, rr := map[string]bool{}, map[string]bool{}
				for _, ref := range core.Referrers(a) {
					fa, ok := ref.(*ssa.FieldAddr)
					if !ok {
						continue
					}
					name := core.FieldName(fa.X.Type(), fa.Field)
					for _, r2 := range core.Referrers(fa) {
						if st, ok := r2.(*ssa.Store); ok && st.Addr == ssa.Value(fa) {
							switch name {
							case "Left":
								operandCallees(st.Val, 0, l)
							case "Right":
								operandCallees(st.Val, 0, rr)
							}
						}
					}
				}
				s := binSite{fn: fn, pos: a.Pos(), left: setKeys(l), right: setKeys(rr), inLoop: inLoop(b)}
				ops := map[string]bool{}
				for _, cd := range core.ControlDeps(b) {
					if cd.Succ != 0 {
						continue
					}
					collectTokenTests(cd.If.Cond, tokNames, ops, 0)
				}
				s.ops = setKeys(ops)
				sites = append(sites, s)
			}
		}
	}
	r.Floor("operand-symmetry", len(sites), 5, "BinaryExpression construction sites")
	// operator classes (the only frozen datum: a fact of SQL)
	classes := []struct {
		name string
		toks []string
	}{
		{"OR", []string{"Or"}},
		{"AND", []string{"And"}},
		{"comparison", []string{"Eq", "Neq", "Lt", "Gt", "LtEq", "GtEq"}},
		{"||", []string{"StringConcat"}},
		{"additive", []string{"Plus", "Minus"}},
		{"multiplicative", []string{"Mul", "Asterisk", "Div", "Mod"}},
	}
	levelFn := map[string]*ssa.Function{}
	leftCallee := map[*ssa.Function]string{}
	for _, s := range sites {
		for _, cl := range classes {
			for _, t := range cl.toks {
				for _, o := range s.ops {
					if o == t {
						if old, ok := levelFn[cl.name]; ok && old != s.fn {
							r.Violate("ladder-order", "class|"+cl.name, p.Pos(s.pos), "operator class "+cl.name+" is handled at two different levels: "+old.Name()+" and "+s.fn.Name())
						}
						levelFn[cl.name] = s.fn
					}
				}
			}
		}
		for _, l := range s.left {
			if strings.HasPrefix(l, "parse") && l != s.fn.Name() {
				leftCallee[s.fn] = l
			}
		}
	}
	// chain from parseExpression
	order := map[string]int{}
	cur := "parseExpression"
	for i := 0; i < 12 && cur != ""; i++ {
		order[cur] = i
		fn := p.Method("pkg/sql/parser", "Parser", cur)
		if fn == nil {
			break
		}
		cur = leftCallee[fn]
	}
	prevIdx := -1
	prevName := ""
	for _, cl := range classes {
		fn := levelFn[cl.name]
		key := "level|" + cl.name
		if fn == nil {
			r.Violate("ladder-order", key, "-", "no function builds a BinaryExpression for operator class "+cl.name)
			continue
		}
		idx, ok := order[fn.Name()]
		switch {
		case !ok:
			r.Violate("ladder-order", key, p.FnPos(fn), fn.Name()+" (class "+cl.name+") is not on the operand chain that starts at parseExpression")
		case idx <= prevIdx:
			r.Violate("ladder-order", key, p.FnPos(fn), "operator class "+cl.name+" ("+fn.Name()+") does not bind tighter than "+prevName+": precedence order is wrong")
		default:
			r.OK("ladder-order", key, p.FnPos(fn), sprintf("%s at depth %d of the chain", fn.Name(), idx))
		}
		if ok {
			prevIdx, prevName = idx, cl.name
		}
	}
	// associativity
	for _, cl := range classes {
		if cl.name == "comparison" {
			continue
		}
		fn := levelFn[cl.name]
		if fn == nil {
			continue
		}
		okA := false
		for _, s := range sites {
			if s.fn != fn || !s.inLoop {
				continue
			}
			for _, l := range s.left {
				if l == "<node BinaryExpression>" {
					okA = true
				}
			}
		}
		if okA {
			r.OK("left-assoc", cl.name, p.FnPos(fn), "built in a loop folding the previous node into Left")
		} else {
			r.Violate("left-assoc", cl.name, p.FnPos(fn), "the "+cl.name+" level does not fold repeated operators to the left in a loop: `a op b op c` is rejected or re-associated")
		}
	}
	// symmetry
	seq := map[string]int{}
	for _, s := range sites {
		var lp, rp []string
		for _, l := range s.left {
			if strings.HasPrefix(l, "parse") {
				lp = append(lp, l)
			}
		}
		for _, x := range s.right {
			if strings.HasPrefix(x, "parse") {
				rp = append(rp, x)
			}
		}
		if len(lp) == 0 || len(rp) == 0 {
			continue // one side is not a freshly parsed operand (IS NULL, NOT EXISTS wrappers …)
		}
		opname := strings.Join(s.ops, ",")
		base := s.fn.Name() + "|" + opname
		seq[base]++
		key := base
		if seq[base] > 1 {
			key += sprintf("#%d", seq[base])
		}
		same := true
		for _, x := range rp {
			found := false // (a right operand parsed by the function itself folds the chain to the right)
			for _, l := range lp {
				if l == x {
					found = true
				}
			}
			if !found {
				same = false
			}
		}
		if same {
			r.OK("operand-symmetry", key, p.Pos(s.pos), "both operands via "+strings.Join(lp, "/"))
		} else {
			why := "the right side of this operator is parsed at a different level than the left (e.g. `a = b + 1` is rejected or mis-grouped)"
			for _, x := range rp {
				if x == s.fn.Name() {
					why = "the right operand is parsed by the level's own function, which consumes the rest of the chain: `a - b - c` groups as a - (b - c)"
				}
			}
			r.Violate("operand-symmetry", key, p.Pos(s.pos), "left operand parsed by "+strings.Join(lp, "/")+" but right operand by "+strings.Join(rp, "/")+": "+why)
		}
	}
	// unary operators: one precedence level for the operand, whatever the next token is
	r.Rule("unary-operand", "the operand of a unary node (NOT, unary minus/plus, …) is parsed by one function of the precedence chain: a choice between two levels that depends on the next token makes `NOT (a) > b` group differently from `NOT a > b`")
	nu := 0
	useq := map[string]int{}
	for _, fn := range p.SrcFuncs("pkg/sql/parser") {
		for _, b := range fn.Blocks {
			for _, in := range b.Instrs {
				a, ok := in.(*ssa.Alloc)
				if !ok {
					continue
				}
				if n := core.NamedOf(a.Type()); n == nil || n.Obj().Name() != "UnaryExpression" {
					continue
				}
				srcs := map[string]bool{}
				for _, ref := range core.Referrers(a) {
					fa, ok := ref.(*ssa.FieldAddr)
					if !ok || core.FieldName(fa.X.Type(), fa.Field) != "Expr" {
						continue
					}
					for _, r2 := range core.Referrers(fa) {
						if st, ok := r2.(*ssa.Store); ok && st.Addr == ssa.Value(fa) {
							operandCallees(st.Val, 0, srcs)
						}
					}
				}
				var levels []string
				for _, k := range setKeys(srcs) {
					if _, onChain := order[k]; onChain {
						levels = append(levels, k)
					}
				}
				nu++
				useq[fn.Name()]++
				key := fn.Name() + sprintf("|unary#%d", useq[fn.Name()])
				// NOT binds looser than every comparison/predicate operator and tighter than AND: its operand is parsed by
				// the function that parses the operands of AND (a fact of SQL, like the operator order above)
				isNot := false
				for _, ref := range core.Referrers(a) {
					fa, ok := ref.(*ssa.FieldAddr)
					if !ok || core.FieldName(fa.X.Type(), fa.Field) != "Operator" {
						continue
					}
					for _, r2 := range core.Referrers(fa) {
						if st, ok := r2.(*ssa.Store); ok && st.Addr == ssa.Value(fa) {
							if g, ok := st.Val.(*ssa.Const); ok && g.Value != nil {
								// the UnaryOperator constant named Not
								if cn := constNameOf(p, st.Val.Type(), g); cn == "Not" {
									isNot = true
								}
							}
						}
					}
				}
				andFn := levelFn["AND"]
				if isNot && andFn != nil && len(levels) == 1 && leftCallee[andFn] != "" && levels[0] != leftCallee[andFn] {
					r.Violate("unary-operand", key, p.Pos(a.Pos()), "the operand of NOT is parsed by "+levels[0]+", but the operands of AND are parsed by "+leftCallee[andFn]+": NOT then binds tighter than the comparison and predicate operators (`NOT a = b` groups as `(NOT a) = b`)")
					continue
				}
				if len(levels) <= 1 {
					r.OK("unary-operand", key, p.Pos(a.Pos()), "operand via "+strings.Join(setKeys(srcs), "/"))
				} else {
					r.Violate("unary-operand", key, p.Pos(a.Pos()), "the operand is parsed by "+strings.Join(levels, " or ")+" depending on the input: the unary operator binds at two different precedence levels")
				}
			}
		}
	}
	r.Floor("unary-operand", nu, 1, "UnaryExpression construction sites")
	c03Sticky(c, p)
}

// collectTokenTests gathers token type names tested positively in cond (isType(X), isAnyType(...), currentToken.Type == X).
func collectTokenTests(v ssa.Value, names map[int64]string, out map[string]bool, depth int) {
	if depth > 6 {
		return
	}
	switch x := v.(type) {
	case *ssa.Call:
		f := x.Call.StaticCallee()
		if f == nil || !strings.HasPrefix(f.Name(), "is") && f.Name() != "matchType" {
			return
		}
		for _, a := range x.Call.Args[1:] {
			for _, leaf := range argLeaves(a) {
				if k, ok := core.ConstInt(leaf); ok {
					if n, ok := names[k]; ok {
						out[n] = true
					}
				}
			}
		}
		// named predicates: expand one level (isComparisonOperator → its constants)
		if len(x.Call.Args) == 1 && f.Blocks != nil {
			for _, b := range f.Blocks {
				for _, in := range b.Instrs {
					if bo, ok := in.(*ssa.BinOp); ok && bo.Op == token.EQL {
						if k, ok := core.ConstInt(bo.Y); ok {
							if n, ok := names[k]; ok {
								out[n] = true
							}
						}
					}
				}
			}
		}
	case *ssa.BinOp:
		if x.Op == token.EQL {
			if k, ok := core.ConstInt(x.Y); ok {
				if n, ok := names[k]; ok {
					out[n] = true
				}
			}
		}
	case *ssa.Phi:
		for _, e := range x.Edges {
			collectTokenTests(e, names, out, depth+1)
		}
	}
}

// constNameOf: the name of the package-level constant of type t whose value equals c (first match), or "".
func constNameOf(p *core.Prog, t types.Type, c *ssa.Const) string {
	n := core.NamedOf(t)
	if n == nil || n.Obj().Pkg() == nil {
		return ""
	}
	scope := n.Obj().Pkg().Scope()
	for _, name := range scope.Names() {
		if cst, ok := scope.Lookup(name).(*types.Const); ok && types.Identical(cst.Type(), t) && constant.Compare(cst.Val(), token.EQL, c.Value) {
			return name
		}
	}
	return ""
}
