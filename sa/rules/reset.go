package rules

import (
	"go/constant"
	"go/token"
	"go/types"
	"sort"
	"strings"

	"golang.org/x/tools/go/ssa"

	"gosqlxsa/core"
)

// resetEngine decides "field f of object obj is definitely in its reset
// (zero / truncated) state at program point P" by a forward must-dataflow over
// the SSA blocks of a function, with callee summaries.
type resetEngine struct {
	// assignMode: track "definitely assigned (any value)" instead of "definitely reset"
	assignMode bool
	// objType: when set, every value of type *objType denotes the analysed object
	// (single-object assumption used for Parser/Tokenizer method trees)
	objType    *types.Named
	coupleMemo map[string]bool
	p          *core.Prog
	sum        map[*ssa.Function]map[int]*resetSummary
}

type resetSummary struct {
	gen  map[string]bool // paths definitely reset at every return
	kill map[string]bool // paths possibly assigned a non-reset value
	all  bool            // kill everything (object escapes to unknown code)
	busy bool
}

func newResetEngine(p *core.Prog) *resetEngine {
	return &resetEngine{p: p, sum: map[*ssa.Function]map[int]*resetSummary{}}
}

// isResetValue: storing v puts a field into the state a freshly allocated
// object has (zero), or truncates a slice to length 0 (contents unobservable).
func isResetValue(v ssa.Value) bool { return (*resetEngine)(nil).isResetValueIn(v, nil, nil, 0) }

// isResetValueIn additionally accepts loads of fields of obj that are
// currently in reset state (cur), e.g. append(t.f[:0], 0) after t.f = t.f[:0].
func (e *resetEngine) isResetValueIn(v ssa.Value, cur factSet, obj ssa.Value, depth int) bool {
	if depth > 6 {
		return false
	}
	switch x := v.(type) {
	case *ssa.Const:
		_ = constant.Int
		return true // any compile-time constant is independent of the previous holder
	case *ssa.UnOp:
		if x.Op == token.MUL && obj != nil {
			if p, ok := e.objPath(x.X, obj); ok && p != "" && (cur[p] || cur["*"] || cur[strings.SplitN(p, ".", 2)[0]]) {
				return true
			}
		}
	case *ssa.Call:
		if core.IsBuiltinCall(&x.Call, "append") || (x.Call.StaticCallee() != nil && x.Call.StaticCallee().Signature.Recv() == nil && !x.Call.IsInvoke()) {
			if x.Call.StaticCallee() != nil && len(x.Call.Args) == 0 && !core.InModule(x.Call.StaticCallee()) {
				return false // foreign zero-argument functions (time.Now, rand…) are not state-independent
			}
			for _, a := range x.Call.Args {
				if !e.isResetValueIn(a, cur, obj, depth+1) {
					return false
				}
			}
			return true
		}
	case *ssa.Slice:
		if x.High != nil {
			if n, ok := core.ConstInt(x.High); ok && n == 0 {
				return true
			}
		}
		if a, ok := x.X.(*ssa.Alloc); ok && a.Heap {
			return true // make([]T, n, m): fresh storage
		}
		if x.High == nil && x.Low == nil {
			return e.isResetValueIn(x.X, cur, obj, depth+1)
		}
	case *ssa.MakeSlice:
		if _, ok := core.ConstInt(x.Len); ok {
			return true
		}
	case *ssa.MakeMap, *ssa.MakeChan:
		return true
	case *ssa.Alloc:
		return x.Heap // address of a fresh object
	case *ssa.ChangeType:
		return e.isResetValueIn(x.X, cur, obj, depth+1)
	case *ssa.Convert:
		return e.isResetValueIn(x.X, cur, obj, depth+1)
	}
	return false
}

// paramDerived names a value computed from a parameter by field selection and
// loads only ("result.Tokens"), or "" if it is not such a value.
func paramDerived(v ssa.Value) string {
	switch x := v.(type) {
	case *ssa.Parameter:
		return x.Name()
	case *ssa.UnOp:
		if x.Op == token.MUL {
			return paramDerived(x.X)
		}
	case *ssa.FieldAddr:
		if b := paramDerived(x.X); b != "" {
			return b + "." + core.FieldName(x.X.Type(), x.Field)
		}
	case *ssa.Field:
		if b := paramDerived(x.X); b != "" {
			return b + "." + core.FieldName(x.X.Type(), x.Field)
		}
	}
	return ""
}

// canon looks through the heap cell go/ssa creates for a parameter captured by
// a closure: a load from an Alloc whose only store is a parameter is that parameter.
func canon(v ssa.Value) ssa.Value {
	u, ok := v.(*ssa.UnOp)
	if !ok || u.Op != token.MUL {
		return v
	}
	a, ok := u.X.(*ssa.Alloc)
	if !ok {
		return v
	}
	var src ssa.Value
	n := 0
	for _, ref := range core.Referrers(a) {
		if st, ok := ref.(*ssa.Store); ok && st.Addr == ssa.Value(a) {
			n++
			src = st.Val
		}
	}
	if n == 1 {
		if _, isParam := src.(*ssa.Parameter); isParam {
			return src
		}
	}
	return v
}

// same: does v denote the analysed object obj?
func (e *resetEngine) same(v, obj ssa.Value) bool {
	if v == obj || canon(v) == obj {
		return true
	}
	if e != nil && e.objType != nil {
		if pt, ok := v.Type().Underlying().(*types.Pointer); ok {
			if n, ok := types.Unalias(pt.Elem()).(*types.Named); ok && n == e.objType {
				return true
			}
		}
	}
	return false
}

// objPath: if addr addresses (part of) obj, return the field path ("" = whole).
func (e *resetEngine) objPath(addr, obj ssa.Value) (string, bool) {
	if e.same(addr, obj) {
		return "", true
	}
	if fa, ok := addr.(*ssa.FieldAddr); ok {
		if p, ok := e.objPath(fa.X, obj); ok {
			n := core.FieldName(fa.X.Type(), fa.Field)
			if p == "" {
				return n, true
			}
			return p + "." + n, true
		}
	}
	return "", false
}

type factSet map[string]bool

func (f factSet) clone() factSet {
	g := factSet{}
	for k := range f {
		g[k] = true
	}
	return g
}

func intersect(a, b factSet) factSet {
	g := factSet{}
	for k := range a {
		if b[k] {
			g[k] = true
		}
	}
	return g
}

func killPath(f factSet, p string) {
	for k := range f {
		if k == p || strings.HasPrefix(k, p+".") || strings.HasPrefix(p, k+".") {
			delete(f, k)
		}
	}
}

// leafPaths lists the reset obligations of struct type T: one per top-level
// field; inline struct fields are expanded one level when partial resets occur.
func leafFields(t types.Type) []string {
	st := core.StructOf(t)
	if st == nil {
		return nil
	}
	var out []string
	for i := 0; i < st.NumFields(); i++ {
		out = append(out, st.Field(i).Name())
	}
	return out
}

// covered: is top-level field f reset according to facts (directly, or all of
// its sub-fields when it is an inline struct)?
func covered(facts factSet, t types.Type, f string) bool {
	if facts["*"] || facts[f] {
		return true
	}
	st := core.StructOf(t)
	if st == nil {
		return false
	}
	for i := 0; i < st.NumFields(); i++ {
		if st.Field(i).Name() != f {
			continue
		}
		sub, ok := st.Field(i).Type().Underlying().(*types.Struct)
		if !ok || sub.NumFields() == 0 {
			return false
		}
		for j := 0; j < sub.NumFields(); j++ {
			if !facts[f+"."+sub.Field(j).Name()] {
				return false
			}
		}
		return true
	}
	return false
}

type resetResult struct {
	in  map[*ssa.BasicBlock]factSet
	fn  *ssa.Function
	obj ssa.Value
	e   *resetEngine
}

// analyse runs the dataflow for obj (a pointer-typed SSA value) in fn.
func (e *resetEngine) analyse(fn *ssa.Function, obj ssa.Value) *resetResult {
	res := &resetResult{in: map[*ssa.BasicBlock]factSet{}, fn: fn, obj: obj, e: e}
	if len(fn.Blocks) == 0 {
		return res
	}
	// optimistic initialisation (must analysis): TOP = nil means "unvisited"
	out := map[*ssa.BasicBlock]factSet{}
	res.in[fn.Blocks[0]] = factSet{}
	work := []*ssa.BasicBlock{fn.Blocks[0]}
	inWork := map[*ssa.BasicBlock]bool{fn.Blocks[0]: true}
	for len(work) > 0 {
		b := work[0]
		work = work[1:]
		inWork[b] = false
		cur := res.in[b].clone()
		for _, in := range b.Instrs {
			e.transfer(cur, in, obj)
		}
		out[b] = cur
		for k, s := range b.Succs {
			edge := cur
			if g := e.edgeGen(b, k, obj); len(g) > 0 {
				edge = cur.clone()
				for _, p := range g {
					edge[p] = true
				}
			}
			var nin factSet
			if old, ok := res.in[s]; ok {
				nin = intersect(old, edge)
				if len(nin) == len(old) {
					continue
				}
			} else {
				nin = edge.clone()
			}
			res.in[s] = nin
			if !inWork[s] {
				inWork[s] = true
				work = append(work, s)
			}
		}
	}
	return res
}

// At returns the facts holding just before instruction at.
func (r *resetResult) At(at ssa.Instruction) factSet {
	b := at.Block()
	cur, ok := r.in[b]
	if !ok {
		return factSet{}
	}
	cur = cur.clone()
	for _, in := range b.Instrs {
		if in == at {
			break
		}
		r.e.transfer(cur, in, r.obj)
	}
	return cur
}

// edgeGen: facts established by taking successor k of block b: the "empty"
// side of `x.F != nil`, `len(x.F) > 0`, `cap(x.F) > 0` tests.
func (e *resetEngine) edgeGen(b *ssa.BasicBlock, k int, obj ssa.Value) []string {
	if len(b.Instrs) == 0 {
		return nil
	}
	iff, ok := b.Instrs[len(b.Instrs)-1].(*ssa.If)
	if !ok {
		return nil
	}
	bo, ok := iff.Cond.(*ssa.BinOp)
	if !ok {
		return nil
	}
	fieldOf := func(v ssa.Value) (string, bool) {
		if u, ok := v.(*ssa.UnOp); ok && u.Op == token.MUL {
			if p, ok := e.objPath(u.X, obj); ok && p != "" {
				return p, true
			}
		}
		return "", false
	}
	if e.assignMode {
		// if len(param) > 0 { obj.f = param[0] }: on the empty-input edge there is nothing to assign from
		if c, ok := bo.X.(*ssa.Call); ok && core.IsBuiltinCall(&c.Call, "len") && bo.Op == token.GTR && k == 1 {
			if par := c.Call.Args[0]; paramDerived(par) != "" {
				if n, isC := core.ConstInt(bo.Y); isC && n == 0 {
					var out []string
					for _, in := range b.Succs[0].Instrs {
						if st, ok := in.(*ssa.Store); ok {
							if p, ok := e.objPath(st.Addr, obj); ok && p != "" {
								if ld, ok := st.Val.(*ssa.UnOp); ok {
									if ia, ok := ld.X.(*ssa.IndexAddr); ok && paramDerived(ia.X) == paramDerived(par) {
										out = append(out, p)
									}
								}
							}
						}
					}
					return out
				}
			}
		}
	}
	x, y := bo.X, bo.Y
	if core.IsNilConst(x) {
		x, y = y, x
	}
	if core.IsNilConst(y) {
		if p, ok := fieldOf(x); ok {
			if (bo.Op == token.NEQ && k == 1) || (bo.Op == token.EQL && k == 0) {
				return []string{p}
			}
		}
		return nil
	}
	// guarded configuration restore: if x.f != C { x.f = C; x.g = fresh… }.  On the
	// false edge f equals the constant C; a field g assigned next to f in the guarded
	// block is a function of f provided f and g are only ever assigned together (coupled).
	if _, isConst := y.(*ssa.Const); isConst && !e.assignMode {
		if pf, ok := fieldOf(x); ok && ((bo.Op == token.NEQ && k == 1) || (bo.Op == token.EQL && k == 0)) {
			out := []string{pf}
			guarded := b.Succs[1-k]
			for _, in := range guarded.Instrs {
				st, ok := in.(*ssa.Store)
				if !ok {
					continue
				}
				pg, ok := e.objPath(st.Addr, obj)
				if !ok || pg == "" || pg == pf {
					continue
				}
				if e.isResetValueIn(st.Val, factSet{pf: true}, obj, 0) && e.coupled(obj.Type(), pf, pg, y.(*ssa.Const)) {
					out = append(out, pg)
				}
			}
			return out
		}
	}
	if c, ok := x.(*ssa.Call); ok && len(c.Call.Args) == 1 && (core.IsBuiltinCall(&c.Call, "len") || core.IsBuiltinCall(&c.Call, "cap")) {
		if p, ok := fieldOf(c.Call.Args[0]); ok {
			if n, isC := core.ConstInt(y); isC && n == 0 {
				if (bo.Op == token.GTR && k == 1) || (bo.Op == token.NEQ && k == 1) || (bo.Op == token.EQL && k == 0) {
					return []string{p}
				}
			}
		}
	}
	return nil
}

func (e *resetEngine) transfer(cur factSet, in ssa.Instruction, obj ssa.Value) {
	if v, ok := in.(ssa.Value); ok && v == obj && e.objType == nil {
		for k := range cur {
			delete(cur, k)
		}
		return
	}
	switch x := in.(type) {
	case *ssa.Store:
		p, ok := e.objPath(x.Addr, obj)
		if !ok {
			return
		}
		if e.assignMode {
			if p == "" {
				cur["*"] = true
			} else {
				cur[p] = true
			}
			return
		}
		if p == "" {
			for k := range cur {
				delete(cur, k)
			}
			if isResetValue(x.Val) {
				cur["*"] = true
				return
			}
			// *obj = T{F: keep[:0], …} built in a temporary
			if ld, ok := x.Val.(*ssa.UnOp); ok && ld.Op == token.MUL {
				if tmp, ok := ld.X.(*ssa.Alloc); ok {
					bad := map[string]bool{}
					clean := true
					for _, ref := range core.Referrers(tmp) {
						switch r := ref.(type) {
						case *ssa.FieldAddr:
							for _, rr := range core.Referrers(r) {
								if st, ok := rr.(*ssa.Store); ok && st.Addr == r {
									if !isResetValue(st.Val) {
										bad[core.FieldName(tmp.Type(), r.Field)] = true
									}
								} else {
									clean = false
								}
							}
						case *ssa.UnOp, *ssa.DebugRef:
						case *ssa.Store:
							if r.Addr == tmp && !isResetValue(r.Val) {
								clean = false
							}
						default:
							clean = false
						}
					}
					if clean {
						for _, f := range leafFields(tmp.Type()) {
							if !bad[f] {
								cur[f] = true
							}
						}
					}
				}
			}
			return
		}
		if e.isResetValueIn(x.Val, cur, obj, 0) {
			cur[p] = true
			// a reset of a parent path covers nothing finer; a reset of "A.B" stays as such
		} else {
			killPath(cur, p)
			if cur["*"] {
				// expand "*" minus p
				delete(cur, "*")
				for _, f := range leafFields(obj.Type()) {
					if f != strings.SplitN(p, ".", 2)[0] {
						cur[f] = true
					}
				}
			}
		}
	case ssa.CallInstruction:
		if _, isDefer := in.(*ssa.Defer); isDefer {
			return
		}
		cc := x.Common()
		args := cc.Args
		// buf.Reset() / buf.Truncate(0) on a bytes.Buffer / strings.Builder kept in a field of the object: the field is
		// back in its empty state
		if callee := cc.StaticCallee(); callee != nil && cc.Signature().Recv() != nil && len(args) > 0 && !core.InModule(callee) {
			empties := callee.Name() == "Reset"
			if callee.Name() == "Truncate" && len(args) == 2 {
				if k, ok := core.ConstInt(args[1]); ok && k == 0 {
					empties = true
				}
			}
			if empties {
				if pth, ok := e.objPath(args[0], obj); ok && pth != "" {
					cur[pth] = true
					return
				}
			}
		}
		idx := -1
		for i, a := range args {
			if e.same(a, obj) {
				idx = i
			}
		}
		if idx < 0 && !(e.assignMode && e.objType != nil) {
			return
		}
		if isPoolMethod(cc, "Put") {
			return
		}
		if e.assignMode {
			if callee := cc.StaticCallee(); callee != nil && callee.Blocks != nil {
				if e.objType != nil {
					idx = -1
				}
				for g := range e.summary(callee, idx).gen {
					cur[g] = true
				}
			}
			return
		}
		callee := cc.StaticCallee()
		if callee == nil || callee.Blocks == nil || !core.InModule(callee) && core.FnPkg(callee) != core.FnPkg(in.Parent()) {
			// object handed to unknown code: foreign Reset() methods are handled by the caller of this engine
			if callee != nil && callee.Name() == "Reset" && idx == 0 && cc.Signature().Recv() != nil {
				for k := range cur {
					delete(cur, k)
				}
				cur["*"] = true
				return
			}
			for k := range cur {
				delete(cur, k)
			}
			return
		}
		s := e.summary(callee, idx)
		if s.all {
			for k := range cur {
				delete(cur, k)
			}
		}
		if cur["*"] && len(s.kill) > 0 {
			delete(cur, "*")
			for _, f := range leafFields(obj.Type()) {
				cur[f] = true
			}
		}
		for k := range s.kill {
			killPath(cur, k)
		}
		for g := range s.gen {
			cur[g] = true
		}
	}
}

func (e *resetEngine) summary(fn *ssa.Function, param int) *resetSummary {
	if e.sum[fn] == nil {
		e.sum[fn] = map[int]*resetSummary{}
	}
	if s, ok := e.sum[fn][param]; ok {
		if s.busy {
			return &resetSummary{all: true}
		}
		return s
	}
	s := &resetSummary{gen: map[string]bool{}, kill: map[string]bool{}, busy: true}
	e.sum[fn][param] = s
	if param >= len(fn.Params) {
		s.all = true
		s.busy = false
		return s
	}
	var obj ssa.Value
	if param >= 0 {
		obj = fn.Params[param]
	}
	res := e.analyse(fn, obj)
	var acc factSet
	for _, b := range fn.Blocks {
		if len(b.Instrs) == 0 {
			continue
		}
		ret, ok := b.Instrs[len(b.Instrs)-1].(*ssa.Return)
		if !ok {
			continue
		}
		f := res.At(ret)
		if acc == nil {
			acc = f
		} else {
			acc = intersect(acc, f)
		}
	}
	for k := range acc {
		s.gen[k] = true
	}
	// kill set: every path stored with a non-reset value, plus callees' kills
	for _, b := range fn.Blocks {
		for _, in := range b.Instrs {
			switch x := in.(type) {
			case *ssa.Store:
				if p, ok := e.objPath(x.Addr, obj); ok && !isResetValue(x.Val) {
					if p == "" {
						s.all = true
					} else {
						s.kill[p] = true
					}
				}
			case ssa.CallInstruction:
				cc := x.Common()
				for i, a := range cc.Args {
					if a != obj || isPoolMethod(cc, "Put") {
						continue
					}
					callee := cc.StaticCallee()
					if callee == nil || callee.Blocks == nil {
						if callee != nil && callee.Name() == "Reset" {
							continue
						}
						s.all = true
						continue
					}
					cs := e.summary(callee, i)
					if cs.all {
						s.all = true
					}
					for k := range cs.kill {
						s.kill[k] = true
					}
				}
			}
		}
	}
	s.busy = false
	return s
}

// coupled: field g of T is a function of field f — every store to g happens in a
// block that also stores f on the same object with g's value computed from
// constants and the value stored to f; or initialises a fresh object whose f
// stays zero while C is not the zero value (so f == C cannot hold for it).
func (e *resetEngine) coupled(t types.Type, f, g string, C *ssa.Const) bool {
	T := core.NamedOf(t)
	if T == nil {
		return false
	}
	key := T.Obj().Name() + "|" + f + "|" + g
	if e.coupleMemo == nil {
		e.coupleMemo = map[string]bool{}
	}
	if v, ok := e.coupleMemo[key]; ok {
		return v
	}
	zeroC := C.Value == nil || isZeroConst(C)
	ok := true
	n := 0
	for _, fn := range e.p.ModuleFuncs() {
		for _, b := range fn.Blocks {
			for _, in := range b.Instrs {
				st, isSt := in.(*ssa.Store)
				if !isSt {
					continue
				}
				fa, isFa := st.Addr.(*ssa.FieldAddr)
				if !isFa || core.NamedOf(fa.X.Type()) != T || core.FieldName(fa.X.Type(), fa.Field) != g {
					continue
				}
				n++
				// companion store to f on the same object in this block
				var fv ssa.Value
				for _, in2 := range b.Instrs {
					if st2, ok := in2.(*ssa.Store); ok {
						if fa2, ok := st2.Addr.(*ssa.FieldAddr); ok && fa2.X == fa.X && core.FieldName(fa2.X.Type(), fa2.Field) == f {
							fv = st2.Val
						}
					}
				}
				if fv != nil {
					if !funcOfConstAnd(st.Val, fv, 0) {
						ok = false
					}
					continue
				}
				// fresh object whose f is never stored
				if a, isAlloc := fa.X.(*ssa.Alloc); isAlloc && !zeroC {
					stored := false
					for _, ref := range core.Referrers(a) {
						if fa3, ok := ref.(*ssa.FieldAddr); ok && core.FieldName(fa3.X.Type(), fa3.Field) == f {
							stored = true
						}
					}
					if !stored {
						continue
					}
				}
				ok = false
			}
		}
	}
	e.coupleMemo[key] = ok && n > 0
	return ok && n > 0
}

func isZeroConst(c *ssa.Const) bool {
	if c.Value == nil {
		return true
	}
	switch c.Value.Kind() {
	case constant.Int, constant.Float:
		return constant.Sign(c.Value) == 0
	case constant.String:
		return constant.StringVal(c.Value) == ""
	case constant.Bool:
		return !constant.BoolVal(c.Value)
	}
	return false
}

// funcOfConstAnd: v is computed only from constants and the value w.
func funcOfConstAnd(v, w ssa.Value, depth int) bool {
	if v == w {
		return true
	}
	if depth > 5 {
		return false
	}
	switch x := v.(type) {
	case *ssa.Const:
		return true
	case *ssa.Call:
		if x.Call.IsInvoke() || x.Call.StaticCallee() == nil {
			return false
		}
		for _, a := range x.Call.Args {
			if !funcOfConstAnd(a, w, depth+1) {
				return false
			}
		}
		return true
	case *ssa.Phi:
		for _, ed := range x.Edges {
			if !funcOfConstAnd(ed, w, depth+1) {
				return false
			}
		}
		return true
	case *ssa.ChangeType:
		return funcOfConstAnd(x.X, w, depth+1)
	case *ssa.Convert:
		return funcOfConstAnd(x.X, w, depth+1)
	}
	return false
}

// isPoolMethod reports whether the call is (*sync.Pool).<name>.
func isPoolMethod(cc *ssa.CallCommon, name string) bool {
	f := cc.StaticCallee()
	if f == nil || f.Name() != name {
		return false
	}
	sig := f.Signature
	if sig.Recv() == nil {
		return false
	}
	n := core.NamedOf(sig.Recv().Type())
	return n != nil && n.Obj().Pkg() != nil && n.Obj().Pkg().Path() == "sync" && n.Obj().Name() == "Pool"
}

// poolID names the pool a Get/Put call operates on: "pkg.var" or "pkg.Type.field".
func poolID(cc *ssa.CallCommon) string {
	if len(cc.Args) == 0 {
		return "?"
	}
	return poolIDOf(cc.Args[0])
}

func poolIDOf(v ssa.Value) string {
	switch x := v.(type) {
	case *ssa.Global:
		return shortPkg(x.Pkg.Pkg.Path()) + "." + x.Name()
	case *ssa.FieldAddr:
		n := core.NamedOf(x.X.Type())
		tn := "?"
		if n != nil {
			tn = shortPkg(n.Obj().Pkg().Path()) + "." + n.Obj().Name()
		}
		return tn + "." + core.FieldName(x.X.Type(), x.Field)
	case *ssa.UnOp:
		return poolIDOf(x.X)
	case *ssa.Field:
		n := core.NamedOf(x.X.Type())
		tn := "?"
		if n != nil {
			tn = shortPkg(n.Obj().Pkg().Path()) + "." + n.Obj().Name()
		}
		return tn + "." + core.FieldName(x.X.Type(), x.Field)
	}
	return "?" + v.Name()
}

func shortPkg(path string) string {
	path = strings.TrimPrefix(path, core.Mod+"/")
	if i := strings.LastIndex(path, "/"); i >= 0 {
		return path[i+1:]
	}
	return path
}

// poolSite is one Get or Put call on a sync.Pool.
type poolSite struct {
	fn    *ssa.Function
	call  ssa.CallInstruction
	pool  string
	isPut bool
	val   ssa.Value  // Put: the value put (before MakeInterface); Get: the asserted value (or nil)
	typ   types.Type // static type put / asserted
}

// poolSites enumerates every Get/Put on a sync.Pool in module functions.
func poolSites(p *core.Prog) []poolSite {
	var out []poolSite
	for _, fn := range p.ModuleFuncs() {
		for _, b := range fn.Blocks {
			for _, in := range b.Instrs {
				ci, ok := in.(ssa.CallInstruction)
				if !ok {
					continue
				}
				cc := ci.Common()
				switch {
				case isPoolMethod(cc, "Put") && len(cc.Args) == 2:
					s := poolSite{fn: fn, call: ci, pool: poolID(cc), isPut: true}
					v := cc.Args[1]
					if mi, ok := v.(*ssa.MakeInterface); ok {
						s.val, s.typ = mi.X, mi.X.Type()
					} else {
						s.val, s.typ = v, v.Type()
					}
					out = append(out, s)
				case isPoolMethod(cc, "Get"):
					s := poolSite{fn: fn, call: ci, pool: poolID(cc)}
					if v, ok := ci.(*ssa.Call); ok {
						for _, ref := range core.Referrers(v) {
							if ta, ok := ref.(*ssa.TypeAssert); ok {
								s.typ = ta.AssertedType
								if ta.CommaOk {
									for _, r2 := range core.Referrers(ta) {
										if ex, ok := r2.(*ssa.Extract); ok && ex.Index == 0 {
											s.val = ex
										}
									}
								} else {
									s.val = ta
								}
							}
						}
					}
					out = append(out, s)
				}
			}
		}
	}
	sort.SliceStable(out, func(i, j int) bool { return out[i].call.Pos() < out[j].call.Pos() })
	return out
}
