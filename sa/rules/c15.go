package rules

import (
	"go/token"
	"go/types"
	"sort"
	"strings"

	"golang.org/x/tools/go/ssa"

	"gosqlxsa/core"
)

func init() { Registry["C15"] = runC15 }

// astFieldOrigin: if v derives (through loads, field/element selection, local
// copies of range variables) from a field of an ast struct, return "Type.field".
func astFieldOrigin(v ssa.Value, astPath string, depth int) (string, *types.Named) {
	if depth > 10 || v == nil {
		return "", nil
	}
	switch x := v.(type) {
	case *ssa.UnOp:
		return astFieldOrigin(x.X, astPath, depth+1)
	case *ssa.FieldAddr:
		if n := core.NamedOf(x.X.Type()); n != nil && n.Obj().Pkg() != nil && n.Obj().Pkg().Path() == astPath {
			return n.Obj().Name() + "." + core.FieldName(x.X.Type(), x.Field), n
		}
		return astFieldOrigin(x.X, astPath, depth+1)
	case *ssa.Field:
		if n := core.NamedOf(x.X.Type()); n != nil && n.Obj().Pkg() != nil && n.Obj().Pkg().Path() == astPath {
			return n.Obj().Name() + "." + core.FieldName(x.X.Type(), x.Field), n
		}
		return astFieldOrigin(x.X, astPath, depth+1)
	case *ssa.IndexAddr:
		return astFieldOrigin(x.X, astPath, depth+1)
	case *ssa.Index:
		return astFieldOrigin(x.X, astPath, depth+1)
	case *ssa.Call:
		if f := x.Call.StaticCallee(); f != nil && core.FnPkg(f) != nil && core.FnPkg(f).Path() == "strings" && len(x.Call.Args) > 0 {
			return astFieldOrigin(x.Call.Args[0], astPath, depth+1)
		}
		// a method of a local value type (QualifiedName.String()): the name comes from what the value was built from
		if f := x.Call.StaticCallee(); f != nil && f.Signature.Recv() != nil && core.InModule(f) && len(x.Call.Args) > 0 {
			return astFieldOrigin(x.Call.Args[0], astPath, depth+1)
		}
	case *ssa.Phi:
		for _, e := range x.Edges {
			if k, n := astFieldOrigin(e, astPath, depth+1); k != "" {
				return k, n
			}
		}
	case *ssa.BinOp:
		if k, n := astFieldOrigin(x.X, astPath, depth+1); k != "" {
			return k, n
		}
		return astFieldOrigin(x.Y, astPath, depth+1)
	case *ssa.Alloc:
		// local copy: follow what was stored into it (whole value, or field by field for a local struct)
		for _, ref := range core.Referrers(x) {
			if st, ok := ref.(*ssa.Store); ok && st.Addr == ssa.Value(x) {
				if k, n := astFieldOrigin(st.Val, astPath, depth+1); k != "" {
					return k, n
				}
			}
			if fa, ok := ref.(*ssa.FieldAddr); ok {
				for _, r2 := range core.Referrers(fa) {
					if st, ok := r2.(*ssa.Store); ok && st.Addr == ssa.Value(fa) {
						if k, n := astFieldOrigin(st.Val, astPath, depth+1); k != "" {
							return k, n
						}
					}
				}
			}
		}
	}
	return "", nil
}

func runC15(c *Ctx) {
	r, p := c.R, c.P
	r.Summary = "C15 (extracted tables, columns and functions are exactly those referenced): decided clauses = position closure and de-duplication: each collector's node-level function has a type-switch case for the node type whose field it records (so an occurrence reached only through Children() is seen); every table-holding field of a statement type the parser populates is read by each table collector; each toSlice builds its result only by ranging over a map; no collector visits a child both explicitly and again through Children()."
	r.NotCov = []string{"that nothing extra is reported (aliases, synthetic names, keywords): needs value reasoning", "ordering of the result slices (map iteration order; documented as unordered)"}
	r.Rule("leaf-case", "a collector that records a field of node type T (map key derived from T.<field>) has a `case *ast.T` in its node-level function collectFromNode")
	r.Rule("table-field", "every field of type TableReference / []TableReference / *TableReference and every TableName string of a node type, when populated by the parser, is read by each table collector")
	r.Rule("dedup", "toSlice returns only what it obtains by ranging over the collector's map")
	r.Rule("generic-walk", "in each collectFromNode every path from the entry to a return passes the generic Children() loop, except the `node == nil` exit: a type-switch case that returns early cuts off every child position its explicit code does not list (OVER / WITHIN GROUP / ORDER BY inside a call, sub-queries in arguments)")
	r.Rule("single-visit", "collectFromNode does not recurse into a child explicitly and then again through the generic Children() loop")
	astPk, gx := p.Pkg("pkg/sql/ast"), p.Pkg("pkg/gosqlx")
	if astPk == nil || gx == nil {
		r.Fatal("anchor not found: pkg/sql/ast / pkg/gosqlx")
		return
	}
	astPath := astPk.PkgPath
	m := NewAstModel(p, "pkg/sql/ast")
	P := astFieldWrites(p, []string{"pkg/sql/parser"}, astPath)
	// collectors: named struct types of gosqlx with a method collectFromNode
	var collectors []*types.Named
	names := gx.Types.Scope().Names()
	sort.Strings(names)
	for _, n := range names {
		tn, ok := gx.Types.Scope().Lookup(n).(*types.TypeName)
		if !ok {
			continue
		}
		named, ok := tn.Type().(*types.Named)
		if !ok {
			continue
		}
		if p.Method("pkg/gosqlx", n, "collectFromNode") != nil {
			collectors = append(collectors, named)
		}
	}
	r.Floor("leaf-case", len(collectors), 3, "collectors")
	c15ResultSources(c, p)
	c15KeyFromValue(c, p)
	if len(collectors) < 5 {
		return
	}
	for _, K := range collectors {
		kn := K.Obj().Name()
		var methods []*ssa.Function
		for _, fn := range p.SrcFuncs("pkg/gosqlx") {
			if fn.Signature.Recv() != nil && core.NamedOf(fn.Signature.Recv().Type()) == K {
				methods = append(methods, fn)
			}
		}
		node := p.Method("pkg/gosqlx", kn, "collectFromNode")
		c15GenericWalk(c, p, kn, node)
		// recorded types
		recorded := map[*types.Named]string{}
		for _, fn := range methods {
			for _, b := range fn.Blocks {
				for _, in := range b.Instrs {
					var keys []ssa.Value
					switch x := in.(type) {
					case *ssa.MapUpdate:
						keys = append(keys, x.Key, x.Value)
					case *ssa.Call:
						if f := x.Call.StaticCallee(); f != nil && f.Signature.Recv() != nil && core.NamedOf(f.Signature.Recv().Type()) == K && strings.HasPrefix(f.Name(), "add") {
							keys = append(keys, x.Call.Args[1:]...)
						}
						// the same helper written as a plain function taking the collector first
						if f := x.Call.StaticCallee(); f != nil && f.Signature.Recv() == nil && strings.HasPrefix(f.Name(), "add") && len(x.Call.Args) > 1 && core.NamedOf(x.Call.Args[0].Type()) == K {
							keys = append(keys, x.Call.Args[1:]...)
						}
					}
					for _, k := range keys {
						if fld, T := astFieldOrigin(k, astPath, 0); T != nil {
							if _, seen := recorded[T]; !seen {
								recorded[T] = fld
							}
						}
					}
				}
			}
		}
		// cases of the node-level type switch
		cases := map[string]bool{}
		for _, b := range node.Blocks {
			for _, in := range b.Instrs {
				if ta, ok := in.(*ssa.TypeAssert); ok && ta.CommaOk {
					cases[types.TypeString(ta.AssertedType, func(pk *types.Package) string { return pk.Name() })] = true
				}
			}
		}
		var rts []*types.Named
		for T := range recorded {
			rts = append(rts, T)
		}
		sort.Slice(rts, func(i, j int) bool { return rts[i].Obj().Name() < rts[j].Obj().Name() })
		nrec := 0
		for _, T := range rts {
			if !m.IsNodeType(T) {
				continue
			}
			nrec++
			key := kn + "|" + T.Obj().Name()
			if cases["*ast."+T.Obj().Name()] || cases["ast."+T.Obj().Name()] {
				r.OK("leaf-case", key, p.FnPos(node), "records "+recorded[T])
			} else {
				// recorded only through a statement-level field (TableName of a statement): the statement case is the leaf case
				r.Violate("leaf-case", key, p.FnPos(node), kn+" records "+recorded[T]+" but collectFromNode has no `case *ast."+T.Obj().Name()+"`: an occurrence that is reached only through Children() (JOIN ON, MERGE, subqueries in unlisted positions) is never recorded")
			}
		}
		if nrec == 0 {
			r.Fatal("collector %s records no field of an ast node type (anchors moved?)", kn)
		}
		// table-field
		if _, isTable := recorded[namedByName(m, "TableReference")]; isTable {
			reads := astFieldReads(setOf(methods), astPath)
			for _, T := range m.Types {
				st := core.StructOf(T)
				for i := 0; i < st.NumFields(); i++ {
					f := st.Field(i)
					ft := f.Type().String()
					isTab := strings.HasSuffix(ft, "ast.TableReference") || (f.Name() == "TableName" && ft == "string")
					if !isTab {
						continue
					}
					k := T.Obj().Name() + "." + f.Name()
					if _, populated := P[k]; !populated {
						continue
					}
					if why := c06Derived[k]; why != "" {
						r.OK("table-field", kn+"|"+k, P[k], "derived: "+why)
						continue
					}
					key := kn + "|" + k
					if reads[k] || (cases["*ast.TableReference"] && strings.HasSuffix(ft, "ast.TableReference")) {
						r.OK("table-field", key, P[k], "")
					} else {
						r.Violate("table-field", key, P[k], "the parser stores a table in "+k+" but "+kn+" never reads it (and has no *ast.TableReference leaf case): the table is missing from the extraction result")
					}
				}
			}
		}
		// dedup
		if ts := p.Method("pkg/gosqlx", kn, "toSlice"); ts != nil {
			okD := false
			bad := ""
			for _, b := range ts.Blocks {
				for _, in := range b.Instrs {
					if rg, ok := in.(*ssa.Range); ok {
						if _, isMap := rg.X.Type().Underlying().(*types.Map); isMap {
							okD = true
						}
					}
					if call, ok := in.(*ssa.Call); ok && core.IsBuiltinCall(&call.Call, "append") {
						for _, o := range variadicOperands(call.Call.Args[1]) {
							if !fromMapNext(o, 0) {
								bad = "appends a value that does not come from the map iteration"
							}
						}
					}
				}
			}
			if okD && bad == "" {
				r.OK("dedup", kn, p.FnPos(ts), "result built by ranging over the map")
			} else {
				if bad == "" {
					bad = "does not range over a map"
				}
				r.Violate("dedup", kn, p.FnPos(ts), "toSlice "+bad+": duplicates are possible")
			}
		} else {
			r.Fatal("anchor not found: (%s).toSlice", kn)
		}
		// single-visit
		explicit, generic := false, false
		for _, b := range node.Blocks {
			for _, in := range b.Instrs {
				call, ok := in.(*ssa.Call)
				if !ok {
					continue
				}
				if call.Call.IsInvoke() && call.Call.Method.Name() == "Children" {
					generic = true
				}
				if call.Call.StaticCallee() == node {
					// explicit when the argument comes from a field of a case variable, generic when from Children()[i]
					if fld, _ := astFieldOrigin(unwrapIface(call.Call.Args[1]), astPath, 0); fld != "" {
						explicit = true
					}
				}
			}
		}
		if explicit && generic {
			r.Violate("single-visit", kn, p.FnPos(node), "collectFromNode recurses into children explicitly inside its cases and again through the Children() loop: each nesting level doubles the work (2^depth visits on nested CTEs / set operations)")
		} else {
			r.OK("single-visit", kn, p.FnPos(node), "")
		}
	}
}

func unwrapIface(v ssa.Value) ssa.Value {
	for {
		switch x := v.(type) {
		case *ssa.MakeInterface:
			v = x.X
		case *ssa.ChangeInterface:
			v = x.X
		default:
			return v
		}
	}
}

func fromMapNext(v ssa.Value, depth int) bool {
	if depth > 5 {
		return false
	}
	switch x := v.(type) {
	case *ssa.Extract:
		_, ok := x.Tuple.(*ssa.Next)
		return ok
	case *ssa.UnOp:
		return fromMapNext(x.X, depth+1)
	case *ssa.Alloc:
		for _, ref := range core.Referrers(x) {
			if st, ok := ref.(*ssa.Store); ok && st.Addr == ssa.Value(x) {
				return fromMapNext(st.Val, depth+1)
			}
		}
	case *ssa.MakeInterface:
		return fromMapNext(x.X, depth+1)
	}
	return false
}

func namedByName(m *AstModel, name string) *types.Named {
	for _, t := range m.Types {
		if t.Obj().Name() == name {
			return t
		}
	}
	return nil
}

func setOf(fns []*ssa.Function) map[*ssa.Function]bool {
	s := map[*ssa.Function]bool{}
	for _, f := range fns {
		s[f] = true
	}
	return s
}


// c15GenericWalk: no return of collectFromNode is reachable from the entry without passing the Children() call,
// other than through the node == nil test.
func c15GenericWalk(c *Ctx, p *core.Prog, kn string, fn *ssa.Function) {
	r := c.R
	if fn == nil || len(fn.Params) < 2 {
		return
	}
	nodePar := fn.Params[1]
	var ch ssa.Instruction
	for _, b := range fn.Blocks {
		for _, in := range b.Instrs {
			if call, ok := in.(*ssa.Call); ok && call.Call.IsInvoke() && call.Call.Method.Name() == "Children" && call.Call.Value == ssa.Value(nodePar) {
				ch = call
			}
		}
	}
	key := kn + ".collectFromNode"
	if ch == nil {
		r.Violate("generic-walk", key, p.FnPos(fn), "the collector never walks node.Children(): positions it does not list explicitly are not visited")
		return
	}
	seen := map[*ssa.BasicBlock]bool{fn.Blocks[0]: true}
	var bad *ssa.Return
	var scan func(b *ssa.BasicBlock)
	scan = func(b *ssa.BasicBlock) {
		for _, in := range b.Instrs {
			if in == ch {
				return
			}
			if ret, ok := in.(*ssa.Return); ok {
				bad = ret
				return
			}
		}
		skip := -1
		if iff, ok := b.Instrs[len(b.Instrs)-1].(*ssa.If); ok {
			if bo, ok := iff.Cond.(*ssa.BinOp); ok && (bo.X == ssa.Value(nodePar) || bo.Y == ssa.Value(nodePar)) && (core.IsNilConst(bo.X) || core.IsNilConst(bo.Y)) {
				if bo.Op == token.EQL {
					skip = 0
				} else if bo.Op == token.NEQ {
					skip = 1
				}
			}
		}
		for i, s := range b.Succs {
			if i == skip || seen[s] || bad != nil {
				continue
			}
			seen[s] = true
			scan(s)
		}
	}
	scan(fn.Blocks[0])
	if bad != nil {
		r.Violate("generic-walk", key, p.Pos(bad.Pos()), "this return is reached without walking node.Children(): for the node type handled on that path, every child position the explicit code does not visit is skipped (names in it are missing from the result)")
	} else {
		r.OK("generic-walk", key, p.Pos(ch.Pos()), "every non-nil path reaches the Children() loop")
	}
}

// c15ResultSources: every name slice handed out by the extraction API is duplicate-free by construction:
// it is built by ranging over a map, or every append into it is guarded by a membership test on the appended key.
func c15ResultSources(c *Ctx, p *core.Prog) {
	r := c.R
	r.Rule("dedup-append", "in pkg/gosqlx every loop that builds a []string / []QualifiedName result appends either while ranging over a map (keys are unique) or under a `!seen[key]` test of the very value it appends: an append reachable without that test can emit a name twice")
	n := 0
	for _, fn := range p.SrcFuncs("pkg/gosqlx") {
		if fn.Parent() != nil {
			continue
		}
		// only functions that return a name slice
		res := fn.Signature.Results()
		returnsNames := false
		for i := 0; i < res.Len(); i++ {
			if sl, ok := res.At(i).Type().Underlying().(*types.Slice); ok {
				if b, ok := sl.Elem().Underlying().(*types.Basic); ok && b.Info()&types.IsString != 0 {
					returnsNames = true
				}
				if nn := core.NamedOf(sl.Elem()); nn != nil && nn.Obj().Name() == "QualifiedName" {
					returnsNames = true
				}
			}
		}
		if !returnsNames {
			continue
		}
		lb := loopBlocks(fn)
		seq := 0
		for _, b := range fn.Blocks {
			if !lb[b] {
				continue
			}
			for _, in := range b.Instrs {
				call, ok := in.(*ssa.Call)
				if !ok || !core.IsBuiltinCall(&call.Call, "append") || len(call.Call.Args) < 2 {
					continue
				}
				// does the appended slice reach a return?
				if !reachesReturnValue(call, 0, map[ssa.Value]bool{}) {
					continue
				}
				seq++
				n++
				key := core.FnName(fn) + sprintf("|append#%d", seq)
				// the appended element(s)
				var elems []ssa.Value
				if sl, ok := call.Call.Args[1].(*ssa.Slice); ok {
					if al, ok := sl.X.(*ssa.Alloc); ok {
						for _, ref := range core.Referrers(al) {
							if ia, ok := ref.(*ssa.IndexAddr); ok {
								for _, r2 := range core.Referrers(ia) {
									if st, ok := r2.(*ssa.Store); ok {
										elems = append(elems, st.Val)
									}
								}
							}
						}
					}
				}
				// (a) loop ranges over a map
				overMap := false
				for _, b2 := range fn.Blocks {
					for _, i2 := range b2.Instrs {
						if rg, ok := i2.(*ssa.Range); ok {
							if _, isMap := rg.X.Type().Underlying().(*types.Map); isMap && lb[b2] || isMapRangeFor(rg, b) {
								overMap = true
							}
						}
					}
				}
				// (b) guarded by a lookup of the appended value
				guarded := false
				for _, cd := range core.ControlDeps(b) {
					var lk *ssa.Lookup
					var walk func(v ssa.Value, d int)
					walk = func(v ssa.Value, d int) {
						if d > 5 || lk != nil {
							return
						}
						switch x := v.(type) {
						case *ssa.Lookup:
							if _, isMap := x.X.Type().Underlying().(*types.Map); isMap {
								lk = x
							}
						case *ssa.UnOp:
							walk(x.X, d+1)
						case *ssa.Extract:
							walk(x.Tuple, d+1)
						case *ssa.BinOp:
							walk(x.X, d+1)
							walk(x.Y, d+1)
						}
					}
					walk(cd.If.Cond, 0)
					if lk == nil || !cd.If.Block().Dominates(b) {
						continue // no test, or a test that some path to the append goes around
					}
					for _, e := range elems {
						if e == lk.Index || sameFieldValue(e, lk.Index) {
							guarded = true
						}
					}
				}
				switch {
				case overMap:
					r.OK("dedup-append", key, p.Pos(call.Pos()), "appends while ranging over a map")
				case guarded:
					r.OK("dedup-append", key, p.Pos(call.Pos()), "append under a membership test of the appended key")
				default:
					r.Violate("dedup-append", key, p.Pos(call.Pos()), "this append into a returned name list can run without a `seen` test of the appended value (and the loop does not range over a map): the result can contain a name twice")
				}
			}
		}
	}
	r.Extra("result_appends_in_loops", n)
}

func isMapRangeFor(rg *ssa.Range, b *ssa.BasicBlock) bool {
	_, isMap := rg.X.Type().Underlying().(*types.Map)
	if !isMap {
		return false
	}
	// the append block is inside the loop driven by this Range's Next
	for _, ref := range core.Referrers(rg) {
		if nx, ok := ref.(*ssa.Next); ok {
			if core.BlockReaches(nx.Block(), b) && core.BlockReaches(b, nx.Block()) {
				return true
			}
		}
	}
	return false
}

func reachesReturnValue(v ssa.Value, depth int, seen map[ssa.Value]bool) bool {
	if depth > 8 || seen[v] {
		return false
	}
	seen[v] = true
	for _, ref := range core.Referrers(v) {
		switch x := ref.(type) {
		case *ssa.Return:
			return true
		case *ssa.Phi:
			if reachesReturnValue(x, depth+1, seen) {
				return true
			}
		case *ssa.Call:
			if core.IsBuiltinCall(&x.Call, "append") && len(x.Call.Args) > 0 && x.Call.Args[0] == v {
				if reachesReturnValue(x, depth+1, seen) {
					return true
				}
			}
		case *ssa.Store:
			if a, ok := x.Addr.(*ssa.Alloc); ok && x.Val == v {
				for _, r2 := range core.Referrers(a) {
					if ld, ok := r2.(*ssa.UnOp); ok && reachesReturnValue(ld, depth+1, seen) {
						return true
					}
				}
			}
		case *ssa.Slice:
			if reachesReturnValue(x, depth+1, seen) {
				return true
			}
		}
	}
	return false
}

// sameFieldValue: two loads of the same field of the same object (column.Name read twice).
func sameFieldValue(a, b ssa.Value) bool {
	fa, ok1 := a.(*ssa.Field)
	fb, ok2 := b.(*ssa.Field)
	if ok1 && ok2 {
		return fa.X == fb.X && fa.Field == fb.Field
	}
	ua, ok1 := a.(*ssa.UnOp)
	ub, ok2 := b.(*ssa.UnOp)
	if ok1 && ok2 {
		xa, ok3 := ua.X.(*ssa.FieldAddr)
		xb, ok4 := ub.X.(*ssa.FieldAddr)
		if ok3 && ok4 {
			return xa.X == xb.X && xa.Field == xb.Field
		}
	}
	return false
}

// c15KeyFromValue: a collector map that stores a structured name (QualifiedName) must key the entry by the
// whole name: a key computed from one field of the value makes distinct names (sales.orders, archive.orders)
// collide, and the result loses entries.
func c15KeyFromValue(c *Ctx, p *core.Prog) {
	r := c.R
	r.Rule("key-from-value", "where a collector stores a struct value in its map, the key is computed from the whole value (a method call on it such as String()), not from a single field of it")
	n := 0
	for _, fn := range p.SrcFuncs("pkg/gosqlx") {
		seq := 0
		for _, b := range fn.Blocks {
			for _, in := range b.Instrs {
				mu, ok := in.(*ssa.MapUpdate)
				if !ok {
					continue
				}
				vt := core.NamedOf(mu.Value.Type())
				if vt == nil || core.StructOf(vt) == nil || vt.Obj().Pkg() == nil || !core.PathHasSuffix(vt.Obj().Pkg().Path(), "pkg/gosqlx") {
					continue
				}
				n++
				seq++
				key := core.FnName(fn) + sprintf("|%s#%d", vt.Obj().Name(), seq)
				// the storage the value lives in
				var cell ssa.Value
				if u, ok := mu.Value.(*ssa.UnOp); ok {
					cell = u.X
				}
				whole := false
				single := ""
				var keyFn *ssa.Function
				var walk func(v ssa.Value, d int)
				seen := map[ssa.Value]bool{}
				walk = func(v ssa.Value, d int) {
					if d > 6 || v == nil || seen[v] {
						return
					}
					seen[v] = true
					switch x := v.(type) {
					case *ssa.Call:
						for ai, a := range x.Call.Args {
							isWhole := a == mu.Value || (cell != nil && a == cell)
							if u, ok := a.(*ssa.UnOp); ok && cell != nil && u.X == cell {
								isWhole = true
							}
							if isWhole {
								whole = true
								if f := x.Call.StaticCallee(); f != nil && f.Blocks != nil && ai == 0 && f.Signature.Recv() != nil && core.NamedOf(core.Deref(f.Signature.Recv().Type())) == vt {
									keyFn = f
								}
							}
							walk(a, d+1)
						}
					case *ssa.UnOp:
						if fa, ok := x.X.(*ssa.FieldAddr); ok && cell != nil && fa.X == cell {
							single = core.FieldName(fa.X.Type(), fa.Field)
							return
						}
						walk(x.X, d+1)
					case *ssa.Field:
						if x.X == mu.Value {
							single = core.FieldName(x.X.Type(), x.Field)
							return
						}
						walk(x.X, d+1)
					case *ssa.BinOp:
						walk(x.X, d+1)
						walk(x.Y, d+1)
					case *ssa.Phi:
						for _, e := range x.Edges {
							walk(e, d+1)
						}
					}
				}
				walk(mu.Key, 0)
				switch {
				case whole && keyFn != nil && len(c15MissingKeyFields(keyFn, vt)) > 0:
					miss := c15MissingKeyFields(keyFn, vt)
					r.Violate("key-from-value", key, p.Pos(mu.Pos()), "the map entry is keyed by "+vt.Obj().Name()+"."+keyFn.Name()+"(), whose result never contains the field "+strings.Join(miss, ", ")+" (it is at most tested there): two different "+vt.Obj().Name()+" values that differ only in "+strings.Join(miss, ", ")+" overwrite each other, so one of the written names is missing from the result")
				case whole:
					r.OK("key-from-value", key, p.Pos(mu.Pos()), "key computed from the whole value")
				case single != "":
					r.Violate("key-from-value", key, p.Pos(mu.Pos()), "the map entry is keyed by the value's field "+single+" alone: two different "+vt.Obj().Name()+" values with the same "+single+" overwrite each other, so one of the written names is missing from the result")
				default:
					r.OK("key-from-value", key, p.Pos(mu.Pos()), "key not derived from a single field of the value")
				}
			}
		}
	}
	r.Extra("struct_valued_map_updates", n)
}

// c15MissingKeyFields: the fields of the struct type vt whose value never flows (by data, not by control) into a result of
// the method keyFn of vt. Data flow is followed backwards from each returned value through every operand, through
// the stores into local arrays and cells (variadic lists, slices built by append), and stops at loads of receiver fields.
func c15MissingKeyFields(keyFn *ssa.Function, vt *types.Named) []string {
	st := core.StructOf(vt)
	if st == nil || len(keyFn.Params) == 0 {
		return nil
	}
	recv := keyFn.Params[0]
	isRecv := func(v ssa.Value) bool {
		if v == ssa.Value(recv) {
			return true
		}
		if u, ok := v.(*ssa.UnOp); ok && u.Op == token.MUL {
			v = u.X
		}
		if a, ok := v.(*ssa.Alloc); ok { // spilled value receiver
			for _, ref := range core.Referrers(a) {
				if s, ok := ref.(*ssa.Store); ok && s.Addr == ssa.Value(a) && s.Val == ssa.Value(recv) {
					return true
				}
			}
		}
		return false
	}
	got := map[string]bool{}
	seen := map[ssa.Value]bool{}
	var walk func(v ssa.Value)
	walk = func(v ssa.Value) {
		if v == nil || seen[v] {
			return
		}
		seen[v] = true
		switch x := v.(type) {
		case *ssa.Field:
			if isRecv(x.X) {
				got[core.FieldName(x.X.Type(), x.Field)] = true
				return
			}
		case *ssa.FieldAddr:
			if isRecv(x.X) {
				got[core.FieldName(x.X.Type(), x.Field)] = true
				return
			}
		case *ssa.Parameter:
			if x == recv {
				// the whole receiver flows into the result (passed on to another function): every field may be in it
				for i := 0; i < st.NumFields(); i++ {
					got[st.Field(i).Name()] = true
				}
			}
			return
		case *ssa.Alloc:
			for _, ref := range core.Referrers(x) {
				switch r := ref.(type) {
				case *ssa.Store:
					if r.Addr == ssa.Value(x) {
						walk(r.Val)
					}
				case *ssa.IndexAddr:
					for _, r2 := range core.Referrers(r) {
						if s, ok := r2.(*ssa.Store); ok && s.Addr == ssa.Value(r) {
							walk(s.Val)
						}
					}
				case *ssa.FieldAddr:
					for _, r2 := range core.Referrers(r) {
						if s, ok := r2.(*ssa.Store); ok && s.Addr == ssa.Value(r) {
							walk(s.Val)
						}
					}
				case ssa.CallInstruction:
					// a local object filled through its methods (strings.Builder, bytes.Buffer): whatever is handed to a
					// call that also gets the object may end up in it
					for _, a := range r.Common().Args {
						if a != ssa.Value(x) {
							walk(a)
						}
					}
				}
			}
			return
		}
		if in, ok := v.(ssa.Instruction); ok {
			for _, op := range in.Operands(nil) {
				if op != nil && *op != nil {
					walk(*op)
				}
			}
		}
	}
	n := 0
	for _, b := range keyFn.Blocks {
		if ret, ok := b.Instrs[len(b.Instrs)-1].(*ssa.Return); ok {
			for _, res := range ret.Results {
				n++
				walk(res)
			}
		}
	}
	if n == 0 {
		return nil
	}
	var miss []string
	for i := 0; i < st.NumFields(); i++ {
		if !got[st.Field(i).Name()] {
			miss = append(miss, st.Field(i).Name())
		}
	}
	sort.Strings(miss)
	return miss
}
