package rules

import (
	"go/token"
	"go/types"
	"sort"
	"strings"

	"golang.org/x/tools/go/ssa"

	"gosqlxsa/core"
)

func init() { Registry["C10"] = runC10 }

// libFuncs: all source functions of the library packages (pkg/...).
func libFuncs(p *core.Prog) []*ssa.Function {
	var out []*ssa.Function
	for _, fn := range p.ModuleFuncs() {
		pk := core.FnPkg(fn)
		if pk != nil && strings.HasPrefix(pk.Path(), core.Mod+"/pkg/") {
			out = append(out, fn)
		}
	}
	return out
}

func runC10(c *Ctx) {
	r, p := c.R, c.P
	r.Summary = "C10 (concurrent use gives the sequential results, race-free, exact metrics): decided clause = the discipline that makes every schedule equivalent — no unsynchronised shared mutable state: every package-level variable of pkg/... is immutable after initialisation, of a sync/atomic type, written only under sync.Once, or guarded; every field that is accessed under its struct's mutex somewhere is accessed under it everywhere (writes under the write lock); a location accessed through sync/atomic is never accessed plainly; no atomic store depends on an earlier atomic load of the same location without a compare-and-swap; every Lock is released on all paths; pools carry one type (C09) and parsing writes no package state (C08)."
	r.NotCov = []string{"schedules as such (the Go memory model is trusted)", "sharing of a parser/tokenizer instance between goroutines by the caller (documented as unsupported)", "dynamic confirmation with the race detector (out of family)"}
	r.Rule("global", "every package-level variable of pkg/... is either never written outside package initialisation, of a sync / sync/atomic type, written only inside a sync.Once.Do function, or written only with a package-level mutex held")
	r.Rule("guarded-by", "if any access to field f of a mutex-carrying struct happens with one of the struct's mutexes held, every access to f outside the constructing function happens with it held (writes with the write lock)")
	r.Rule("atomic-only", "a field or variable whose address is passed to a sync/atomic function is never read or written plainly")
	r.Rule("atomic-rmw", "an atomic Store/Add to a location that is control-dependent on an atomic Load of the same location in the same function must be a CompareAndSwap retry loop (otherwise concurrent updates are lost)")
	r.Rule("lock-pairing", "every Lock/RLock is released on every path to a return (explicitly or by defer)")
	fns := libFuncs(p)
	la := newLockAnalysis(p, fns)
	c10Guarded(c, p, la)
	c10Atomic(c, p, fns, la)
	c10Pairing(c, p, fns, la)
	c10Globals(c, p, fns, la)
	c10CheckThenAct(c, p, fns, la)
	c10MemoPublishOnce(c, p, "memo-publish-once")
	c10EscapeFromLock(c, p, fns, la)
}

func c10Guarded(c *Ctx, p *core.Prog, la *lockAnalysis) {
	r := c.R
	uses := la.collectFieldUses()
	type key struct {
		t *types.Named
		f string
	}
	guarded := map[key]string{}
	mutated := map[key]bool{}
	for _, u := range uses {
		if !u.fresh && u.write {
			mutated[key{u.typ, u.field}] = true
		}
	}
	for _, u := range uses {
		if u.fresh || !mutated[key{u.typ, u.field}] {
			continue // a field never written after construction needs no lock
		}
		if m, ok := heldAny(u.held, u.typ, false); ok {
			guarded[key{u.typ, u.field}] = m
		}
	}
	n := 0
	seq := map[string]int{}
	for _, u := range uses {
		k := key{u.typ, u.field}
		m, isG := guarded[k]
		if !isG || u.fresh {
			continue
		}
		n++
		base := u.typ.Obj().Name() + "." + u.field + "|" + core.FnName(u.fn)
		seq[base]++
		id := base + sprintf("#%d", seq[base])
		if _, ok := heldAny(u.held, u.typ, u.write); ok {
			r.OK("guarded-by", id, p.Pos(u.in.Pos()), "under "+m)
			continue
		}
		what := "read"
		if u.write {
			what = "written"
		}
		if _, rd := heldAny(u.held, u.typ, false); rd && u.write {
			r.Violate("guarded-by", id, p.Pos(u.in.Pos()), u.typ.Obj().Name()+"."+u.field+" is written while only the read lock is held")
		} else {
			r.Violate("guarded-by", id, p.Pos(u.in.Pos()), u.typ.Obj().Name()+"."+u.field+" is "+what+" without "+m+", which guards it elsewhere")
		}
	}
	r.Floor("guarded-by", n, 15, "accesses to guarded fields")
}

// atomicTarget names the location an atomic call operates on.
func atomicTarget(cc *ssa.CallCommon) (string, string) {
	f := cc.StaticCallee()
	if f == nil || core.FnPkg(f) == nil || core.FnPkg(f).Path() != "sync/atomic" || len(cc.Args) == 0 {
		return "", ""
	}
	// methods of atomic.Int64 etc. are safe by type; only the address-taking functions matter
	if f.Signature.Recv() != nil {
		return "", ""
	}
	kind := ""
	switch {
	case strings.HasPrefix(f.Name(), "Load"):
		kind = "load"
	case strings.HasPrefix(f.Name(), "Store"), strings.HasPrefix(f.Name(), "Add"), strings.HasPrefix(f.Name(), "Swap"), strings.HasPrefix(f.Name(), "And"), strings.HasPrefix(f.Name(), "Or"):
		kind = "store"
	case strings.HasPrefix(f.Name(), "CompareAndSwap"):
		kind = "cas"
	}
	return locName(cc.Args[0]), kind
}

func locName(v ssa.Value) string {
	switch x := v.(type) {
	case *ssa.FieldAddr:
		n := core.NamedOf(x.X.Type())
		if n != nil {
			return n.Obj().Name() + "." + core.FieldName(x.X.Type(), x.Field)
		}
	case *ssa.Global:
		return shortPkg(x.Pkg.Pkg.Path()) + "." + x.Name()
	}
	return ""
}

func c10Atomic(c *Ctx, p *core.Prog, fns []*ssa.Function, la *lockAnalysis) {
	r := c.R
	atomicLocs := map[string]bool{}
	for _, fn := range fns {
		for _, b := range fn.Blocks {
			for _, in := range b.Instrs {
				if ci, ok := in.(ssa.CallInstruction); ok {
					if loc, kind := atomicTarget(ci.Common()); loc != "" && kind != "" {
						atomicLocs[loc] = true
					}
				}
			}
		}
	}
	// plain accesses
	n := 0
	for _, fn := range fns {
		seq := map[string]int{}
		for _, b := range fn.Blocks {
			for _, in := range b.Instrs {
				var addr ssa.Value
				switch x := in.(type) {
				case *ssa.Store:
					addr = x.Addr
				case *ssa.UnOp:
					if x.Op == token.MUL {
						addr = x.X
					}
				}
				if addr == nil {
					continue
				}
				loc := locName(addr)
				if loc == "" || !atomicLocs[loc] {
					continue
				}
				if fa, ok := addr.(*ssa.FieldAddr); ok {
					if a, isAlloc := fa.X.(*ssa.Alloc); isAlloc && a.Heap {
						continue // constructor
					}
				}
				n++
				seq[loc]++
				r.Violate("atomic-only", loc+"|"+core.FnName(fn)+sprintf("#%d", seq[loc]), p.Pos(in.Pos()), loc+" is accessed with sync/atomic elsewhere but read/written plainly here")
			}
		}
	}
	var locs []string
	for l := range atomicLocs {
		locs = append(locs, l)
	}
	sort.Strings(locs)
	for _, l := range locs {
		r.OK("atomic-only", l, "-", "all accesses outside constructors go through sync/atomic")
	}
	r.Floor("atomic-only", len(locs), 8, "atomically accessed locations")
	// check-then-act
	for _, fn := range fns {
		seq := map[string]int{}
		for _, b := range fn.Blocks {
			for _, in := range b.Instrs {
				call, ok := in.(*ssa.Call)
				if !ok {
					continue
				}
				loc, kind := atomicTarget(&call.Call)
				if kind != "store" || loc == "" {
					continue
				}
				// is the store control-dependent on a value loaded atomically from the same location?
				dep := false
				for _, cd := range core.ControlDeps(b) {
					if dependsOnAtomicLoad(cd.If.Cond, loc, 0) {
						dep = true
					}
				}
				if !dep {
					continue
				}
				seq[loc]++
				key := loc + "|" + core.FnName(fn) + sprintf("#%d", seq[loc])
				if held := la.at(fn, in); len(held) > 0 {
					r.OK("atomic-rmw", key, p.Pos(in.Pos()), "performed with a mutex held")
					continue
				}
				r.Violate("atomic-rmw", key, p.Pos(in.Pos()), "atomic store to "+loc+" decided by an earlier atomic load of it: two goroutines can both pass the test and the later store overwrites the better value (lost update); use a CompareAndSwap loop")
			}
		}
	}
	// CAS loops are the accepted form: count them
	ncas := 0
	for _, fn := range fns {
		seq := map[string]int{}
		for _, b := range fn.Blocks {
			for _, in := range b.Instrs {
				if call, ok := in.(*ssa.Call); ok {
					if loc, kind := atomicTarget(&call.Call); kind == "cas" && loc != "" {
						ncas++
						seq[loc]++
						key := loc + "|" + core.FnName(fn) + sprintf("|cas#%d", seq[loc])
						// the CAS result must decide a retry: its block must be in a loop and the old value must come from a Load of the same location
						okLoop := inLoop(b)
						okOld := len(call.Call.Args) >= 2 && dependsOnAtomicLoad(call.Call.Args[1], loc, 0)
						if okLoop && okOld {
							r.OK("atomic-rmw", key, p.Pos(in.Pos()), "compare-and-swap retry loop")
						} else {
							r.Violate("atomic-rmw", key, p.Pos(in.Pos()), "CompareAndSwap on "+loc+" is not a retry loop over a freshly loaded old value")
						}
					}
				}
			}
		}
	}
	r.Extra("cas_sites", ncas)
}

func dependsOnAtomicLoad(v ssa.Value, loc string, depth int) bool {
	if depth > 6 || v == nil {
		return false
	}
	switch x := v.(type) {
	case *ssa.Call:
		if l, kind := atomicTarget(&x.Call); kind == "load" && l == loc {
			return true
		}
		return false
	case *ssa.BinOp:
		return dependsOnAtomicLoad(x.X, loc, depth+1) || dependsOnAtomicLoad(x.Y, loc, depth+1)
	case *ssa.UnOp:
		return dependsOnAtomicLoad(x.X, loc, depth+1)
	case *ssa.Convert:
		return dependsOnAtomicLoad(x.X, loc, depth+1)
	case *ssa.Phi:
		for _, e := range x.Edges {
			if dependsOnAtomicLoad(e, loc, depth+1) {
				return true
			}
		}
	}
	return false
}

func c10Pairing(c *Ctx, p *core.Prog, fns []*ssa.Function, la *lockAnalysis) {
	r := c.R
	n := 0
	for _, fn := range fns {
		locks := false
		for _, b := range fn.Blocks {
			for _, in := range b.Instrs {
				if call, ok := in.(*ssa.Call); ok {
					if _, op := lockOp(&call.Call); op == "Lock" || op == "RLock" {
						locks = true
					}
				}
			}
		}
		if !locks {
			continue
		}
		n++
		if leaked := la.leaks(fn); len(leaked) > 0 {
			r.Violate("lock-pairing", core.FnName(fn), p.FnPos(fn), "returns with "+strings.Join(leaked, ", ")+" still held on some path")
		} else {
			r.OK("lock-pairing", core.FnName(fn), p.FnPos(fn), "")
		}
	}
	r.Floor("lock-pairing", n, 12, "functions that take a lock")
}

func c10Globals(c *Ctx, p *core.Prog, fns []*ssa.Function, la *lockAnalysis) {
	r := c.R
	// functions that run only inside sync.Once.Do
	onceFns := map[*ssa.Function]bool{}
	onceOf := map[*ssa.Function]map[string]bool{} // once function -> names of the Once objects it runs under
	for _, fn := range fns {
		for _, b := range fn.Blocks {
			for _, in := range b.Instrs {
				call, ok := in.(*ssa.Call)
				if !ok {
					continue
				}
				f := call.Call.StaticCallee()
				if f == nil || f.Name() != "Do" || f.Signature.Recv() == nil {
					continue
				}
				if n := core.NamedOf(f.Signature.Recv().Type()); n == nil || n.Obj().Name() != "Once" {
					continue
				}
				if len(call.Call.Args) == 2 {
					switch a := call.Call.Args[1].(type) {
					case *ssa.MakeClosure:
						if cl, _ := a.Fn.(*ssa.Function); cl != nil {
							onceFns[cl] = true
							if onceOf[cl] == nil {
								onceOf[cl] = map[string]bool{}
							}
							onceOf[cl][onceDoName(&call.Call)] = true
						}
					case *ssa.Function:
						onceFns[a] = true
						if onceOf[a] == nil {
							onceOf[a] = map[string]bool{}
						}
						onceOf[a][onceDoName(&call.Call)] = true
					}
				}
			}
		}
	}
	// close over callees only ever called from once-functions
	for changed := true; changed; {
		changed = false
		for _, fn := range fns {
			if onceFns[fn] || fn.Object() != nil && fn.Object().Exported() {
				continue
			}
			node := p.CallGraph().Nodes[fn]
			if node == nil || len(node.In) == 0 {
				continue
			}
			all := true
			for _, e := range node.In {
				if e.Caller.Func == nil || !onceFns[e.Caller.Func] {
					all = false
				}
			}
			if all {
				onceFns[fn] = true
				changed = true
				onceOf[fn] = map[string]bool{}
				for _, e := range node.In {
					for k := range onceOf[e.Caller.Func] {
						onceOf[fn][k] = true
					}
				}
			}
		}
	}
	type gw struct {
		fn *ssa.Function
		in ssa.Instruction
	}
	writes := map[*ssa.Global][]gw{}
	var globals []*ssa.Global
	for _, pk := range p.Pkgs {
		if !strings.HasPrefix(pk.PkgPath, core.Mod+"/pkg/") {
			continue
		}
		sp := p.SSAPkg(pk)
		for _, m := range sp.Members {
			if g, ok := m.(*ssa.Global); ok && !strings.HasPrefix(g.Name(), "init$") {
				globals = append(globals, g)
			}
		}
	}
	sort.Slice(globals, func(i, j int) bool { return globals[i].String() < globals[j].String() })
	for _, fn := range fns {
		if fn.Name() == "init" || strings.HasPrefix(fn.Name(), "init#") {
			continue
		}
		// closures of init (var x = func(){…}()) run during initialisation only if called there; treat init$N created in init as init
		if fn.Parent() != nil && (outer(fn).Name() == "init") && !escapesInit(fn) {
			continue
		}
		for _, b := range fn.Blocks {
			for _, in := range b.Instrs {
				var g *ssa.Global
				switch x := in.(type) {
				case *ssa.Store:
					g, _ = core.Base(x.Addr).(*ssa.Global)
					if g == nil {
						// store through a loaded pointer/map/slice held in a global: element writes
						if ia, ok := x.Addr.(*ssa.IndexAddr); ok {
							if u, ok := ia.X.(*ssa.UnOp); ok {
								g, _ = u.X.(*ssa.Global)
							}
						}
					}
				case *ssa.MapUpdate:
					if u, ok := x.Map.(*ssa.UnOp); ok {
						g, _ = u.X.(*ssa.Global)
					}
				case *ssa.Call:
					if core.IsBuiltinCall(&x.Call, "delete") && len(x.Call.Args) > 0 {
						if u, ok := x.Call.Args[0].(*ssa.UnOp); ok {
							g, _ = u.X.(*ssa.Global)
						}
					}
				}
				if g != nil {
					writes[g] = append(writes[g], gw{fn, in})
				}
			}
		}
	}
	n := 0
	var oa *onceAnalysis
	for _, g := range globals {
		n++
		name := shortPkg(g.Pkg.Pkg.Path()) + "." + g.Name()
		et := core.Deref(g.Type())
		ws := writes[g]
		switch {
		case len(ws) == 0:
			r.OK("global", name, p.Pos(g.Pos()), "never written after package initialisation")
		case isSyncOrAtomicType(et):
			r.OK("global", name, p.Pos(g.Pos()), "sync/atomic type")
		default:
			var bad []string
			for _, w := range ws {
				if onceFns[w.fn] {
					continue
				}
				if held := la.at(w.fn, w.in); len(held) > 0 {
					okW := false
					for _, mode := range held {
						if mode == 'W' {
							okW = true
						}
					}
					if okW {
						continue
					}
				}
				bad = append(bad, core.FnName(w.fn)+" at "+p.Pos(w.in.Pos()))
			}
			// a variable that is written after initialisation must also be read under a lock
			// (or only inside the Once function that initialises it / after Once.Do returned)
			onceOnly := true
			for _, w := range ws {
				if !onceFns[w.fn] {
					onceOnly = false
				}
			}
			if onceOnly {
				// initialised under sync.Once: every read outside the Once function must come after a Do of
				// (one of) the guarding Once objects has certainly returned
				guards := map[string]bool{}
				for _, w := range ws {
					for k := range onceOf[w.fn] {
						guards[k] = true
					}
				}
				if oa == nil {
					oa = newOnceAnalysis(p, fns)
				}
				for _, fn := range fns {
					if fn.Name() == "init" || onceFns[fn] {
						continue
					}
					for _, b := range fn.Blocks {
						for _, in := range b.Instrs {
							u, ok := in.(*ssa.UnOp)
							if !ok || u.Op != token.MUL || u.X != ssa.Value(g) {
								continue
							}
							done := oa.at(fn, in)
							okR := false
							for k := range guards {
								if _, ok := done[k]; ok {
									okR = true
								}
							}
							if !okR {
								bad = append(bad, "read in "+core.FnName(fn)+" at "+p.Pos(in.Pos())+" before the sync.Once that initialises it has certainly run (a reader can see the variable half-built while another goroutine is inside Do)")
							}
						}
					}
				}
			}
			if !onceOnly {
				for _, fn := range fns {
					if fn.Name() == "init" {
						continue
					}
					for _, b := range fn.Blocks {
						for _, in := range b.Instrs {
							u, ok := in.(*ssa.UnOp)
							if !ok || u.Op != token.MUL || u.X != ssa.Value(g) {
								continue
							}
							if held := la.at(fn, in); len(held) == 0 {
								bad = append(bad, "read in "+core.FnName(fn)+" at "+p.Pos(in.Pos())+" without a lock")
							}
						}
					}
				}
			}
			if len(bad) == 0 {
				r.OK("global", name, p.Pos(g.Pos()), sprintf("%d writes, all under sync.Once or a write lock; reads under a lock", len(ws)))
			} else {
				r.Violate("global", name, p.Pos(g.Pos()), "package-level variable accessed without synchronisation: "+strings.Join(bad, "; "))
			}
		}
	}
	r.Floor("global", n, 50, "package-level variables")
}

// escapesInit: the closure created in init is stored somewhere (and may run later).
func escapesInit(fn *ssa.Function) bool {
	par := fn.Parent()
	for _, b := range par.Blocks {
		for _, in := range b.Instrs {
			if mc, ok := in.(*ssa.MakeClosure); ok && mc.Fn == fn {
				for _, ref := range core.Referrers(mc) {
					if _, isCall := ref.(*ssa.Call); !isCall {
						return true
					}
				}
				return false
			}
		}
	}
	// plain function literal value without free variables: used as a value
	return true
}
