package rules

import (
	"go/token"
	"go/types"
	"sort"
	"strings"

	"golang.org/x/tools/go/ssa"

	"gosqlxsa/core"
)

// flag-on-all-paths: a boolean modifier the parser sets on a node (NOT, DISTINCT, ALL, IF EXISTS, …) changes the
// meaning of the statement; a serialiser method of that node type that can return without ever reading the flag
// prints the same text for both values on that path (x NOT IN (SELECT …) printed as x IN (SELECT …)).
func c06Flags(c *Ctx, p *core.Prog, P map[string]string, astPath string) {
	r := c.R
	r.Rule("flag-on-all-paths", "in the SQL() and Format() methods of a node type T, every negation flag of T (a boolean field named Not…) that the parser sets is read on every path from the entry to a return of non-empty text (directly, or through a callee that receives the node and reads it)")
	n := 0
	for _, fn := range p.SrcFuncs("pkg/sql/ast") {
		if fn.Parent() != nil || fn.Signature.Recv() == nil || !(fn.Name() == "SQL" || fn.Name() == "Format") || len(fn.Blocks) == 0 {
			continue
		}
		T := core.NamedOf(fn.Signature.Recv().Type())
		if T == nil {
			continue
		}
		st := core.StructOf(T)
		if st == nil {
			continue
		}
		recv := ssa.Value(fn.Params[0])
		// value receivers are spilled: find the alloc that holds the receiver copy
		isRecv := func(v ssa.Value) bool {
			if v == recv {
				return true
			}
			if a, ok := v.(*ssa.Alloc); ok {
				for _, ref := range core.Referrers(a) {
					if s, ok := ref.(*ssa.Store); ok && s.Addr == ssa.Value(a) && s.Val == recv {
						return true
					}
				}
			}
			return false
		}
		for i := 0; i < st.NumFields(); i++ {
			f := st.Field(i)
			b, ok := f.Type().Underlying().(*types.Basic)
			if !ok || b.Kind() != types.Bool {
				continue
			}
			// negation flags only: other flags legitimately take part in either-or chains (DISTINCT ON vs DISTINCT,
			// RESTART vs CONTINUE IDENTITY) where the flag that is not read is implied by the one that is
			if !(f.Name() == "Not" || strings.HasPrefix(f.Name(), "Not") || strings.HasPrefix(f.Name(), "Negat") || f.Name() == "IsNot") {
				continue
			}
			k := T.Obj().Name() + "." + f.Name()
			if _, populated := P[k]; !populated {
				continue
			}
			// blocks that read the flag (or hand the whole node to a callee)
			reads := map[*ssa.BasicBlock]bool{}
			for _, bb := range fn.Blocks {
				for _, in := range bb.Instrs {
					switch x := in.(type) {
					case *ssa.FieldAddr:
						if isRecv(x.X) && x.Field == i {
							reads[bb] = true
						}
					case *ssa.Field:
						if x.Field == i && core.NamedOf(x.X.Type()) == T {
							reads[bb] = true
						}
					case *ssa.Call:
						for _, a := range x.Call.Args {
							if isRecv(a) {
								reads[bb] = true // the node itself is passed on
							}
							if u, ok := a.(*ssa.UnOp); ok && isRecv(u.X) {
								reads[bb] = true
							}
						}
					}
				}
			}
			n++
			key := core.FnName(fn) + "|" + f.Name()
			// a return of non-empty text reachable from the entry without passing a reading block
			seen := map[*ssa.BasicBlock]bool{fn.Blocks[0]: true}
			work := []*ssa.BasicBlock{fn.Blocks[0]}
			var bad *ssa.Return
			for len(work) > 0 && bad == nil {
				bb := work[len(work)-1]
				work = work[:len(work)-1]
				if reads[bb] {
					continue
				}
				if ret, ok := bb.Instrs[len(bb.Instrs)-1].(*ssa.Return); ok && len(ret.Results) > 0 {
					if s, isC := core.ConstString(retOperand(ret, 0)); !(isC && s == "") {
						bad = ret
					}
				}
				// nil-receiver guards: `if x == nil { return "" }` handled by the empty-string test above
				for _, s := range bb.Succs {
					if !seen[s] {
						seen[s] = true
						work = append(work, s)
					}
				}
			}
			if bad == nil {
				r.OK("flag-on-all-paths", key, p.FnPos(fn), "read on every path")
			} else {
				r.Violate("flag-on-all-paths", key, p.Pos(bad.Pos()), "this return is reachable without reading "+k+", which the parser sets: on that path the text is the same whether the flag is set or not, so the re-parsed tree loses it")
			}
		}
	}
	r.Floor("flag-on-all-paths", n, 3, "(serialiser method, boolean field) pairs")
}

var _ = sort.Strings
var _ = strings.TrimSpace
var _ = token.ADD
