package rules

import (
	"go/token"
	"go/types"
	"strings"

	"golang.org/x/tools/go/ssa"

	"gosqlxsa/core"
)

// isCtxErrCall: call is ctx.Err() on a context.Context value.
func isCtxErrCall(in ssa.Instruction) (*ssa.Call, bool) {
	c, ok := in.(*ssa.Call)
	if !ok || !c.Call.IsInvoke() || c.Call.Method.Name() != "Err" {
		return nil, false
	}
	return c, strings.HasSuffix(c.Call.Value.Type().String(), "context.Context")
}

// isCtxCauseCall: context.Cause(ctx) - a poll whose answer is whatever reason the canceller recorded, not ctx.Err().
func isCtxCauseCall(in ssa.Instruction) (*ssa.Call, bool) {
	c, ok := in.(*ssa.Call)
	if !ok {
		return nil, false
	}
	f := c.Call.StaticCallee()
	if f == nil || f.Name() != "Cause" || core.FnPkg(f) == nil || core.FnPkg(f).Path() != "context" {
		return nil, false
	}
	return c, true
}

// isCtxPollInstr: ctx.Err(), context.Cause(ctx), or ctx.Done() used as a case of a select (non-blocking receive).
func isCtxPollInstr(in ssa.Instruction) (*ssa.Call, bool) {
	if c, ok := isCtxErrCall(in); ok {
		return c, true
	}
	if c, ok := isCtxCauseCall(in); ok {
		return c, true
	}
	c, ok := in.(*ssa.Call)
	if !ok || !c.Call.IsInvoke() || c.Call.Method.Name() != "Done" || !strings.HasSuffix(c.Call.Value.Type().String(), "context.Context") {
		return nil, false
	}
	for _, ref := range core.Referrers(c) {
		if _, isSel := ref.(*ssa.Select); isSel {
			return c, true
		}
	}
	return nil, false
}

// pollInfo describes one ctx.Err() poll: whether its non-nil branch returns an
// error that is the context error itself or wraps it with %w.
type pollInfo struct {
	call    *ssa.Call
	returns bool
	keeps   bool
	drops   bool
	viaVar  bool
}

func pollsOf(fn *ssa.Function, ep *errProv) []pollInfo {
	var out []pollInfo
	// explore the branch taken when the context is finished: it must reach a return of an error derived from the
	// context's own error, without looping back
	explore := func(pi *pollInfo, tb *ssa.BasicBlock) map[*ssa.BasicBlock]bool {
		seen := map[*ssa.BasicBlock]bool{}
		work := []*ssa.BasicBlock{tb}
		for len(work) > 0 {
			x := work[len(work)-1]
			work = work[:len(work)-1]
			if seen[x] || len(seen) > 8 {
				continue
			}
			seen[x] = true
			for _, xi := range x.Instrs {
				if st, ok := xi.(*ssa.Store); ok && isErrorType(st.Val.Type()) {
					if _, isFV := st.Addr.(*ssa.FreeVar); isFV {
						for _, o := range ep.origins(st.Val) {
							if o.kind == "ctx" {
								pi.viaVar = true
							}
						}
					}
				}
			}
			if ret, ok := x.Instrs[len(x.Instrs)-1].(*ssa.Return); ok {
				pi.returns = true
				if pi.viaVar && len(ret.Results) == 0 {
					// closure hands the error to its parent through a captured variable
					for _, pv := range errReturns(outer(fn), ep) {
						for _, o := range ep.origins(pv) {
							if o.kind == "ctx" {
								pi.keeps = true
							}
						}
					}
				}
				for _, rv := range ret.Results {
					if !isErrorType(rv.Type()) {
						continue
					}
					hasCtx := false
					for _, o := range ep.origins(rv) {
						if o.kind == "ctx" {
							hasCtx = true
						}
					}
					if hasCtx {
						pi.keeps = true
					} else {
						pi.drops = true // a return on the cancelled branch whose error is not the context's own
					}
				}
			}
			work = append(work, x.Succs...)
		}
		return seen
	}
	// polls written as a non-blocking receive on ctx.Done(): select { case <-ctx.Done(): return …; default: }
	inDone := map[*ssa.BasicBlock]bool{}
	for _, b := range fn.Blocks {
		for _, in := range b.Instrs {
			sel, ok := in.(*ssa.Select)
			if !ok {
				continue
			}
			var done *ssa.Call
			caseIdx := -1
			for i, st := range sel.States {
				if c, ok := st.Chan.(*ssa.Call); ok && c.Call.IsInvoke() && c.Call.Method.Name() == "Done" && strings.HasSuffix(c.Call.Value.Type().String(), "context.Context") {
					done, caseIdx = c, i
				}
			}
			if done == nil {
				continue
			}
			pi := pollInfo{call: done}
			for _, ref := range core.Referrers(sel) {
				ex, ok := ref.(*ssa.Extract)
				if !ok || ex.Index != 0 {
					continue
				}
				for _, r2 := range core.Referrers(ex) {
					bo, ok := r2.(*ssa.BinOp)
					if !ok || !(bo.Op == token.EQL || bo.Op == token.NEQ) {
						continue
					}
					k, isC := core.ConstInt(bo.Y)
					if !isC || int(k) != caseIdx {
						continue
					}
					for _, r3 := range core.Referrers(bo) {
						if iff, ok := r3.(*ssa.If); ok {
							tb := iff.Block().Succs[0]
							if bo.Op == token.NEQ {
								tb = iff.Block().Succs[1]
							}
							for x := range explore(&pi, tb) {
								inDone[x] = true
							}
						}
					}
				}
			}
			out = append(out, pi)
		}
	}
	for _, b := range fn.Blocks {
		for _, in := range b.Instrs {
			c, ok := isCtxErrCall(in)
			if !ok {
				c, ok = isCtxCauseCall(in)
			}
			if !ok || inDone[b] {
				continue // (an Err() call on the taken branch of a Done poll is that poll's way of naming the cause)
			}
			pi := pollInfo{call: c}
			// find `if err != nil` on the result
			for _, ref := range core.Referrers(c) {
				bo, ok := ref.(*ssa.BinOp)
				if !ok || !(bo.Op == token.NEQ || bo.Op == token.EQL) {
					continue
				}
				for _, r2 := range core.Referrers(bo) {
					iff, ok := r2.(*ssa.If)
					if !ok {
						continue
					}
					tb := iff.Block().Succs[0]
					if bo.Op == token.EQL {
						tb = iff.Block().Succs[1]
					}
					explore(&pi, tb)
				}
			}
			out = append(out, pi)
		}
	}
	return out
}

func runC11(c *Ctx) {
	r, p := c.R, c.P
	r.Summary = "C11 (cancellation honoured, reported as such, leaves no residue): decided clauses = (1) the places where unbounded repetition happens poll the context: the statement loop of ParseContext on every iteration, the token loop of TokenizeContext every k-th token for a constant k, and the expression recursion through parseExpression; every poll's non-nil branch returns the context error itself or %w-wrapped; (2) no site on the way up folds an error that may be a context error into a new message without attaching it (errors.Is(err, context.Canceled) must keep working whichever poll fires); (3) ParseContext clears p.ctx by defer, and every error return after ast.NewAST() in the statement loops passes ast.ReleaseAST."
	r.NotCov = []string{"promptness in wall-clock terms: work between two polls is not bounded (a single huge token or a long non-recursive list is scanned without a poll)", "agreement with the context-free call (C07's clone rule)"}
	r.Rule("poll-shape", "each ctx.Err() poll in parser/tokenizer returns on its non-nil branch an error whose provenance is that ctx.Err() value (directly or through %w)")
	r.Rule("poll-loop", "the statement loop of ParseContext and the token loop of TokenizeContext contain a poll that is executed on every iteration (ParseContext) or under a `count % k == 0` test with constant k (TokenizeContext)")
	r.Rule("poll-recursion", "after deleting the functions that poll the context from the parser's call graph, every remaining cycle passes a verified depth guard (bounded re-entry); cycles with neither poll nor guard are reported")
	r.Rule("ctx-chain", "an error that may carry a context error (result of a function from which a poll is reachable) and is folded into a new error's text must be attached as cause (%w / WithCause / WrapError)")
	r.Rule("residue", "ParseContext registers `p.ctx = nil` by defer right after storing the context; in each statement loop every error return after ast.NewAST() is preceded by ast.ReleaseAST(result)")
	scopeRels := []string{"pkg/sql/tokenizer", "pkg/sql/parser", "pkg/gosqlx"}
	scope := func(f *ssa.Function) bool { return f != nil && f.Blocks != nil && core.InPkgs(f, scopeRels...) }
	ep := newErrProv(p, "pkg/errors", scope)
	if ep == nil || ep.errT == nil {
		r.Fatal("anchor not found: pkg/errors")
		return
	}
	fns := p.SrcFuncs(scopeRels...)
	// polls
	pollFns := map[*ssa.Function]bool{}
	npoll := 0
	for _, fn := range fns {
		for i, pi := range pollsOf(fn, ep) {
			npoll++
			key := core.FnName(fn) + sprintf("#%d", i+1)
			switch {
			case pi.returns && pi.keeps && pi.drops:
				pollFns[outer(fn)] = true
				r.Violate("poll-shape", key, p.Pos(pi.call.Pos()), "on the branch where ctx.Err() is non-nil one of the returns reports an error that is not the value ctx.Err() returned (a fixed sentinel or a new error): for that outcome errors.Is(err, ctx.Err()) fails, e.g. an explicit cancel reported as DeadlineExceeded")
			case pi.returns && pi.keeps:
				pollFns[outer(fn)] = true
				r.OK("poll-shape", key, p.Pos(pi.call.Pos()), "returns the context error (direct or %w)")
			case !pi.returns:
				r.Violate("poll-shape", key, p.Pos(pi.call.Pos()), "the result of ctx.Err() does not lead to a return on its non-nil branch")
			default:
				pollFns[outer(fn)] = true
				r.Violate("poll-shape", key, p.Pos(pi.call.Pos()), "the poll returns an error that does not carry the context error (errors.Is(err, context.Canceled) fails)")
			}
		}
	}
	r.Floor("poll-shape", npoll, 3, "ctx.Err() polls")
	c11Loops(c, p, ep)
	c11Recursion(c, p, pollFns)
	// CtxErr: functions from which a poll function is reachable (their error may be a ctx error)
	g := p.Restrict(scope)
	ctxErr := map[*ssa.Function]bool{}
	for pf := range pollFns {
		for f := range g.ReachesIn(pf) {
			ctxErr[f] = true
		}
	}
	n := c13Chain(c, p, ep, fns, "ctx-chain", ctxErr)
	r.Floor("ctx-chain", n, 10, "rewrap sites on context-error paths")
	r.Extra("functions_that_may_return_a_context_error", len(ctxErr))
	c11Residue(c, p)
	r.Rule("cause-attached", "the builders through which the parser re-wraps a cancellation error (WithCause, WrapError in pkg/errors) attach their error argument on every path on which it is not nil, so errors.Is(err, context.Canceled / DeadlineExceeded) holds through every wrapper")
	r.Floor("cause-attached", c13CauseAttached(c, p, "cause-attached"), 2, "builders of pkg/errors that take a cause")
	c11PollInLoops(c, p)
	c11NotSwallowed(c, p, ctxErr, c11SwallowAudited)
}

// c11SwallowAudited: callers that legitimately carry on after a failure of a context-polling callee.
var c11SwallowAudited = map[string]string{
	"(*parser.Parser).parseWithRecovery|*": "recovery mode records the error, resynchronises and goes on by design; it is entered without a context (ParseWithRecovery takes none and p.ctx is nil there), so the error cannot be a cancellation (read 2026-09-27)",
}

// c11Loops: the two entry loops poll on every iteration.
func c11Loops(c *Ctx, p *core.Prog, ep *errProv) {
	r := c.R
	// ParseContext: a poll inside the loop whose block dominates the call to parseStatement
	if fn := p.Method("pkg/sql/parser", "Parser", "ParseContext"); fn != nil {
		var stmtCall *ssa.Call
		for _, b := range fn.Blocks {
			for _, in := range b.Instrs {
				if call, ok := in.(*ssa.Call); ok {
					if isStatementParser(call.Call.StaticCallee(), 0) {
						stmtCall = call
					}
				}
			}
		}
		ok := false
		var pos token.Pos
		if stmtCall != nil {
			for _, b := range fn.Blocks {
				for _, in := range b.Instrs {
					if pc, isPoll := isCtxPollInstr(in); isPoll && inLoop(b) && b.Dominates(stmtCall.Block()) {
						ok = true
						pos = pc.Pos()
					}
				}
			}
		}
		// … or the statement parser itself polls on every path before doing anything else (must-poll summary)
		viaCallee := false
		if stmtCall != nil && !ok {
			if cal := stmtCall.Call.StaticCallee(); cal != nil && mustPollSet(p.SrcFuncs("pkg/sql/parser"))[cal] {
				ok, viaCallee = true, true
				pos = stmtCall.Pos()
			}
		}
		if stmtCall == nil {
			r.Violate("poll-loop", "Parser.ParseContext", p.FnPos(fn), "no call to parseStatement found in the context-aware statement loop")
		} else if ok && viaCallee {
			r.OK("poll-loop", "Parser.ParseContext", p.Pos(pos), "every statement is parsed by a function that polls the context on every path")
		} else if ok {
			r.OK("poll-loop", "Parser.ParseContext", p.Pos(pos), "ctx.Err() is polled inside the statement loop before every parseStatement")
		} else {
			r.Violate("poll-loop", "Parser.ParseContext", p.FnPos(fn), "the statement loop does not poll the context before each statement")
		}
	} else {
		r.Fatal("anchor not found: (*Parser).ParseContext")
	}
	// TokenizeContext: a poll in the scanning loop (closure), possibly under count%k==0
	if fn := p.Method("pkg/sql/tokenizer", "Tokenizer", "TokenizeContext"); fn != nil {
		scopeFns := append([]*ssa.Function{fn}, fn.AnonFuncs...)
		ok := false
		detail := ""
		var pos token.Pos
		for _, sf := range scopeFns {
			var next *ssa.Call
			for _, b := range sf.Blocks {
				for _, in := range b.Instrs {
					if call, isCall := in.(*ssa.Call); isCall {
						if callee := call.Call.StaticCallee(); callee != nil && callee.Name() == "nextToken" {
							next = call
						}
					}
				}
			}
			if next == nil {
				continue
			}
			for _, b := range sf.Blocks {
				for _, in := range b.Instrs {
					pc, isPoll := isCtxPollInstr(in)
					if !isPoll || !inLoop(b) {
						continue
					}
					// controlling conditions of the poll inside the loop: only `x % k == 0` with constant k (and the loop condition)
					good := true
					for _, cd := range core.ControlDeps(b) {
						if !inLoop(cd.If.Block()) || !cd.If.Block().Dominates(b) || cd.If.Block() == b {
							continue // outside the loop, or a test of the previous iteration (reached through the back edge)
						}
						if bo, isBin := cd.If.Cond.(*ssa.BinOp); isBin && bo.Op == token.EQL {
							if rem, isRem := bo.X.(*ssa.BinOp); isRem && rem.Op == token.REM {
								if k, isC := core.ConstInt(rem.Y); isC && k > 0 && k <= 100000 {
									detail = sprintf("every %d tokens", k)
									continue
								}
							}
							// the same cadence written as a mask: count & (2^n - 1) == 0
							if and, isAnd := bo.X.(*ssa.BinOp); isAnd && and.Op == token.AND {
								if m, isC := core.ConstInt(and.Y); isC && m > 0 && m < 100000 && (m+1)&m == 0 {
									if z, isZ := core.ConstInt(bo.Y); isZ && z == 0 {
										detail = sprintf("every %d tokens", m+1)
										continue
									}
								}
							}
						}
						if cd.If.Block().Dominates(next.Block()) || core.BlockReaches(next.Block(), cd.If.Block()) {
							// the loop's own continuation test
							if lcond(cd.If) {
								continue
							}
						}
						good = false
						detail = "poll also depends on `" + condString(cd) + "` at " + p.Pos(cd.If.Cond.Pos())
					}
					if good {
						ok = true
						pos = pc.Pos()
					}
				}
			}
		}
		if ok {
			r.OK("poll-loop", "Tokenizer.TokenizeContext", p.Pos(pos), "ctx.Err() polled in the token loop "+detail)
		} else {
			r.Violate("poll-loop", "Tokenizer.TokenizeContext", p.FnPos(fn), "the token loop has no poll that runs at a constant token interval: "+detail)
		}
	} else {
		r.Fatal("anchor not found: (*Tokenizer).TokenizeContext")
	}
}

// lcond: a loop continuation test comparing a cursor with a length.
func lcond(iff *ssa.If) bool {
	bo, ok := iff.Cond.(*ssa.BinOp)
	if !ok {
		return false
	}
	return core.LenOf(bo.Y) != nil || core.LenOf(bo.X) != nil
}

func c11Recursion(c *Ctx, p *core.Prog, pollFns map[*ssa.Function]bool) {
	r := c.R
	pk := p.Pkg("pkg/sql/parser")
	if pk == nil {
		r.Fatal("anchor not found: pkg/sql/parser")
		return
	}
	tobj := pk.Types.Scope().Lookup("Parser")
	limit, okL := intConst(pk.Types, "MaxRecursionDepth")
	if tobj == nil || !okL {
		r.Fatal("anchor not found: Parser / MaxRecursionDepth")
		return
	}
	T := tobj.Type().(*types.Named)
	inScope := func(f *ssa.Function) bool { return f != nil && f.Blocks != nil && core.InPkgs(f, "pkg/sql/parser") }
	g := p.Restrict(inScope)
	fns := p.SrcFuncs("pkg/sql/parser")
	depth := findDepthField(fns, T, limit)
	removed := map[*ssa.Function]bool{}
	for f := range pollFns {
		removed[f] = true
	}
	npoll := len(removed)
	nguard := 0
	cut := map[[2]*ssa.Function]bool{}
	for _, fn := range fns {
		if fn.Parent() != nil || removed[fn] {
			continue
		}
		inc := false
		for _, b := range fn.Blocks {
			for _, in := range b.Instrs {
				if st, ok := in.(*ssa.Store); ok && isFieldOf(st.Addr, T, depth) {
					if bo, ok := st.Val.(*ssa.BinOp); ok && bo.Op == token.ADD {
						inc = true
					}
				}
			}
		}
		if !inc {
			continue
		}
		gi := analyseGuard(p, fn, T, depth, limit, g)
		if gi.ok {
			removed[fn] = true
			nguard++
		} else if gi.partial {
			// sound for the calls that come after its check (see C02 guard-shape)
			for cc := range gi.guardedCallees {
				cut[[2]*ssa.Function{fn, cc}] = true
			}
			nguard++
		}
	}
	cycles := g.CyclesCut(removed, cut, 20)
	for _, cyc := range cycles {
		r.Violate("poll-recursion", cycleString(cyc), p.FnPos(cyc[0]), "recursion cycle with neither a context poll nor a depth guard: cancellation is not noticed while the input nests along it; call sites: "+cycleSites(p, g, cyc))
	}
	r.OK("poll-recursion", "parser-cycles", "-", sprintf("%d polling functions and %d further depth guards cut every cycle of the %d parser functions (%d uncut cycles)", npoll, nguard, len(g.Nodes), len(cycles)))
}

func c11Residue(c *Ctx, p *core.Prog) {
	r := c.R
	pk := p.Pkg("pkg/sql/parser")
	if pk == nil {
		return
	}
	T := pk.Types.Scope().Lookup("Parser").Type().(*types.Named)
	// ctx stores paired with deferred reset
	fns := p.SrcFuncs("pkg/sql/parser")
	fa := collectFieldAccess(fns, T)
	n := 0
	for _, fn := range fns {
		for i, st := range fa.writes[fn]["ctx"] {
			if isResetValue(st.Val) {
				continue
			}
			n++
			key := core.FnName(fn) + sprintf("|ctx#%d", i+1)
			if why, ok := hasPairedDefer(st, T, "ctx"); ok {
				r.OK("residue", key, p.Pos(st.Pos()), why)
			} else {
				r.Violate("residue", key, p.Pos(st.Pos()), "p.ctx is set without a deferred reset registered immediately after it")
			}
		}
	}
	if n == 0 {
		r.Fatal("anchor not found: no store of a context into Parser.ctx")
	}
	// NewAST … error return must pass ReleaseAST (directly, or by a deferred release that is still armed)
	ri := &releaseInfo{p: p, memo: map[*ssa.Function]map[int]int{}}
	nfn := 0
	for _, fn := range fns {
		if fn.Parent() != nil {
			continue
		}
		var newAST *ssa.Call
		for _, b := range fn.Blocks {
			for _, in := range b.Instrs {
				if call, ok := in.(*ssa.Call); ok {
					if callee := call.Call.StaticCallee(); callee != nil && callee.Name() == "NewAST" && core.InPkgs(callee, "pkg/sql/ast") {
						newAST = call
					}
				}
			}
		}
		if newAST == nil {
			continue
		}
		nfn++
		// the tree may live in a captured cell
		var cell *ssa.Alloc
		for _, ref := range core.Referrers(newAST) {
			if st, ok := ref.(*ssa.Store); ok && st.Val == ssa.Value(newAST) {
				cell, _ = st.Addr.(*ssa.Alloc)
			}
		}
		isTree := func(v ssa.Value) bool {
			if v == ssa.Value(newAST) {
				return true
			}
			return cell != nil && cellOf(v) == cell
		}
		rel := map[*ssa.BasicBlock]bool{}
		for _, b := range fn.Blocks {
			for _, in := range b.Instrs {
				if call, ok := in.(*ssa.Call); ok {
					if callee := call.Call.StaticCallee(); callee != nil && callee.Name() == "ReleaseAST" && len(call.Call.Args) == 1 && isTree(call.Call.Args[0]) {
						rel[b] = true
					}
				}
			}
		}
		var armed []deferredRelease
		for _, dr := range deferredReleases(fn, ri) {
			if cell != nil && dr.cell == cell {
				armed = append(armed, dr)
			}
		}
		k := 0
		for _, b := range fn.Blocks {
			ret, ok := b.Instrs[len(b.Instrs)-1].(*ssa.Return)
			if !ok || !newAST.Block().Dominates(b) {
				continue
			}
			// error return = the AST result is nil
			isErr := false
			for i := range ret.Results {
				rv := retOperand(ret, i)
				if core.IsNilConst(rv) && !isErrorType(rv.Type()) {
					isErr = true
				}
			}
			if !isErr {
				continue
			}
			k++
			key := core.FnName(fn) + sprintf("|error-return#%d", k)
			released := !(reachAvoiding(newAST.Block(), b, rel, nil) && !rel[b] && !rel[newAST.Block()])
			if !released {
				// a deferred release covers this return if its guard cannot have been switched off on the way here
				for _, dr := range armed {
					if !dr.deferIn.Block().Dominates(b) {
						continue
					}
					if dr.flag == nil {
						released = true
						continue
					}
					off := false
					for _, st := range storesConst(fn, dr.flag, !dr.runsWhen) {
						if core.BlockReaches(st.Block(), b) {
							off = true
						}
					}
					if !off {
						released = true
					}
				}
			}
			if released {
				r.OK("residue", key, p.Pos(ret.Pos()), "ReleaseAST on every path")
			} else {
				r.Violate("residue", key, p.Pos(ret.Pos()), "an error return after ast.NewAST() is reachable without ast.ReleaseAST(result): the pooled AST leaks")
			}
		}
		if k == 0 {
			r.Fatal("no error return found after ast.NewAST() in %s: the residue rule cannot see the function's results", core.FnName(fn))
		}
	}
	if nfn < 3 {
		r.Fatal("anchor not found: statement loops calling ast.NewAST() (found %d)", nfn)
	}
}

// isStatementParser: parseStatement itself, or a thin wrapper around it (a loop-free method of *Parser that calls it,
// e.g. one that resets per-statement state first).
func isStatementParser(f *ssa.Function, depth int) bool {
	if f == nil || f.Blocks == nil || depth > 2 {
		return false
	}
	if f.Name() == "parseStatement" {
		return true
	}
	if f.Signature.Recv() == nil {
		return false
	}
	for _, b := range f.Blocks {
		for _, s := range b.Succs {
			if s.Dominates(b) {
				return false // has a loop
			}
		}
	}
	for _, b := range f.Blocks {
		for _, in := range b.Instrs {
			if call, ok := in.(*ssa.Call); ok {
				if g := call.Call.StaticCallee(); g != nil && g != f && g.Signature.Recv() != nil && isStatementParser(g, depth+1) {
					return true
				}
			}
		}
	}
	return false
}
