package rules

import (
	"sort"
	"strings"

	"golang.org/x/tools/go/ssa"

	"gosqlxsa/core"
)

// c20ChainCopy (chain-copy): the cost of serialising a tree by "return the concatenation of my children's texts" is the
// sum over the nodes of the size of their subtree: n log n for a balanced tree, n * depth in general. The depth limit does
// not bound the depth of chains the parser builds in a *loop* (left = &BinaryExpression{Left: left, …} once per
// operator): `a + a + … + a` gives a tree as deep as the input is long, and a serialiser that copies the text of the
// chained child at every level is quadratic on it. The rule pairs the two halves:
//   (1) chain builders: in a parser loop, a node of ast type T is created, the loop-carried value is stored into its field
//       F, and the node becomes the loop-carried value;
//   (2) copying serialisers: a method of *T with a string result (SQL, Format, String) in which a string-returning call
//       that takes the content of field F flows by data into the returned string.
// Each (T.F, method) with both halves is reported. A serialiser that writes into a shared builder handed down the tree has
// no such call and is not reported.
func c20ChainCopy(c *Ctx, p *core.Prog) {
	r := c.R
	r.Rule("chain-copy", "no ast node type T whose field F is chained by a parser loop (node.F = previous; previous = node, once per operator/suffix: depth grows with input length, the depth limit does not apply) has a string-returning serialiser that copies the text of F's subtree into its own result: that is (input length × chain depth) work")
	type tf struct{ T, F string }
	chains := map[tf]string{}
	astPtrStruct := func(v ssa.Value) string {
		nt := core.NamedOf(core.Deref(v.Type()))
		if nt == nil || nt.Obj().Pkg() == nil || !core.PathHasSuffix(nt.Obj().Pkg().Path(), "pkg/sql/ast") || core.StructOf(nt) == nil {
			return ""
		}
		return nt.Obj().Name()
	}
	strip := func(v ssa.Value) ssa.Value {
		for {
			switch x := v.(type) {
			case *ssa.MakeInterface:
				v = x.X
			case *ssa.ChangeInterface:
				v = x.X
			case *ssa.ChangeType:
				v = x.X
			default:
				return v
			}
		}
	}
	for _, fn := range p.SrcFuncs("pkg/sql/parser") {
		for _, scc := range blockSCCs(fn, nil, nil, nil) {
			in := blockSet(scc)
			// derivesFromPhi: v is ph, or a phi of the cycle fed by it
			var derives func(v ssa.Value, ph *ssa.Phi, seen map[ssa.Value]bool) bool
			derives = func(v ssa.Value, ph *ssa.Phi, seen map[ssa.Value]bool) bool {
				v = strip(v)
				if v == ssa.Value(ph) {
					return true
				}
				if seen[v] {
					return false
				}
				seen[v] = true
				if q, ok := v.(*ssa.Phi); ok && in[q.Block()] {
					for _, e := range q.Edges {
						if derives(e, ph, seen) {
							return true
						}
					}
				}
				return false
			}
			for _, b := range scc {
				for _, ins := range b.Instrs {
					ph, ok := ins.(*ssa.Phi)
					if !ok {
						break
					}
					// nodes that flow back into ph from inside the cycle
					var nodes []ssa.Value
					seenN := map[ssa.Value]bool{}
					var back func(v ssa.Value)
					back = func(v ssa.Value) {
						v = strip(v)
						if seenN[v] {
							return
						}
						seenN[v] = true
						switch x := v.(type) {
						case *ssa.Phi:
							if in[x.Block()] && x != ph {
								for _, e := range x.Edges {
									back(e)
								}
							}
						case *ssa.Alloc:
							if in[x.Block()] && astPtrStruct(x) != "" {
								nodes = append(nodes, x)
							}
						case *ssa.Call:
							if in[x.Block()] && astPtrStruct(x) != "" {
								nodes = append(nodes, x)
							}
						}
					}
					for i, e := range ph.Edges {
						if in[ph.Block().Preds[i]] {
							back(e)
						}
					}
					for _, nd := range nodes {
						for _, ref := range core.Referrers(nd) {
							fa, ok := ref.(*ssa.FieldAddr)
							if !ok || !in[fa.Block()] {
								continue
							}
							for _, r2 := range core.Referrers(fa) {
								st, ok := r2.(*ssa.Store)
								if !ok || st.Addr != ssa.Value(fa) {
									continue
								}
								if derives(st.Val, ph, map[ssa.Value]bool{}) {
									k := tf{astPtrStruct(nd), core.FieldName(fa.X.Type(), fa.Field)}
									pos := p.Pos(st.Pos())
									if old, ok := chains[k]; !ok || pos < old {
										chains[k] = pos
									}
								}
							}
						}
					}
				}
			}
		}
	}
	var keys []tf
	for k := range chains {
		keys = append(keys, k)
	}
	sort.Slice(keys, func(i, j int) bool {
		if keys[i].T != keys[j].T {
			return keys[i].T < keys[j].T
		}
		return keys[i].F < keys[j].F
	})
	r.Extra("parser_chain_builders", len(keys))
	n := 0
	for _, k := range keys {
		for _, fn := range p.SrcFuncs("pkg/sql/ast") {
			if fn.Parent() != nil || fn.Signature.Recv() == nil || len(fn.Params) == 0 {
				continue
			}
			nt := core.NamedOf(core.Deref(fn.Signature.Recv().Type()))
			if nt == nil || nt.Obj().Name() != k.T {
				continue
			}
			res := fn.Signature.Results()
			if res.Len() != 1 || res.At(0).Type().String() != "string" {
				continue
			}
			n++
			key := k.T + "." + k.F + "|" + fn.Name()
			if call := c20CopiesField(fn, k.F); call != nil {
				r.Violate("chain-copy", key, p.Pos(call.Pos()), "the parser chains "+k.T+" nodes through "+k.F+" in a loop ("+chains[k]+": one level per operator or suffix, not limited by the depth guard), and "+k.T+"."+fn.Name()+"() builds its result from the text `"+c20CalleeName(call)+"` returns for "+k.F+": every level copies the text of the whole chain below it, quadratic in the length of `x op x op x …`")
			} else {
				r.OK("chain-copy", key, p.FnPos(fn), "does not copy the text of the chained child")
			}
		}
	}
	r.Floor("chain-copy", n, 1, "string-returning serialisers of node types the parser chains in a loop")
}

func c20CalleeName(call *ssa.Call) string {
	if f := call.Call.StaticCallee(); f != nil {
		return f.Name()
	}
	if call.Call.IsInvoke() {
		return call.Call.Method.Name()
	}
	return "call"
}

// c20CopiesField: a string-returning call that takes (the content of) receiver field F and whose result flows by data into
// a returned value of fn.
func c20CopiesField(fn *ssa.Function, F string) *ssa.Call {
	recv := fn.Params[0]
	fromField := func(v ssa.Value) bool {
		for i := 0; i < 6; i++ {
			switch x := v.(type) {
			case *ssa.MakeInterface:
				v = x.X
			case *ssa.ChangeInterface:
				v = x.X
			case *ssa.ChangeType:
				v = x.X
			case *ssa.TypeAssert:
				v = x.X
			case *ssa.Extract:
				v = x.Tuple
			case *ssa.UnOp:
				if fa, ok := x.X.(*ssa.FieldAddr); ok {
					if core.FieldName(fa.X.Type(), fa.Field) != F {
						return false
					}
					b := fa.X
					if u, ok := b.(*ssa.UnOp); ok { // spilled receiver
						if a, ok := u.X.(*ssa.Alloc); ok {
							for _, ref := range core.Referrers(a) {
								if s, ok := ref.(*ssa.Store); ok && s.Val == ssa.Value(recv) {
									return true
								}
							}
						}
					}
					return b == ssa.Value(recv)
				}
				return false
			default:
				return false
			}
		}
		return false
	}
	var found *ssa.Call
	seen := map[ssa.Value]bool{}
	var walk func(v ssa.Value)
	seenObj := map[ssa.Value]bool{}
	var objectInputs func(o ssa.Value, self *ssa.Call, depth int)
	objectInputs = func(o ssa.Value, self *ssa.Call, depth int) {
		if depth > 2 || seenObj[o] {
			return
		}
		seenObj[o] = true
		for _, ref := range core.Referrers(o) {
			switch r := ref.(type) {
			case *ssa.Call:
				if r != self {
					for _, a2 := range r.Call.Args {
						if a2 != o {
							walk(a2)
						}
					}
				}
			case *ssa.FieldAddr:
				for _, r2 := range core.Referrers(r) {
					switch y := r2.(type) {
					case *ssa.UnOp:
						if strings.HasPrefix(y.Type().String(), "*") {
							objectInputs(y, self, depth+1)
						}
					case *ssa.Store:
						if y.Addr == ssa.Value(r) {
							walk(y.Val)
						}
					}
				}
			}
		}
	}
	walk = func(v ssa.Value) {
		if v == nil || seen[v] || found != nil {
			return
		}
		seen[v] = true
		switch x := v.(type) {
		case *ssa.Parameter, *ssa.Const, *ssa.Global, *ssa.FreeVar:
			return
		case *ssa.Call:
			if x.Type().String() == "string" {
				args := x.Call.Args
				if x.Call.IsInvoke() {
					args = append([]ssa.Value{x.Call.Value}, args...)
				}
				for _, a := range args {
					if fromField(a) {
						found = x
						return
					}
				}
			}
			// an object filled through its methods (a builder obtained from a pool, a formatter holding one): what other
			// calls handed to it, or to an object loaded from one of its fields
			for _, a := range x.Call.Args {
				if _, isPar := a.(*ssa.Parameter); isPar {
					continue
				}
				if strings.HasPrefix(a.Type().String(), "*") {
					objectInputs(a, x, 0)
				}
			}
		case *ssa.Alloc:
			for _, ref := range core.Referrers(x) {
				switch r := ref.(type) {
				case *ssa.Store:
					if r.Addr == ssa.Value(x) {
						walk(r.Val)
					}
				case *ssa.IndexAddr:
					for _, r2 := range core.Referrers(r) {
						if s, ok := r2.(*ssa.Store); ok && s.Addr == ssa.Value(r) {
							walk(s.Val)
						}
					}
				case *ssa.Call:
					for _, a2 := range r.Call.Args {
						walk(a2)
					}
				}
			}
			return
		}
		if in, ok := v.(ssa.Instruction); ok {
			for _, op := range in.Operands(nil) {
				if op != nil && *op != nil {
					walk(*op)
				}
			}
		}
	}
	for _, b := range fn.Blocks {
		if ret, ok := b.Instrs[len(b.Instrs)-1].(*ssa.Return); ok {
			for _, res := range ret.Results {
				walk(res)
			}
		}
	}
	return found
}
