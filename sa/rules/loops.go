package rules

import (
	"fmt"
	"go/token"
	"go/types"
	"os"
	"sort"
	"strings"

	"golang.org/x/tools/go/ssa"

	"gosqlxsa/core"
)

// E2: loop progress / end-of-input exit over SSA block graphs.

// loopSpec supplies the cursor-specific atoms.
type loopSpec struct {
	// local: the cycle neither touches the cursor nor calls a function of the cursor model; such a
	// purely local loop (binary search, retry counters …) is outside the cursor argument and is only
	// required to have an exit test on a value that changes inside the loop
	local         func(c []*ssa.BasicBlock) bool
	progressBlock func(b *ssa.BasicBlock) bool
	progressEdge  func(b *ssa.BasicBlock, k int) bool
	nonEndEdge    func(b *ssa.BasicBlock, k int) bool
}

// blockSCCs returns the non-trivial SCCs of the block graph of fn with the
// edge filter keep(b,k) and block filter drop(b).
func blockSCCs(fn *ssa.Function, drop func(*ssa.BasicBlock) bool, keep func(*ssa.BasicBlock, int) bool, within map[*ssa.BasicBlock]bool) [][]*ssa.BasicBlock {
	index := 0
	idx := map[*ssa.BasicBlock]int{}
	low := map[*ssa.BasicBlock]int{}
	on := map[*ssa.BasicBlock]bool{}
	var stack []*ssa.BasicBlock
	var out [][]*ssa.BasicBlock
	succs := func(b *ssa.BasicBlock) []*ssa.BasicBlock {
		if drop != nil && drop(b) {
			return nil
		}
		var r []*ssa.BasicBlock
		for k, s := range b.Succs {
			if within != nil && !within[s] {
				continue
			}
			if drop != nil && drop(s) {
				continue
			}
			if keep != nil && !keep(b, k) {
				continue
			}
			r = append(r, s)
		}
		return r
	}
	var strong func(v *ssa.BasicBlock)
	strong = func(v *ssa.BasicBlock) {
		idx[v] = index
		low[v] = index
		index++
		stack = append(stack, v)
		on[v] = true
		for _, w := range succs(v) {
			if _, ok := idx[w]; !ok {
				strong(w)
				if low[w] < low[v] {
					low[v] = low[w]
				}
			} else if on[w] && idx[w] < low[v] {
				low[v] = idx[w]
			}
		}
		if low[v] == idx[v] {
			var comp []*ssa.BasicBlock
			for {
				w := stack[len(stack)-1]
				stack = stack[:len(stack)-1]
				on[w] = false
				comp = append(comp, w)
				if w == v {
					break
				}
			}
			self := false
			if len(comp) == 1 {
				for _, w := range succs(v) {
					if w == v {
						self = true
					}
				}
			}
			if len(comp) > 1 || self {
				sort.Slice(comp, func(i, j int) bool { return comp[i].Index < comp[j].Index })
				out = append(out, comp)
			}
		}
	}
	for _, b := range fn.Blocks {
		if within != nil && !within[b] {
			continue
		}
		if _, ok := idx[b]; !ok {
			strong(b)
		}
	}
	sort.Slice(out, func(i, j int) bool { return out[i][0].Index < out[j][0].Index })
	return out
}

func blockSet(bs []*ssa.BasicBlock) map[*ssa.BasicBlock]bool {
	m := map[*ssa.BasicBlock]bool{}
	for _, b := range bs {
		m[b] = true
	}
	return m
}

// boundedCycle: the residual cycle comp is a counted / range loop: it has a
// header whose exit test compares an induction variable (a phi of the cycle,
// advanced by a constant on every iteration) with a loop-invariant bound, or
// is a map/iterator range; and every cycle of comp passes that header.
func boundedCycle(fn *ssa.Function, comp []*ssa.BasicBlock) (bool, string) {
	in := blockSet(comp)
	for _, h := range comp {
		if len(h.Instrs) == 0 || len(h.Succs) != 2 {
			continue
		}
		iff, ok := h.Instrs[len(h.Instrs)-1].(*ssa.If)
		if !ok {
			continue
		}
		if in[h.Succs[0]] && in[h.Succs[1]] {
			continue
		}
		okCond, why := inductionTest(iff.Cond, in)
		if !okCond {
			continue
		}
		// every other cycle either passes h or is itself a bounded (nested) loop
		rest := blockSCCs(fn, func(b *ssa.BasicBlock) bool { return b == h }, nil, in)
		allOK := true
		for _, sub := range rest {
			if ok, _ := boundedCycle(fn, sub); !ok {
				allOK = false
			}
		}
		if allOK {
			return true, why
		}
	}
	return false, ""
}

// inductionTest: cond compares an induction variable of the cycle with an invariant bound.
func inductionTest(cond ssa.Value, in map[*ssa.BasicBlock]bool) (bool, string) {
	if ex, ok := cond.(*ssa.Extract); ok && ex.Index == 0 {
		if nx, ok := ex.Tuple.(*ssa.Next); ok {
			_ = nx
			return true, "range over map/string iterator"
		}
	}
	bo, ok := cond.(*ssa.BinOp)
	if !ok {
		return false, ""
	}
	switch bo.Op {
	case token.LSS, token.LEQ, token.GTR, token.GEQ, token.NEQ:
	default:
		return false, ""
	}
	isInd := func(v ssa.Value) bool {
		// phi in the cycle, or phi±const
		if b, ok := v.(*ssa.BinOp); ok && (b.Op == token.ADD || b.Op == token.SUB) {
			if _, isC := core.ConstInt(b.Y); isC {
				v = b.X
			}
		}
		ph, ok := v.(*ssa.Phi)
		if !ok || !in[ph.Block()] {
			return false
		}
		// every edge from inside the cycle is phi ± positive const
		stepOK := false
		for i, e := range ph.Edges {
			pred := ph.Block().Preds[i]
			if !in[pred] {
				continue
			}
			b, ok := e.(*ssa.BinOp)
			if !ok || !(b.Op == token.ADD || b.Op == token.SUB) {
				return false
			}
			k, isC := core.ConstInt(b.Y)
			if b.X != ssa.Value(ph) {
				return false
			}
			if !(isC && k != 0) && !(b.Op == token.ADD && positiveStep(b.Y, 0)) {
				return false
			}
			stepOK = true
		}
		return stepOK
	}
	isInv := func(v ssa.Value) bool {
		if _, ok := v.(*ssa.Const); ok {
			return true
		}
		if in2, ok := v.(ssa.Instruction); ok {
			if in[in2.Block()] {
				// len(x) of an invariant x recomputed in the loop
				if l := core.LenOf(v); l != nil {
					if li, ok := l.(ssa.Instruction); ok && in[li.Block()] {
						// load of a variable inside the loop: accept a load of a parameter-derived / field value that the loop does not store to
						return loadInvariant(l, in)
					}
					return true
				}
				return false
			}
		}
		return true
	}
	if (isInd(bo.X) && isInv(bo.Y)) || (isInd(bo.Y) && isInv(bo.X)) {
		return true, "counted loop over an induction variable with an invariant bound"
	}
	return false, ""
}

// loadInvariant: v is a load of an address that no instruction of the cycle stores to.
func loadInvariant(v ssa.Value, in map[*ssa.BasicBlock]bool) bool {
	u, ok := v.(*ssa.UnOp)
	if !ok || u.Op != token.MUL {
		return false
	}
	for b := range in {
		for _, ins := range b.Instrs {
			if st, ok := ins.(*ssa.Store); ok && sameAddr(st.Addr, u.X) {
				return false
			}
		}
	}
	return true
}

func sameAddr(a, b ssa.Value) bool {
	if a == b {
		return true
	}
	fa, ok1 := a.(*ssa.FieldAddr)
	fb, ok2 := b.(*ssa.FieldAddr)
	if ok1 && ok2 && fa.Field == fb.Field {
		return sameAddr(fa.X, fb.X) || (types.Identical(fa.X.Type(), fb.X.Type()))
	}
	return false
}

// varyingExit: some exit test of the cycle depends on a value that changes inside the cycle
// (a phi of the cycle or a cell stored to in the cycle).
func varyingExit(c []*ssa.BasicBlock) bool {
	in := blockSet(c)
	stored := map[ssa.Value]bool{}
	for _, b := range c {
		for _, ins := range b.Instrs {
			if st, ok := ins.(*ssa.Store); ok {
				stored[st.Addr] = true
			}
		}
	}
	var varies func(v ssa.Value, d int) bool
	varies = func(v ssa.Value, d int) bool {
		if d > 6 || v == nil {
			return false
		}
		switch x := v.(type) {
		case *ssa.Phi:
			return in[x.Block()]
		case *ssa.BinOp:
			return varies(x.X, d+1) || varies(x.Y, d+1)
		case *ssa.UnOp:
			if x.Op == token.MUL && stored[x.X] {
				return true
			}
			return varies(x.X, d+1)
		case *ssa.Call:
			for _, a := range x.Call.Args {
				if varies(a, d+1) {
					return true
				}
			}
		case *ssa.Convert:
			return varies(x.X, d+1)
		case *ssa.Extract:
			return varies(x.Tuple, d+1)
		}
		return false
	}
	for _, b := range c {
		iff, ok := b.Instrs[len(b.Instrs)-1].(*ssa.If)
		if !ok || len(b.Succs) != 2 {
			continue
		}
		if in[b.Succs[0]] && in[b.Succs[1]] {
			continue
		}
		if varies(iff.Cond, 0) {
			return true
		}
	}
	return false
}

// loopFinding is one residual cycle.
type loopFinding struct {
	ordinal int
	kind    string // "no-progress" or "end-spin"
	pos     token.Pos
	blocks  []*ssa.BasicBlock
}

// checkLoops examines every loop nest (CFG SCC) of fn.
func checkLoops(fn *ssa.Function, spec loopSpec) (nloops int, bounded int, findings []loopFinding) {
	all := blockSCCs(fn, nil, nil, nil)
	for i, scc := range all {
		nloops++
		in := blockSet(scc)
		// (a) progress
		resA := blockSCCs(fn, spec.progressBlock, func(b *ssa.BasicBlock, k int) bool { return !spec.progressEdge(b, k) }, in)
		// (b) end-of-input exit
		resB := blockSCCs(fn, nil, func(b *ssa.BasicBlock, k int) bool { return !spec.nonEndEdge(b, k) }, in)
		allBounded := true
		for _, c := range resA {
			if ok, _ := boundedCycle(fn, c); !ok && !(spec.local != nil && spec.local(c) && varyingExit(c)) {
				allBounded = false
				findings = append(findings, loopFinding{i + 1, "no-progress", firstPos(c), c})
			}
		}
		for _, c := range resB {
			if ok, _ := boundedCycle(fn, c); !ok && !(spec.local != nil && spec.local(c) && varyingExit(c)) {
				allBounded = false
				findings = append(findings, loopFinding{i + 1, "end-spin", firstPos(c), c})
			}
		}
		if allBounded && (len(resA) > 0 || len(resB) > 0) {
			bounded++
		}
	}
	return
}

func firstPos(bs []*ssa.BasicBlock) token.Pos {
	for _, b := range bs {
		for _, in := range b.Instrs {
			if in.Pos().IsValid() {
				return in.Pos()
			}
		}
	}
	return token.NoPos
}

// ---------------------------------------------------------------------------
// Parser cursor model

type parserModel struct {
	p           *core.Prog
	T           *types.Named
	tokT        *types.Named // token.Token
	eof         int64
	advance     *ssa.Function
	fns         []*ssa.Function
	always      map[*ssa.Function]bool
	onOK        map[*ssa.Function]bool
	onTrue      map[*ssa.Function]bool
	predMemo    map[*ssa.Function]int // 1 implies-non-end, 2 not
	paramEq     map[*ssa.Function]bool
	kind        string                 // "parser" or "tokenizer"
	onSent      map[*ssa.Function]bool // tokenizer: advances whenever it returns the internal skip sentinel
	posT        *types.Named           // tokenizer: Position
	onOKne      map[*ssa.Function]bool // tokenizer: advances on success provided the cursor was below len(input) at entry
	assumeEntry bool                   // while computing *ne summaries: the function entry counts as a non-end point
	noNE        int
	nonNilMemo  map[*ssa.Function]bool
}

func newParserModel(p *core.Prog) (*parserModel, string) {
	pk := p.Pkg("pkg/sql/parser")
	mk := p.Pkg("pkg/models")
	if pk == nil {
		return nil, "package pkg/sql/parser"
	}
	tobj := pk.Types.Scope().Lookup("Parser")
	if tobj == nil {
		return nil, "type Parser"
	}
	m := &parserModel{p: p, T: tobj.Type().(*types.Named), always: map[*ssa.Function]bool{}, onOK: map[*ssa.Function]bool{}, onTrue: map[*ssa.Function]bool{}, predMemo: map[*ssa.Function]int{}, paramEq: map[*ssa.Function]bool{}}
	var mtypes *types.Package
	if mk != nil {
		mtypes = mk.Types
	} else {
		for _, imp := range pk.Types.Imports() {
			if strings.HasSuffix(imp.Path(), "/pkg/models") {
				mtypes = imp
			}
		}
	}
	if mtypes == nil {
		return nil, "package pkg/models"
	}
	eof, ok := intConst(mtypes, "TokenTypeEOF")
	if !ok {
		return nil, "constant models.TokenTypeEOF"
	}
	m.eof = eof
	st := core.StructOf(m.T)
	for _, f := range []string{"tokens", "currentPos", "currentToken"} {
		found := false
		for i := 0; i < st.NumFields(); i++ {
			if st.Field(i).Name() == f {
				found = true
			}
		}
		if !found {
			return nil, "field Parser." + f
		}
	}
	m.fns = p.SrcFuncs("pkg/sql/parser")
	// advance: the method whose entry block increments currentPos
	for _, fn := range m.fns {
		if fn.Parent() != nil || len(fn.Blocks) == 0 || fn.Signature.Recv() == nil || core.NamedOf(fn.Signature.Recv().Type()) != m.T {
			continue
		}
		for _, in := range fn.Blocks[0].Instrs {
			if st, ok := in.(*ssa.Store); ok && isFieldOf(st.Addr, m.T, "currentPos") {
				if bo, ok := st.Val.(*ssa.BinOp); ok && bo.Op == token.ADD && loadOfField(bo.X, m.T, "currentPos") {
					if k, isC := core.ConstInt(bo.Y); isC && k == 1 && fn.Signature.Results().Len() == 0 {
						m.advance = fn
					}
				}
			}
		}
	}
	if m.advance == nil {
		return nil, "the method that increments Parser.currentPos (advance)"
	}
	m.solve()
	return m, ""
}

// curTokField: v is (derived from) p.currentToken.<field>; returns the field name.
func (m *parserModel) curTokField(v ssa.Value, depth int) string {
	if depth > 6 {
		return ""
	}
	switch x := v.(type) {
	case *ssa.UnOp:
		if x.Op == token.MUL {
			return m.curTokField(x.X, depth+1)
		}
	case *ssa.FieldAddr:
		if isFieldOf(x.X, m.T, "currentToken") {
			return core.FieldName(x.X.Type(), x.Field)
		}
	case *ssa.Field:
		if u, ok := x.X.(*ssa.UnOp); ok && isFieldOf(u.X, m.T, "currentToken") {
			return core.FieldName(x.X.Type(), x.Field)
		}
	case *ssa.Call:
		if f := x.Call.StaticCallee(); f != nil && core.FnPkg(f) != nil && core.FnPkg(f).Path() == "strings" && (f.Name() == "ToUpper" || f.Name() == "ToLower" || f.Name() == "TrimSpace") {
			return m.curTokField(x.Call.Args[0], depth+1)
		}
	case *ssa.Convert:
		return m.curTokField(x.X, depth+1)
	case *ssa.ChangeType:
		return m.curTokField(x.X, depth+1)
	}
	return ""
}

func (m *parserModel) isCursorLoad(v ssa.Value) bool {
	if m.kind == "tokenizer" {
		u, ok := v.(*ssa.UnOp)
		if !ok || u.Op != token.MUL {
			return false
		}
		fa, ok := u.X.(*ssa.FieldAddr)
		return ok && core.FieldName(fa.X.Type(), fa.Field) == "Index" && m.tzField(fa.X, "pos")
	}
	return loadOfField(v, m.T, "currentPos")
}

// tzField: v is &x.<name> / x.<name> where x is a tokenizer-package struct with pos and input fields.
func (m *parserModel) tzField(v ssa.Value, name string) bool {
	if u, ok := v.(*ssa.UnOp); ok && u.Op == token.MUL {
		v = u.X // pos held by pointer
	}
	var x ssa.Value
	var idx int
	switch f := v.(type) {
	case *ssa.FieldAddr:
		x, idx = f.X, f.Field
	case *ssa.Field:
		x, idx = f.X, f.Field
	default:
		return false
	}
	if core.FieldName(x.Type(), idx) != name {
		return false
	}
	return m.tzType(core.NamedOf(x.Type()))
}

func (m *parserModel) tzType(n *types.Named) bool {
	if n == nil {
		return false
	}
	if n == m.T {
		return true
	}
	if n.Obj().Pkg() != m.T.Obj().Pkg() {
		return false
	}
	st, ok := n.Underlying().(*types.Struct)
	if !ok {
		return false
	}
	hasPos, hasIn := false, false
	for i := 0; i < st.NumFields(); i++ {
		if st.Field(i).Name() == "pos" {
			hasPos = true
		}
		if st.Field(i).Name() == "input" {
			hasIn = true
		}
	}
	return hasPos && hasIn
}

func (m *parserModel) tzLoad(v ssa.Value, name string) bool {
	u, ok := v.(*ssa.UnOp)
	return ok && u.Op == token.MUL && m.tzField(u.X, name)
}

// tokenizer progress atom: pos.AdvanceRune(...) or pos.Index += positive.
func (m *parserModel) tzAtom(in ssa.Instruction) bool {
	switch x := in.(type) {
	case *ssa.Call:
		f := x.Call.StaticCallee()
		if f != nil && f.Signature.Recv() != nil && core.NamedOf(f.Signature.Recv().Type()) == m.posT && f.Name() == "AdvanceRune" && len(x.Call.Args) > 0 && m.tzField(x.Call.Args[0], "pos") {
			return true
		}
		// AdvanceN(n, …) moves the cursor by n when n > 0
		if f != nil && f.Signature.Recv() != nil && core.NamedOf(f.Signature.Recv().Type()) == m.posT && f.Name() == "AdvanceN" && len(x.Call.Args) > 1 && m.tzField(x.Call.Args[0], "pos") && positiveStep(x.Call.Args[1], 0) {
			return true
		}
	case *ssa.Store:
		fa, ok := x.Addr.(*ssa.FieldAddr)
		if !ok || core.FieldName(fa.X.Type(), fa.Field) != "Index" || !m.tzField(fa.X, "pos") {
			return false
		}
		bo, ok := x.Val.(*ssa.BinOp)
		if !ok || bo.Op != token.ADD || !m.isCursorLoad(bo.X) {
			return false
		}
		return positiveStep(bo.Y, 0)
	}
	return false
}

// positiveStep: a positive constant, a rune size returned by utf8.DecodeRune*, or a sum of those.
func positiveStep(v ssa.Value, depth int) bool {
	if depth > 4 {
		return false
	}
	if k, ok := core.ConstInt(v); ok {
		return k > 0
	}
	switch x := v.(type) {
	case *ssa.Extract:
		if c, ok := x.Tuple.(*ssa.Call); ok && x.Index == 1 {
			if f := c.Call.StaticCallee(); f != nil && core.FnPkg(f) != nil && core.FnPkg(f).Path() == "unicode/utf8" && strings.HasPrefix(f.Name(), "DecodeRune") {
				return true
			}
		}
	case *ssa.BinOp:
		if x.Op == token.ADD {
			return positiveStep(x.X, depth+1) && positiveStep(x.Y, depth+1)
		}
	case *ssa.Call:
		if f := x.Call.StaticCallee(); f != nil && core.FnPkg(f) != nil && core.FnPkg(f).Path() == "unicode/utf8" && f.Name() == "RuneLen" {
			return true
		}
	case *ssa.Phi:
		for _, e := range x.Edges {
			if !positiveStep(e, depth+1) {
				return false
			}
		}
		return len(x.Edges) > 0
	}
	return false
}

// paramish: v is a parameter of fn, an element of a variadic parameter, or a
// case-normalised parameter.
func paramish(v ssa.Value, depth int) bool {
	if depth > 5 {
		return false
	}
	switch x := v.(type) {
	case *ssa.Parameter:
		return true
	case *ssa.UnOp:
		if x.Op == token.MUL {
			return paramish(x.X, depth+1)
		}
	case *ssa.IndexAddr:
		return paramish(x.X, depth+1)
	case *ssa.Index:
		return paramish(x.X, depth+1)
	case *ssa.Call:
		if f := x.Call.StaticCallee(); f != nil && core.FnPkg(f) != nil && core.FnPkg(f).Path() == "strings" && len(x.Call.Args) > 0 {
			return paramish(x.Call.Args[0], depth+1)
		}
	case *ssa.Convert:
		return paramish(x.X, depth+1)
	}
	return false
}

// classify returns whether the true / false outcome of cond implies that the
// current token is not the synthetic end-of-input token. inPred is set while
// summarising a predicate: comparisons with the predicate's own parameters count
// (their constants are checked at the call sites).
func (m *parserModel) classify(cond ssa.Value, inPred bool) (t, f bool) {
	if m.kind == "tokenizer" {
		switch x := cond.(type) {
		case *ssa.UnOp:
			if x.Op == token.NOT {
				a, b := m.classify(x.X, inPred)
				return b, a
			}
		case *ssa.BinOp:
			// pos.Index < len(input)  (also with a constant offset on the left)
			l := x.X
			if add, ok := l.(*ssa.BinOp); ok && add.Op == token.ADD {
				if k, isC := core.ConstInt(add.Y); isC && k >= 0 {
					l = add.X
				}
			}
			if m.isCursorLoad(l) && core.LenOf(x.Y) != nil && m.tzLoad(core.LenOf(x.Y), "input") {
				switch x.Op {
				case token.LSS:
					return true, false
				case token.GEQ:
					return false, true
				}
			}
		}
		return false, false
	}
	switch x := cond.(type) {
	case *ssa.UnOp:
		if x.Op == token.NOT {
			a, b := m.classify(x.X, inPred)
			return b, a
		}
	case *ssa.BinOp:
		a, b := x.X, x.Y
		if _, isC := a.(*ssa.Const); isC {
			a, b = b, a
		}
		switch m.curTokField(a, 0) {
		case "Type":
			if k, ok := core.ConstInt(b); ok {
				switch x.Op {
				case token.EQL:
					if k != m.eof {
						return true, false
					}
					return false, true
				case token.NEQ:
					if k == m.eof {
						return true, false
					}
					return false, true
				}
			} else if inPred && paramish(b, 0) && x.Op == token.EQL {
				return true, false
			}
		case "Literal":
			if s, ok := core.ConstString(b); ok && s != "" {
				switch x.Op {
				case token.EQL:
					return true, false
				case token.NEQ:
					return false, true
				}
			} else if inPred && paramish(b, 0) && x.Op == token.EQL {
				return true, false
			}
		}
		// currentPos < len(tokens)
		if m.isCursorLoad(x.X) && core.LenOf(x.Y) != nil {
			switch x.Op {
			case token.LSS:
				return true, false
			case token.GEQ:
				return false, true
			}
		}
	case *ssa.Call:
		callee := x.Call.StaticCallee()
		if callee == nil {
			return false, false
		}
		if pk := core.FnPkg(callee); pk != nil && pk.Path() == "strings" && callee.Name() == "EqualFold" && len(x.Call.Args) == 2 {
			for i := 0; i < 2; i++ {
				if m.curTokField(x.Call.Args[i], 0) == "Literal" {
					if s, ok := core.ConstString(x.Call.Args[1-i]); ok && s != "" {
						return true, false
					}
					if inPred && paramish(x.Call.Args[1-i], 0) {
						return true, false
					}
				}
			}
			return false, false
		}
		if !m.isParserFn(callee) {
			return false, false
		}
		// arguments at this call site
		hasEOF, allConstOrParam := false, true
		for _, a := range x.Call.Args[1:] {
			for _, leaf := range argLeaves(a) {
				if k, ok := core.ConstInt(leaf); ok {
					if k == m.eof && isTokenTypeT(leaf.Type()) {
						hasEOF = true
					}
				} else if s, ok := core.ConstString(leaf); ok {
					if s == "" {
						allConstOrParam = false
					}
				} else if !(inPred && paramish(leaf, 0)) {
					allConstOrParam = false
				}
			}
		}
		if m.paramEq[callee] && hasEOF && len(x.Call.Args) == 2 {
			return false, true
		}
		if m.predImplies(callee) && !hasEOF && allConstOrParam {
			return true, false
		}
	case *ssa.Extract:
		if call, ok := x.Tuple.(*ssa.Call); ok && types.Identical(x.Type(), types.Typ[types.Bool]) {
			if callee := call.Call.StaticCallee(); callee != nil && m.isParserFn(callee) && len(call.Call.Args) == 1 && m.predImplies(callee) {
				return true, false
			}
		}
	case *ssa.Phi:
		// a && b lowered to phi [false, b]: true only if every non-false edge is true-implying
		allT := len(x.Edges) > 0
		for _, e := range x.Edges {
			if c, ok := e.(*ssa.Const); ok && c.Value != nil && c.Value.String() == "false" {
				continue
			}
			et, _ := m.classify(e, inPred)
			if !et {
				// the edge may also come from a block only reachable through a true-implying branch
				allT = false
			}
		}
		return allT, false
	}
	return false, false
}

func isTokenTypeT(t types.Type) bool {
	n := core.NamedOf(t)
	return n != nil && n.Obj().Name() == "TokenType"
}

// argLeaves expands a variadic slice argument into its elements.
func argLeaves(a ssa.Value) []ssa.Value {
	if sl, ok := a.(*ssa.Slice); ok {
		if ops := variadicOperands(sl); len(ops) > 0 {
			return ops
		}
	}
	return []ssa.Value{a}
}

func (m *parserModel) isParserFn(fn *ssa.Function) bool {
	if fn == nil || fn.Blocks == nil || fn.Signature.Recv() == nil {
		return false
	}
	if m.kind == "tokenizer" {
		return m.tzType(core.NamedOf(fn.Signature.Recv().Type()))
	}
	return core.NamedOf(fn.Signature.Recv().Type()) == m.T
}

// predImplies: every way the bool-returning method can return true passes a
// condition outcome that implies "not at end of input".
func (m *parserModel) predImplies(fn *ssa.Function) bool {
	if v, ok := m.predMemo[fn]; ok {
		return v == 1
	}
	bi := -1
	for i := 0; i < fn.Signature.Results().Len(); i++ {
		if types.Identical(fn.Signature.Results().At(i).Type(), types.Typ[types.Bool]) {
			bi = i
		}
	}
	if !m.isParserFn(fn) || bi < 0 {
		m.predMemo[fn] = 2
		return false
	}
	m.predMemo[fn] = 1 // optimistic for recursion
	// exact isType shape
	if len(fn.Blocks) == 1 && len(fn.Params) == 2 {
		if ret, ok := fn.Blocks[0].Instrs[len(fn.Blocks[0].Instrs)-1].(*ssa.Return); ok && len(ret.Results) == 1 {
			if bo, ok := ret.Results[0].(*ssa.BinOp); ok && bo.Op == token.EQL && m.curTokField(bo.X, 0) == "Type" && bo.Y == ssa.Value(fn.Params[1]) {
				m.paramEq[fn] = true
			}
		}
	}
	// blocks reachable from entry without taking a non-end-implying edge
	reach := map[*ssa.BasicBlock]bool{}
	work := []*ssa.BasicBlock{fn.Blocks[0]}
	for len(work) > 0 {
		b := work[len(work)-1]
		work = work[:len(work)-1]
		if reach[b] {
			continue
		}
		reach[b] = true
		if iff, ok := b.Instrs[len(b.Instrs)-1].(*ssa.If); ok && len(b.Succs) == 2 {
			t, f := m.classify(iff.Cond, true)
			if !t {
				work = append(work, b.Succs[0])
			}
			if !f {
				work = append(work, b.Succs[1])
			}
			continue
		}
		work = append(work, b.Succs...)
	}
	ok := true
	var valueOK func(v ssa.Value, depth int) bool
	valueOK = func(v ssa.Value, depth int) bool {
		if depth > 6 {
			return false
		}
		if c, isC := v.(*ssa.Const); isC {
			return c.Value != nil && c.Value.String() == "false"
		}
		if ph, isPhi := v.(*ssa.Phi); isPhi {
			for i, e := range ph.Edges {
				if !reach[ph.Block().Preds[i]] {
					continue
				}
				// the edge itself may be a non-end edge
				pred := ph.Block().Preds[i]
				if iff, ok := pred.Instrs[len(pred.Instrs)-1].(*ssa.If); ok && len(pred.Succs) == 2 {
					t, f := m.classify(iff.Cond, true)
					k := 0
					if pred.Succs[1] == ph.Block() && pred.Succs[0] != ph.Block() {
						k = 1
					}
					if (k == 0 && t) || (k == 1 && f) {
						continue
					}
				}
				if !valueOK(e, depth+1) {
					return false
				}
			}
			return true
		}
		t, _ := m.classify(v, true)
		return t
	}
	for _, b := range fn.Blocks {
		if !reach[b] {
			continue
		}
		if ret, isRet := b.Instrs[len(b.Instrs)-1].(*ssa.Return); isRet {
			if !valueOK(retOperand(ret, bi), 0) {
				ok = false
			}
		}
	}
	if ok {
		m.predMemo[fn] = 1
	} else {
		m.predMemo[fn] = 2
	}
	return ok
}

// --- progress -------------------------------------------------------------

func (m *parserModel) progressBlock(b *ssa.BasicBlock) bool {
	for _, in := range b.Instrs {
		if m.kind == "tokenizer" && m.tzAtom(in) {
			return true
		}
		c, ok := in.(*ssa.Call)
		if !ok {
			continue
		}
		f := c.Call.StaticCallee()
		if f == nil {
			continue
		}
		if f == m.advance || m.always[f] {
			return true
		}
	}
	return false
}

// mayMoveCursor: the instruction is a call into the tokenizer's own methods or a progress atom.
func (m *parserModel) mayMoveCursor(in ssa.Instruction) bool {
	if m.tzAtom(in) {
		return true
	}
	if c, ok := in.(ssa.CallInstruction); ok {
		for _, f := range []*ssa.Function{c.Common().StaticCallee()} {
			if f != nil && (m.isParserFn(f) || (f.Signature.Recv() != nil && core.NamedOf(f.Signature.Recv().Type()) == m.posT)) {
				return true
			}
			if f != nil && f.Parent() != nil {
				return true
			}
		}
		if c.Common().StaticCallee() == nil && !c.Common().IsInvoke() {
			if _, isB := c.Common().Value.(*ssa.Builtin); !isB {
				return true
			}
		}
	}
	// whole-position stores (t.pos = saved)
	if st, ok := in.(*ssa.Store); ok && m.tzField(st.Addr, "pos") {
		return true
	}
	return false
}

// siteNonEnd: on every path leading to call, the last event that concerns the
// cursor is a test establishing pos < len(input) (or, while summarising under
// the entry assumption, the function entry itself).
func (m *parserModel) siteNonEnd(call *ssa.Call) bool {
	// 1 = being examined (reaching it again means a cycle without a fresh test: refuse), 2 = established
	seen := map[*ssa.BasicBlock]int{}
	var back func(b *ssa.BasicBlock, upto int) bool
	back = func(b *ssa.BasicBlock, upto int) bool {
		for i := upto - 1; i >= 0; i-- {
			if m.mayMoveCursor(b.Instrs[i]) {
				return false
			}
		}
		if b.Index == 0 {
			return m.assumeEntry
		}
		if len(b.Preds) == 0 {
			return false
		}
		for _, p := range b.Preds {
			// is the edge p->b a non-end edge?
			ne := false
			if iff, ok := p.Instrs[len(p.Instrs)-1].(*ssa.If); ok && len(p.Succs) == 2 {
				t, f := m.classify(iff.Cond, false)
				if (p.Succs[0] == b && t && p.Succs[1] != b) || (p.Succs[1] == b && f && p.Succs[0] != b) {
					ne = true
				}
			}
			if ne {
				continue
			}
			// a path that has already consumed input needs no credit from this call
			k := 0
			if len(p.Succs) == 2 && p.Succs[1] == b && p.Succs[0] != b {
				k = 1
			}
			if m.progressBlock(p) || (len(p.Succs) == 2 && m.progressEdgeNoNE(p, k)) {
				continue
			}
			if seen[p] == 2 {
				continue // a join: this predecessor was already established along another branch
			}
			if seen[p] == 1 {
				return false
			}
			seen[p] = 1
			if !back(p, len(p.Instrs)) {
				return false
			}
			seen[p] = 2
		}
		return true
	}
	b := call.Block()
	idx := 0
	for i, in := range b.Instrs {
		if in == ssa.Instruction(call) {
			idx = i
		}
	}
	return back(b, idx)
}

func isGlobalLoad(v ssa.Value) bool {
	u, ok := v.(*ssa.UnOp)
	if !ok || u.Op != token.MUL {
		return false
	}
	_, isG := u.X.(*ssa.Global)
	return isG
}

func stripNot(v ssa.Value) (ssa.Value, bool) {
	neg := false
	for {
		u, ok := v.(*ssa.UnOp)
		if !ok || u.Op != token.NOT {
			return v, neg
		}
		v = u.X
		neg = !neg
	}
}

// progressEdgeNoNE is progressEdge restricted to unconditional summaries (used
// inside siteNonEnd, which itself serves the conditional ones).
func (m *parserModel) progressEdgeNoNE(b *ssa.BasicBlock, k int) bool {
	m.noNE++
	defer func() { m.noNE-- }()
	return m.progressEdge(b, k)
}

func (m *parserModel) progressEdge(b *ssa.BasicBlock, k int) bool {
	if len(b.Succs) != 2 || len(b.Instrs) == 0 {
		return false
	}
	iff, ok := b.Instrs[len(b.Instrs)-1].(*ssa.If)
	if !ok {
		return false
	}
	cond, neg := stripNot(iff.Cond)
	onTrue := (k == 0) != neg
	switch x := cond.(type) {
	case *ssa.Call:
		if f := x.Call.StaticCallee(); f != nil && m.onTrue[f] {
			return onTrue
		}
	case *ssa.Extract:
		// found-flag result of a multi-result callee
		if c, ok := x.Tuple.(*ssa.Call); ok {
			if f := c.Call.StaticCallee(); f != nil && m.onTrue[f] && types.Identical(x.Type(), types.Typ[types.Bool]) {
				return onTrue
			}
		}
	case *ssa.BinOp:
		// err != nil after a must-advance-on-success call: the nil edge is progress
		e, other := x.X, x.Y
		if core.IsNilConst(e) {
			e, other = other, e
		}
		if core.IsNilConst(other) && (isErrorType(e.Type())) {
			var call *ssa.Call
			switch ev := e.(type) {
			case *ssa.Extract:
				call, _ = ev.Tuple.(*ssa.Call)
			case *ssa.Call:
				call = ev
			}
			if call != nil {
				if f := call.Call.StaticCallee(); f != nil && (m.onOK[f] || (m.noNE == 0 && ((m.onOKne[f] && m.siteNonEnd(call)) || m.auditedSite(f, call)))) {
					if x.Op == token.NEQ {
						return !onTrue
					}
					if x.Op == token.EQL {
						return onTrue
					}
				}
			}
		}
		// err == <internal sentinel> after a callee that advances whenever it returns the sentinel
		if m.kind == "tokenizer" && (x.Op == token.EQL || x.Op == token.NEQ) {
			e, sv := x.X, x.Y
			if isGlobalLoad(e) {
				e, sv = sv, e
			}
			if isGlobalLoad(sv) && isErrorType(e.Type()) {
				var call *ssa.Call
				switch ev := e.(type) {
				case *ssa.Extract:
					call, _ = ev.Tuple.(*ssa.Call)
				case *ssa.Call:
					call = ev
				}
				if call != nil {
					if f := call.Call.StaticCallee(); f != nil && m.onSent[f] {
						if x.Op == token.EQL {
							return onTrue
						}
						return !onTrue
					}
				}
			}
		}
		// forced advance idiom: cursor compared with an earlier snapshot of the cursor
		if (x.Op == token.EQL || x.Op == token.NEQ) && m.isCursorLoad(x.X) && m.isCursorLoad(x.Y) {
			if x.Op == token.EQL {
				return !onTrue
			}
			return onTrue
		}
		if (x.Op == token.EQL || x.Op == token.NEQ) && (m.isCursorLoad(x.X) || m.isCursorLoad(x.Y)) {
			other := x.Y
			if m.isCursorLoad(x.Y) {
				other = x.X
			}
			if ph, ok := other.(*ssa.Phi); ok {
				_ = ph
			}
			if m.isCursorLoad(other) {
				if x.Op == token.EQL {
					return !onTrue
				}
				return onTrue
			}
		}
	}
	return false
}

func (m *parserModel) spec() loopSpec {
	return loopSpec{
		local: func(c []*ssa.BasicBlock) bool {
			for _, b := range c {
				for _, in := range b.Instrs {
					switch x := in.(type) {
					case *ssa.FieldAddr:
						if m.kind == "tokenizer" {
							if m.tzField(x, "pos") {
								return false
							}
						} else if isFieldOf(x, m.T, "currentPos") || isFieldOf(x, m.T, "currentToken") {
							return false
						}
					case ssa.CallInstruction:
						if f := x.Common().StaticCallee(); f != nil && (m.isParserFn(f) || f.Parent() != nil) {
							return false
						}
						if x.Common().StaticCallee() == nil && !x.Common().IsInvoke() {
							if _, isB := x.Common().Value.(*ssa.Builtin); !isB {
								return false
							}
						}
					}
				}
			}
			return true
		},
		progressBlock: m.progressBlock,
		progressEdge:  m.progressEdge,
		nonEndEdge: func(b *ssa.BasicBlock, k int) bool {
			if len(b.Succs) != 2 || len(b.Instrs) == 0 {
				return false
			}
			iff, ok := b.Instrs[len(b.Instrs)-1].(*ssa.If)
			if !ok {
				return false
			}
			t, f := m.classify(iff.Cond, false)
			if (k == 0 && t) || (k == 1 && f) {
				return true
			}
			// tokenizer: an edge that certifies "the callee consumed input" also certifies that the
			// cursor was not at the end when the iteration started (input is only consumed below len(input))
			return m.kind == "tokenizer" && m.progressEdge(b, k)
		},
	}
}

// newTokenizerModel builds the byte-cursor model for pkg/sql/tokenizer.
func newTokenizerModel(p *core.Prog) (*parserModel, string) {
	pk := p.Pkg("pkg/sql/tokenizer")
	if pk == nil {
		return nil, "package pkg/sql/tokenizer"
	}
	tobj := pk.Types.Scope().Lookup("Tokenizer")
	pobj := pk.Types.Scope().Lookup("Position")
	if tobj == nil || pobj == nil {
		return nil, "types Tokenizer / Position"
	}
	m := &parserModel{p: p, kind: "tokenizer", T: tobj.Type().(*types.Named), posT: pobj.Type().(*types.Named), always: map[*ssa.Function]bool{}, onOK: map[*ssa.Function]bool{}, onTrue: map[*ssa.Function]bool{}, onSent: map[*ssa.Function]bool{}, onOKne: map[*ssa.Function]bool{}, predMemo: map[*ssa.Function]int{}, paramEq: map[*ssa.Function]bool{}}
	st := core.StructOf(m.T)
	for _, f := range []string{"input", "pos"} {
		found := false
		for i := 0; i < st.NumFields(); i++ {
			if st.Field(i).Name() == f {
				found = true
			}
		}
		if !found {
			return nil, "field Tokenizer." + f
		}
	}
	if adv := p.Method("pkg/sql/tokenizer", "Position", "AdvanceRune"); adv == nil {
		return nil, "method (*Position).AdvanceRune"
	} else {
		// shape: Index is increased by a value forced to be >= 1
		ok := false
		for _, b := range adv.Blocks {
			for _, in := range b.Instrs {
				if st, isSt := in.(*ssa.Store); isSt {
					if fa, isFa := st.Addr.(*ssa.FieldAddr); isFa && core.FieldName(fa.X.Type(), fa.Field) == "Index" {
						if bo, isBo := st.Val.(*ssa.BinOp); isBo && bo.Op == token.ADD {
							if ph, isPhi := bo.Y.(*ssa.Phi); isPhi {
								// size == 0 ? 1 : size
								for _, e := range ph.Edges {
									if k, isC := core.ConstInt(e); isC && k >= 1 {
										ok = true
									}
								}
							}
						}
					}
				}
			}
		}
		if !ok {
			return nil, "AdvanceRune no longer forces a step of at least one byte (size == 0 fallback)"
		}
	}
	m.fns = p.SrcFuncs("pkg/sql/tokenizer")
	m.solve()
	return m, ""
}

// solve computes the must-advance summaries as a greatest fixed point.
func (m *parserModel) solve() {
	var cands []*ssa.Function
	for _, fn := range m.fns {
		if fn.Parent() != nil || !m.isParserFn(fn) || fn == m.advance {
			continue
		}
		cands = append(cands, fn)
		res := fn.Signature.Results()
		m.always[fn] = true
		if res.Len() > 0 && isErrorType(res.At(res.Len()-1).Type()) {
			m.onOK[fn] = true
		}
		for i := 0; i < res.Len(); i++ {
			if types.Identical(res.At(i).Type(), types.Typ[types.Bool]) {
				m.onTrue[fn] = true
			}
		}
		if m.kind == "tokenizer" && m.onOK[fn] {
			m.onSent[fn] = true
			m.onOKne[fn] = true
		}
	}
	for changed := true; changed; {
		changed = false
		for _, fn := range cands {
			if m.always[fn] && !m.mustAdvance(fn, "always") {
				m.always[fn] = false
				changed = true
			}
			if m.onOK[fn] && !m.mustAdvance(fn, "ok") {
				m.onOK[fn] = false
				changed = true
			}
			if m.onTrue[fn] && !m.mustAdvance(fn, "true") {
				m.onTrue[fn] = false
				changed = true
			}
			if m.onSent[fn] && !m.mustAdvance(fn, "sentinel") {
				m.onSent[fn] = false
				changed = true
			}
			if m.onOKne[fn] && !m.mustAdvance(fn, "ok-ne") {
				m.onOKne[fn] = false
				changed = true
			}
		}
	}
}

// mustAdvance: no path from entry to a relevant return avoids progress.
func (m *parserModel) mustAdvance(fn *ssa.Function, mode string) bool {
	ne := mode == "ok-ne"
	if ne {
		mode = "ok"
		m.assumeEntry = true
		defer func() { m.assumeEntry = false }()
	}
	type state struct {
		b     *ssa.BasicBlock
		clean bool
	}
	seen := map[state]bool{}
	work := []state{{fn.Blocks[0], true}}
	for len(work) > 0 {
		st := work[len(work)-1]
		work = work[:len(work)-1]
		if seen[st] {
			continue
		}
		seen[st] = true
		b := st.b
		if m.progressBlock(b) {
			continue
		}
		clean := st.clean
		if ne && clean {
			for _, in := range b.Instrs {
				if m.mayMoveCursor(in) {
					clean = false
				}
			}
		}
		if ret, ok := b.Instrs[len(b.Instrs)-1].(*ssa.Return); ok {
			if m.relevantReturn(fn, ret, mode) && !(ne && m.tailNE(ret)) {
				if os.Getenv("GOSQLX_SA_DEBUG") == fn.Name() {
					fmt.Fprintf(os.Stderr, "DEBUG %s mode=%s ne=%v: return at %s reachable without progress (block %d)\n", fn.Name(), mode, ne, m.p.Pos(ret.Pos()), b.Index)
				}
				return false
			}
		}
		for k, s := range b.Succs {
			if m.progressEdge(b, k) {
				continue
			}
			if ne && st.clean && len(b.Succs) == 2 {
				// the cursor has not moved since entry and entry was below len(input): at-end edges are infeasible
				if iff, ok := b.Instrs[len(b.Instrs)-1].(*ssa.If); ok {
					t, f := m.classify(iff.Cond, false)
					if (k == 1 && t) || (k == 0 && f) {
						continue
					}
				}
			}
			work = append(work, state{s, clean})
		}
	}
	return true
}

// Audited precondition summaries: functions that advance on success only when a
// precondition holds at entry; each call site must establish it.
//
//	readNumber: "the next rune is an ASCII digit" (its first loop consumes digits and may consume none).
//
// A call site establishes it when it is control-dependent on `r >= '0'` and `r <= '9'` for the rune
// decoded at the cursor, or when the caller has already consumed input before the call.
var auditedPre = map[string]string{
	"readNumber": "next rune is a digit, or the caller already advanced",
}

func (m *parserModel) auditedSite(f *ssa.Function, call *ssa.Call) bool {
	if m.kind != "tokenizer" || f == nil || auditedPre[f.Name()] == "" || !m.isParserFn(f) {
		return false
	}
	b := call.Block()
	if os.Getenv("GOSQLX_SA_DEBUG") != "" {
		for _, cd := range core.ControlDeps(b) {
			fmt.Fprintf(os.Stderr, "DEBUG auditedSite %s in %s: dep %s succ=%d\n", f.Name(), b.Parent().Name(), cd.If.Cond.String(), cd.Succ)
		}
	}
	// (a) digit guard
	ge, le := false, false
	var conj []*ssa.BinOp
	for _, cd := range core.ControlDeps(b) {
		if cd.Succ == 0 {
			conj = append(conj, condConjuncts(cd.If.Cond, 0)...)
		}
	}
	for _, bo := range conj {
		ex, ok := bo.X.(*ssa.Extract)
		if !ok || ex.Index != 0 {
			continue
		}
		c, ok := ex.Tuple.(*ssa.Call)
		if !ok || c.Call.StaticCallee() == nil || !strings.HasPrefix(c.Call.StaticCallee().Name(), "DecodeRune") {
			continue
		}
		k, _ := core.ConstInt(bo.Y)
		if bo.Op == token.GEQ && k == '0' {
			ge = true
		}
		if bo.Op == token.LEQ && k == '9' {
			le = true
		}
	}
	if ge && le {
		return true
	}
	// (b) the caller consumed input on every path to the call
	for _, d := range b.Parent().Blocks {
		if d != b && d.Dominates(b) {
			for _, in := range d.Instrs {
				if m.tzAtom(in) {
					return true
				}
			}
		}
	}
	for _, in := range b.Instrs {
		if in == ssa.Instruction(call) {
			break
		}
		if m.tzAtom(in) {
			return true
		}
	}
	return false
}

// condConjuncts lists comparisons that certainly hold when v is true; it looks
// through the phi form of `a && b`.
func condConjuncts(v ssa.Value, depth int) []*ssa.BinOp {
	if depth > 4 {
		return nil
	}
	switch x := v.(type) {
	case *ssa.BinOp:
		return []*ssa.BinOp{x}
	case *ssa.Phi:
		var out []*ssa.BinOp
		n := 0
		for i, e := range x.Edges {
			if c, ok := e.(*ssa.Const); ok && c.Value != nil && c.Value.String() == "false" {
				continue
			}
			n++
			out = append(out, condConjuncts(e, depth+1)...)
			p := x.Block().Preds[i]
			if len(p.Preds) == 1 {
				q := p.Preds[0]
				if iff, ok := q.Instrs[len(q.Instrs)-1].(*ssa.If); ok && len(q.Succs) == 2 && q.Succs[0] == p && q.Succs[1] != p {
					out = append(out, condConjuncts(iff.Cond, depth+1)...)
				}
			}
		}
		if n == 1 {
			return out
		}
	}
	return nil
}

// tailNE: return f(...) of a callee that advances on success when not at end, called at a non-end site.
func (m *parserModel) tailNE(ret *ssa.Return) bool {
	e := retOperand(ret, len(ret.Results)-1)
	var call *ssa.Call
	switch ev := e.(type) {
	case *ssa.Extract:
		call, _ = ev.Tuple.(*ssa.Call)
	case *ssa.Call:
		call = ev
	}
	if call == nil {
		return false
	}
	f := call.Call.StaticCallee()
	return f != nil && ((m.onOKne[f] && m.siteNonEnd(call)) || m.auditedSite(f, call))
}

// retOperand resolves the i-th result of ret through the result cells go/ssa
// introduces in functions with defer (*cell = v; rundefers; load cell; return).
func retOperand(ret *ssa.Return, i int) ssa.Value {
	v := ret.Results[i]
	u, ok := v.(*ssa.UnOp)
	if !ok || u.Op != token.MUL {
		return v
	}
	cell, ok := u.X.(*ssa.Alloc)
	if !ok {
		return v
	}
	var last ssa.Value
	for _, in := range ret.Block().Instrs {
		if in == ssa.Instruction(u) {
			break
		}
		if st, ok := in.(*ssa.Store); ok && st.Addr == ssa.Value(cell) {
			last = st.Val
		}
	}
	if last != nil {
		return last
	}
	return v
}

func (m *parserModel) relevantReturn(fn *ssa.Function, ret *ssa.Return, mode string) bool {
	switch mode {
	case "always":
		return true
	case "ok":
		e := retOperand(ret, len(ret.Results)-1)
		if core.IsNilConst(e) {
			return true
		}
		// tail call: return p.parseX()
		var call *ssa.Call
		switch ev := e.(type) {
		case *ssa.Extract:
			call, _ = ev.Tuple.(*ssa.Call)
		case *ssa.Call:
			call = ev
		}
		if call != nil {
			if f := call.Call.StaticCallee(); f != nil && (m.onOK[f] || f == fn || m.auditedSite(f, call)) {
				return false
			}
		}
		if m.nonNilErr(e, 0) {
			return false
		}
		// a value known non-nil: block dominated by the true edge of `e != nil`
		if nonNilHere(e, ret.Block()) {
			return false
		}
		return true
	case "sentinel":
		e := retOperand(ret, len(ret.Results)-1)
		if core.IsNilConst(e) || m.nonNilErr(e, 0) && !isGlobalLoad(e) {
			if _, isMk := e.(*ssa.MakeInterface); isMk || core.IsNilConst(e) {
				return false
			}
		}
		if isGlobalLoad(e) {
			return true
		}
		var call *ssa.Call
		switch ev := e.(type) {
		case *ssa.Extract:
			call, _ = ev.Tuple.(*ssa.Call)
		case *ssa.Call:
			call = ev
		}
		if call != nil {
			if f := call.Call.StaticCallee(); f != nil {
				if m.onSent[f] || f == fn {
					return false
				}
				if !m.isParserFn(f) {
					return false // foreign/builder calls never yield the sentinel
				}
			}
			return true
		}
		if _, isMk := e.(*ssa.MakeInterface); isMk {
			return false
		}
		return true
	case "true":
		for i := range ret.Results {
			v := retOperand(ret, i)
			if !types.Identical(v.Type(), types.Typ[types.Bool]) {
				continue
			}
			if c, ok := v.(*ssa.Const); ok {
				if c.Value != nil && c.Value.String() == "true" {
					return true
				}
				continue
			}
			if call, ok := v.(*ssa.Call); ok {
				if f := call.Call.StaticCallee(); f != nil && m.onTrue[f] {
					continue
				}
			}
			if ex, ok := v.(*ssa.Extract); ok {
				if call, ok := ex.Tuple.(*ssa.Call); ok {
					if f := call.Call.StaticCallee(); f != nil && m.onTrue[f] {
						continue
					}
				}
			}
			return true
		}
	}
	return false
}

// nonNilErr: the error value is certainly non-nil: a freshly built error.
func (m *parserModel) nonNilErr(v ssa.Value, depth int) bool {
	if depth > 5 {
		return false
	}
	switch x := v.(type) {
	case *ssa.MakeInterface:
		return true
	case *ssa.Call:
		f := x.Call.StaticCallee()
		if f == nil {
			return false
		}
		if pk := core.FnPkg(f); pk != nil {
			if (pk.Path() == "fmt" && f.Name() == "Errorf") || (pk.Path() == "errors" && f.Name() == "New") {
				return true
			}
		}
		if f.Blocks == nil || !core.InModule(f) {
			return false
		}
		if v, ok := m.nonNilMemo[f]; ok {
			return v
		}
		if m.nonNilMemo == nil {
			m.nonNilMemo = map[*ssa.Function]bool{}
		}
		m.nonNilMemo[f] = false
		all := true
		n := 0
		for _, b := range f.Blocks {
			if ret, ok := b.Instrs[len(b.Instrs)-1].(*ssa.Return); ok && len(ret.Results) > 0 {
				n++
				if !m.nonNilErr(ret.Results[len(ret.Results)-1], depth+1) {
					all = false
				}
			}
		}
		m.nonNilMemo[f] = all && n > 0
		return all && n > 0
	case *ssa.Phi:
		for _, e := range x.Edges {
			if !m.nonNilErr(e, depth+1) {
				return false
			}
		}
		return len(x.Edges) > 0
	}
	return false
}

// nonNilHere: block b is only reachable through the non-nil edge of a test of e.
func nonNilHere(e ssa.Value, b *ssa.BasicBlock) bool {
	for _, ref := range core.Referrers(e) {
		bo, ok := ref.(*ssa.BinOp)
		if !ok || !(bo.Op == token.NEQ || bo.Op == token.EQL) {
			continue
		}
		if !core.IsNilConst(bo.X) && !core.IsNilConst(bo.Y) {
			continue
		}
		for _, r2 := range core.Referrers(bo) {
			iff, ok := r2.(*ssa.If)
			if !ok {
				continue
			}
			s := iff.Block().Succs[0]
			if bo.Op == token.EQL {
				s = iff.Block().Succs[1]
			}
			if s.Dominates(b) && len(s.Preds) == 1 {
				return true
			}
		}
	}
	return false
}
