package rules

import (
	"fmt"
	"go/token"
	"go/types"
	"os"
	"sort"
	"strings"

	"golang.org/x/tools/go/ssa"

	"gosqlxsa/core"
)

// E2: loop progress / end-of-input exit over SSA block graphs.

// loopSpec supplies the cursor-specific atoms.
type loopSpec struct {
	progressBlock func(b *ssa.BasicBlock) bool
	progressEdge  func(b *ssa.BasicBlock, k int) bool
	nonEndEdge    func(b *ssa.BasicBlock, k int) bool
}

// blockSCCs returns the non-trivial SCCs of the block graph of fn with the
// edge filter keep(b,k) and block filter drop(b).
func blockSCCs(fn *ssa.Function, drop func(*ssa.BasicBlock) bool, keep func(*ssa.BasicBlock, int) bool, within map[*ssa.BasicBlock]bool) [][]*ssa.BasicBlock {
	index := 0
	idx := map[*ssa.BasicBlock]int{}
	low := map[*ssa.BasicBlock]int{}
	on := map[*ssa.BasicBlock]bool{}
	var stack []*ssa.BasicBlock
	var out [][]*ssa.BasicBlock
	succs := func(b *ssa.BasicBlock) []*ssa.BasicBlock {
		if drop != nil && drop(b) {
			return nil
		}
		var r []*ssa.BasicBlock
		for k, s := range b.Succs {
			if within != nil && !within[s] {
				continue
			}
			if drop != nil && drop(s) {
				continue
			}
			if keep != nil && !keep(b, k) {
				continue
			}
			r = append(r, s)
		}
		return r
	}
	var strong func(v *ssa.BasicBlock)
	strong = func(v *ssa.BasicBlock) {
		idx[v] = index
		low[v] = index
		index++
		stack = append(stack, v)
		on[v] = true
		for _, w := range succs(v) {
			if _, ok := idx[w]; !ok {
				strong(w)
				if low[w] < low[v] {
					low[v] = low[w]
				}
			} else if on[w] && idx[w] < low[v] {
				low[v] = idx[w]
			}
		}
		if low[v] == idx[v] {
			var comp []*ssa.BasicBlock
			for {
				w := stack[len(stack)-1]
				stack = stack[:len(stack)-1]
				on[w] = false
				comp = append(comp, w)
				if w == v {
					break
				}
			}
			self := false
			if len(comp) == 1 {
				for _, w := range succs(v) {
					if w == v {
						self = true
					}
				}
			}
			if len(comp) > 1 || self {
				sort.Slice(comp, func(i, j int) bool { return comp[i].Index < comp[j].Index })
				out = append(out, comp)
			}
		}
	}
	for _, b := range fn.Blocks {
		if within != nil && !within[b] {
			continue
		}
		if _, ok := idx[b]; !ok {
			strong(b)
		}
	}
	sort.Slice(out, func(i, j int) bool { return out[i][0].Index < out[j][0].Index })
	return out
}

func blockSet(bs []*ssa.BasicBlock) map[*ssa.BasicBlock]bool {
	m := map[*ssa.BasicBlock]bool{}
	for _, b := range bs {
		m[b] = true
	}
	return m
}

// boundedCycle: the residual cycle comp is a counted / range loop: it has a
// header whose exit test compares an induction variable (a phi of the cycle,
// advanced by a constant on every iteration) with a loop-invariant bound, or
// is a map/iterator range; and every cycle of comp passes that header.
func boundedCycle(fn *ssa.Function, comp []*ssa.BasicBlock) (bool, string) {
	in := blockSet(comp)
	for _, h := range comp {
		if len(h.Instrs) == 0 || len(h.Succs) != 2 {
			continue
		}
		iff, ok := h.Instrs[len(h.Instrs)-1].(*ssa.If)
		if !ok {
			continue
		}
		if in[h.Succs[0]] && in[h.Succs[1]] {
			continue
		}
		okCond, why := inductionTest(iff.Cond, in)
		if !okCond {
			continue
		}
		// every other cycle either passes h or is itself a bounded (nested) loop
		rest := blockSCCs(fn, func(b *ssa.BasicBlock) bool { return b == h }, nil, in)
		allOK := true
		for _, sub := range rest {
			if ok, _ := boundedCycle(fn, sub); !ok {
				allOK = false
			}
		}
		if allOK {
			return true, why
		}
	}
	return false, ""
}

// inductionTest: cond compares an induction variable of the cycle with an invariant bound.
func inductionTest(cond ssa.Value, in map[*ssa.BasicBlock]bool) (bool, string) {
	if ex, ok := cond.(*ssa.Extract); ok && ex.Index == 0 {
		if nx, ok := ex.Tuple.(*ssa.Next); ok {
			_ = nx
			return true, "range over map/string iterator"
		}
	}
	bo, ok := cond.(*ssa.BinOp)
	if !ok {
		return false, ""
	}
	switch bo.Op {
	case token.LSS, token.LEQ, token.GTR, token.GEQ, token.NEQ:
	default:
		return false, ""
	}
	isInd := func(v ssa.Value) bool {
		// phi in the cycle, or phi±const
		if b, ok := v.(*ssa.BinOp); ok && (b.Op == token.ADD || b.Op == token.SUB) {
			if _, isC := core.ConstInt(b.Y); isC {
				v = b.X
			}
		}
		ph, ok := v.(*ssa.Phi)
		if !ok || !in[ph.Block()] {
			return false
		}
		// every edge from inside the cycle is phi ± positive const
		stepOK := false
		for i, e := range ph.Edges {
			pred := ph.Block().Preds[i]
			if !in[pred] {
				continue
			}
			b, ok := e.(*ssa.BinOp)
			if !ok || !(b.Op == token.ADD || b.Op == token.SUB) {
				return false
			}
			k, isC := core.ConstInt(b.Y)
			if !isC || k == 0 || b.X != ssa.Value(ph) {
				return false
			}
			stepOK = true
		}
		return stepOK
	}
	isInv := func(v ssa.Value) bool {
		if _, ok := v.(*ssa.Const); ok {
			return true
		}
		if in2, ok := v.(ssa.Instruction); ok {
			if in[in2.Block()] {
				// len(x) of an invariant x recomputed in the loop
				if l := core.LenOf(v); l != nil {
					if li, ok := l.(ssa.Instruction); ok && in[li.Block()] {
						// load of a variable inside the loop: accept a load of a parameter-derived / field value that the loop does not store to
						return loadInvariant(l, in)
					}
					return true
				}
				return false
			}
		}
		return true
	}
	if (isInd(bo.X) && isInv(bo.Y)) || (isInd(bo.Y) && isInv(bo.X)) {
		return true, "counted loop over an induction variable with an invariant bound"
	}
	return false, ""
}

// loadInvariant: v is a load of an address that no instruction of the cycle stores to.
func loadInvariant(v ssa.Value, in map[*ssa.BasicBlock]bool) bool {
	u, ok := v.(*ssa.UnOp)
	if !ok || u.Op != token.MUL {
		return false
	}
	for b := range in {
		for _, ins := range b.Instrs {
			if st, ok := ins.(*ssa.Store); ok && sameAddr(st.Addr, u.X) {
				return false
			}
		}
	}
	return true
}

func sameAddr(a, b ssa.Value) bool {
	if a == b {
		return true
	}
	fa, ok1 := a.(*ssa.FieldAddr)
	fb, ok2 := b.(*ssa.FieldAddr)
	if ok1 && ok2 && fa.Field == fb.Field {
		return sameAddr(fa.X, fb.X) || (types.Identical(fa.X.Type(), fb.X.Type()))
	}
	return false
}

// loopFinding is one residual cycle.
type loopFinding struct {
	ordinal int
	kind    string // "no-progress" or "end-spin"
	pos     token.Pos
	blocks  []*ssa.BasicBlock
}

// checkLoops examines every loop nest (CFG SCC) of fn.
func checkLoops(fn *ssa.Function, spec loopSpec) (nloops int, bounded int, findings []loopFinding) {
	all := blockSCCs(fn, nil, nil, nil)
	for i, scc := range all {
		nloops++
		in := blockSet(scc)
		// (a) progress
		resA := blockSCCs(fn, spec.progressBlock, func(b *ssa.BasicBlock, k int) bool { return !spec.progressEdge(b, k) }, in)
		// (b) end-of-input exit
		resB := blockSCCs(fn, nil, func(b *ssa.BasicBlock, k int) bool { return !spec.nonEndEdge(b, k) }, in)
		allBounded := true
		for _, c := range resA {
			if ok, _ := boundedCycle(fn, c); !ok {
				allBounded = false
				findings = append(findings, loopFinding{i + 1, "no-progress", firstPos(c), c})
			}
		}
		for _, c := range resB {
			if ok, _ := boundedCycle(fn, c); !ok {
				allBounded = false
				findings = append(findings, loopFinding{i + 1, "end-spin", firstPos(c), c})
			}
		}
		if allBounded && (len(resA) > 0 || len(resB) > 0) {
			bounded++
		}
	}
	return
}

func firstPos(bs []*ssa.BasicBlock) token.Pos {
	for _, b := range bs {
		for _, in := range b.Instrs {
			if in.Pos().IsValid() {
				return in.Pos()
			}
		}
	}
	return token.NoPos
}

// ---------------------------------------------------------------------------
// Parser cursor model

type parserModel struct {
	p          *core.Prog
	T          *types.Named
	tokT       *types.Named // token.Token
	eof        int64
	advance    *ssa.Function
	fns        []*ssa.Function
	always     map[*ssa.Function]bool
	onOK       map[*ssa.Function]bool
	onTrue     map[*ssa.Function]bool
	predMemo   map[*ssa.Function]int // 1 implies-non-end, 2 not
	paramEq    map[*ssa.Function]bool
	nonNilMemo map[*ssa.Function]bool
}

func newParserModel(p *core.Prog) (*parserModel, string) {
	pk := p.Pkg("pkg/sql/parser")
	mk := p.Pkg("pkg/models")
	if pk == nil {
		return nil, "package pkg/sql/parser"
	}
	tobj := pk.Types.Scope().Lookup("Parser")
	if tobj == nil {
		return nil, "type Parser"
	}
	m := &parserModel{p: p, T: tobj.Type().(*types.Named), always: map[*ssa.Function]bool{}, onOK: map[*ssa.Function]bool{}, onTrue: map[*ssa.Function]bool{}, predMemo: map[*ssa.Function]int{}, paramEq: map[*ssa.Function]bool{}}
	var mtypes *types.Package
	if mk != nil {
		mtypes = mk.Types
	} else {
		for _, imp := range pk.Types.Imports() {
			if strings.HasSuffix(imp.Path(), "/pkg/models") {
				mtypes = imp
			}
		}
	}
	if mtypes == nil {
		return nil, "package pkg/models"
	}
	eof, ok := intConst(mtypes, "TokenTypeEOF")
	if !ok {
		return nil, "constant models.TokenTypeEOF"
	}
	m.eof = eof
	st := core.StructOf(m.T)
	for _, f := range []string{"tokens", "currentPos", "currentToken"} {
		found := false
		for i := 0; i < st.NumFields(); i++ {
			if st.Field(i).Name() == f {
				found = true
			}
		}
		if !found {
			return nil, "field Parser." + f
		}
	}
	m.fns = p.SrcFuncs("pkg/sql/parser")
	// advance: the method whose entry block increments currentPos
	for _, fn := range m.fns {
		if fn.Parent() != nil || len(fn.Blocks) == 0 || fn.Signature.Recv() == nil || core.NamedOf(fn.Signature.Recv().Type()) != m.T {
			continue
		}
		for _, in := range fn.Blocks[0].Instrs {
			if st, ok := in.(*ssa.Store); ok && isFieldOf(st.Addr, m.T, "currentPos") {
				if bo, ok := st.Val.(*ssa.BinOp); ok && bo.Op == token.ADD && loadOfField(bo.X, m.T, "currentPos") {
					if k, isC := core.ConstInt(bo.Y); isC && k == 1 && fn.Signature.Results().Len() == 0 {
						m.advance = fn
					}
				}
			}
		}
	}
	if m.advance == nil {
		return nil, "the method that increments Parser.currentPos (advance)"
	}
	m.solve()
	return m, ""
}

// curTokField: v is (derived from) p.currentToken.<field>; returns the field name.
func (m *parserModel) curTokField(v ssa.Value, depth int) string {
	if depth > 6 {
		return ""
	}
	switch x := v.(type) {
	case *ssa.UnOp:
		if x.Op == token.MUL {
			return m.curTokField(x.X, depth+1)
		}
	case *ssa.FieldAddr:
		if isFieldOf(x.X, m.T, "currentToken") {
			return core.FieldName(x.X.Type(), x.Field)
		}
	case *ssa.Field:
		if u, ok := x.X.(*ssa.UnOp); ok && isFieldOf(u.X, m.T, "currentToken") {
			return core.FieldName(x.X.Type(), x.Field)
		}
	case *ssa.Call:
		if f := x.Call.StaticCallee(); f != nil && core.FnPkg(f) != nil && core.FnPkg(f).Path() == "strings" && (f.Name() == "ToUpper" || f.Name() == "ToLower" || f.Name() == "TrimSpace") {
			return m.curTokField(x.Call.Args[0], depth+1)
		}
	case *ssa.Convert:
		return m.curTokField(x.X, depth+1)
	case *ssa.ChangeType:
		return m.curTokField(x.X, depth+1)
	}
	return ""
}

func (m *parserModel) isCursorLoad(v ssa.Value) bool { return loadOfField(v, m.T, "currentPos") }

// paramish: v is a parameter of fn, an element of a variadic parameter, or a
// case-normalised parameter.
func paramish(v ssa.Value, depth int) bool {
	if depth > 5 {
		return false
	}
	switch x := v.(type) {
	case *ssa.Parameter:
		return true
	case *ssa.UnOp:
		if x.Op == token.MUL {
			return paramish(x.X, depth+1)
		}
	case *ssa.IndexAddr:
		return paramish(x.X, depth+1)
	case *ssa.Index:
		return paramish(x.X, depth+1)
	case *ssa.Call:
		if f := x.Call.StaticCallee(); f != nil && core.FnPkg(f) != nil && core.FnPkg(f).Path() == "strings" && len(x.Call.Args) > 0 {
			return paramish(x.Call.Args[0], depth+1)
		}
	case *ssa.Convert:
		return paramish(x.X, depth+1)
	}
	return false
}

// classify returns whether the true / false outcome of cond implies that the
// current token is not the synthetic end-of-input token. inPred is set while
// summarising a predicate: comparisons with the predicate's own parameters count
// (their constants are checked at the call sites).
func (m *parserModel) classify(cond ssa.Value, inPred bool) (t, f bool) {
	switch x := cond.(type) {
	case *ssa.UnOp:
		if x.Op == token.NOT {
			a, b := m.classify(x.X, inPred)
			return b, a
		}
	case *ssa.BinOp:
		a, b := x.X, x.Y
		if _, isC := a.(*ssa.Const); isC {
			a, b = b, a
		}
		switch m.curTokField(a, 0) {
		case "Type":
			if k, ok := core.ConstInt(b); ok {
				switch x.Op {
				case token.EQL:
					if k != m.eof {
						return true, false
					}
					return false, true
				case token.NEQ:
					if k == m.eof {
						return true, false
					}
					return false, true
				}
			} else if inPred && paramish(b, 0) && x.Op == token.EQL {
				return true, false
			}
		case "Literal":
			if s, ok := core.ConstString(b); ok && s != "" {
				switch x.Op {
				case token.EQL:
					return true, false
				case token.NEQ:
					return false, true
				}
			} else if inPred && paramish(b, 0) && x.Op == token.EQL {
				return true, false
			}
		}
		// currentPos < len(tokens)
		if m.isCursorLoad(x.X) && core.LenOf(x.Y) != nil {
			switch x.Op {
			case token.LSS:
				return true, false
			case token.GEQ:
				return false, true
			}
		}
	case *ssa.Call:
		callee := x.Call.StaticCallee()
		if callee == nil {
			return false, false
		}
		if pk := core.FnPkg(callee); pk != nil && pk.Path() == "strings" && callee.Name() == "EqualFold" && len(x.Call.Args) == 2 {
			for i := 0; i < 2; i++ {
				if m.curTokField(x.Call.Args[i], 0) == "Literal" {
					if s, ok := core.ConstString(x.Call.Args[1-i]); ok && s != "" {
						return true, false
					}
					if inPred && paramish(x.Call.Args[1-i], 0) {
						return true, false
					}
				}
			}
			return false, false
		}
		if !m.isParserFn(callee) {
			return false, false
		}
		// arguments at this call site
		hasEOF, allConstOrParam := false, true
		for _, a := range x.Call.Args[1:] {
			for _, leaf := range argLeaves(a) {
				if k, ok := core.ConstInt(leaf); ok {
					if k == m.eof && isTokenTypeT(leaf.Type()) {
						hasEOF = true
					}
				} else if s, ok := core.ConstString(leaf); ok {
					if s == "" {
						allConstOrParam = false
					}
				} else if !(inPred && paramish(leaf, 0)) {
					allConstOrParam = false
				}
			}
		}
		if m.paramEq[callee] && hasEOF && len(x.Call.Args) == 2 {
			return false, true
		}
		if m.predImplies(callee) && !hasEOF && allConstOrParam {
			return true, false
		}
	case *ssa.Extract:
		if call, ok := x.Tuple.(*ssa.Call); ok && types.Identical(x.Type(), types.Typ[types.Bool]) {
			if callee := call.Call.StaticCallee(); callee != nil && m.isParserFn(callee) && len(call.Call.Args) == 1 && m.predImplies(callee) {
				return true, false
			}
		}
	case *ssa.Phi:
		// a && b lowered to phi [false, b]: true only if every non-false edge is true-implying
		allT := len(x.Edges) > 0
		for _, e := range x.Edges {
			if c, ok := e.(*ssa.Const); ok && c.Value != nil && c.Value.String() == "false" {
				continue
			}
			et, _ := m.classify(e, inPred)
			if !et {
				// the edge may also come from a block only reachable through a true-implying branch
				allT = false
			}
		}
		return allT, false
	}
	return false, false
}

func isTokenTypeT(t types.Type) bool {
	n := core.NamedOf(t)
	return n != nil && n.Obj().Name() == "TokenType"
}

// argLeaves expands a variadic slice argument into its elements.
func argLeaves(a ssa.Value) []ssa.Value {
	if sl, ok := a.(*ssa.Slice); ok {
		if ops := variadicOperands(sl); len(ops) > 0 {
			return ops
		}
	}
	return []ssa.Value{a}
}

func (m *parserModel) isParserFn(fn *ssa.Function) bool {
	return fn != nil && fn.Blocks != nil && fn.Signature.Recv() != nil && core.NamedOf(fn.Signature.Recv().Type()) == m.T
}

// predImplies: every way the bool-returning method can return true passes a
// condition outcome that implies "not at end of input".
func (m *parserModel) predImplies(fn *ssa.Function) bool {
	if v, ok := m.predMemo[fn]; ok {
		return v == 1
	}
	bi := -1
	for i := 0; i < fn.Signature.Results().Len(); i++ {
		if types.Identical(fn.Signature.Results().At(i).Type(), types.Typ[types.Bool]) {
			bi = i
		}
	}
	if !m.isParserFn(fn) || bi < 0 {
		m.predMemo[fn] = 2
		return false
	}
	m.predMemo[fn] = 1 // optimistic for recursion
	// exact isType shape
	if len(fn.Blocks) == 1 && len(fn.Params) == 2 {
		if ret, ok := fn.Blocks[0].Instrs[len(fn.Blocks[0].Instrs)-1].(*ssa.Return); ok && len(ret.Results) == 1 {
			if bo, ok := ret.Results[0].(*ssa.BinOp); ok && bo.Op == token.EQL && m.curTokField(bo.X, 0) == "Type" && bo.Y == ssa.Value(fn.Params[1]) {
				m.paramEq[fn] = true
			}
		}
	}
	// blocks reachable from entry without taking a non-end-implying edge
	reach := map[*ssa.BasicBlock]bool{}
	work := []*ssa.BasicBlock{fn.Blocks[0]}
	for len(work) > 0 {
		b := work[len(work)-1]
		work = work[:len(work)-1]
		if reach[b] {
			continue
		}
		reach[b] = true
		if iff, ok := b.Instrs[len(b.Instrs)-1].(*ssa.If); ok && len(b.Succs) == 2 {
			t, f := m.classify(iff.Cond, true)
			if !t {
				work = append(work, b.Succs[0])
			}
			if !f {
				work = append(work, b.Succs[1])
			}
			continue
		}
		work = append(work, b.Succs...)
	}
	ok := true
	var valueOK func(v ssa.Value, depth int) bool
	valueOK = func(v ssa.Value, depth int) bool {
		if depth > 6 {
			return false
		}
		if c, isC := v.(*ssa.Const); isC {
			return c.Value != nil && c.Value.String() == "false"
		}
		if ph, isPhi := v.(*ssa.Phi); isPhi {
			for i, e := range ph.Edges {
				if !reach[ph.Block().Preds[i]] {
					continue
				}
				// the edge itself may be a non-end edge
				pred := ph.Block().Preds[i]
				if iff, ok := pred.Instrs[len(pred.Instrs)-1].(*ssa.If); ok && len(pred.Succs) == 2 {
					t, f := m.classify(iff.Cond, true)
					k := 0
					if pred.Succs[1] == ph.Block() && pred.Succs[0] != ph.Block() {
						k = 1
					}
					if (k == 0 && t) || (k == 1 && f) {
						continue
					}
				}
				if !valueOK(e, depth+1) {
					return false
				}
			}
			return true
		}
		t, _ := m.classify(v, true)
		return t
	}
	for _, b := range fn.Blocks {
		if !reach[b] {
			continue
		}
		if ret, isRet := b.Instrs[len(b.Instrs)-1].(*ssa.Return); isRet {
			if !valueOK(retOperand(ret, bi), 0) {
				ok = false
			}
		}
	}
	if ok {
		m.predMemo[fn] = 1
	} else {
		m.predMemo[fn] = 2
	}
	return ok
}

// --- progress -------------------------------------------------------------

func (m *parserModel) progressBlock(b *ssa.BasicBlock) bool {
	for _, in := range b.Instrs {
		c, ok := in.(*ssa.Call)
		if !ok {
			continue
		}
		f := c.Call.StaticCallee()
		if f == nil {
			continue
		}
		if f == m.advance || m.always[f] {
			return true
		}
	}
	return false
}

func stripNot(v ssa.Value) (ssa.Value, bool) {
	neg := false
	for {
		u, ok := v.(*ssa.UnOp)
		if !ok || u.Op != token.NOT {
			return v, neg
		}
		v = u.X
		neg = !neg
	}
}

func (m *parserModel) progressEdge(b *ssa.BasicBlock, k int) bool {
	if len(b.Succs) != 2 || len(b.Instrs) == 0 {
		return false
	}
	iff, ok := b.Instrs[len(b.Instrs)-1].(*ssa.If)
	if !ok {
		return false
	}
	cond, neg := stripNot(iff.Cond)
	onTrue := (k == 0) != neg
	switch x := cond.(type) {
	case *ssa.Call:
		if f := x.Call.StaticCallee(); f != nil && m.onTrue[f] {
			return onTrue
		}
	case *ssa.Extract:
		// found-flag result of a multi-result callee
		if c, ok := x.Tuple.(*ssa.Call); ok {
			if f := c.Call.StaticCallee(); f != nil && m.onTrue[f] && types.Identical(x.Type(), types.Typ[types.Bool]) {
				return onTrue
			}
		}
	case *ssa.BinOp:
		// err != nil after a must-advance-on-success call: the nil edge is progress
		e, other := x.X, x.Y
		if core.IsNilConst(e) {
			e, other = other, e
		}
		if core.IsNilConst(other) && (isErrorType(e.Type())) {
			var call *ssa.Call
			switch ev := e.(type) {
			case *ssa.Extract:
				call, _ = ev.Tuple.(*ssa.Call)
			case *ssa.Call:
				call = ev
			}
			if call != nil {
				if f := call.Call.StaticCallee(); f != nil && m.onOK[f] {
					if x.Op == token.NEQ {
						return !onTrue
					}
					if x.Op == token.EQL {
						return onTrue
					}
				}
			}
		}
		// forced advance idiom: cursor compared with an earlier snapshot of the cursor
		if (x.Op == token.EQL || x.Op == token.NEQ) && m.isCursorLoad(x.X) && m.isCursorLoad(x.Y) {
			if x.Op == token.EQL {
				return !onTrue
			}
			return onTrue
		}
		if (x.Op == token.EQL || x.Op == token.NEQ) && (m.isCursorLoad(x.X) || m.isCursorLoad(x.Y)) {
			other := x.Y
			if m.isCursorLoad(x.Y) {
				other = x.X
			}
			if ph, ok := other.(*ssa.Phi); ok {
				_ = ph
			}
			if m.isCursorLoad(other) {
				if x.Op == token.EQL {
					return !onTrue
				}
				return onTrue
			}
		}
	}
	return false
}

func (m *parserModel) spec() loopSpec {
	return loopSpec{
		progressBlock: m.progressBlock,
		progressEdge:  m.progressEdge,
		nonEndEdge: func(b *ssa.BasicBlock, k int) bool {
			if len(b.Succs) != 2 || len(b.Instrs) == 0 {
				return false
			}
			iff, ok := b.Instrs[len(b.Instrs)-1].(*ssa.If)
			if !ok {
				return false
			}
			t, f := m.classify(iff.Cond, false)
			return (k == 0 && t) || (k == 1 && f)
		},
	}
}

// solve computes the must-advance summaries as a greatest fixed point.
func (m *parserModel) solve() {
	var cands []*ssa.Function
	for _, fn := range m.fns {
		if fn.Parent() != nil || !m.isParserFn(fn) || fn == m.advance {
			continue
		}
		cands = append(cands, fn)
		res := fn.Signature.Results()
		m.always[fn] = true
		if res.Len() > 0 && isErrorType(res.At(res.Len()-1).Type()) {
			m.onOK[fn] = true
		}
		for i := 0; i < res.Len(); i++ {
			if types.Identical(res.At(i).Type(), types.Typ[types.Bool]) {
				m.onTrue[fn] = true
			}
		}
	}
	for changed := true; changed; {
		changed = false
		for _, fn := range cands {
			if m.always[fn] && !m.mustAdvance(fn, "always") {
				m.always[fn] = false
				changed = true
			}
			if m.onOK[fn] && !m.mustAdvance(fn, "ok") {
				m.onOK[fn] = false
				changed = true
			}
			if m.onTrue[fn] && !m.mustAdvance(fn, "true") {
				m.onTrue[fn] = false
				changed = true
			}
		}
	}
}

// mustAdvance: no path from entry to a relevant return avoids progress.
func (m *parserModel) mustAdvance(fn *ssa.Function, mode string) bool {
	seen := map[*ssa.BasicBlock]bool{}
	work := []*ssa.BasicBlock{fn.Blocks[0]}
	for len(work) > 0 {
		b := work[len(work)-1]
		work = work[:len(work)-1]
		if seen[b] {
			continue
		}
		seen[b] = true
		if m.progressBlock(b) {
			continue
		}
		if ret, ok := b.Instrs[len(b.Instrs)-1].(*ssa.Return); ok {
			if m.relevantReturn(fn, ret, mode) {
				if os.Getenv("GOSQLX_SA_DEBUG") == fn.Name() {
					fmt.Fprintf(os.Stderr, "DEBUG %s mode=%s: return at %s reachable without progress (block %d)\n", fn.Name(), mode, m.p.Pos(ret.Pos()), b.Index)
				}
				return false
			}
		}
		for k, s := range b.Succs {
			if m.progressEdge(b, k) {
				continue
			}
			work = append(work, s)
		}
	}
	return true
}

// retOperand resolves the i-th result of ret through the result cells go/ssa
// introduces in functions with defer (*cell = v; rundefers; load cell; return).
func retOperand(ret *ssa.Return, i int) ssa.Value {
	v := ret.Results[i]
	u, ok := v.(*ssa.UnOp)
	if !ok || u.Op != token.MUL {
		return v
	}
	cell, ok := u.X.(*ssa.Alloc)
	if !ok {
		return v
	}
	var last ssa.Value
	for _, in := range ret.Block().Instrs {
		if in == ssa.Instruction(u) {
			break
		}
		if st, ok := in.(*ssa.Store); ok && st.Addr == ssa.Value(cell) {
			last = st.Val
		}
	}
	if last != nil {
		return last
	}
	return v
}

func (m *parserModel) relevantReturn(fn *ssa.Function, ret *ssa.Return, mode string) bool {
	switch mode {
	case "always":
		return true
	case "ok":
		e := retOperand(ret, len(ret.Results)-1)
		if core.IsNilConst(e) {
			return true
		}
		// tail call: return p.parseX()
		var call *ssa.Call
		switch ev := e.(type) {
		case *ssa.Extract:
			call, _ = ev.Tuple.(*ssa.Call)
		case *ssa.Call:
			call = ev
		}
		if call != nil {
			if f := call.Call.StaticCallee(); f != nil && (m.onOK[f] || f == fn) {
				return false
			}
		}
		if m.nonNilErr(e, 0) {
			return false
		}
		// a value known non-nil: block dominated by the true edge of `e != nil`
		if nonNilHere(e, ret.Block()) {
			return false
		}
		return true
	case "true":
		for i := range ret.Results {
			v := retOperand(ret, i)
			if !types.Identical(v.Type(), types.Typ[types.Bool]) {
				continue
			}
			if c, ok := v.(*ssa.Const); ok {
				if c.Value != nil && c.Value.String() == "true" {
					return true
				}
				continue
			}
			if call, ok := v.(*ssa.Call); ok {
				if f := call.Call.StaticCallee(); f != nil && m.onTrue[f] {
					continue
				}
			}
			if ex, ok := v.(*ssa.Extract); ok {
				if call, ok := ex.Tuple.(*ssa.Call); ok {
					if f := call.Call.StaticCallee(); f != nil && m.onTrue[f] {
						continue
					}
				}
			}
			return true
		}
	}
	return false
}

// nonNilErr: the error value is certainly non-nil: a freshly built error.
func (m *parserModel) nonNilErr(v ssa.Value, depth int) bool {
	if depth > 5 {
		return false
	}
	switch x := v.(type) {
	case *ssa.MakeInterface:
		return true
	case *ssa.Call:
		f := x.Call.StaticCallee()
		if f == nil {
			return false
		}
		if pk := core.FnPkg(f); pk != nil {
			if (pk.Path() == "fmt" && f.Name() == "Errorf") || (pk.Path() == "errors" && f.Name() == "New") {
				return true
			}
		}
		if f.Blocks == nil || !core.InModule(f) {
			return false
		}
		if v, ok := m.nonNilMemo[f]; ok {
			return v
		}
		if m.nonNilMemo == nil {
			m.nonNilMemo = map[*ssa.Function]bool{}
		}
		m.nonNilMemo[f] = false
		all := true
		n := 0
		for _, b := range f.Blocks {
			if ret, ok := b.Instrs[len(b.Instrs)-1].(*ssa.Return); ok && len(ret.Results) > 0 {
				n++
				if !m.nonNilErr(ret.Results[len(ret.Results)-1], depth+1) {
					all = false
				}
			}
		}
		m.nonNilMemo[f] = all && n > 0
		return all && n > 0
	case *ssa.Phi:
		for _, e := range x.Edges {
			if !m.nonNilErr(e, depth+1) {
				return false
			}
		}
		return len(x.Edges) > 0
	}
	return false
}

// nonNilHere: block b is only reachable through the non-nil edge of a test of e.
func nonNilHere(e ssa.Value, b *ssa.BasicBlock) bool {
	for _, ref := range core.Referrers(e) {
		bo, ok := ref.(*ssa.BinOp)
		if !ok || !(bo.Op == token.NEQ || bo.Op == token.EQL) {
			continue
		}
		if !core.IsNilConst(bo.X) && !core.IsNilConst(bo.Y) {
			continue
		}
		for _, r2 := range core.Referrers(bo) {
			iff, ok := r2.(*ssa.If)
			if !ok {
				continue
			}
			s := iff.Block().Succs[0]
			if bo.Op == token.EQL {
				s = iff.Block().Succs[1]
			}
			if s.Dominates(b) && len(s.Preds) == 1 {
				return true
			}
		}
	}
	return false
}
