package rules

import (
	"golang.org/x/tools/go/ssa"

	"gosqlxsa/core"
)

// Rule literal-shortcut (C03). Where the grammar has an expression, the parser calls the expression ladder. A branch
// beside that call which builds a literal node from the current token and moves on ("fast path") is right only when the
// literal is the whole expression, which nothing at that point establishes: `SET a = 1 + 2` is cut after `1` and the
// statement is rejected. The rule looks for a merge (phi) of ast.Expression values in a parser function whose inputs
// are both a result of the expression parser and a literal node allocated in that function.
func c03LiteralShortcut(c *Ctx, p *core.Prog) int {
	r := c.R
	r.Rule("literal-shortcut", "in pkg/sql/parser no value of type ast.Expression is merged from a result of the expression parser and a literal node built on the spot from the current token: such a fast path stops after the literal whatever follows it")
	ladder := map[*ssa.Function]bool{}
	for _, n := range []string{"parseExpression", "parseAndExpression", "parseComparisonExpression", "parseStringConcatExpression", "parseAdditiveExpression", "parseMultiplicativeExpression", "parseJSONExpression", "parsePrimaryExpression"} {
		if f := p.Method("pkg/sql/parser", "Parser", n); f != nil {
			ladder[f] = true
		}
	}
	if len(ladder) < 3 {
		r.Fatal("anchor not found: the expression ladder of pkg/sql/parser")
		return 0
	}
	isLadderResult := func(v ssa.Value) bool {
		if ex, ok := v.(*ssa.Extract); ok && ex.Index == 0 {
			if call, ok := ex.Tuple.(*ssa.Call); ok {
				return ladder[call.Call.StaticCallee()]
			}
		}
		return false
	}
	isFreshLiteral := func(v ssa.Value) string {
		mi, ok := v.(*ssa.MakeInterface)
		if !ok {
			return ""
		}
		al, ok := mi.X.(*ssa.Alloc)
		if !ok {
			return ""
		}
		n := core.NamedOf(core.Deref(al.Type()))
		if n == nil || n.Obj().Name() != "LiteralValue" {
			return ""
		}
		return n.Obj().Name()
	}
	n := 0
	for _, fn := range p.SrcFuncs("pkg/sql/parser") {
		if ladder[fn] {
			continue // the ladder itself is where literals are turned into expressions
		}
		seq := 0
		for _, b := range fn.Blocks {
			for _, in := range b.Instrs {
				ph, ok := in.(*ssa.Phi)
				if !ok {
					continue
				}
				if nt := core.NamedOf(ph.Type()); nt == nil || nt.Obj().Name() != "Expression" {
					continue
				}
				// flatten nested phis of the if / else-if chain
				var leaves []ssa.Value
				seen := map[ssa.Value]bool{}
				var flat func(v ssa.Value, d int)
				flat = func(v ssa.Value, d int) {
					if seen[v] || d > 4 {
						return
					}
					seen[v] = true
					if q, ok := v.(*ssa.Phi); ok {
						for _, e := range q.Edges {
							flat(e, d+1)
						}
						return
					}
					leaves = append(leaves, v)
				}
				flat(ph, 0)
				hasLadder, lit := false, ""
				for _, l := range leaves {
					if isLadderResult(l) {
						hasLadder = true
					}
					if s := isFreshLiteral(l); s != "" {
						lit = s
					}
				}
				if !hasLadder {
					continue
				}
				// only the outermost merge of a chain
				outer := true
				for _, ref := range core.Referrers(ph) {
					if q, ok := ref.(*ssa.Phi); ok && q != ph {
						if nt := core.NamedOf(q.Type()); nt != nil && nt.Obj().Name() == "Expression" {
							outer = false
						}
					}
				}
				if !outer {
					continue
				}
				n++
				seq++
				key := core.FnName(fn) + sprintf("|merge#%d", seq)
				if lit == "" {
					r.OK("literal-shortcut", key, p.Pos(ph.Pos()), "every input of this expression value comes from the expression parser (or is not a literal built here)")
				} else {
					r.Violate("literal-shortcut", key, p.Pos(ph.Pos()), "this expression value is either the result of the expression parser or a "+lit+" built directly from the current token: on the literal's branch the parser moves on after one token, so an expression that merely starts with a literal (`1 + 2`, `'a' || b`, `5 * qty`) is cut short and the statement rejected")
				}
			}
		}
	}
	return n
}
