package rules

import (
	"strings"

	"golang.org/x/tools/go/ssa"

	"gosqlxsa/core"
)

// decode-writes: a reader that decodes quoted text collects the value in a buffer while it moves the cursor.
// Every iteration of its loop that goes round again has put something into the buffer (the character, or the
// single quote a doubled quote stands for, or what an escape sequence decodes to). An iteration that consumes
// input and continues without writing drops characters from the decoded value ("my""table" -> mytable).
func c04DecodeWrites(c *Ctx, p *core.Prog) {
	r := c.R
	r.Rule("decode-writes", "in the tokenizer's quoted-text readers (functions that fill a local bytes.Buffer / strings.Builder inside a cursor loop), every loop iteration that continues writes to the buffer or passes it to a callee")
	isBufType := func(v ssa.Value) bool {
		t := core.Deref(v.Type())
		n := core.NamedOf(t)
		if n == nil || n.Obj().Pkg() == nil {
			return false
		}
		return (n.Obj().Pkg().Path() == "bytes" && n.Obj().Name() == "Buffer") || (n.Obj().Pkg().Path() == "strings" && n.Obj().Name() == "Builder")
	}
	n := 0
	for _, fn := range p.SrcFuncs("pkg/sql/tokenizer") {
		if fn.Parent() != nil {
			continue
		}
		// local buffers (allocated here or obtained from a pool helper), or a buffer kept in a field of the tokenizer
		// (every &t.buf is a separate FieldAddr instruction: the first one stands for the field)
		var bufs []ssa.Value
		fieldSeen := map[string]bool{}
		for _, b := range fn.Blocks {
			for _, in := range b.Instrs {
				if v, ok := in.(ssa.Value); ok && isBufType(v) {
					switch x := in.(type) {
					case *ssa.Alloc, *ssa.Call:
						bufs = append(bufs, v)
					case *ssa.FieldAddr:
						k := fieldKey(x.X, x.Field)
						if !fieldSeen[k] {
							fieldSeen[k] = true
							bufs = append(bufs, v)
						}
					}
				}
			}
		}
		if len(bufs) == 0 {
			continue
		}
		writes := func(b *ssa.BasicBlock, buf ssa.Value) bool {
			for _, in := range b.Instrs {
				ci, ok := in.(ssa.CallInstruction)
				if !ok {
					continue
				}
				for i, a := range ci.Common().Args {
					same := a == buf
					if fa, ok := a.(*ssa.FieldAddr); ok && !same {
						if fb, ok := buf.(*ssa.FieldAddr); ok && fieldKey(fa.X, fa.Field) == fieldKey(fb.X, fb.Field) {
							same = true
						}
					}
					if !same {
						continue
					}
					f := ci.Common().StaticCallee()
					if i == 0 && f != nil && f.Signature.Recv() != nil && !strings.HasPrefix(f.Name(), "Write") {
						continue // buf.Len(), buf.String(), buf.Reset() are not writes
					}
					return true
				}
			}
			return false
		}
		seq := 0
		for _, buf := range bufs {
			for _, scc := range blockSCCs(fn, nil, nil, nil) {
				in := blockSet(scc)
				// a decoding loop: writes to buf somewhere and moves the cursor
				wr, adv := false, false
				for _, b := range scc {
					if writes(b, buf) {
						wr = true
					}
					for _, ins := range b.Instrs {
						if st, ok := ins.(*ssa.Store); ok {
							if fa, ok := st.Addr.(*ssa.FieldAddr); ok && fieldKey(fa.X, fa.Field) == "Position.Index" {
								adv = true
							}
						}
						if call, ok := ins.(*ssa.Call); ok {
							if f := call.Call.StaticCallee(); f != nil && (f.Name() == "AdvanceRune" || f.Name() == "AdvanceN") {
								adv = true
							}
						}
					}
				}
				if !wr || !adv {
					continue
				}
				n++
				seq++
				key := core.FnName(fn) + sprintf("|loop#%d", seq)
				rest := blockSCCs(fn, func(b *ssa.BasicBlock) bool { return writes(b, buf) }, nil, in)
				if len(rest) == 0 {
					r.OK("decode-writes", key, p.FnPos(fn), "every continuing iteration writes to the value buffer")
					continue
				}
				pos := fn.Pos()
				for _, b := range rest[0] {
					for _, ins := range b.Instrs {
						if ins.Pos().IsValid() {
							pos = ins.Pos()
						}
					}
				}
				r.Violate("decode-writes", key, p.Pos(pos), "an iteration of this decoding loop consumes input and goes round again without writing anything to the value buffer: the characters handled on that path (e.g. the quote a doubled quote stands for) are missing from the token's decoded value")
			}
		}
	}
	r.Floor("decode-writes", n, 3, "decoding loops in the tokenizer")
}

// decode-verbatim: what a quoted-text reader puts into the value for an ordinary character is that character. A
// WriteRune / WriteByte whose argument is f(c), with c decoded inside the reader's loop and f a function of this
// module (normalizeQuote), rewrites the content: 'it’s' loses its apostrophe's identity, and a typographic quote inside
// '...' or "..." even ends the literal. Mapping the rune only for the comparison with the delimiter is fine.
func c04DecodeVerbatim(c *Ctx, p *core.Prog, scope string, fired map[string]bool) int {
	r := c.R
	n := 0
	for _, fn := range p.SrcFuncs(scope) {
		lb := loopBlocks(fn)
		inLoopDecode := func(v ssa.Value) bool {
			ex, ok := v.(*ssa.Extract)
			if !ok {
				return false
			}
			call, ok := ex.Tuple.(*ssa.Call)
			if !ok {
				return false
			}
			f := call.Call.StaticCallee()
			return f != nil && core.FnPkg(f) != nil && core.FnPkg(f).Path() == "unicode/utf8" && strings.HasPrefix(f.Name(), "DecodeRune") && lb[call.Block()]
		}
		// v is (a merge containing) g(c) for a content rune c
		var mapped func(v ssa.Value, d int) string
		mapped = func(v ssa.Value, d int) string {
			if d > 4 {
				return ""
			}
			switch x := v.(type) {
			case *ssa.Phi:
				for _, e := range x.Edges {
					if m := mapped(e, d+1); m != "" {
						return m
					}
				}
			case *ssa.Call:
				g := x.Call.StaticCallee()
				if g == nil || !core.InModule(g) {
					return ""
				}
				for _, a := range x.Call.Args {
					if inLoopDecode(a) {
						return g.Name()
					}
					if ph, ok := a.(*ssa.Phi); ok {
						for _, e := range ph.Edges {
							if inLoopDecode(e) {
								return g.Name()
							}
						}
					}
				}
			}
			return ""
		}
		seq := 0
		for _, b := range fn.Blocks {
			if !lb[b] {
				continue
			}
			for _, in := range b.Instrs {
				call, ok := in.(*ssa.Call)
				if !ok {
					continue
				}
				f := call.Call.StaticCallee()
				if f == nil || f.Signature.Recv() == nil || !(f.Name() == "WriteRune" || f.Name() == "WriteByte") || len(call.Call.Args) != 2 {
					continue
				}
				if pk := core.FnPkg(f); pk == nil || (pk.Path() != "bytes" && pk.Path() != "strings") {
					continue
				}
				seq++
				n++
				key := core.FnName(fn) + sprintf("|write#%d", seq)
				g := mapped(call.Call.Args[1], 0)
				if fired != nil {
					if g != "" {
						fired[key] = true
					}
					continue
				}
				if g != "" {
					r.Violate("decode-verbatim", key, p.Pos(call.Pos()), "the character put into the decoded value is "+g+"(c), not the character c read from the input: content that "+g+" maps (typographic quotes) is rewritten in string and identifier values")
				} else {
					r.OK("decode-verbatim", key, p.Pos(call.Pos()), "")
				}
			}
		}
	}
	return n
}

