package rules

import (
	"go/token"
	"go/types"
	"sort"
	"strings"

	"golang.org/x/tools/go/ssa"

	"gosqlxsa/core"
)

// lockstep-append: the token converter returns two parallel slices, the parser tokens and, entry for entry, the
// source position each of them came from. Error positions and LSP ranges are read through that mapping with the
// token's index, so the two slices have to grow by the same amount on every path: one compound token that expands
// to k parser tokens appends k positions. The rule counts symbolically: an append of one element is 1, an
// append of s... is len(s), a counting loop over len(s) (range or classic, no other exit) multiplies its body by
// len(s). For every loop body and for every path to a successful return the two totals must be the same expression.
type lsDiff map[string]int

func (d lsDiff) clone() lsDiff {
	o := lsDiff{}
	for k, v := range d {
		o[k] = v
	}
	return o
}
func (d lsDiff) add(o lsDiff) lsDiff {
	r := d.clone()
	for k, v := range o {
		r[k] += v
		if r[k] == 0 {
			delete(r, k)
		}
	}
	return r
}
func (d lsDiff) String() string {
	var ks []string
	for k, v := range d {
		if v != 0 {
			ks = append(ks, k)
		}
	}
	sort.Strings(ks)
	var a, b []string
	for _, k := range ks {
		v := d[k]
		s := k
		if v > 1 || v < -1 {
			n := v
			if n < 0 {
				n = -n
			}
			s = sprintf("%d*%s", n, k)
		}
		if v > 0 {
			a = append(a, s)
		} else {
			b = append(b, s)
		}
	}
	if len(a) == 0 {
		a = []string{"0"}
	}
	if len(b) == 0 {
		b = []string{"0"}
	}
	return "first grows by " + strings.Join(a, "+") + ", second by " + strings.Join(b, "+")
}
func (d lsDiff) key() string {
	var ks []string
	for k, v := range d {
		if v != 0 {
			ks = append(ks, sprintf("%s=%d", k, v))
		}
	}
	sort.Strings(ks)
	return strings.Join(ks, ",")
}

type lsLoop struct {
	head *ssa.BasicBlock
	body map[*ssa.BasicBlock]bool
}

type lsEnd struct {
	d    lsDiff
	kind string // back, exit, return
	at   *ssa.BasicBlock
}

type lockstep struct {
	depth int
	terms map[string]ssa.Value // len(...) term -> the slice value it measures
	fn    *ssa.Function
	kind  func(*ssa.Call) int // +1 first slice, -1 second, 0 neither
	loops []*lsLoop
	probs []string
	nApp  [2]int
	p     *core.Prog
}

func lsValDesc(v ssa.Value, depth int) string {
	if depth > 3 {
		return v.Name()
	}
	switch x := v.(type) {
	case *ssa.Call:
		if f := x.Call.StaticCallee(); f != nil {
			return f.Name() + "()"
		}
	case *ssa.Slice:
		lo, hi := "", ""
		if x.Low != nil {
			lo = lsValDesc(x.Low, depth+1)
		}
		if x.High != nil {
			hi = lsValDesc(x.High, depth+1)
		}
		return lsValDesc(x.X, depth+1) + "[" + lo + ":" + hi + "]"
	case *ssa.Parameter:
		return x.Name()
	case *ssa.Const:
		return x.Value.ExactString()
	case *ssa.UnOp:
		if x.Op == token.MUL {
			if fa, ok := x.X.(*ssa.FieldAddr); ok {
				return "." + core.FieldName(fa.X.Type(), fa.Field)
			}
		}
	}
	return v.Name()
}

func lsLenTerm(v ssa.Value) string { return "len(" + v.Name() + "=" + lsValDesc(v, 0) + ")" }

func (l *lockstep) lenTerm(v ssa.Value) string {
	t := lsLenTerm(v)
	if l.terms == nil {
		l.terms = map[string]ssa.Value{}
	}
	l.terms[t] = v
	return t
}

// callSummary: what a helper that receives one of the two slices and returns it extended adds to it, expressed in
// the caller's values: the helper's own appends are counted the same way, and a term len(parameter) becomes
// len(argument). Anything else is unknown.
func (l *lockstep) callSummary(c *ssa.Call, k int) lsDiff {
	f := c.Call.StaticCallee()
	unknown := lsDiff{"?call " + f.Name(): k}
	if l.depth >= 2 {
		return unknown
	}
	sub := &lockstep{fn: f, p: l.p, kind: l.kind, depth: l.depth + 1}
	sub.findLoops()
	ends := sub.walk(f.Blocks[0], nil, true, map[*ssa.BasicBlock][]lsEnd{}, map[*ssa.BasicBlock]bool{})
	if len(sub.probs) > 0 {
		return unknown
	}
	var d lsDiff
	for _, e := range ends {
		if e.kind != "return" {
			continue
		}
		if d == nil {
			d = e.d
		} else if d.key() != e.d.key() {
			return unknown
		}
	}
	out := lsDiff{}
	for t, n := range d {
		if t == "1" || (len(t) > 0 && t[0] >= '0' && t[0] <= '9') {
			out[t] += n
			continue
		}
		v, ok := sub.terms[t]
		if !ok {
			return unknown
		}
		par, ok := v.(*ssa.Parameter)
		if !ok {
			return unknown
		}
		idx := -1
		for i, q := range f.Params {
			if q == par {
				idx = i
			}
		}
		if idx < 0 || idx >= len(c.Call.Args) {
			return unknown
		}
		out[l.lenTerm(c.Call.Args[idx])] += n
	}
	return out
}

func (l *lockstep) findLoops() {
	byHead := map[*ssa.BasicBlock]*lsLoop{}
	for _, u := range l.fn.Blocks {
		for _, h := range u.Succs {
			if !h.Dominates(u) {
				continue
			}
			lp := byHead[h]
			if lp == nil {
				lp = &lsLoop{head: h, body: map[*ssa.BasicBlock]bool{h: true}}
				byHead[h] = lp
				l.loops = append(l.loops, lp)
			}
			work := []*ssa.BasicBlock{u}
			for len(work) > 0 {
				b := work[len(work)-1]
				work = work[:len(work)-1]
				if lp.body[b] {
					continue
				}
				lp.body[b] = true
				work = append(work, b.Preds...)
			}
		}
	}
	sort.Slice(l.loops, func(i, j int) bool { return l.loops[i].head.Index < l.loops[j].head.Index })
}

// childLoop: the outermost loop headed at b that lies strictly inside region (nil region = whole function).
func (l *lockstep) childLoop(b *ssa.BasicBlock, region *lsLoop) *lsLoop {
	for _, lp := range l.loops {
		if lp.head == b && lp != region {
			return lp
		}
	}
	return nil
}

func (l *lockstep) blockDiff(b *ssa.BasicBlock) lsDiff {
	d := lsDiff{}
	for _, in := range b.Instrs {
		c, ok := in.(*ssa.Call)
		if !ok {
			continue
		}
		if f := c.Call.StaticCallee(); f != nil && f.Blocks != nil && f != l.fn {
			// a helper that takes the slice and returns it extended
			if k := l.kind(c); k != 0 {
				takes := false
				for _, a := range c.Call.Args {
					if types.Identical(a.Type(), c.Type()) {
						takes = true
					}
				}
				if takes {
					d = d.add(l.callSummary(c, k))
				}
			}
			continue
		}
		if !core.IsBuiltinCall(&c.Call, "append") || len(c.Call.Args) != 2 {
			continue
		}
		k := l.kind(c)
		if k == 0 {
			continue
		}
		term := ""
		arg := c.Call.Args[1]
		if sl, ok := arg.(*ssa.Slice); ok && sl.Low == nil && sl.High == nil {
			if al, ok := sl.X.(*ssa.Alloc); ok {
				if at := core.ArrayOf(core.Deref(al.Type())); at != nil {
					if at.Len() == 1 {
						term = "1"
					} else {
						term = sprintf("%d", at.Len())
					}
				}
			}
		}
		if term == "" {
			term = l.lenTerm(arg)
		}
		d[term] += k
		if d[term] == 0 {
			delete(d, term)
		}
	}
	return d
}

// tripCount: the loop runs exactly len(V) times: its only exit is the header test iv < len(V) with iv counting 0,1,2...
func (l *lockstep) tripCount(lp *lsLoop) (ssa.Value, bool) {
	for b := range lp.body {
		for _, s := range b.Succs {
			if !lp.body[s] && b != lp.head {
				return nil, false
			}
		}
		if len(b.Instrs) > 0 {
			if _, ok := b.Instrs[len(b.Instrs)-1].(*ssa.Return); ok {
				return nil, false
			}
		}
	}
	iff, ok := lp.head.Instrs[len(lp.head.Instrs)-1].(*ssa.If)
	if !ok || len(lp.head.Succs) != 2 || !lp.body[lp.head.Succs[0]] || lp.body[lp.head.Succs[1]] {
		return nil, false
	}
	bo, ok := iff.Cond.(*ssa.BinOp)
	if !ok || bo.Op != token.LSS || inductionForm(bo.X) != "iv(0,1)" {
		return nil, false
	}
	v := core.LenOf(bo.Y)
	if v == nil {
		return nil, false
	}
	return v, true
}

func (l *lockstep) walk(b *ssa.BasicBlock, region *lsLoop, first bool, memo map[*ssa.BasicBlock][]lsEnd, onStack map[*ssa.BasicBlock]bool) []lsEnd {
	if region != nil {
		if !region.body[b] {
			return []lsEnd{{lsDiff{}, "exit", b}}
		}
		if b == region.head && !first {
			return []lsEnd{{lsDiff{}, "back", b}}
		}
	}
	if m, ok := memo[b]; ok && !first {
		return m
	}
	if onStack[b] {
		// irreducible or unrecognised cycle
		return []lsEnd{{lsDiff{"?cycle": 1}, "exit", b}}
	}
	onStack[b] = true
	defer delete(onStack, b)
	var out []lsEnd
	seen := map[string]bool{}
	push := func(e lsEnd) {
		k := e.kind + "|" + e.d.key()
		if e.kind == "return" {
			k += sprintf("|%d", e.at.Index)
		}
		if !seen[k] {
			seen[k] = true
			out = append(out, e)
		}
	}
	if child := l.childLoop(b, region); child != nil && !(first && region != nil && b == region.head) {
		contrib, exits := l.loopContribution(child)
		for _, e := range exits {
			for _, t := range l.walk(e, region, false, memo, onStack) {
				push(lsEnd{contrib.add(t.d), t.kind, t.at})
			}
		}
		memo[b] = out
		return out
	}
	d := l.blockDiff(b)
	if len(b.Instrs) > 0 {
		if ret, ok := b.Instrs[len(b.Instrs)-1].(*ssa.Return); ok {
			// a return that hands back no result (nil first value with an error) ends a path nobody reads
			if len(ret.Results) > 0 {
				if c, ok := ret.Results[0].(*ssa.Const); ok && c.IsNil() {
					memo[b] = nil
					return nil
				}
			}
			out = []lsEnd{{d, "return", b}}
			memo[b] = out
			return out
		}
	}
	for _, s := range b.Succs {
		for _, t := range l.walk(s, region, false, memo, onStack) {
			push(lsEnd{d.add(t.d), t.kind, t.at})
		}
	}
	memo[b] = out
	return out
}

// loopContribution: what one complete execution of the loop adds to the difference, and where control continues.
func (l *lockstep) loopContribution(lp *lsLoop) (lsDiff, []*ssa.BasicBlock) {
	ends := l.walk(lp.head, lp, true, map[*ssa.BasicBlock][]lsEnd{}, map[*ssa.BasicBlock]bool{})
	var exits []*ssa.BasicBlock
	exSeen := map[*ssa.BasicBlock]bool{}
	var per lsDiff
	uniform := true
	for _, e := range ends {
		switch e.kind {
		case "exit":
			if !exSeen[e.at] {
				exSeen[e.at] = true
				exits = append(exits, e.at)
			}
			if len(e.d) != 0 {
				uniform = false
				l.probs = append(l.probs, sprintf("a path leaving the loop at %s is unbalanced: %s", l.p.Pos(lp.head.Instrs[0].Pos()), e.d))
			}
		case "return":
			if len(e.d) != 0 {
				l.probs = append(l.probs, sprintf("a path returning a result from inside the loop at %s is unbalanced: %s", l.p.Pos(lp.head.Instrs[0].Pos()), e.d))
			}
		case "back":
			if per == nil {
				per = e.d
			} else if per.key() != e.d.key() {
				uniform = false
			}
		}
	}
	sort.Slice(exits, func(i, j int) bool { return exits[i].Index < exits[j].Index })
	if per == nil || (uniform && len(per) == 0) {
		return lsDiff{}, exits
	}
	if !uniform {
		// different iterations grow the slices differently: each must be balanced on its own
		ok := true
		for _, e := range ends {
			if e.kind == "back" && len(e.d) != 0 {
				ok = false
				l.probs = append(l.probs, sprintf("one iteration of the loop at %s is unbalanced: %s", l.loopPos(lp), e.d))
			}
		}
		if ok {
			return lsDiff{}, exits
		}
		return lsDiff{"?loop": 1}, exits
	}
	// every iteration adds the same amount: scale by the trip count when it is exact
	if v, ok := l.tripCount(lp); ok && len(per) == 1 {
		if k, ok := per["1"]; ok {
			return lsDiff{l.lenTerm(v): k}, exits
		}
	}
	l.probs = append(l.probs, sprintf("every iteration of the loop at %s is unbalanced: %s", l.loopPos(lp), per))
	return lsDiff{"?loop": 1}, exits
}

func (l *lockstep) loopPos(lp *lsLoop) string {
	best := token.NoPos
	for b := range lp.body {
		for _, in := range b.Instrs {
			if p := in.Pos(); p.IsValid() && (best == token.NoPos || p < best) {
				best = p
			}
		}
	}
	return l.p.Pos(best)
}

func (l *lockstep) run() {
	l.findLoops()
	for _, b := range l.fn.Blocks {
		for _, in := range b.Instrs {
			if c, ok := in.(*ssa.Call); ok && (core.IsBuiltinCall(&c.Call, "append") || c.Call.StaticCallee() != nil) {
				switch l.kind(c) {
				case 1:
					l.nApp[0]++
				case -1:
					l.nApp[1]++
				}
			}
		}
	}
	ends := l.walk(l.fn.Blocks[0], nil, true, map[*ssa.BasicBlock][]lsEnd{}, map[*ssa.BasicBlock]bool{})
	for _, e := range ends {
		if e.kind == "return" && len(e.d) != 0 {
			msg := e.d.String()
			if _, q := e.d["?loop"]; q && len(l.probs) > 0 {
				continue // the loop finding already says it
			}
			l.probs = append(l.probs, "a path to the successful return is unbalanced: "+msg)
		}
	}
	sort.Strings(l.probs)
	// drop duplicates
	var u []string
	for i, s := range l.probs {
		if i == 0 || s != l.probs[i-1] {
			u = append(u, s)
		}
	}
	l.probs = u
}

type lockstepSpec struct {
	pkg, fn       string
	first, second string // element type names of the two parallel slices
	why           string
}

var c05LockstepTable = []lockstepSpec{
	{"pkg/sql/parser", "convert", "Token", "TokenPosition", "ConversionResult.Tokens[i] is located through ConversionResult.PositionMapping[i]"},
}

func elemTypeName(v ssa.Value) string {
	s := core.SliceOf(v.Type())
	if s == nil {
		return ""
	}
	if n := core.NamedOf(s.Elem()); n != nil {
		return n.Obj().Name()
	}
	return ""
}

func runLockstep(r *core.Report, p *core.Prog, rule string, fn *ssa.Function, first, second, why, key string) bool {
	l := &lockstep{fn: fn, p: p, kind: func(c *ssa.Call) int {
		switch elemTypeName(c) {
		case first:
			return 1
		case second:
			return -1
		}
		return 0
	}}
	l.run()
	pos := p.Pos(fn.Pos())
	if l.nApp[0] == 0 || l.nApp[1] == 0 {
		r.Undecide(rule, key, pos, sprintf("%s no longer appends to both []%s (%d appends) and []%s (%d appends): the parallel slices are built some other way; re-audit (%s)", core.FnName(fn), first, l.nApp[0], second, l.nApp[1], why))
		return false
	}
	if len(l.probs) == 0 {
		r.OK(rule, key, pos, sprintf("%d+%d appends, %d loops: both slices grow by the same symbolic amount on every path (%s)", l.nApp[0], l.nApp[1], len(l.loops), why))
		return true
	}
	r.Violate(rule, key, pos, strings.Join(l.probs, "; ")+": the two slices are indexed in parallel ("+why+"), so every later entry is attributed to the wrong source token")
	return false
}

func c05Lockstep(c *Ctx, p *core.Prog) {
	r := c.R
	r.Rule("lockstep-append", "a function that builds two parallel slices appends the same symbolic number of elements to both in every loop iteration and on every path to a successful return (1 per element, len(s) per s..., len(s) times the body of a counting loop over s)")
	n := 0
	for _, sp := range c05LockstepTable {
		// the function of that name that appends to both slice types (a method rewritten as a plain function, or a
		// second method of the same name on another type, must not lose the anchor)
		var fn *ssa.Function
		for _, f := range p.SrcFuncs(sp.pkg) {
			if f.Name() != sp.fn || f.Parent() != nil {
				continue
			}
			a, b := false, false
			for _, blk := range f.Blocks {
				for _, in := range blk.Instrs {
					if c, ok := in.(*ssa.Call); ok && core.IsBuiltinCall(&c.Call, "append") {
						switch elemTypeName(c) {
						case sp.first:
							a = true
						case sp.second:
							b = true
						}
					}
				}
			}
			if fn == nil || (a && b) {
				fn = f
			}
		}
		key := sp.pkg + "." + sp.fn + "|" + sp.first + "~" + sp.second
		if fn == nil {
			r.Undecide("lockstep-append", key, "", "function "+sp.fn+" not found in "+sp.pkg+": re-audit where the parallel slices are built")
			continue
		}
		n++
		runLockstep(r, p, "lockstep-append", fn, sp.first, sp.second, sp.why, key)
	}
	r.Floor("lockstep-append", n, 1, "parallel-slice builders analysed")
}

// location-copied: the parser never sees the source text, only tokens with the spans the tokenizer computed. A
// Location it reports is therefore a copy of one of those (or the zero "unknown" constant); one whose Line or Column
// it computes by arithmetic cannot account for line breaks, tabs and multi-byte characters between or inside tokens.
func c05LocationCopied(c *Ctx, p *core.Prog) {
	r := c.R
	r.Rule("location-copied", "in pkg/sql/parser every store into the Line or Column of a models.Location is a constant or a copy of the same field of another Location (no arithmetic on positions outside the tokenizer)")
	n, bad := 0, 0
	var copyOf func(v ssa.Value, d int) bool
	copyOf = func(v ssa.Value, d int) bool {
		if d > 6 {
			return false
		}
		switch x := v.(type) {
		case *ssa.Const:
			return true
		case *ssa.UnOp:
			if x.Op != token.MUL {
				return false
			}
			if fa, ok := x.X.(*ssa.FieldAddr); ok {
				return isLocationType(core.Deref(fa.X.Type()))
			}
		case *ssa.Field:
			return isLocationType(x.X.Type())
		case *ssa.Phi:
			for _, e := range x.Edges {
				if !copyOf(e, d+1) {
					return false
				}
			}
			return true
		}
		return false
	}
	for _, fn := range p.SrcFuncs("pkg/sql/parser") {
		seq := 0
		for _, b := range fn.Blocks {
			for _, in := range b.Instrs {
				st, ok := in.(*ssa.Store)
				if !ok {
					continue
				}
				fa, ok := st.Addr.(*ssa.FieldAddr)
				if !ok || !isLocationType(core.Deref(fa.X.Type())) {
					continue
				}
				n++
				if copyOf(st.Val, 0) {
					continue
				}
				bad++
				seq++
				r.Violate("location-copied", core.FnName(fn)+sprintf("|%s#%d", core.FieldName(fa.X.Type(), fa.Field), seq), p.Pos(st.Pos()), "the "+core.FieldName(fa.X.Type(), fa.Field)+" of a reported position is computed here instead of being copied from a tokenizer span: the parser cannot know how many lines, tabs or multi-byte characters lie between the characters it counts")
			}
		}
	}
	if bad == 0 {
		r.OK("location-copied", "parser", "-", sprintf("%d stores into Location fields, all constants or copies", n))
	}
}
