package rules

import (
	"go/token"

	"golang.org/x/tools/go/ssa"

	"gosqlxsa/core"
)

// run-exits: Run() returns only at end of input or after shutdown.
func c18RunExits(c *Ctx, p *core.Prog, run *ssa.Function) {
	r := c.R
	r.Rule("run-exits", "every return of (*Server).Run is control-dependent on the read error being io.EOF or on the shutdown flag: no other condition (an error budget, a malformed frame, a handler result) may end the server loop")
	isEOFTest := func(v ssa.Value) bool {
		for _, bo := range condConjuncts(v, 0) {
			if bo.Op != token.EQL && bo.Op != token.NEQ {
				continue
			}
			for _, o := range []ssa.Value{bo.X, bo.Y} {
				if u, ok := o.(*ssa.UnOp); ok && u.Op == token.MUL {
					if g, ok := u.X.(*ssa.Global); ok && g.Name() == "EOF" && g.Pkg != nil && g.Pkg.Pkg.Path() == "io" {
						return true
					}
				}
			}
		}
		// errors.Is(err, io.EOF)
		if call, ok := v.(*ssa.Call); ok {
			if f := call.Call.StaticCallee(); f != nil && f.Name() == "Is" && core.FnPkg(f) != nil && core.FnPkg(f).Path() == "errors" && len(call.Call.Args) == 2 {
				if u, ok := call.Call.Args[1].(*ssa.UnOp); ok {
					if g, ok := u.X.(*ssa.Global); ok && g.Name() == "EOF" {
						return true
					}
				}
			}
		}
		return false
	}
	isShutdownTest := func(v ssa.Value) bool {
		var found bool
		var walk func(x ssa.Value, d int)
		walk = func(x ssa.Value, d int) {
			if d > 4 || found {
				return
			}
			if u, ok := x.(*ssa.UnOp); ok {
				if fa, ok := u.X.(*ssa.FieldAddr); ok {
					n := core.FieldName(fa.X.Type(), fa.Field)
					if n == "shutdown" || n == "exit" || n == "exiting" {
						found = true
						return
					}
				}
				walk(u.X, d+1)
			}
			if b, ok := x.(*ssa.BinOp); ok {
				walk(b.X, d+1)
				walk(b.Y, d+1)
			}
		}
		walk(v, 0)
		return found
	}
	n := 0
	for _, b := range run.Blocks {
		ret, ok := b.Instrs[len(b.Instrs)-1].(*ssa.Return)
		if !ok {
			continue
		}
		n++
		key := sprintf("Run|return#%d", n)
		okExit := false
		for _, cd := range core.ControlDeps(b) {
			// the return must lie on the side where the test holds (err == io.EOF true / shutdown true)
			want := 0
			if bo, ok := cd.If.Cond.(*ssa.BinOp); ok && bo.Op == token.NEQ {
				want = 1
			}
			if u, ok := cd.If.Cond.(*ssa.UnOp); ok && u.Op == token.NOT {
				want = 1
			}
			if (isEOFTest(cd.If.Cond) || isShutdownTest(cd.If.Cond)) && cd.Succ == want {
				okExit = true
			}
		}
		if okExit {
			r.OK("run-exits", key, p.Pos(ret.Pos()), "end of input or shutdown")
		} else {
			r.Violate("run-exits", key, p.Pos(ret.Pos()), "Run() returns here although neither end of input (io.EOF) nor the shutdown flag is tested on the way: some client input or transient read error ends the server, and every later request goes unanswered")
		}
	}
	r.Floor("run-exits", n, 1, "returns of Run")
}
